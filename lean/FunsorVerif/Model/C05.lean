/-
  Model/C05.lean — bound variables (property C05).

  On top of the shared term language (`Model/Term.lean`: `Term`, `denote`, `Term.fv`):

  * `bound`, `external`, `allBound`  — funsor's `.bound` of a node, the names a node introduces from
    outside the binder's scope, and all binders of a term;
  * `renameRoot`                     — rename a root binder the way every `_alpha_convert` does it:
    the body is substituted `old ↦ Variable(new)` (funsor/terms.py:335-342 and the per-class overrides);
  * `pushUnder`                      — one step of `terms.substitute` through a binder node;
  * `hasMarker`, `gensym`, `alphaMangle`, `reflectT` — `interpreter.gensym` (148-156),
    `terms._alpha_mangle` (105-120) and `reflect` (154-158) as a state monad over the counter **and the
    cons cache** (so that structurally equal nodes are built once and share one mangled binder);
  * `rename`                         — syntactic renaming of a free name (what `substitute` with a
    `Variable` value computes on reflected syntax).

  Core-only.
-/
import FunsorVerif.Model.Term
namespace FV.C05
open FV

/-! ### Binders of a node -/

/-- funsor's `.bound` of the root node. -/
def bound : Term → List Name
  | Term.reduce _ _ vars => vars.map (·.1)
  | Term.subs _ σ => σ.map (·.1)
  | Term.cat _ pn _ _ => [pn]
  | Term.lambda n _ _ => [n]
  | Term.independent _ _ bv dv _ => [bv, dv]
  | Term.contraction _ _ vars _ => vars.map (·.1)
  | _ => []

/-- Names the root node takes from *outside* the scope of its binders: funsor's `.fresh` names of
    binder classes (`Cat.name`, `Independent.reals_var`) and the free names of substituted values. -/
def external : Term → List Name
  | Term.subs _ σ => fvSubs σ
  | Term.cat n _ _ _ => [n]
  | Term.independent _ rv _ _ _ => [rv]
  | _ => []

mutual
  /-- Every name bound anywhere in the term. -/
  def allBound : Term → List Name
    | Term.var _ _ => []
    | Term.num _ _ => []
    | Term.tensor _ _ _ => []
    | Term.unary _ a => allBound a
    | Term.binary _ l r => allBound l ++ allBound r
    | Term.reduce _ a vars => vars.map (·.1) ++ allBound a
    | Term.subs a σ => σ.map (·.1) ++ (allBound a ++ allBoundSubs σ)
    | Term.slice _ _ _ _ _ => []
    | Term.stack _ ps => allBoundList ps
    | Term.cat _ pn _ ps => pn :: allBoundList ps
    | Term.lambda n _ b => n :: allBound b
    | Term.independent fn _ bv dv _ => bv :: dv :: allBound fn
    | Term.align a _ => allBound a
    | Term.contraction _ _ vars ts => vars.map (·.1) ++ allBoundList ts
    | Term.finitary _ args => allBoundList args
    | Term.delta ts => allBoundDelta ts
  def allBoundList : List Term → List Name
    | [] => []
    | t :: ts => allBound t ++ allBoundList ts
  def allBoundSubs : List (Name × Term) → List Name
    | [] => []
    | (_, t) :: ts => allBound t ++ allBoundSubs ts
  def allBoundDelta : List (Name × Term × Term) → List Name
    | [] => []
    | (_, p, d) :: ts => allBound p ++ (allBound d ++ allBoundDelta ts)
end

/-! ### Renaming a root binder (what `_alpha_convert` does) -/

def renName (x y n : Name) : Name := if n = x then y else n

/-- `substitute(body, {old: Variable(new, dom)})` as a term: its specification is the `Subs` node. -/
def renBody (old new : Name) (dom : Dom) (body : Term) : Term :=
  Term.subs body [(old, Term.var new dom)]

def renVars (old new : Name) (vars : List (Name × Dom)) : List (Name × Dom) :=
  vars.map fun (nd : Name × Dom) => (renName old new nd.1, nd.2)

/-- Rename the root binder `old` to `new`, following the class's `_alpha_convert`
    (terms.py: Reduce 1137, Subs 944, Cat 1696, Lambda 1785, Independent 1861; cnf.py 216):
    the body is substituted `old ↦ Variable(new, dom)` and the binder field is renamed.
    `dom` is the domain of the renamed variable (a type annotation only; `denote` ignores it). -/
def renameRoot (old new : Name) (dom : Dom) : Term → Term
  | Term.reduce op a vars => Term.reduce op (renBody old new dom a) (renVars old new vars)
  | Term.lambda n size b => Term.lambda (renName old new n) size (renBody old new dom b)
  | Term.cat n pn sizes ps => Term.cat n (renName old new pn) sizes (ps.map (renBody old new dom))
  | Term.contraction r b vars ts =>
    Term.contraction r b (renVars old new vars) (ts.map (renBody old new dom))
  | Term.subs a σ =>
    -- only the argument is renamed; the values live outside the binder's scope
    Term.subs (renBody old new dom a) (σ.map fun (kv : Name × Term) => (renName old new kv.1, kv.2))
  | Term.independent fn rv bv dv size =>
    Term.independent (renBody old new dom fn) rv (renName old new bv) (renName old new dv) size
  | t => t

/-! ### One step of `substitute` through a binder node

`terms.substitute` rebuilds every node with substituted children and never filters the
substitution at a binder: it relies on the binder names being fresh (terms.py:80-103). -/

def pushUnder (σ : List (Name × Term)) : Term → Term
  | Term.reduce op a vars => Term.reduce op (Term.subs a σ) vars
  | Term.lambda n size b => Term.lambda n size (Term.subs b σ)
  | Term.contraction r b vars ts => Term.contraction r b vars (ts.map (Term.subs · σ))
  | Term.subs a τ => Term.subs (Term.subs a σ) (τ.map fun (k, v) => (k, Term.subs v σ))
  | t => Term.subs t σ

/-! ### Fresh names: `gensym`, the `__BOUND` marker -/

def markerChars : List Char := "__BOUND".toList

def isPrefixL : List Char → List Char → Bool
  | [], _ => true
  | _ :: _, [] => false
  | p :: ps, c :: cs => p == c && isPrefixL ps cs

def hasInfixL (pat : List Char) : List Char → Bool
  | [] => pat.isEmpty
  | c :: cs => isPrefixL pat (c :: cs) || hasInfixL pat cs

/-- `"__BOUND" in name` -/
def hasMarker (n : Name) : Bool := hasInfixL markerChars n.toList

/-- `interpreter.gensym(name + "__BOUND")` with the counter already incremented to `k`. -/
def mangledName (base : Name) (k : Nat) : Name := base ++ "__BOUND" ++ "_" ++ toString k

/-- The counter stamp of a mangled name: the digits after the last `_`. -/
def stampOf (n : Name) : Option Nat :=
  (String.ofList ((n.toList.reverse.takeWhile (· != '_')).reverse)).toNat?

/-! ### Syntactic renaming of a free name -/

mutual
  /-- Rename the free occurrences of `x` to `y`.  Like `substitute`, it does not look inside a
      sub-term that does not mention `x` freely (in particular one that re-binds `x`). -/
  def rename (x y : Name) : Term → Term
    | Term.var n d => Term.var (renName x y n) d
    | Term.num v d => Term.num v d
    | Term.tensor ins d data => Term.tensor (ins.map fun (n, s) => (renName x y n, s)) d data
    | Term.unary op a => Term.unary op (rename x y a)
    | Term.binary op l r => Term.binary op (rename x y l) (rename x y r)
    | Term.reduce op a vars =>
      if (vars.map (·.1)).contains x then Term.reduce op a vars else Term.reduce op (rename x y a) vars
    | Term.subs a σ =>
      Term.subs (if (σ.map (·.1)).contains x then a else rename x y a) (renameSubs x y σ)
    | Term.slice n a b c d => Term.slice (renName x y n) a b c d
    | Term.stack n ps => Term.stack (renName x y n) (renameList x y ps)
    | Term.cat n pn sizes ps =>
      Term.cat (renName x y n) pn sizes (if pn = x then ps else renameList x y ps)
    | Term.lambda n size b => if n = x then Term.lambda n size b else Term.lambda n size (rename x y b)
    | Term.independent fn rv bv dv size =>
      Term.independent (if bv = x ∨ dv = x then fn else rename x y fn) (renName x y rv) bv dv size
    | Term.align a names => Term.align (rename x y a) (names.map (renName x y))
    | Term.contraction r b vars ts =>
      if (vars.map (·.1)).contains x then Term.contraction r b vars ts
      else Term.contraction r b vars (renameList x y ts)
    | Term.finitary op args => Term.finitary op (renameList x y args)
    | Term.delta ts => Term.delta (renameDelta x y ts)
  def renameList (x y : Name) : List Term → List Term
    | [] => []
    | t :: ts => rename x y t :: renameList x y ts
  def renameSubs (x y : Name) : List (Name × Term) → List (Name × Term)
    | [] => []
    | (k, t) :: ts => (k, rename x y t) :: renameSubs x y ts
  def renameDelta (x y : Name) : List (Name × Term × Term) → List (Name × Term × Term)
    | [] => []
    | (n, p, d) :: ts => (renName x y n, rename x y p, rename x y d) :: renameDelta x y ts
end

/-! ### `_alpha_mangle` and `reflect`

`_alpha_mangle` (terms.py:105-120) computes ONE dictionary `alpha_subs = {name: gensym(name + "__BOUND")
for name in expr.bound if "__BOUND" not in name}` and applies it to the children (`_alpha_convert`:
`substitute(child, alpha_subs)`) and to the binder fields.  `reflect` (terms.py:123-158) consults the cons
cache first, so a node that is structurally equal to an earlier one is NOT rebuilt: it shares the earlier
node's mangled binder names (the FIXME "does not avoid conflict with other bound variables"). -/

def dedup : List Name → List Name
  | [] => []
  | n :: ns => if ns.contains n then dedup ns else n :: dedup ns

/-- The binders `_alpha_mangle` renames: those lacking the marker (each name once). -/
def toMangle (t : Term) : List Name := dedup ((bound t).filter (fun n => !hasMarker n))

/-- `alpha_subs`: one `gensym` per name, the counter incremented before each use. -/
def stampNames : List Name → Nat → List (Name × Name)
  | [], _ => []
  | n :: ns, c => (n, mangledName n (c + 1)) :: stampNames ns (c + 1)

def lookupName : List (Name × Name) → Name → Name
  | [], n => n
  | (k, v) :: r, n => if k = n then v else lookupName r n

/-- `substitute(child, alpha_subs)` on reflected syntax. -/
def renameAll (m : List (Name × Name)) (t : Term) : Term :=
  m.foldl (fun acc kv => rename kv.1 kv.2 acc) t

/-- `_alpha_convert` of each binder class followed by reconstruction. -/
def mangleRoot (m : List (Name × Name)) : Term → Term
  | Term.reduce op a vars =>
    Term.reduce op (renameAll m a) (vars.map fun (nd : Name × Dom) => (lookupName m nd.1, nd.2))
  | Term.lambda n size b => Term.lambda (lookupName m n) size (renameAll m b)
  | Term.cat n pn sizes ps => Term.cat n (lookupName m pn) sizes (ps.map (renameAll m))
  | Term.contraction r b vars ts =>
    Term.contraction r b (vars.map fun (nd : Name × Dom) => (lookupName m nd.1, nd.2)) (ts.map (renameAll m))
  | Term.subs a σ =>
    Term.subs (renameAll m a) (σ.map fun (kv : Name × Term) => (lookupName m kv.1, kv.2))
  | Term.independent fn rv bv dv size =>
    Term.independent (renameAll m fn) rv (lookupName m bv) (lookupName m dv) size
  | t => t

/-- `_alpha_mangle`: the renamed node and the new counter. -/
def alphaMangle (t : Term) (counter : Nat) : Term × Nat :=
  (mangleRoot (stampNames (toMangle t) counter) t, counter + (toMangle t).length)

/-- Binders strictly inside the root node. -/
def innerBound : Term → List Name
  | Term.reduce _ a _ => allBound a
  | Term.subs a σ => allBound a ++ allBoundSubs σ
  | Term.cat _ _ _ ps => allBoundList ps
  | Term.lambda _ _ b => allBound b
  | Term.independent fn _ _ _ _ => allBound fn
  | Term.contraction _ _ _ ts => allBoundList ts
  | t => allBound t

/-- Interpreter state seen by `reflect`: the gensym counter and the cons cache
    (key: the node as requested, with already-built children; value: the node returned). -/
structure RState where
  counter : Nat
  cache : List (Term × Term)

def lookupCache (same : Term → Term → Bool) : List (Term × Term) → Term → Option Term
  | [], _ => none
  | (k, v) :: r, t => if same k t then some v else lookupCache same r t

/-- `reflect(cls, *args)` for a node whose children are already built.  `same` is the cons-cache key
    comparison (structural equality of the arguments; any function works for the theorems). -/
def reflectNode (same : Term → Term → Bool) (t : Term) (s : RState) : Term × RState :=
  match lookupCache same s.cache t with
  | some v => (v, s)
  | none =>
    let r := alphaMangle t s.counter
    (r.1, ⟨r.2, (r.1, r.1) :: (t, r.1) :: s.cache⟩)

mutual
  /-- Build a user-level expression bottom-up under `reflect` (children first, left to right). -/
  def reflectT (same : Term → Term → Bool) : Term → RState → Term × RState
    | Term.var n d, s => (Term.var n d, s)
    | Term.num v d, s => (Term.num v d, s)
    | Term.tensor i d x, s => (Term.tensor i d x, s)
    | Term.slice n a b c d, s => (Term.slice n a b c d, s)
    | Term.unary op a, s =>
      let r := reflectT same a s
      reflectNode same (Term.unary op r.1) r.2
    | Term.binary op l r, s =>
      let r1 := reflectT same l s
      let r2 := reflectT same r r1.2
      reflectNode same (Term.binary op r1.1 r2.1) r2.2
    | Term.reduce op a vars, s =>
      let r := reflectT same a s
      reflectNode same (Term.reduce op r.1 vars) r.2
    | Term.subs a σ, s =>
      let r1 := reflectT same a s
      let r2 := reflectSubs same σ r1.2
      reflectNode same (Term.subs r1.1 r2.1) r2.2
    | Term.stack n ps, s =>
      let r := reflectList same ps s
      reflectNode same (Term.stack n r.1) r.2
    | Term.cat n pn sizes ps, s =>
      let r := reflectList same ps s
      reflectNode same (Term.cat n pn sizes r.1) r.2
    | Term.lambda n size b, s =>
      let r := reflectT same b s
      reflectNode same (Term.lambda n size r.1) r.2
    | Term.independent fn rv bv dv size, s =>
      let r := reflectT same fn s
      reflectNode same (Term.independent r.1 rv bv dv size) r.2
    | Term.align a names, s =>
      let r := reflectT same a s
      reflectNode same (Term.align r.1 names) r.2
    | Term.contraction ro bo vars ts, s =>
      let r := reflectList same ts s
      reflectNode same (Term.contraction ro bo vars r.1) r.2
    | Term.finitary op args, s =>
      let r := reflectList same args s
      reflectNode same (Term.finitary op r.1) r.2
    | Term.delta ts, s =>
      let r := reflectDelta same ts s
      reflectNode same (Term.delta r.1) r.2
  def reflectList (same : Term → Term → Bool) : List Term → RState → List Term × RState
    | [], s => ([], s)
    | t :: ts, s =>
      let r1 := reflectT same t s
      let r2 := reflectList same ts r1.2
      (r1.1 :: r2.1, r2.2)
  def reflectSubs (same : Term → Term → Bool) : List (Name × Term) → RState → List (Name × Term) × RState
    | [], s => ([], s)
    | (k, t) :: ts, s =>
      let r1 := reflectT same t s
      let r2 := reflectSubs same ts r1.2
      ((k, r1.1) :: r2.1, r2.2)
  def reflectDelta (same : Term → Term → Bool) :
      List (Name × Term × Term) → RState → List (Name × Term × Term) × RState
    | [], s => ([], s)
    | (n, p, d) :: ts, s =>
      let r1 := reflectT same p s
      let r2 := reflectT same d r1.2
      let r3 := reflectDelta same ts r2.2
      ((n, r1.1, r2.1) :: r3.1, r3.2)
end

/-! ### Structural cons-cache key (driver and witness): the wire form of a term -/

def domSexp (d : Dom) : Sexp :=
  match d.dtype with
  | DType.real => Sexp.list (Sexp.atom "real" :: d.shape.map Sexp.ofNat)
  | DType.bint n => Sexp.list (Sexp.atom "bint" :: Sexp.ofNat n :: d.shape.map Sexp.ofNat)

def dtypeSexp : DType → Sexp
  | DType.real => Sexp.atom "real"
  | DType.bint n => Sexp.ofNat n

def varsSexp (vars : List (Name × Dom)) : Sexp :=
  Sexp.list (vars.map fun (nd : Name × Dom) => Sexp.list [Sexp.str nd.1, domSexp nd.2])

def opSexp (op : Op) : Sexp :=
  match op.params with
  | Sexp.list ps => Sexp.list (Sexp.atom op.name :: ps)
  | p => Sexp.list [Sexp.atom op.name, p]

mutual
  def termSexp : Term → Sexp
    | Term.var n d => Sexp.list [Sexp.atom "var", Sexp.str n, domSexp d]
    | Term.num v d => Sexp.list [Sexp.atom "num", XR.toSexp v, dtypeSexp d]
    | Term.tensor ins d data =>
      Sexp.list [Sexp.atom "tensor",
        Sexp.list (ins.map fun (ns : Name × Nat) => Sexp.list [Sexp.str ns.1, Sexp.ofNat ns.2]),
        domSexp d, Sexp.list (data.toList.map XR.toSexp)]
    | Term.unary op a => Sexp.list [Sexp.atom "unary", opSexp op, termSexp a]
    | Term.binary op l r => Sexp.list [Sexp.atom "binary", opSexp op, termSexp l, termSexp r]
    | Term.reduce op a vars => Sexp.list [Sexp.atom "reduce", Sexp.atom op, termSexp a, varsSexp vars]
    | Term.subs a σ => Sexp.list [Sexp.atom "subs", termSexp a, Sexp.list (subsSexp σ)]
    | Term.slice n a b c d =>
      Sexp.list [Sexp.atom "slice", Sexp.str n, Sexp.ofNat a, Sexp.ofNat b, Sexp.ofNat c, Sexp.ofNat d]
    | Term.stack n ps => Sexp.list (Sexp.atom "stack" :: Sexp.str n :: listSexp ps)
    | Term.cat n pn sizes ps =>
      Sexp.list (Sexp.atom "cat" :: Sexp.str n :: Sexp.str pn :: Sexp.ofNats sizes :: listSexp ps)
    | Term.lambda n size b => Sexp.list [Sexp.atom "lambda", Sexp.str n, Sexp.ofNat size, termSexp b]
    | Term.independent fn rv bv dv size =>
      Sexp.list [Sexp.atom "independent", termSexp fn, Sexp.str rv, Sexp.str bv, Sexp.str dv, Sexp.ofNat size]
    | Term.align a names => Sexp.list [Sexp.atom "align", termSexp a, Sexp.list (names.map Sexp.str)]
    | Term.contraction r b vars ts =>
      Sexp.list (Sexp.atom "contraction" :: Sexp.atom r :: Sexp.atom b :: varsSexp vars :: listSexp ts)
    | Term.finitary op args => Sexp.list (Sexp.atom "finitary" :: opSexp op :: listSexp args)
    | Term.delta ts => Sexp.list (Sexp.atom "delta" :: deltaSexp ts)
  def listSexp : List Term → List Sexp
    | [] => []
    | t :: ts => termSexp t :: listSexp ts
  def subsSexp : List (Name × Term) → List Sexp
    | [] => []
    | (k, t) :: ts => Sexp.list [Sexp.str k, termSexp t] :: subsSexp ts
  def deltaSexp : List (Name × Term × Term) → List Sexp
    | [] => []
    | (n, p, d) :: ts => Sexp.list [Sexp.str n, termSexp p, termSexp d] :: deltaSexp ts
end

mutual
  /-- Structural equality of S-expressions (by structural recursion, so that it also evaluates in the kernel). -/
  def sexpEq : Sexp → Sexp → Bool
    | Sexp.atom a, Sexp.atom b => a == b
    | Sexp.str a, Sexp.str b => a == b
    | Sexp.list xs, Sexp.list ys => sexpListEq xs ys
    | _, _ => false
  def sexpListEq : List Sexp → List Sexp → Bool
    | [], [] => true
    | x :: xs, y :: ys => sexpEq x y && sexpListEq xs ys
    | _, _ => false
end

/-- Structural equality of two terms (via the wire form). -/
def sameTerm (a b : Term) : Bool := sexpEq (termSexp a) (termSexp b)

/-- `reflect` starting from an empty cache and counter 0. -/
def reflect0 (t : Term) : Term × RState := reflectT sameTerm t ⟨0, []⟩

/-! ### The rule `optimizer.unfold` / `normalize` applies to sibling reductions

`Binary(op, Reduce(red, a, vs), b)  ↦  Reduce(red, Binary(op, a, b), vs)` — pulling the reduction over
the sibling (funsor/cnf.py normalize_contraction_*, optimizer.py unfold).  Sound only when `vs` is
fresh for `b`; the implementation does not check it. -/
def pullReduce : Term → Term
  | Term.binary op (Term.reduce red a vs) b => Term.reduce red (Term.binary op a b) vs
  | t => t

end FV.C05
