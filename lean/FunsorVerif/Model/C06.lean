/-
  Model/C06.lean — declared types (funsor/domains.py:247-530, funsor/util.py:190-214,
  funsor/ops/builtin.py:73-147, funsor/tensor.py:138-150, 686-726, 776-803).

  A domain is (dtype : real | bint n, shape).  `findDomain rule opName params doms` follows the
  `find_domain` clause registered under the name `rule` line by line, reading the op's parameters
  from the association list `params` BY KEY (exactly the keys the source reads: `op.defaults[k]`
  raises KeyError → `Err.key`, `op.defaults.get(k, d)` falls back to `d`).  Python exceptions are
  modelled as `Except Err`; nothing is silently defaulted.

  The second half (`np…`) is the numpy result-shape specification the real array op obeys
  (broadcasting, reduce with axis/keepdims, basic indexing, matmul, stack, concatenate), written
  independently of the funsor code; Props/C06.lean proves the two agree wherever numpy returns.
-/
namespace FV.C06

inductive DType where
  | real
  | bint (n : Nat)
  deriving DecidableEq, Repr, Inhabited

structure Dom where
  dtype : DType
  shape : List Nat
  deriving DecidableEq, Repr, Inhabited

/-- Python exception classes that `find_domain` can raise. `beyond`: outside the model. -/
inductive Err where
  | notImpl | assertion | value | zeroDiv | index | type | key | beyond
  deriving DecidableEq, Repr, Inhabited

abbrev R := Except Err Dom

instance instDecEqExcept {ε α : Type} [DecidableEq ε] [DecidableEq α] : DecidableEq (Except ε α) :=
  fun a b => match a, b with
  | .ok x, .ok y => if h : x = y then isTrue (by rw [h]) else isFalse (by intro e; cases e; exact h rfl)
  | .error x, .error y => if h : x = y then isTrue (by rw [h]) else isFalse (by intro e; cases e; exact h rfl)
  | .ok _, .error _ => isFalse (by intro e; cases e)
  | .error _, .ok _ => isFalse (by intro e; cases e)

inductive IdxPart where
  | newaxis
  | int (k : Int)
  | slice (start stop step : Option Int)
  | ellipsis
  deriving DecidableEq, Repr, Inhabited

/-- Values of op parameters (`op.defaults`). -/
inductive PVal where
  | none
  | int (i : Int)
  | bool (b : Bool)
  | ints (l : List Int)
  | str (s : String)
  | index (l : List IdxPart)
  | other
  deriving DecidableEq, Repr, Inhabited

abbrev Params := List (String × PVal)

/-- `Array[dtype, shape]` for a real dtype asserts every size is a non-negative int. -/
def natShape? : List Int → Option (List Nat)
  | [] => some []
  | i :: rest => if i < 0 then none else (natShape? rest).map (i.toNat :: ·)

/-! ### Python list slicing / indexing with possibly negative positions -/

/-- `l[:k]` -/
def pyTake (l : List α) (k : Int) : List α :=
  if 0 ≤ k then l.take k.toNat else l.take (l.length - (-k).toNat)

/-- `l[k:]` -/
def pyDrop (l : List α) (k : Int) : List α :=
  if 0 ≤ k then l.drop k.toNat else l.drop (l.length - (-k).toNat)

/-- position addressed by `l[i]` (None: IndexError) -/
def pyPos (len : Nat) (i : Int) : Option Nat :=
  if 0 ≤ i then (if i.toNat < len then some i.toNat else none)
  else (if (-i).toNat ≤ len then some (len - (-i).toNat) else none)

def pyGet (l : List Nat) (i : Int) : Option Nat := (pyPos l.length i).bind (l[·]?)

/-- `list.insert(i, x)` for 0 ≤ i (clamps to the end, like Python). -/
def insertAt (l : List Nat) (i : Nat) (x : Nat) : List Nat := l.take i ++ x :: l.drop i

/-! ### funsor.util.broadcast_shape (non-strict), on reversed shapes -/

/-- one shape folded into the accumulated reversed shape:
    `if i >= len(acc): append; elif acc[i] == 1: acc[i] = size; elif acc[i] != size and size != 1: raise` -/
def bcRev : List Nat → List Nat → Except Err (List Nat)
  | [], ys => .ok ys
  | xs, [] => .ok xs
  | a :: xs, x :: ys =>
    if a = 1 then (bcRev xs ys).map (x :: ·)
    else if a ≠ x ∧ x ≠ 1 then .error .value
    else (bcRev xs ys).map (a :: ·)

def broadcast2 (a b : List Nat) : Except Err (List Nat) :=
  (bcRev a.reverse b.reverse).map List.reverse

def bcRevMany : List Nat → List (List Nat) → Except Err (List Nat)
  | acc, [] => .ok acc
  | acc, s :: rest => match bcRev acc s.reverse with
    | .ok acc' => bcRevMany acc' rest
    | .error e => .error e

/-- `broadcast_shape(*shapes)` -/
def broadcastMany (shapes : List (List Nat)) : Except Err (List Nat) :=
  (bcRevMany [] shapes).map List.reverse

/-! ### parse_ellipsis / slice.indices -/

def takeUntilEllipsis : List IdxPart → List IdxPart
  | [] => []
  | .ellipsis :: _ => []
  | p :: rest => p :: takeUntilEllipsis rest

def dropThroughEllipsis : List IdxPart → List IdxPart
  | [] => []
  | .ellipsis :: rest => rest
  | _ :: rest => dropThroughEllipsis rest

/-- `parse_ellipsis(index)`: parts left of the first Ellipsis, and the parts right of it up to
    (scanning from the end) the next Ellipsis. -/
def parseEllipsis (index : List IdxPart) : List IdxPart × List IdxPart :=
  (takeUntilEllipsis index, (takeUntilEllipsis (dropThroughEllipsis index).reverse).reverse)

/-- one bound of `slice.indices(length)` (CPython `PySlice_AdjustIndices`):
    negative values count from the end, then clip to `[lower, upper]`. -/
def clipBound (length : Nat) (v : Option Int) (dflt lower upper : Int) : Int :=
  match v with
  | none => dflt
  | some s =>
    if s < 0 then max (s + (length : Int)) lower
    else min s upper

/-- `slice(a, b, c).indices(length)`; a zero step raises ValueError. -/
def sliceIndices (a b c : Option Int) (length : Nat) : Except Err (Int × Int × Int) :=
  let step := c.getD 1
  if step = 0 then .error .value
  else
    let lower : Int := if step < 0 then -1 else 0
    let upper : Int := if step < 0 then (length : Int) - 1 else length
    let start := clipBound length a (if step < 0 then upper else lower) lower upper
    let stop := clipBound length b (if step < 0 then lower else upper) lower upper
    .ok (start, stop, step)

/-- `len(range(start, stop, step))` -/
def rangeLen (start stop step : Int) : Nat :=
  if 0 < step then (if start < stop then ((stop - start - 1) / step + 1).toNat else 0)
  else (if stop < start then ((start - stop - 1) / (-step) + 1).toNat else 0)

/-- `len(range(*part.indices(size)))` (domains.py, both loops of `_find_domain_getslice`) -/
def sliceLen (a b c : Option Int) (size : Nat) : Except Err Nat :=
  match sliceIndices a b c size with
  | .error e => .error e
  | .ok (start, stop, step) => .ok (rangeLen start stop step)

/-- the loop over `left`: position `i` counts from the front. -/
def sliceLeft : List IdxPart → Nat → List Nat → Except Err (List Nat)
  | [], _, shape => .ok shape
  | .newaxis :: rest, i, shape => sliceLeft rest (i + 1) (insertAt shape i 1)
  | .int _ :: rest, i, shape =>
    if i < shape.length then sliceLeft rest i (shape.eraseIdx i) else .error .index
  | .slice a b c :: rest, i, shape =>
    match shape[i]? with
    | none => .error .index
    | some sz => match sliceLen a b c sz with
      | .error e => .error e
      | .ok n => sliceLeft rest (i + 1) (shape.set i n)
  | .ellipsis :: _, _, _ => .error .value

/-- the loop over `reversed(right)`: position `-j` counts from the back (`i = -j`, starts at -1). -/
def sliceRight : List IdxPart → Nat → List Nat → Except Err (List Nat)
  | [], _, shape => .ok shape
  | .newaxis :: rest, j, shape =>
    -- shape.insert(len(shape) + i + 1, 1): a negative position counts from the back, clamped at 0
    let pos : Int := (shape.length : Int) - j + 1
    let p : Nat := if 0 ≤ pos then pos.toNat else (shape.length - (-pos).toNat)
    sliceRight rest (j + 1) (insertAt shape p 1)
  | .int _ :: rest, j, shape =>
    if j ≤ shape.length then sliceRight rest j (shape.eraseIdx (shape.length - j)) else .error .index
  | .slice a b c :: rest, j, shape =>
    if j ≤ shape.length then
      match shape[shape.length - j]? with
      | none => .error .index
      | some sz => match sliceLen a b c sz with
        | .error e => .error e
        | .ok n => sliceRight rest (j + 1) (shape.set (shape.length - j) n)
    else .error .index
  | .ellipsis :: _, _, _ => .error .value

/-! ### the `find_domain` clauses -/

def lookup (ps : Params) (k : String) : Option PVal := (ps.find? (·.1 == k)).map (·.2)

def mkArray (dt : DType) (shape : List Nat) : R := .ok ⟨dt, shape⟩

/-- `_find_domain_pointwise_unary_generic` -/
def fdUnaryGeneric (d : Dom) : R := .ok ⟨d.dtype, d.shape⟩

/-- `_find_domain_log_exp` -/
def fdLogExp (d : Dom) : R := .ok ⟨.real, d.shape⟩

/-- `_find_domain_astype` -/
def fdAstype (ps : Params) (d : Dom) : R :=
  match lookup ps "dtype" with
  | Option.none => .error .key
  | some (.str s) =>
    if s ∈ ["float", "double", "float32", "float64"] then .ok ⟨.real, d.shape⟩
    else if s = "bool" then .ok ⟨.bint 2, d.shape⟩
    else if s ∈ ["int", "int8", "int16", "int32", "int64", "uint8"] then .ok ⟨d.dtype, d.shape⟩
    else .error .notImpl
  | some _ => .error .notImpl

/-- the set `dims` of `_find_domain_reduction` (as a list; membership is all that is used) -/
def reductionDims (axis : Option PVal) (ndims : Nat) : Except Err (List Nat) :=
  match axis with
  | Option.none | some .none => .ok (List.range ndims)
  | some (.int a) => if ndims = 0 then .error .zeroDiv else .ok [(a % (ndims : Int)).toNat]
  | some (.bool b) => if ndims = 0 then .error .zeroDiv else .ok [(if b then 1 else 0) % ndims]
  | some (.ints l) =>
    if l = [] then .ok [] else if ndims = 0 then .error .zeroDiv
    else .ok (l.map fun a => (a % (ndims : Int)).toNat)
  | some _ => .error .type

/-- shape clause: positions are counted from `i`. -/
def reduceFrom (dims : List Nat) (keep : Bool) : Nat → List Nat → List Nat
  | _, [] => []
  | i, s :: rest =>
    if i ∈ dims then (if keep then 1 :: reduceFrom dims keep (i + 1) rest
                      else reduceFrom dims keep (i + 1) rest)
    else s :: reduceFrom dims keep (i + 1) rest

def truthy : Option PVal → Bool
  | Option.none => false
  | some .none => false
  | some (.bool b) => b
  | some (.int i) => i ≠ 0
  | some (.ints l) => l ≠ []
  | some (.str s) => s ≠ ""
  | some (.index l) => l ≠ []
  | some .other => true

/-- `_find_domain_reduction`: reads `axis` and `keepdims` with `.get` -/
def fdReduction (opName : String) (ps : Params) (d : Dom) : R :=
  match reductionDims (lookup ps "axis") d.shape.length with
  | .error e => .error e
  | .ok dims =>
    let shape := reduceFrom dims (truthy (lookup ps "keepdims")) 0 d.shape
    if opName = "all" ∨ opName = "any" then .ok ⟨.bint 2, shape⟩
    else if d.dtype = .real then .ok ⟨.real, shape⟩
    else .error .notImpl

/-- `_find_domain_reshape` -/
def fdReshape (ps : Params) (d : Dom) : R :=
  match lookup ps "shape" with
  | Option.none => .error .key
  | some (.ints l) =>
    match natShape? l with
    | some s => .ok ⟨d.dtype, s⟩
    | Option.none => if d.dtype = .real then .error .assertion else .error .beyond
  | some _ => .error .beyond

/-- `_find_domain_getitem` (array lhs): the rhs domain is not looked at -/
def fdGetitem (ps : Params) (lhs _rhs : Dom) : R :=
  match lookup ps "offset" with
  | Option.none => .error .key
  | some (.int off) => .ok ⟨lhs.dtype, pyTake lhs.shape off ++ pyDrop lhs.shape (1 + off)⟩
  | some _ => .error .type

/-- `_find_domain_getslice` (array domain) -/
def fdGetslice (ps : Params) (d : Dom) : R :=
  match lookup ps "index" with
  | Option.none => .error .key
  | some (.index idx) =>
    let (left, right) := parseEllipsis idx
    match sliceLeft left 0 d.shape with
    | .error e => .error e
    | .ok s1 => match sliceRight right.reverse 1 s1 with
      | .error e => .error e
      | .ok s2 => .ok ⟨d.dtype, s2⟩
  | some _ => .error .value

/-- `_find_domain_pointwise_binary_generic` -/
def fdBinaryGeneric (l r : Dom) : R :=
  if l.dtype = r.dtype then
    match broadcast2 l.shape r.shape with
    | .ok s => .ok ⟨l.dtype, s⟩
    | .error e => .error e
  else .error .notImpl

/-- `_find_domain_comparison` -/
def fdComparison (l r : Dom) : R :=
  match broadcast2 l.shape r.shape with
  | .ok s => .ok ⟨.bint 2, s⟩
  | .error e => .error e

/-- declared size of `Bint[n] // Bint[m]`: `(n - 1) // (m - 1) + 1` -/
def floordivSize (n m : Nat) : Except Err Nat :=
  if (m : Int) - 1 = 0 then .error .zeroDiv
  else
    let s := Int.fdiv ((n : Int) - 1) ((m : Int) - 1) + 1
    if s < 0 then .error .assertion else .ok s.toNat

/-- `_find_domain_floordiv` -/
def fdFloordiv (l r : Dom) : R :=
  match broadcast2 l.shape r.shape with
  | .error e => .error e
  | .ok s =>
    match l.dtype, r.dtype with
    | .bint n, .bint m => match floordivSize n m with
      | .ok k => .ok ⟨.bint k, s⟩
      | .error e => .error e
    | .real, .real => .ok ⟨.real, s⟩
    | _, _ => .error .notImpl

/-- declared size of `Bint[n] % Bint[m]`: `max(0, m - 1)` -/
def modSize (m : Nat) : Nat := m - 1

/-- `_find_domain_mod` -/
def fdMod (l r : Dom) : R :=
  match broadcast2 l.shape r.shape with
  | .error e => .error e
  | .ok s =>
    match l.dtype, r.dtype with
    | .bint _, .bint m => .ok ⟨.bint (modSize m), s⟩
    | .real, .real => .ok ⟨.real, s⟩
    | _, _ => .error .notImpl

/-- `_find_domain_matmul` (always `Reals[...]`) -/
def fdMatmul (l r : Dom) : R :=
  match l.shape.reverse, r.shape.reverse with
  | [], _ => .error .assertion
  | _, [] => .error .assertion
  | ll :: _, [rl] =>
    if ll = rl then .ok ⟨.real, l.shape.dropLast⟩ else .error .assertion
  | [ll], _ :: r2 :: _ =>
    if ll = r2 then .ok ⟨.real, pyTake r.shape (-2) ++ pyDrop r.shape (-1)⟩ else .error .assertion
  | ll :: _ :: _, _ :: r2 :: _ =>
    if ll = r2 then
      match broadcast2 l.shape.dropLast (pyTake r.shape (-2) ++ [1]) with
      | .ok s => .ok ⟨.real, s ++ pyDrop r.shape (-1)⟩
      | .error e => .error e
    else .error .assertion

/-- declared size for two bounded-integer operands of an associative op:
    `op(n - 1, m - 1) + 1` for add/mul/max/min (over Python ints) -/
def assocSize (opName : String) (n m : Nat) : Option Int :=
  let a : Int := (n : Int) - 1
  let b : Int := (m : Int) - 1
  if opName = "add" then some (a + b + 1)
  else if opName = "mul" then some (a * b + 1)
  else if opName = "max" then some (max a b + 1)
  else if opName = "min" then some (min a b + 1)
  else Option.none

/-- `_find_domain_associative_generic` -/
def fdAssociative (opName : String) (ds : List Dom) : R :=
  match ds with
  | [d] => .ok ⟨d.dtype, []⟩
  | [l, r] =>
    let dt : Except Err DType :=
      match l.dtype, r.dtype with
      | .real, _ => .ok .real
      | _, .real => .ok .real
      | .bint n, .bint m =>
        match assocSize opName n m with
        | some s => if s < 0 then .error .assertion else .ok (.bint s.toNat)
        | Option.none =>
          if opName = "and_" ∨ opName = "or_" ∨ opName = "xor" then .ok (.bint 2)
          else if n = m then .ok (.bint n)
          else .error .notImpl
    match dt with
    | .error e => .error e
    | .ok dt => match broadcast2 l.shape r.shape with
      | .ok s => .ok ⟨dt, s⟩
      | .error e => .error e
  | _ => .error .assertion

/-- `_find_domain_stack`: reads `dim` -/
def fdStack (ps : Params) (parts : List Dom) : R :=
  match broadcastMany (parts.map (·.shape)) with
  | .error e => .error e
  | .ok shape =>
    match lookup ps "dim" with
    | Option.none => .error .key
    | some (.int dim0) =>
      let dim := if 0 ≤ dim0 then dim0 - shape.length - 1 else dim0
      if ¬ dim < 0 then .error .assertion
      else
        let split := dim + shape.length + 1
        match parts with
        | [] => .error .index
        | p :: _ => .ok ⟨p.dtype, pyTake shape split ++ parts.length :: pyDrop shape split⟩
    | some _ => .error .type

def sumOpt : List (Option Nat) → Option Nat
  | [] => some 0
  | Option.none :: _ => Option.none
  | some x :: rest => (sumOpt rest).map (x + ·)

/-- `_find_domain_cat`: reads `axis` -/
def fdCat (ps : Params) (parts : List Dom) : R :=
  match lookup ps "axis" with
  | Option.none => .error .key
  | some (.int dim0) =>
    -- `event_dims = {len(x.shape) for x in parts}; assert len(event_dims) == 1`
    let oneRank : Option Nat := match parts with
      | [] => Option.none
      | p :: rest => if rest.all (fun x => x.shape.length == p.shape.length) then some p.shape.length else Option.none
    if 0 ≤ dim0 ∧ oneRank = Option.none then .error .assertion
    else
      let dim : Int := if 0 ≤ dim0 then dim0 - ((oneRank.getD 0 : Nat) : Int) else dim0
      if ¬ dim < 0 then .error .assertion
      else
        match broadcastMany (parts.map fun x => pyTake x.shape dim) with
        | .error e => .error e
        | .ok lead =>
          match sumOpt (parts.map fun x => pyGet x.shape dim) with
          | Option.none => .error .index
          | some total =>
            let tail : Except Err (List Nat) :=
              if dim < -1 then broadcastMany (parts.map fun x => pyDrop x.shape (dim + 1)) else .ok []
            match tail with
            | .error e => .error e
            | .ok tl => match parts with
              | [] => .error .index
              | p :: _ => .ok ⟨p.dtype, lead ++ total :: tl⟩
  | some _ => .error .type

/-- einsum size dictionary: `setdefault` then compare -/
def einsumBind : List (Char × Nat) → List (Char × Nat) → Except Err (List (Char × Nat))
  | dict, [] => .ok dict
  | dict, (c, n) :: rest =>
    match dict.find? (·.1 == c) with
    | Option.none => einsumBind (dict ++ [(c, n)]) rest
    | some (_, m) => if m = n then einsumBind dict rest else .error .value

def einsumOperands : List (Char × Nat) → List (String × Dom) → Except Err (List (Char × Nat))
  | dict, [] => .ok dict
  | dict, (s, x) :: rest =>
    if x.dtype ≠ .real then .error .assertion
    else if s.toList.length ≠ x.shape.length then .error .assertion
    else match einsumBind dict (s.toList.zip x.shape) with
      | .error e => .error e
      | .ok dict' => einsumOperands dict' rest

def einsumOut (dict : List (Char × Nat)) : List Char → Except Err (List Nat)
  | [] => .ok []
  | c :: rest => match dict.find? (·.1 == c) with
    | Option.none => .error .key
    | some (_, n) => (einsumOut dict rest).map (n :: ·)

/-- `_find_domain_einsum`: reads `equation` -/
def fdEinsum (ps : Params) (operands : List Dom) : R :=
  match lookup ps "equation" with
  | Option.none => .error .key
  | some (.str eq) =>
    match eq.splitOn "->" with
    | [ins, out] =>
      match einsumOperands [] ((ins.splitOn ",").zip operands) with
      | .error e => .error e
      | .ok dict => match einsumOut dict out.toList with
        | .error e => .error e
        | .ok s => .ok ⟨.real, s⟩
    | _ => .error .value
  | some _ => .error .type

/-- dispatch on the name of the registered clause (the `rule` column of Gen/C06OpSignatures). -/
def findDomain (rule opName : String) (ps : Params) (ds : List Dom) : R :=
  match rule, ds with
  | "_find_domain_pointwise_unary_generic", [d] => fdUnaryGeneric d
  | "_find_domain_log_exp", [d] => fdLogExp d
  | "_find_domain_astype", [d] => fdAstype ps d
  | "_find_domain_reduction", [d] => fdReduction opName ps d
  | "_find_domain_reshape", [d] => fdReshape ps d
  | "_find_domain_getitem", [l, r] => fdGetitem ps l r
  | "_find_domain_getslice", [d] => fdGetslice ps d
  | "_find_domain_pointwise_binary_generic", [l, r] => fdBinaryGeneric l r
  | "_find_domain_comparison", [l, r] => fdComparison l r
  | "_find_domain_floordiv", [l, r] => fdFloordiv l r
  | "_find_domain_mod", [l, r] => fdMod l r
  | "_find_domain_matmul", [l, r] => fdMatmul l r
  | "_find_domain_associative_generic", ds => fdAssociative opName ds
  | "_find_domain_stack", ds => fdStack ps ds
  | "_find_domain_cat", ds => fdCat ps ds
  | "_find_domain_einsum", ds => fdEinsum ps ds
  | _, _ => .error .beyond

/-! ### user-made ops: `Dependent.__call__` (domains.py) as used by `make_op`'s find_domain rule -/

/-- `kwargs.__getitem__(name)` on the keyword dictionary `dict(zip(parameters, operand domains))` -/
def kwGet (kwargs : List (String × Dom)) (name : String) : Option Dom :=
  (kwargs.find? (·.1 == name)).map (·.2)

/-- `self.fn(*map(kwargs.__getitem__, self.args))`: the hint's lambda receives, for each of ITS OWN argument
    names (`inspect.getfullargspec(fn)[0]`), the domain of the operand of that name (KeyError = `none`). -/
def dependentArgs (lambdaArgs : List String) (kwargs : List (String × Dom)) : Option (List Dom) :=
  lambdaArgs.mapM (kwGet kwargs)

/-- what a positional implementation would pass instead: the kwargs the lambda asks for, in the CALLER's order -/
def dependentArgsPositional (lambdaArgs : List String) (kwargs : List (String × Dom)) : List Dom :=
  (kwargs.filter fun p => lambdaArgs.contains p.1).map (·.2)

/-! ### ProductDomain operands (`Tuple`-valued terms): domains.py:376-388, terms.py Tuple.__init__ -/

/-- a funsor output domain: an array domain or `Product[d₁, …, dₙ]` (flat products of array domains) -/
inductive Ty where
  | arr (d : Dom)
  | prod (args : List Dom)
  deriving DecidableEq, Repr, Inhabited

/-- Python `t[slice(a, b, c)]` on a tuple: the elements at `start + k*step`, `k < len(range(...))` -/
def pySliceList (l : List Dom) (a b c : Option Int) : Except Err (List Dom) :=
  match sliceIndices a b c l.length with
  | .error e => .error e
  | .ok (start, stop, step) =>
    .ok ((List.range (rangeLen start stop step)).filterMap fun (k : Nat) => l[(start + (k : Int) * step).toNat]?)

/-- `_find_domain_getslice`, ProductDomain branch: a 1-tuple index is unwrapped (`assert len(index) == 1`); an
    int selects a component (Python indexing), a slice gives the sub-product, anything else raises ValueError. -/
def fdGetsliceProduct (ps : Params) (args : List Dom) : Except Err Ty :=
  match lookup ps "index" with
  | Option.none => .error .key
  | some (.index [p]) =>
    match p with
    | .int k => match (pyPos args.length k).bind (args[·]?) with
      | some d => .ok (.arr d)
      | Option.none => .error .index
    | .slice a b c => (pySliceList args a b c).map .prod
    | _ => .error .value
  | some (.index _) => .error .assertion
  | some _ => .error .value

/-- `Tuple.__init__`: output `Product[arg outputs]` -/
def tupleOutput (outs : List Dom) : Ty := .prod outs

/-! ### Contraction (funsor/cnf.py:48-83): the typing rule of the normal form -/

/-- `find_domain(bin_op, lhs, rhs)` for an associative `bin_op` -/
def assocTy (op : String) (l r : Dom) : R := fdAssociative op [l, r]

/-- Python `functools.reduce(f, seq[1:], seq[0])` with a raising `f` -/
def foldTy (f : Dom → Dom → R) : Dom → List Dom → R
  | acc, [] => .ok acc
  | acc, x :: xs => match f acc x with
    | .ok a => foldTy f a xs
    | .error e => .error e

/-- `reduce(f, [v.output for v in reversed(terms)])` -/
def revFold (f : Dom → Dom → R) (outs : List Dom) : R :=
  match outs.reverse with
  | [] => .error .type
  | o :: rest => foldTy f o rest

/-- `Contraction.__init__`'s output: `terms[0].output` if `bin_op is ops.null`, else the reversed fold of
    `find_domain(bin_op, ·, ·)`; the reduction does not change it. -/
def contractionOutput (binOp : String) (outs : List Dom) : R :=
  if binOp = "null" then (match outs with | [] => .error .index | o :: _ => .ok o)
  else revFold (assocTy binOp) outs

/-- output of the right-nested syntax tree `Binary(op, t₁, Binary(op, t₂, …))` (`Binary.__init__`) -/
def rightNested (f : Dom → Dom → R) : List Dom → R
  | [] => .error .type
  | [o] => .ok o
  | o :: rest => match rightNested f rest with
    | .ok r => f o r
    | .error e => .error e

/-- output of the left-nested syntax tree `Binary(op, Binary(op, t₁, t₂), …)` -/
def leftNested (f : Dom → Dom → R) : List Dom → R
  | [] => .error .type
  | o :: rest => foldTy f o rest

/-- `OrderedDict.update` on the key order: keys of `a`, then the new keys of `b` -/
def unionNames (a b : List String) : List String := a ++ b.filter (fun k => !a.contains k)

/-- `Contraction.__init__`'s inputs (names, in order): each term's inputs minus the bound names, merged -/
def contractionInputs (bound : List String) (termInputs : List (List String)) : List String :=
  termInputs.foldl (fun acc t => unionNames acc (t.filter fun k => !bound.contains k)) []

/-- inputs of `Reduce(red_op, Binary(op, t₁, Binary(op, t₂, …)), bound)`: `Binary.__init__` merges, `Reduce.__init__`
    removes the reduced names -/
def nestedInputs (bound : List String) (termInputs : List (List String)) : List String :=
  (termInputs.foldr unionNames []).filter fun k => !bound.contains k

/-! ### inputs with their domains: `OrderedDict.update` -/

abbrev Inputs := List (String × Dom)

/-- `d[k] = v` on an OrderedDict: an existing key keeps its position and gets the new value, a new key is appended -/
def odSet (a : Inputs) (k : String) (v : Dom) : Inputs :=
  if a.any (fun p => p.1 == k) then a.map (fun p => if p.1 == k then (k, v) else p) else a ++ [(k, v)]

/-- `a.update(b)` -/
def odUpdate (a b : Inputs) : Inputs := b.foldl (fun acc p => odSet acc p.1 p.2) a

/-- `Contraction.__init__`: `for v in terms: inputs.update((k, d) for k, d in v.inputs.items() if k not in bound)` -/
def contractionInputsD (bound : List String) (terms : List Inputs) : Inputs :=
  terms.foldl (fun acc t => odUpdate acc (t.filter fun p => !bound.contains p.1)) []

/-- a name shared by two terms carries the same domain in both (decidable) -/
def consistent (terms : List Inputs) : Bool :=
  terms.all fun t1 => terms.all fun t2 => t1.all fun p => t2.all fun q => !(p.1 == q.1) || p.2 == q.2

/-! ## numpy result-shape specification -/

/-- numpy's rule for one pair of aligned dimensions. -/
def npDim (a b : Nat) : Option Nat :=
  if a = b then some a else if a = 1 then some b else if b = 1 then some a else Option.none

/-- numpy broadcasting of two shapes aligned at the trailing axis (shapes given reversed). -/
def npBcRev : List Nat → List Nat → Option (List Nat)
  | [], ys => some ys
  | xs, [] => some xs
  | a :: xs, b :: ys => match npDim a b, npBcRev xs ys with
    | some d, some r => some (d :: r)
    | _, _ => Option.none

def npBroadcast2 (a b : List Nat) : Option (List Nat) :=
  (npBcRev a.reverse b.reverse).map List.reverse

/-- numpy `normalize_axis_index`: `-nd ≤ a < nd`, negative counted from the end. -/
def npNormAxis (nd : Nat) (a : Int) : Option Nat :=
  if 0 ≤ a then (if a < nd then some a.toNat else Option.none)
  else (if -(nd : Int) ≤ a then some (a + nd).toNat else Option.none)

def npNormAxes (nd : Nat) : List Int → Option (List Nat)
  | [] => some []
  | a :: rest => match npNormAxis nd a, npNormAxes nd rest with
    | some x, some xs => if x ∈ xs then Option.none else some (x :: xs)   -- duplicate axis: ValueError
    | _, _ => Option.none

inductive Axis where
  | all                    -- axis=None
  | one (a : Int)
  | many (l : List Int)
  deriving DecidableEq, Repr

/-- numpy `reduce` over `axis`: shape of the result, `none` where numpy raises.
    (A 0-d array accepts `axis=0` and `axis=-1`.) -/
def npReduceShape (shape : List Nat) (axis : Axis) (keepdims : Bool) : Option (List Nat) :=
  let nd := shape.length
  let axes : Option (List Nat) :=
    match axis with
    | .all => some (List.range nd)
    | .one a => if nd = 0 then (if a = 0 ∨ a = -1 then some [] else Option.none)
                else (npNormAxis nd a).map ([·])
    | .many l => npNormAxes nd l
  axes.map fun ax =>
    (List.range nd).filterMap fun i =>
      if i ∈ ax then (if keepdims then some 1 else Option.none) else shape[i]?

/-- basic indexing `x[(:,)*offset + (k,)]` with an integer `k`: removes axis `offset`. -/
def npGetitemShape (shape : List Nat) (offset : Nat) : Option (List Nat) :=
  if offset < shape.length then some (shape.eraseIdx offset) else Option.none

/-- number of elements of `range(*slice(a,b,c).indices(size))` for a positive step:
    the `k ≥ 0` with `start + k*step < stop`. -/
def npSliceCount (start stop step : Nat) : Nat :=
  ((List.range (stop - start)).filter fun d => d % step = 0).length

/-- numpy basic indexing, the parts before the Ellipsis: matched against the leading axes, left to right.
    `pre` collects the result dims produced so far; returns (produced dims, untouched axes). -/
def npFront : List IdxPart → List Nat → List Nat → Option (List Nat × List Nat)
  | [], pre, sh => some (pre, sh)
  | .newaxis :: ps, pre, sh => npFront ps (pre ++ [1]) sh
  | .int k :: ps, pre, n :: sh =>
    if -(n : Int) ≤ k ∧ k < (n : Int) then npFront ps pre sh else Option.none      -- IndexError otherwise
  | .slice a b c :: ps, pre, n :: sh =>
    match sliceLen a b c n with
    | .ok m => npFront ps (pre ++ [m]) sh
    | .error _ => Option.none
  | .int _ :: _, _, [] => Option.none                                              -- too many indices
  | .slice _ _ _ :: _, _, [] => Option.none
  | .ellipsis :: _, _, _ => Option.none

/-- the parts after the Ellipsis, LAST part first, matched against the trailing axes (`fr` = the still
    untouched axes, reversed); `done` collects the produced trailing dims. -/
def npBack : List IdxPart → List Nat → List Nat → Option (List Nat × List Nat)
  | [], fr, done => some (fr, done)
  | .newaxis :: qs, fr, done => npBack qs fr (1 :: done)
  | .int k :: qs, n :: fr, done =>
    if -(n : Int) ≤ k ∧ k < (n : Int) then npBack qs fr done else Option.none
  | .slice a b c :: qs, n :: fr, done =>
    match sliceLen a b c n with
    | .ok m => npBack qs fr (m :: done)
    | .error _ => Option.none
  | .int _ :: _, [], _ => Option.none
  | .slice _ _ _ :: _, [], _ => Option.none
  | .ellipsis :: _, _, _ => Option.none

def ellCount : List IdxPart → Nat
  | [] => 0
  | .ellipsis :: ps => ellCount ps + 1
  | _ :: ps => ellCount ps

/-- numpy basic indexing `x[index]` with None / int / slice / (at most one) Ellipsis parts: the result
    shape, `none` where numpy raises (two Ellipses, too many indices, integer out of range, zero step).
    Axes not addressed (the Ellipsis, or the tail when there is none) are kept. -/
def npIndexShape (index : List IdxPart) (shape : List Nat) : Option (List Nat) :=
  if 1 < ellCount index then Option.none
  else
    match npFront (takeUntilEllipsis index) [] shape with
    | Option.none => Option.none
    | some (pre, rest) =>
      match npBack (dropThroughEllipsis index).reverse rest.reverse [] with
      | Option.none => Option.none
      | some (fr, done) => some (pre ++ fr.reverse ++ done)

/-- numpy matmul result shape. -/
def npMatmulShape (a b : List Nat) : Option (List Nat) :=
  match a.reverse, b.reverse with
  | [], _ => Option.none
  | _, [] => Option.none
  | [n], [m] => if n = m then some [] else Option.none
  | n :: p :: ar, [m] => if n = m then some ((p :: ar).reverse) else Option.none
  | [n], q :: m :: br => if n = m then some (br.reverse ++ [q]) else Option.none
  | n :: p :: ar, q :: m :: br =>
    if n = m then (npBcRev ar br).map fun r => r.reverse ++ [p, q] else Option.none

/-- numpy `stack(parts, axis)`: all parts of one shape, new axis of length `len(parts)`. -/
def npStackShape (parts : List (List Nat)) (axis : Int) : Option (List Nat) :=
  match parts with
  | [] => Option.none
  | s :: rest =>
    if rest.all (· == s) then
      (npNormAxis (s.length + 1) axis).map fun k => s.take k ++ parts.length :: s.drop k
    else Option.none

/-- numpy `concatenate(parts, axis)`: equal shapes off-axis, sizes add on the axis. -/
def npCatShape (parts : List (List Nat)) (axis : Int) : Option (List Nat) :=
  match parts with
  | [] => Option.none
  | s :: rest =>
    match npNormAxis s.length axis with
    | Option.none => Option.none
    | some k =>
      if rest.all (fun t => t.length == s.length && t.take k == s.take k && t.drop (k + 1) == s.drop (k + 1))
      then some (s.take k ++ (parts.map (fun t => t.getD k 0)).sum :: s.drop (k + 1))
      else Option.none

/-! ## tensor data layout (funsor/tensor.py:138-150): batch sizes then event shape -/

/-- what `Tensor.__init__` declares for data of shape `dataShape` and `nb` inputs. -/
def tensorOutputShape (dataShape : List Nat) (nb : Nat) : List Nat := dataShape.drop nb

/-- `eager_reduction_tensor`: the axis passed to the array op on data with batch dims in front. -/
def eagerReductionAxis (axis : Axis) (ndims : Nat) : Axis :=
  match axis with
  | .all => .many ((List.range ndims).map fun (i : Nat) => (i : Int) - (ndims : Int))
  | .one a => .one (a % (ndims : Int) - ndims)
  | .many l => .many (l.map fun d => d % (ndims : Int) - ndims)

/-- `eager_binary_tensor_tensor`: the lower-rank operand's data is reshaped with unit dims between
    batch and event dims. -/
def eagerBinaryPad (batch ev : List Nat) (otherRank : Nat) : List Nat :=
  batch ++ List.replicate (otherRank - ev.length) 1 ++ ev

end FV.C06
