/-
  Model/C06Terms.lean — executable model of the typing of `Lambda` (funsor/terms.py `Lambda.__init__`)
  and of its eager Tensor rule (funsor/tensor.py `eager_lambda`, with `align_tensor` and
  `Tensor.__init__`), and of `Stack.__init__` / `eager_stack_homogeneous`.  Core-only.

  A tensor is represented by what C06 observes of it: declared inputs, declared output domain and
  the shape of its data array (`TDecl`).  Where the real code raises, the model returns `none`.
-/
import FunsorVerif.Model.C06
namespace FV.C06

/-- `k in d` on an OrderedDict -/
def hasKey (a : Inputs) (k : String) : Bool := a.any (fun p => p.1 == k)

/-- `d.pop(k, None)` (keys of an OrderedDict are unique) -/
def odPop (a : Inputs) (k : String) : Inputs := a.filter (fun p => !(p.1 == k))

/-- `d[k]` (`none` = KeyError) -/
def odGet (a : Inputs) (k : String) : Option Dom := (a.find? (fun p => p.1 == k)).map (·.2)

/-- `d.size` / `d.dtype` of a batch input: only scalar bounded integers have one -/
def dsize? (d : Dom) : Option Nat :=
  match d.dtype, d.shape with
  | .bint n, [] => some n
  | _, _ => none

def allSome : List (Option Nat) → Option (List Nat)
  | [] => some []
  | o :: r =>
    match o, allSome r with
    | some n, some l => some (n :: l)
    | _, _ => none

/-- `tuple(d.size for d in inputs.values())` -/
def sizes? (a : Inputs) : Option (List Nat) := allSome (a.map fun p => dsize? p.2)

/-- what C06 observes of a `Tensor` -/
structure TDecl where
  inputs : Inputs
  output : Dom
  data : List Nat
  deriving DecidableEq, Repr

/-- `Tensor.__init__` (tensor.py): `for (k, d), size in zip(inputs, data.shape): assert d.dtype == size`,
    `output = Array[dtype, data.shape[len(inputs):]]`. -/
def mkTensor (data : List Nat) (inputs : Inputs) (dt : DType) : Option TDecl :=
  match sizes? inputs with
  | none => none
  | some bs =>
    if inputs.length ≤ data.length ∧ data.take inputs.length = bs
    then some ⟨inputs, ⟨dt, data.drop inputs.length⟩, data⟩ else none

/-- `align_tensor(new_inputs, x)` (expand=False): the reshape target
    `tuple(old_inputs[k].dtype if k in old_inputs else 1 for k in new_inputs) + x.output.shape` -/
def alignSizes (old new : Inputs) : Option (List Nat) :=
  allSome (new.map fun p => match odGet old p.1 with
                            | some d => dsize? d
                            | none => some 1)

/-- `Lambda.__init__`: `inputs = expr.inputs.copy(); inputs.pop(var.name, None);
    output = Array[expr.dtype, (var.dtype,) + expr.output.shape]` -/
def lambdaTy (v : String) (n : Nat) (ins : Inputs) (out : Dom) : Inputs × Dom :=
  (odPop ins v, ⟨out.dtype, n :: out.shape⟩)

/-- `eager_lambda(var, expr)` for `var = Variable(v, Bint[n])` and a Tensor `expr`. -/
def eagerLambda (v : String) (n : Nat) (t : TDecl) : Option TDecl :=
  if hasKey t.inputs v then
    let ins2 := odSet (odPop t.inputs v) v ⟨.bint n, []⟩
    match alignSizes t.inputs ins2 with
    | none => none
    | some bs => mkTensor (bs ++ t.output.shape) (odPop ins2 v) t.output.dtype
  else
    let dim := t.data.length - t.output.shape.length
    mkTensor (t.data.take dim ++ n :: t.data.drop dim) t.inputs t.output.dtype

/-- `Stack.__init__`: asserts, `inputs = OrderedDict([(name, Bint[len(parts)])]); for x in parts: inputs.update(x.inputs)` -/
def stackTy (name : String) (parts : List (Inputs × Dom)) : Option (Inputs × Dom) :=
  match parts with
  | [] => none
  | p :: rest =>
    if parts.any (fun x => hasKey x.1 name) then none
    else if rest.all (fun x => x.2 == p.2) then
      some (parts.foldl (fun acc x => odUpdate acc x.1) [(name, ⟨.bint parts.length, []⟩)], p.2)
    else none

/-- `eager_stack_homogeneous(name, *parts)`: every part is aligned to `part_inputs`, expanded to
    `shape = sizes(part_inputs) + output.shape`, and stacked on a new leading axis. -/
def eagerStack (name : String) (parts : List TDecl) : Option TDecl :=
  match parts with
  | [] => none
  | p :: rest =>
    if parts.any (fun x => hasKey x.inputs name) then none
    else if rest.all (fun x => x.output == p.output) then
      let partInputs := parts.foldl (fun acc x => odUpdate acc x.inputs) []
      match sizes? partInputs with
      | none => none
      | some bs =>
        mkTensor (parts.length :: (bs ++ p.output.shape))
          (odUpdate [(name, ⟨.bint parts.length, []⟩)] partInputs) p.output.dtype
    else none

end FV.C06
