/-
  Model/C07.lean — hash-consing as a state machine (core-only).

  What is modelled (funsor/terms.py:123-158 `reflect`, :184-189 per-class `WeakValueDictionary`,
  :289-296 identity hash / `__reduce__`; funsor/interpretations.py:54-68 `make_hash_key`;
  funsor/domains.py:24-56,193-206; funsor/ops/op.py:62-100; funsor/typing.py:262-291):

    * a heap of live interned objects (funsors, domains, parametrised ops) and live arrays, both
      named by *addresses* (`Id`) that the allocator may hand out again once the owner is dead;
    * one intern table per class: `(cls, key) ↦ id`, values held weakly (an entry disappears with
      its value), keys held strongly (a key keeps the hashable objects it mentions alive) —
      except that an *unhashable* argument (ndarray) enters the key only as the integer `id(arg)`;
    * `construct` = `reflect.interpret`: normalise the args to the key exactly as `make_hash_key`
      plus Python's `==`/`hash` on tuples do (1 == 1.0 == True, 0.0 == -0.0, NaN only equals itself
      as an object, `id(arr)` is an `int`), look the key up, return the hit or build + insert;
    * `drop`, `reclaim` (one unreferenced object; any order, any time — the primitive GC step),
      `sweep` (reference counting: everything unreferenced that is not cyclic garbage), `gc`
      (everything unreferenced), `rebuild` (bottom-up reconstruction through the constructors:
      `reinterpret` under reflect with the same arrays, unpickling with copied arrays).

  Ghost state (never read by the operations' decisions): `stamp`/serial numbers from `clock`,
  which name an *allocation* rather than an address, so that "stale object" is expressible.
-/
namespace FV.C07

abbrev Id := Nat

/-- One token of a constructor argument list as the caller passes it (flat, bracketed). -/
inductive ArgTok where
  | int (z : Int)
  | bool (b : Bool)
  | flt (p : Int) (q : Nat)      -- finite float p/q; `flt 1 0` = +inf, `flt (-1) 0` = -inf
  | negz                          -- the float -0.0
  | nan (oid : Id)                -- a NaN float *object* (address `oid`)
  | str (s : String)
  | none
  | obj (i : Id)                  -- a hashable interned object: funsor / domain / op (hash = id)
  | arr (i : Id)                  -- an unhashable argument (ndarray), only legal at top level
  | lp | rp                       -- tuple brackets
  | fl | fr                       -- frozenset brackets (elements: `obj` only)
  | dict                          -- marker: the following tuple of pairs is an (Ordered)dict
  | sl                            -- marker: the following triple (start stop step) is a `slice`
  | ellipsis                      -- the singleton `Ellipsis`
  deriving DecidableEq, Repr, Inhabited

/-- One token of a cons key: argument tokens modulo Python's key equality. -/
inductive Tok where
  | num (p : Int) (q : Nat)
  | nan (oid : Id)
  | str (s : String)
  | none
  | ref (i : Id)
  | lp | rp | fl | fr
  | ellipsis
  deriving DecidableEq, Repr, Inhabited

def normNum (p : Int) (q : Nat) : Tok :=
  let g := Nat.gcd p.natAbs q
  Tok.num (p / (g : Int)) (q / g)

/-- `make_hash_key` on one atom + Python `==`/`hash`: ints, bools and integral floats collapse;
    `-0.0 == 0`; an unhashable argument is replaced by `id(arg)`, which is an `int`. -/
def normTok : ArgTok → Option Tok
  | .int z => some (Tok.num z 1)
  | .bool b => some (Tok.num (if b then 1 else 0) 1)
  | .flt p q => some (normNum p q)
  | .negz => some (Tok.num 0 1)
  | .nan o => some (Tok.nan o)
  | .str s => some (Tok.str s)
  | .none => some Tok.none
  | .obj i => some (Tok.ref i)
  | .arr i => some (Tok.num (Int.ofNat i) 1)
  | .lp => some Tok.lp
  | .rp => some Tok.rp
  | .fl => Option.none
  | .fr => Option.none
  | .dict => Option.none
  | .sl => Option.none           -- a raw slice never reaches a key (GetsliceMeta unpacks it first)
  | .ellipsis => some Tok.ellipsis

def insertSorted (i : Id) : List Id → List Id
  | [] => [i]
  | j :: js => if i < j then i :: j :: js else if i = j then j :: js else j :: insertSorted i js

/-- The cons key of an argument list.  `fs = some ids`: inside a frozenset, collecting members.
    `none` = the real code raises (unhashable inside a tuple/frozenset, dict reaching the key). -/
def mkKeyAux : List ArgTok → (depth : Nat) → (fs : Option (List Id)) → Option (List Tok)
  | [], 0, Option.none => some []
  | [], _, _ => Option.none
  | .fl :: ts, d, Option.none => mkKeyAux ts d (some [])
  | .fr :: ts, d, some ids =>
      (mkKeyAux ts d Option.none).map (fun r => Tok.fl :: (ids.map Tok.ref ++ Tok.fr :: r))
  | .obj i :: ts, d, some ids => mkKeyAux ts d (some (insertSorted i ids))
  | _ :: _, _, some _ => Option.none
  | .fr :: _, _, Option.none => Option.none
  | .dict :: _, _, Option.none => Option.none
  | .lp :: ts, d, Option.none => (mkKeyAux ts (d + 1) Option.none).map (Tok.lp :: ·)
  | .rp :: _, 0, Option.none => Option.none
  | .rp :: ts, d + 1, Option.none => (mkKeyAux ts d Option.none).map (Tok.rp :: ·)
  | .arr i :: ts, 0, Option.none => (mkKeyAux ts 0 Option.none).map (Tok.num (Int.ofNat i) 1 :: ·)
  | .arr _ :: _, _ + 1, Option.none => Option.none
  | t :: ts, d, Option.none =>
      match normTok t with
      | some k => (mkKeyAux ts d Option.none).map (k :: ·)
      | Option.none => Option.none

def mkKey (args : List ArgTok) : Option (List Tok) := mkKeyAux args 0 Option.none

def refsOf (key : List Tok) : List Id :=
  key.filterMap fun | Tok.ref i => some i | _ => Option.none

def arrIds (args : List ArgTok) : List Id :=
  args.filterMap fun | ArgTok.arr i => some i | _ => Option.none

/-- A live interned object. -/
structure Obj where
  cls : Nat                      -- which intern table (one per class)
  key : List Tok                 -- the key it was inserted under
  args : List ArgTok             -- `_ast_values`
  arrs : List (Id × Nat)         -- arrays it holds: (address, serial)
  cyc : Bool                     -- cyclic garbage when unreachable (classes/types): only `gc` frees it
  stamp : Nat                    -- ghost: allocation number
  deriving DecidableEq, Repr, Inhabited

abbrev CKey := Nat × List Tok

structure St where
  objs : List (Id × Obj)
  arrs : List (Id × Nat)         -- live arrays: (address, ghost serial)
  cache : List (CKey × Id)       -- all intern tables: (cls, key) ↦ address, weak in the value
  roots : List (Nat × Id)        -- handles held by the environment: slot ↦ address
  clock : Nat                    -- ghost: next stamp / serial
  deriving Repr, Inhabited

def St.init : St := { objs := [], arrs := [], cache := [], roots := [], clock := 0 }

inductive Err where
  | badArgs | deadRef | deadArr | idLive | noSlot | referenced | fuel
  deriving DecidableEq, Repr, Inhabited

def Err.name : Err → String
  | .badArgs => "bad-args" | .deadRef => "dead-ref" | .deadArr => "dead-array"
  | .idLive => "id-live" | .noSlot => "no-slot" | .referenced => "referenced" | .fuel => "fuel"

def objIds (s : St) : List Id := s.objs.map (·.1)
def arrIdsLive (s : St) : List Id := s.arrs.map (·.1)

def findObj (objs : List (Id × Obj)) (i : Id) : Option Obj :=
  match objs with
  | [] => Option.none
  | p :: ps => if p.1 = i then some p.2 else findObj ps i

def findArr (arrs : List (Id × Nat)) (i : Id) : Option (Id × Nat) :=
  match arrs with
  | [] => Option.none
  | p :: ps => if p.1 = i then some p else findArr ps i

/-- `key in cache` / `cache[key]` (terms.py:138-139), atomic. -/
def lookup (cache : List (CKey × Id)) (k : CKey) : Option Id :=
  match cache with
  | [] => Option.none
  | e :: es => if e.1 = k then some e.2 else lookup es k

def resolveArrs (arrs : List (Id × Nat)) : List Id → Option (List (Id × Nat))
  | [] => some []
  | a :: as =>
    match findArr arrs a, resolveArrs arrs as with
    | some p, some ps => some (p :: ps)
    | _, _ => Option.none

def entryOf (p : Id × Obj) : CKey × Id := ((p.2.cls, p.2.key), p.1)

def setRoot (roots : List (Nat × Id)) (slot : Nat) (i : Id) : List (Nat × Id) :=
  (slot, i) :: roots.filter (fun r => r.1 ≠ slot)

def getRoot (roots : List (Nat × Id)) (slot : Nat) : Option Id :=
  match roots with
  | [] => Option.none
  | r :: rs => if r.1 = slot then some r.2 else getRoot rs slot

/-- `reflect.interpret(cls, *args)` on already-normalised args.  `nid` is the address the
    allocator will use *if* a new object is built (any address that is not live). -/
def construct (s : St) (cls : Nat) (cyc : Bool) (args : List ArgTok) (nid : Id) :
    Except Err (St × Id) :=
  match mkKey args with
  | Option.none => .error .badArgs
  | some key =>
    if (refsOf key).all (fun j => j ∈ objIds s) = false then .error .deadRef
    else match resolveArrs s.arrs (arrIds args) with
      | Option.none => .error .deadArr
      | some held =>
        match lookup s.cache (cls, key) with
        | some i => .ok (s, i)
        | Option.none =>
          if nid ∈ objIds s ∨ nid ∈ arrIdsLive s then .error .idLive
          else
            let o : Obj := { cls := cls, key := key, args := args, arrs := held, cyc := cyc,
                             stamp := s.clock }
            .ok ({ s with objs := (nid, o) :: s.objs,
                          cache := ((cls, key), nid) :: s.cache,
                          clock := s.clock + 1 }, nid)

/-- Is address `i` referenced by a root, by the key of a live object's table entry, or as an
    array a live object holds? -/
def referenced (s : St) (i : Id) : Bool :=
  s.roots.any (fun r => r.2 = i) ||
  s.objs.any (fun p => i ∈ refsOf p.2.key || p.2.arrs.any (fun a => a.1 = i))

/-- Free address `i` (object: its table entry goes with it — the weakref callback). -/
def free (s : St) (i : Id) : St :=
  { s with objs := s.objs.filter (fun p => p.1 ≠ i),
           arrs := s.arrs.filter (fun a => a.1 ≠ i),
           cache := s.cache.filter (fun e => e.2 ≠ i) }

def reclaim (s : St) (i : Id) : Except Err St :=
  if referenced s i then .error .referenced else .ok (free s i)

/-- First unreferenced live address (objects first); cyclic garbage only when `cycToo`. -/
def findUnref (s : St) (cycToo : Bool) : Option Id :=
  match s.objs.find? (fun p => (cycToo || !p.2.cyc) && !referenced s p.1) with
  | some p => some p.1
  | Option.none => (s.arrs.find? (fun a => !referenced s a.1)).map (·.1)

def collect (cycToo : Bool) : Nat → St → St
  | 0, s => s
  | fuel + 1, s =>
    match findUnref s cycToo with
    | some i => collect cycToo fuel (free s i)
    | Option.none => s

def sweep (s : St) : St := collect false (s.objs.length + s.arrs.length) s
def gc (s : St) : St := collect true (s.objs.length + s.arrs.length) s

def remapId (remap : List (Id × Id)) (i : Id) : Id :=
  match remap with
  | [] => i
  | p :: ps => if p.1 = i then p.2 else remapId ps i

/-- Rebuild every argument token through `f` (objects) / `remap` (arrays). -/
def mapArgsM (f : St → Id → Except Err (St × Id)) (remap : List (Id × Id)) :
    St → List ArgTok → Except Err (St × List ArgTok)
  | s, [] => .ok (s, [])
  | s, .obj j :: ts =>
    match f s j with
    | .error e => .error e
    | .ok (s1, j') =>
      match mapArgsM f remap s1 ts with
      | .error e => .error e
      | .ok (s2, ts') => .ok (s2, .obj j' :: ts')
  | s, .arr a :: ts =>
    match mapArgsM f remap s ts with
    | .error e => .error e
    | .ok (s2, ts') => .ok (s2, .arr (remapId remap a) :: ts')
  | s, t :: ts =>
    match mapArgsM f remap s ts with
    | .error e => .error e
    | .ok (s2, ts') => .ok (s2, t :: ts')

/-- Bottom-up reconstruction of object `i` through the constructors (`__reduce__` gives
    `(origin class, _ast_values)`; `reinterpret` re-applies `cls(*children)`).  `remap` sends
    old array addresses to the copies' addresses (identity when absent) and old object addresses
    to the addresses the allocator uses for objects that have to be built anew. -/
def rebuild : Nat → List (Id × Id) → St → Id → Except Err (St × Id)
  | 0, _, _, _ => .error .fuel
  | fuel + 1, remap, s, i =>
    match findObj s.objs i with
    | Option.none => .error .deadRef
    | some o =>
      match mapArgsM (rebuild fuel remap) remap s o.args with
      | .error e => .error e
      | .ok (s1, args') => construct s1 o.cls o.cyc args' (remapId remap i)

inductive Step where
  | alloc (slot : Nat) (id : Id)
  | mk (slot cls : Nat) (cyc : Bool) (args : List ArgTok) (nid : Id)
  | drop (slot : Nat)
  | reclaim (id : Id)
  | sweep
  | gc
  | rebuild (src dst : Nat) (remap : List (Id × Id))
  deriving Repr, Inhabited

def step (s : St) : Step → Except Err St
  | .alloc slot id =>
    if id ∈ objIds s ∨ id ∈ arrIdsLive s then .error .idLive
    else .ok { s with arrs := (id, s.clock) :: s.arrs, roots := setRoot s.roots slot id,
                      clock := s.clock + 1 }
  | .mk slot cls cyc args nid =>
    match construct s cls cyc args nid with
    | .error e => .error e
    | .ok (s1, i) => .ok { s1 with roots := setRoot s1.roots slot i }
  | .drop slot => .ok { s with roots := s.roots.filter (fun r => r.1 ≠ slot) }
  | .reclaim id => reclaim s id
  | .sweep => .ok (sweep s)
  | .gc => .ok (gc s)
  | .rebuild src dst remap =>
    match getRoot s.roots src with
    | Option.none => .error .noSlot
    | some i =>
      match rebuild (s.objs.length + 1) remap s i with
      | .error e => .error e
      | .ok (s1, j) => .ok { s1 with roots := setRoot s1.roots dst j }

def run (s : St) : List Step → Except Err St
  | [] => .ok s
  | op :: ops =>
    match step s op with
    | .error e => .error e
    | .ok s1 => run s1 ops

/-! ### Metaclass argument normalisation (the `__call__` of TensorMeta, NumberMeta, CatMeta,
    SliceMeta, OpMeta, ArrayType/BintType/RealsType `__getitem__`), on top-level argument groups. -/

/-- Split a flat token list into its top-level arguments (a `dict` marker stays glued to the
    tuple that follows it). -/
def splitTopAux : List ArgTok → (depth : Nat) → (cur : List ArgTok) → List (List ArgTok) →
    Option (List (List ArgTok))
  | [], 0, [], acc => some acc.reverse
  | [], _, _, _ => Option.none
  | t :: ts, d, cur, acc =>
    let opens := t = .lp ∨ t = .fl
    let closes := t = .rp ∨ t = .fr
    if opens then splitTopAux ts (d + 1) (t :: cur) acc
    else if closes then
      match d with
      | 0 => Option.none
      | 1 => splitTopAux ts 0 [] ((t :: cur).reverse :: acc)
      | d' + 2 => splitTopAux ts (d' + 1) (t :: cur) acc
    else if t = .dict ∨ t = .sl then splitTopAux ts d (t :: cur) acc
    else if d = 0 then splitTopAux ts 0 [] ((t :: cur).reverse :: acc)
    else splitTopAux ts d (t :: cur) acc

def splitTop (args : List ArgTok) : Option (List (List ArgTok)) := splitTopAux args 0 [] []

def intOf : List ArgTok → Option Int
  | [.int z] => some z
  | [.bool b] => some (if b then 1 else 0)
  | _ => Option.none

/-- `cls.__call__` of the metaclass named `mcls` (from the generated class table). -/
def normArgs (mcls : String) (args : List (List ArgTok)) : Option (List (List ArgTok)) :=
  match mcls, args with
  | "FunsorMeta", as => some as
  -- SubsMeta filters `subs` to the argument's inputs and coerces values with `to_funsor`;
  -- only the empty substitution is modelled (anything else: outside the model)
  | "SubsMeta", [arg, [.lp, .rp]] => some [arg, [.lp, .rp]]
  | "TensorMeta", [data] => some [data, [.lp, .rp], [.str "real"]]
  | "TensorMeta", [data, inputs] => tensor data inputs [.str "real"]
  | "TensorMeta", [data, inputs, dtype] => tensor data inputs dtype
  | "NumberMeta", [data] => some [data, [.str "real"]]
  | "NumberMeta", [data, dtype] => some [data, if dtype = [.none] then [.str "real"] else dtype]
  | "CatMeta", [name, parts] => some [name, parts, name]
  | "CatMeta", [name, parts, pn] => some [name, parts, if pn = [.none] then name else pn]
  | "SliceMeta", [name, stop] => slice name (some 0) (intOf stop) (some 1) (intOf stop)
  | "SliceMeta", [name, start, stop] => slice name (intOf start) (intOf stop) (some 1) (intOf stop)
  | "SliceMeta", [name, start, stop, st] => slice name (intOf start) (intOf stop) (intOf st) (intOf stop)
  | "SliceMeta", [name, start, stop, st, dt] =>
      slice name (intOf start) (intOf stop) (intOf st) (intOf dt)
  -- OpMeta.__call__: key = hash_args_kwargs(args[arity:], kwargs) = (args, tuple(kwargs.items()))
  -- after bind_partial/apply_defaults — the *tuple itself*, so the dict compares keys with ==
  -- (hash(-1) == hash(-2) but -1 != -2: distinct keys).  The harness passes the bound positional
  -- parameters; kwargs are empty after binding.
  | "OpMeta", as => some [[.lp] ++ as.flatten ++ [.rp], [.lp, .rp]]
  -- GetsliceMeta.hash_args_kwargs: index (made a tuple if it is not one); every slice element is
  -- replaced by the triple (start, stop, step) *as given* (None stays None); the key is that tuple
  | "GetsliceMeta", [index] =>
    match index with
    | .lp :: rest => (splitTop rest.dropLast).map (fun gs => gs.map unslice)
    | _ => some [unslice index]
  -- ReshapeMeta.hash_args_kwargs: shape -> tuple(shape), then OpMeta's key
  | "ReshapeMeta", [shape] => some [[.lp] ++ shape ++ [.rp], [.lp, .rp]]
  -- ArrayType.__getitem__: key = (dtype, shape)
  | "Array", [dtype, shape] => some [dtype, shape]
  -- BintType.__getitem__: `Bint[n]` -> (n, ()); `Bint[n, s1, ..]` (a tuple) -> (n, (s1, ..))
  | "Bint", [g] =>
    match g with
    | .lp :: sz :: rest => if rest = [] then Option.none else some [[sz], .lp :: rest]
    | _ => some [g, [.lp, .rp]]
  | "Reals", as => some [[.str "real"], [.lp] ++ as.flatten ++ [.rp]]
  -- ProductDomain.__getitem__: key = the tuple of domains itself
  | "Product", as => some as
  | _, _ => Option.none
where
  unslice (g : List ArgTok) : List ArgTok :=
    match g with
    | .sl :: rest => rest
    | other => other
  tensor (data inputs dtype : List ArgTok) : Option (List (List ArgTok)) :=
    let inputs' := if inputs = [.none] then [.lp, .rp]
                   else match inputs with
                     | .dict :: rest => rest
                     | other => other
    some [data, inputs', dtype]
  slice (name : List ArgTok) (start stop st dt : Option Int) : Option (List (List ArgTok)) :=
    match start, stop, st, dt with
    | some a, some b, some c, some d =>
      if c ≤ 0 then Option.none   -- ValueError
      else some [name, [.int a], [.int (min d (max a b))], [.int c], [.int d]]
    | _, _, _, _ => Option.none

/-- Constructor call as the user writes it: metaclass normalisation, then `construct`. -/
def call (s : St) (mcls : String) (cls : Nat) (cyc : Bool) (args : List ArgTok) (nid : Id) :
    Except Err (St × Id) :=
  match splitTop args with
  | Option.none => .error .badArgs
  | some groups =>
    match normArgs mcls groups with
    | Option.none => .error .badArgs
    | some gs => construct s cls cyc gs.flatten nid

/-! ### Keyword call forms (`FunsorMeta.__call__`, terms.py: "Convert kwargs to args") -/

def lookupKw (kws : List (String × List ArgTok)) (n : String) : Option (List ArgTok) :=
  match kws with
  | [] => Option.none
  | kv :: rest => if kv.1 = n then some kv.2 else lookupKw rest n

/-- `if kwargs: for name in cls._ast_fields[len(args):]: args.append(kwargs.pop(name));
    assert not kwargs`: the keyword values are appended in FIELD order, whatever order the call
    wrote them in; a missing field (KeyError) or a left-over keyword (assert) is `none`. -/
def kwargsToArgs (fields : List String) (pos : List (List ArgTok))
    (kws : List (String × List ArgTok)) : Option (List (List ArgTok)) :=
  if kws.isEmpty then some pos
  else
    let rest := fields.drop pos.length
    match rest.mapM (lookupKw kws) with
    | Option.none => Option.none
    | some vs => if kws.all (fun kv => decide (kv.1 ∈ rest)) then some (pos ++ vs) else Option.none

/-- What the mutant of the seeded defect does instead: values in CALL order. -/
def kwargsToArgsCallOrder (pos : List (List ArgTok)) (kws : List (String × List ArgTok)) :
    List (List ArgTok) := pos ++ kws.map (·.2)

/-- Constructor call with keyword arguments: kwargs -> args, metaclass normalisation, `construct`. -/
def callKw (s : St) (fields : List String) (mcls : String) (cls : Nat) (cyc : Bool)
    (pos : List (List ArgTok)) (kws : List (String × List ArgTok)) (nid : Id) :
    Except Err (St × Id) :=
  match kwargsToArgs fields pos kws with
  | Option.none => .error .badArgs
  | some groups =>
    match normArgs mcls groups with
    | Option.none => .error .badArgs
    | some gs => construct s cls cyc gs.flatten nid

end FV.C07
