/-
  Model/C08.lean — normal forms and contraction-order optimisation (funsor/cnf.py:400-600,
  funsor/optimizer.py:24-167).

  Everything is polymorphic in the carrier `α` with semiring operations `Ops α`; the driver
  instantiates `α := XR` with the operations of `Core/Semiring.lean`, the theorems of
  Props/C08.lean instantiate `α := R` for an arbitrary commutative semiring `R`.

    §1  named finite sums     `sum1`, `sumVars`  (⨁ over the assignments of named bounded-integer
                              variables; sizes come from a global `size : Name → Nat`), `prodL` (⨂)
    §2  the optimizer         `optStep`, `optLoop`, `optimize` — `optimize_contract_finitary_funsor`
                              (optimizer.py:106-159) with the contraction PATH AS A PARAMETER
                              (opt_einsum's `greedy` is an external call)
    §3  sum-product terms     `Ex α`: the fragment of the term language the normalize / unfold rules
                              act on (leaf, number, Binary, Reduce, Contraction, renaming Subs, Unary)
                              and its value `Ex.eval`
    §4  the rules             each rule of cnf.py:400-600 and optimizer.py:24-71 as a rewrite
                              `Ex α → Option (Ex α)` (`none` = the rule does not fire = reflect)
    §5  the normaliser        `normRoot` (the if-cascade of `normalize_contraction_generic_tuple` in
                              source order) and the bottom-up `norm`

  Core-only (the driver links natively).
-/
namespace FV.C08

abbrev Name := String
/-- An assignment of the named bounded-integer inputs. -/
abbrev Env := Name → Nat

def upd (env : Env) (n : Name) (i : Nat) : Env := fun m => if m = n then i else env m

structure Ops (α : Type) where
  add : α → α → α
  mul : α → α → α
  zero : α
  one : α

variable {α : Type}

/-! ## §1 named finite sums -/

/-- `⨁_{i < k} f i` (left fold from the additive unit, as `functools.reduce`). -/
def sumN (o : Ops α) (k : Nat) (f : Nat → α) : α :=
  (List.range k).foldl (fun acc i => o.add acc (f i)) o.zero

/-- `⨁_{n < size n} f`. -/
def sum1 (o : Ops α) (size : Name → Nat) (n : Name) (f : Env → α) : Env → α :=
  fun env => sumN o (size n) (fun i => f (upd env n i))

/-- `⨁_{vars} f`: the sum over all assignments of the listed variables. -/
def sumVars (o : Ops α) (size : Name → Nat) : List Name → (Env → α) → Env → α
  | [], f => f
  | n :: vs, f => sum1 o size n (sumVars o size vs f)

/-- `⨂` of a list of values. -/
def prodV (o : Ops α) (xs : List α) : α := xs.foldr o.mul o.one

/-- `⨂_{operands}`, pointwise. -/
def prodL (o : Ops α) (fs : List (Env → α)) : Env → α := fun env => prodV o (fs.map (· env))

/-- `|vars|`-fold multiplicity `⨁_{vars} 1`. -/
def multiplicity (size : Name → Nat) (vars : List Name) : Nat := (vars.map size).foldr (· * ·) 1

/-! ## §2 the optimizer (optimizer.py:106-159) -/

/-- An operand as the optimizer sees it: its set of input names and its value. -/
structure Operand (α : Type) where
  ins : List Name
  sem : Env → α

/-- The loop state: the `operands` list and `reduce_dim_counter` (a `collections.Counter`:
    missing keys read as 0, counts may be any integer). -/
structure OptState (α : Type) where
  operands : List (Operand α)
  counter : Name → Int

/-- `operands.pop(i)`. -/
def popAt {τ : Type} : List τ → Nat → Option (τ × List τ)
  | [], _ => none
  | x :: xs, 0 => some (x, xs)
  | x :: xs, i + 1 => (popAt xs i).map fun (y, r) => (y, x :: r)

/-- `counter.subtract({d: 1 for d in l})` / `counter.update({d: 1 for d in l})`. -/
def cSub (c : Name → Int) (l : List Name) : Name → Int := fun d => if d ∈ l then c d - 1 else c d
def cAdd (c : Name → Int) (l : List Name) : Name → Int := fun d => if d ∈ l then c d + 1 else c d

def lInter (a b : List Name) : List Name := a.filter (· ∈ b)
def lDiff (a b : List Name) : List Name := a.filter (· ∉ b)
def lUnion (a b : List Name) : List Name := a ++ b.filter (· ∉ a)

/-- The initial counter: the number of operands whose inputs mention `d`
    (`for input in inputs: reduce_dim_counter.update({d: 1 for d in input})`). -/
def initCounter (terms : List (Operand α)) : Name → Int :=
  fun d => ((terms.filter (fun t => d ∈ t.ins)).length : Int)

/-- What one iteration did (for the fidelity comparison with the real run). -/
structure StepTrace where
  lo : Nat
  hi : Nat
  pathEndVars : List Name
  deriving Repr

/-- One iteration `for a, b in path` (optimizer.py:128-153).  `none`: malformed path step
    (`a = b` or an index out of range — `list.pop` raises / pops an unrelated operand). -/
def optStep (o : Ops α) (size : Name → Nat) (reduced : List Name) (st : OptState α) (a b : Nat) :
    Option (OptState α × StepTrace) :=
  let hi := max a b
  let lo := min a b
  if lo = hi then none else
  match popAt st.operands hi with
  | none => none
  | some (tb, ops1) =>
    match popAt ops1 lo with
    | none => none
    | some (ta, ops2) =>
      let c1 := cSub st.counter (lInter reduced ta.ins)
      let c2 := cSub c1 (lInter reduced tb.ins)
      let both := lUnion ta.ins tb.ins
      let pev := (lInter reduced both).filter (fun d => c2 d = 0)
      let c3 := cAdd c2 (lInter reduced (lDiff both pev))
      let pathEnd : Operand α :=
        { ins := lDiff both pev
          sem := sumVars o size pev (fun env => o.mul (ta.sem env) (tb.sem env)) }
      some ({ operands := ops2 ++ [pathEnd], counter := c3 }, ⟨lo, hi, pev⟩)

def optLoop (o : Ops α) (size : Name → Nat) (reduced : List Name) :
    OptState α → List (Nat × Nat) → Option (OptState α × List StepTrace)
  | st, [] => some (st, [])
  | st, (a, b) :: rest =>
    match optStep o size reduced st a b with
    | none => none
    | some (st', tr) => (optLoop o size reduced st' rest).map fun (s, trs) => (s, tr :: trs)

/-- `final_reduced_vars` (optimizer.py:155-158). -/
def finalVars (reduced : List Name) (c : Name → Int) : List Name := reduced.filter (fun d => c d > 0)

/-- `optimize_contract_finitary_funsor` after the path is known.  The result is `path_end`, the
    operand appended LAST (python never looks at `operands` again), reduced over the variables whose
    counter is still positive.  `none`: malformed path, or empty path (`path_end` unbound). -/
def optimize (o : Ops α) (size : Name → Nat) (reduced : List Name) (terms : List (Operand α))
    (path : List (Nat × Nat)) : Option (Operand α × List StepTrace × List Name) :=
  if path.isEmpty then none else
  match optLoop o size reduced { operands := terms, counter := initCounter terms } path with
  | none => none
  | some (st, trs) =>
    match st.operands.getLast? with
    | none => none
    | some pe =>
      let fin := finalVars reduced st.counter
      some ({ ins := lDiff pe.ins fin, sem := sumVars o size fin pe.sem }, trs, fin)

/-- The specification: `⨁_{reduced} ⨂_{terms}`. -/
def contractSpec (o : Ops α) (size : Name → Nat) (reduced : List Name) (terms : List (Operand α)) :
    Env → α :=
  sumVars o size reduced (prodL o (terms.map (·.sem)))


/-! ## §3 sum-product terms -/

/-- Operator kinds relative to the semiring: `null` (ops.null), `add` (⊕), `mul` (⊗). -/
inductive OpK where
  | null | add | mul
  deriving DecidableEq, Repr, Inhabited

/-- What a substitution binds a name to: another variable (renaming) or a number. -/
inductive Arg where
  | var (n : Name)
  | lit (k : Nat)
  deriving DecidableEq, Repr

/-- The fragment of funsor's term language the normalize / unfold rules act on.
    `leaf`: any operand the rules treat as opaque (Tensor, Variable, Gaussian, …) with its input names. -/
inductive Ex (α : Type) where
  | leaf (ins : List Name) (f : Env → α)
  | num (c : α)
  | binary (op : OpK) (l r : Ex α)
  | reduce (op : OpK) (vars : List Name) (e : Ex α)
  | contr (red bin : OpK) (vars : List Name) (ts : List (Ex α))
  | subs (e : Ex α) (σ : List (Name × Arg))
  /-- `hom`: the operator over whose product-free Contractions `unary_contract` distributes this op
      (`add` for negation, `mul` for reciprocal; `null`: the rule is not registered for it). -/
  | unary (hom : OpK) (u : α → α) (e : Ex α)
  /-- A Binary with a non-associative op `f` (sub, truediv): `k ≠ null` says the normalize rules
      `binary_subtract` / `binary_divide` rewrite it to `l ⟨k⟩ u(r)` (`k = null`: opaque). -/
  | binop (k : OpK) (u : α → α) (f : α → α → α) (l r : Ex α)

def sumV (o : Ops α) (xs : List α) : α := xs.foldr o.add o.zero

/-- `reduce(bin_op, values)`; `null` is only meaningful for a single value (Contraction.__init__ asserts it). -/
def binFold (o : Ops α) : OpK → List α → α
  | .mul, xs => prodV o xs
  | .add, xs => sumV o xs
  | .null, [x] => x
  | .null, _ => o.one

/-- Reduction over named variables; only `null` (no variables) and `add` (⊕) are in the fragment. -/
def redFold (o : Ops α) (size : Name → Nat) : OpK → List Name → (Env → α) → Env → α
  | .add, vs, f => sumVars o size vs f
  | _, _, f => f

/-- Simultaneous substitution on environments. -/
def applySubs (σ : List (Name × Arg)) (env : Env) : Env := fun n =>
  match σ.lookup n with
  | some (.var m) => env m
  | some (.lit k) => k
  | none => env n

mutual
  /-- The value of a term (`⨁_vars ⨂_terms` for a Contraction). -/
  def Ex.eval (o : Ops α) (size : Name → Nat) : Ex α → Env → α
    | .leaf _ f, env => f env
    | .num c, _ => c
    | .binary op l r, env => binFold o op [l.eval o size env, r.eval o size env]
    | .reduce op vars e, env => redFold o size op vars (fun env' => e.eval o size env') env
    | .contr red bin vars ts, env =>
        redFold o size red vars (fun env' => binFold o bin (evalList o size ts env')) env
    | .subs e σ, env => e.eval o size (applySubs σ env)
    | .unary _ u e, env => u (e.eval o size env)
    | .binop _ _ f l r, env => f (l.eval o size env) (r.eval o size env)
  def evalList (o : Ops α) (size : Name → Nat) : List (Ex α) → Env → List α
    | [], _ => []
    | t :: ts, env => t.eval o size env :: evalList o size ts env
end

mutual
  /-- The input names of a term (`.inputs`): free names only. -/
  def Ex.ins : Ex α → List Name
    | .leaf ins _ => ins
    | .num _ => []
    | .binary _ l r => lUnion l.ins r.ins
    | .reduce _ vars e => lDiff e.ins vars
    | .contr _ _ vars ts => lDiff (insList ts) vars
    | .subs e σ => (lDiff e.ins (σ.map (·.1))) ++
        (σ.filterMap fun p => match p.2 with | .var m => if p.1 ∈ e.ins then some m else none | .lit _ => none)
    | .unary _ _ e => e.ins
    | .binop _ _ _ l r => lUnion l.ins r.ins
  def insList : List (Ex α) → List Name
    | [] => []
    | t :: ts => lUnion t.ins (insList ts)
end

/-- The constructor assertions of `Contraction.__init__` (cnf.py:48-63) at the root, within the fragment. -/
def wfContr (red bin : OpK) (vars : List Name) (ts : List (Ex α)) : Bool :=
  !ts.isEmpty && red != .mul && !(red == .null && bin == .null) &&
  (if red == .null then vars.isEmpty
   else if bin == .null then ts.length == 1
   else !vars.isEmpty && ts.length > 1 && red == .add && bin == .mul)

/-! ## §4 the rules -/

/-- Python's `for i, v in enumerate(terms): if cond(v): return f(terms[:i], v, terms[i+1:])`. -/
def scanSplit {τ β : Type} (f : List τ → τ → List τ → Option β) : List τ → List τ → Option β
  | _, [] => none
  | pre, v :: post =>
    match f pre v post with
    | some r => some r
    | none => scanSplit f (pre ++ [v]) post

/-- `red_op = v.red_op if red_op is ops.null else red_op`. -/
def orOp (a b : OpK) : OpK := if a = .null then b else a

/-- cnf.py:466-467 `if not reduced_vars and red_op is not ops.null`. -/
def ruleNullRed : Ex α → Option (Ex α)
  | .contr red bin vars ts => if vars.isEmpty ∧ red ≠ .null then some (.contr .null bin vars ts) else none
  | _ => none

/-- cnf.py:469-470 `if len(terms) == 1 and bin_op is not ops.null`. -/
def ruleSingle : Ex α → Option (Ex α)
  | .contr red bin vars [t] => if bin ≠ .null then some (.contr red .null vars [t]) else none
  | _ => none

/-- cnf.py:472-473 `if red_op is ops.null and bin_op is ops.null: return terms[0]`. -/
def ruleTrivial : Ex α → Option (Ex α)
  | .contr .null .null _ (t :: _) => some t
  | _ => none

/-- cnf.py:475-477 `if red_op is bin_op`: every term is reduced (fixed in 4cb8543 for the eager rule). -/
def ruleRedIsBin : Ex α → Option (Ex α)
  | .contr red bin vars ts =>
    if red = bin ∧ red ≠ .null then some (.contr red bin [] (ts.map (.reduce red vars))) else none
  | _ => none

def isUnitNum (isU : α → Bool) : Ex α → Bool
  | .num c => isU c
  | _ => false

/-- cnf.py:479-489 unit removal; `isU bin c` is `c == ops.UNITS[bin_op]` (generated table). -/
def ruleUnits (isU : OpK → α → Bool) : Ex α → Option (Ex α)
  | .contr red bin vars ts =>
    if bin ≠ .null ∧ ts.any (isUnitNum (isU bin)) = true then
      let new := ts.filter (fun t => !isUnitNum (isU bin) t)
      some (.contr red bin vars (if new.isEmpty then ts.take 1 else new))
    else none
  | _ => none

/-- cnf.py:495-511 fuse a nested Contraction without distributing.  (Since 34c1080 the code skips the
    fusion when the resulting pair of operators is not distributive; within this fragment — ⊕, ⊗ of one
    semiring — every resulting pair is `(⊕,⊗)`, `(⊕,⊕)` or has a `null`, so the guard never applies.) -/
def fuseAt (red bin : OpK) (vars : List Name) (pre : List (Ex α)) (v : Ex α) (post : List (Ex α)) :
    Option (Ex α) :=
  match v with
  | .contr r' b' vars' ts' =>
    if (r' = .null ∧ bin = b') ∨ (bin = .null ∧ (r' = red ∨ r' = .null)) then
      some (.contr (orOp red r') (orOp bin b') (lUnion vars vars') (pre ++ ts' ++ post))
    else none
  | _ => none

def ruleFuse : Ex α → Option (Ex α)
  | .contr red bin vars ts => scanSplit (fuseAt red bin vars) [] ts
  | _ => none

/-- cnf.py:517-519 `binary_to_contract`. -/
def ruleBinary : Ex α → Option (Ex α)
  | .binary op l r => if op ≠ .null then some (.contr .null op [] [l, r]) else none
  | _ => none

/-- cnf.py:522-524 `reduce_funsor`. -/
def ruleReduce : Ex α → Option (Ex α)
  | .reduce op vars e => if op ≠ .null then some (.contr op .null vars [e]) else none
  | _ => none

/-- Restriction of a substitution to the names a term mentions. -/
def restrictSubs (σ : List (Name × Arg)) (ins : List Name) : List (Name × Arg) := σ.filter (fun p => p.1 ∈ ins)

/-- cnf.py:551-561 `distribute_subs_contraction`: ONE `Subs` per term carrying ALL the bindings that term
    mentions — the binding list `σ` is applied simultaneously (`applySubs`). -/
def ruleSubsContr : Ex α → Option (Ex α)
  | .subs (.contr red bin vars ts) σ =>
    some (.contr red bin vars (ts.map fun t =>
      if (restrictSubs σ t.ins).isEmpty then t else .subs t (restrictSubs σ t.ins)))
  | _ => none

/-- What `distribute_subs_contraction` must NOT do: push the bindings into each term ONE AT A TIME
    (`v = Subs(v, ((name, sub),))` in a loop).  A substitution with several bindings is simultaneous; applied
    sequentially, a binding whose value is the key of a later binding is substituted again.  (Only used by
    the witness theorem `subs_sequential_witness`.) -/
def ruleSubsContrSequential : Ex α → Option (Ex α)
  | .subs (.contr red bin vars ts) σ =>
    some (.contr red bin vars (ts.map fun t =>
      (restrictSubs σ t.ins).foldl (fun acc b => .subs acc [b]) t))
  | _ => none

/-- cnf.py:592-599 `unary_contract`: a unary op distributes over a product-free Contraction of the
    operator it is registered for (`neg` over `+`, `reciprocal` over `*`). -/
def ruleUnaryContr : Ex α → Option (Ex α)
  | .unary hom u (.contr .null bin vars ts) =>
    if bin ≠ .null ∧ bin = hom then some (.contr .null bin vars (ts.map (.unary hom u))) else none
  | _ => none

/-- cnf.py:574-581 `binary_subtract` (`lhs + -rhs`) and `binary_divide` (`lhs * reciprocal(rhs)`). -/
def ruleBinopInv : Ex α → Option (Ex α)
  | .binop k u _ l r => if k ≠ .null then some (.binary k l (.unary k u r)) else none
  | _ => none

/-- cnf.py:413-430 `normalize_contraction_commutative_canonical_order`: two ground terms under the
    commutative `ops.add` (`addK`: what `ops.add` is in this semiring) are put in the order of
    `ORDERING` (`ground t = some rank`; `none`: not a ground term); if they already are, the generic
    cascade runs. -/
def ruleCanonOrder (addK : OpK) (ground : Ex α → Option Nat) : Ex α → Option (Ex α)
  | .contr red bin vars [a, b] =>
    match ground a, ground b with
    | some ka, some kb => if bin = addK ∧ kb < ka then some (.contr red bin vars [b, a]) else none
    | _, _ => none
  | _ => none

/-- optimizer.py:28-69, one position `i` of the loop: distribute / pull the reduction out / fuse. -/
def unfoldAt (red bin : OpK) (vars : List Name) (pre : List (Ex α)) (v : Ex α) (post : List (Ex α)) :
    Option (Ex α) :=
  match v with
  | .contr r' b' vars' ts' =>
    if r' = .null ∧ b' = .add ∧ bin = .mul then
      -- a * e * (b + c + d) -> (a * e * b) + (a * e * c) + (a * e * d)
      some (.contr red b' vars (ts'.map fun vt => .contr r' bin vars' (pre ++ vt :: post)))
    else if (red = r' ∨ red = .null) ∧ r' = .add ∧ bin = .mul then
      some (.reduce red vars (.contr r' bin vars' (pre ++ .contr r' b' [] ts' :: post)))
    else if (r' = red ∨ r' = .null) ∧ (bin = b' ∨ bin = .null) then
      some (.contr (orOp red r') (orOp bin b') (lUnion vars vars') (pre ++ ts' ++ post))
    else none
  | _ => none

/-- What the unit-removal step must NOT do when EVERY operand is the unit: return the bare unit
    (`return terms[0]`) instead of re-wrapping it in the Contraction — the pending reduction over
    `vars` (and its multiplicity) is dropped.  (Only used by `drop_reduce_unsound_witness`.) -/
def ruleUnitsDropReduce (isU : OpK → α → Bool) : Ex α → Option (Ex α)
  | .contr red bin vars ts =>
    if bin ≠ .null ∧ ts.any (isUnitNum (isU bin)) = true then
      let new := ts.filter (fun t => !isUnitNum (isU bin) t)
      if new.isEmpty then ts.head? else some (.contr red bin vars new)
    else none
  | _ => none

/-- What the canonical-order pass must NOT do: collect the operands in a SET / dict keyed by the operand
    (`rank = {v: …}; sorted(rank, key=rank.get)`) — an operand occurring twice (one interned object) is kept
    once.  `same` is the identity test.  (Only used by the witness theorem `canonOrder_by_set_witness`.) -/
def canonOrderBySet (same : Ex α → Ex α → Bool) : Ex α → Option (Ex α)
  | .contr red bin vars ts =>
    some (.contr red bin vars (ts.foldl (fun acc t => if acc.any (same t) then acc else acc ++ [t]) []))
  | _ => none

/-- What the distribution branch must NOT do: select "the other factors" by an identity test
    (`others = tuple(t for t in terms if t is not v)`) instead of by POSITION (`terms[:i] + terms[i+1:]`,
    as `unfoldAt`'s `pre` / `post`).  Funsors are interned, so an equal factor occurring twice is one
    object and the test drops both copies.  `same` is the identity test.  (Only used by the witness
    theorem `distribute_by_identity_witness`.) -/
def distributeByIdentity (same : Ex α → Ex α → Bool) (red bin : OpK) (vars : List Name) (ts : List (Ex α))
    (v : Ex α) : Option (Ex α) :=
  match v with
  | .contr r' b' vars' ts' =>
    some (.contr red b' vars (ts'.map fun vt => .contr r' bin vars' ((ts.filter fun t => !same t v) ++ [vt])))
  | _ => none

def ruleUnfold : Ex α → Option (Ex α)
  | .contr red bin vars ts => scanSplit (unfoldAt red bin vars) [] ts
  | _ => none

/-! ## §5 the normaliser -/

/-- `normalize_contraction_generic_tuple` (cnf.py:464-507): the if-cascade in source order, preceded by
    the rules that create Contractions from Binary / Reduce and that distribute Subs / Unary. -/
def normRoot (isU : OpK → α → Bool) (t : Ex α) : Option (Ex α) :=
  (ruleBinary t).orElse fun _ => (ruleReduce t).orElse fun _ => (ruleBinopInv t).orElse fun _ =>
  (ruleSubsContr t).orElse fun _ =>
  (ruleUnaryContr t).orElse fun _ => (ruleNullRed t).orElse fun _ => (ruleSingle t).orElse fun _ =>
  (ruleTrivial t).orElse fun _ => (ruleRedIsBin t).orElse fun _ => (ruleUnits isU t).orElse fun _ =>
  ruleFuse t

/-- Iterate a root rewrite until it no longer fires (at most `fuel` times). -/
def iterRoot (step : Ex α → Option (Ex α)) : Nat → Ex α → Ex α
  | 0, t => t
  | n + 1, t => match step t with
    | none => t
    | some t' => iterRoot step n t'

/-- Apply `f` to the direct sub-terms. -/
def mapChildren (f : Ex α → Ex α) : Ex α → Ex α
  | .binary op l r => .binary op (f l) (f r)
  | .reduce op vars e => .reduce op vars (f e)
  | .contr red bin vars ts => .contr red bin vars (ts.map f)
  | .subs e σ => .subs (f e) σ
  | .unary h u e => .unary h u (f e)
  | .binop k u g l r => .binop k u g (f l) (f r)
  | t => t

/-- Bottom-up normalisation as `reinterpret` does it: children first, then the root rule; a term the
    rule produces is normalised again (`fuel` bounds the number of nested re-normalisations). -/
def norm (isU : OpK → α → Bool) : Nat → Ex α → Ex α
  | 0, t => t
  | fuel + 1, t =>
    let t' := mapChildren (norm isU fuel) t
    match normRoot isU t' with
    | none => t'
    | some t'' => norm isU fuel t''

/-- A flat normal form: a well-formed Contraction none of whose operands is a Contraction, a Binary, a
    Reduce or a ⊗-unit number (`Delta, Number, Tensor, Gaussian` leaves in the code's words). -/
def isFlatOperand (isU : α → Bool) : Ex α → Bool
  | .leaf _ _ => true
  | .num c => !isU c
  | _ => false

def isFlat (isU : OpK → α → Bool) : Ex α → Bool
  | .contr red bin vars ts =>
    wfContr red bin vars ts && red != bin && (red == .null || !vars.isEmpty) && (bin == .null || ts.length > 1)
      && ts.all (isFlatOperand (isU bin))
  | .leaf _ _ => true
  | .num _ => true
  | _ => false

end FV.C08
