/-
  Model/C09.lean — plated sum-product (funsor/sum_product.py:31-61, 205-341, 344-622;
  funsor/einsum/__init__.py:78-112).

  Factors are dense tables over named bounded-integer inputs, with values in any carrier `α`
  equipped with semiring operations `Ops α` (the driver instantiates `α := XR`, `Ops` from `SR`).

    unroll        the property's oracle: every eliminated variable is replicated once per index of
                  the (eliminated) plates it lives in — its ordinal, the intersection of the plate
                  sets of the factors that mention it —, every factor once per index of its own
                  plates; all instances are multiplied and the copies summed out.  Literal
                  enumeration, no algebra.  A plate scale `s` repeats the plate `s` times.
    partition     `_partition`: connected components of the leaf factors w.r.t. the leaf variables
    pspLoop       the `while ordinal_to_factors` loop of `partial_sum_product`: leaf = first key of
                  maximal length, per component multiply / sum out / decide between `results`,
                  "intractable!" and product-reducing `leaf - new_plates`
    psp           `partial_sum_product`;  `modified := true` gives the bookkeeping of
                  `modified_partial_sum_product` / `dynamic_partial_sum_product` restricted to empty
                  Markov steps (ordinals over *all* plates of `plate_to_step`, not `plates & eliminate`;
                  only eliminated plates are ever product-reduced)
    sumProduct    `sum_product` (product of the results, unit for the empty list)
    einsumElim    the front end of `naive_plated_einsum`
-/
import FunsorVerif.Core.XR
import FunsorVerif.Core.Semiring
namespace FV.C09

abbrev Name := String
abbrev Env := List (Name × Nat)

inductive Err where
  | intractable      -- ValueError("intractable!")
  | malformed        -- inconsistent sizes / data length: never sent by the harness
  | notImplemented   -- naive_plated_einsum: output plate missing from some operand
  | pedantic         -- ValueError("Cannot eliminate plate … containing preserved var …")
  | fuel             -- loop bound exhausted (cannot happen: see `pspFuel`)
  deriving Repr, DecidableEq, Inhabited

def Err.toString : Err → String
  | .intractable => "intractable"
  | .malformed => "malformed"
  | .notImplemented => "notimplemented"
  | .pedantic => "pedantic"
  | .fuel => "fuel"

structure Ops (α : Type) where
  add : α → α → α
  mul : α → α → α
  zero : α
  one : α

structure Factor (α : Type) where
  inputs : List (Name × Nat)
  data : List α

variable {α : Type}

/-! ### finite sets of names as sorted duplicate-free lists -/

def ins (x : Name) : List Name → List Name
  | [] => [x]
  | y :: ys => if x < y then x :: y :: ys else if x == y then y :: ys else y :: ins x ys

def sset (l : List Name) : List Name := l.foldl (fun acc x => ins x acc) []
def inter (a b : List Name) : List Name := a.filter (b.contains ·)
def diff (a b : List Name) : List Name := a.filter (fun x => !b.contains x)
def union (a b : List Name) : List Name := sset (a ++ b)

def interAll : List (List Name) → List Name
  | [] => []
  | [o] => o
  | o :: os => inter o (interAll os)

/-! ### dense tables -/

def Factor.names (f : Factor α) : List Name := f.inputs.map (·.1)
def Factor.has (f : Factor α) (n : Name) : Bool := f.names.contains n

/-- Row-major offset of the point `env` in a table with the given inputs. -/
def ravel (env : Env) : List (Name × Nat) → Nat → Option Nat
  | [], acc => some acc
  | (n, s) :: rest, acc =>
    match env.lookup n with
    | some x => if x < s then ravel env rest (acc * s + x) else none
    | none => none

def Factor.eval (f : Factor α) (env : Env) : Option α :=
  match ravel env f.inputs 0 with
  | some i => f.data[i]?
  | none => none

/-- All points of a list of sized inputs, in row-major order. -/
def points : List (Name × Nat) → List Env
  | [] => [[]]
  | (n, s) :: rest => (List.range s).flatMap fun x => (points rest).map fun e => (n, x) :: e

def tabulate (inputs : List (Name × Nat)) (fn : Env → Option α) : Option (Factor α) :=
  ((points inputs).mapM fn).map fun d => ⟨inputs, d⟩

def wellFormed (f : Factor α) : Bool :=
  f.data.length == (f.inputs.map (·.2)).foldl (· * ·) 1 && f.names.eraseDups.length == f.names.length

def foldOpt (op : α → α → α) (init : α) (xs : List (Option α)) : Option α :=
  xs.foldl (fun acc x => match acc, x with
    | some a, some b => some (op a b)
    | _, _ => none) (some init)

def mulF (o : Ops α) (a b : Factor α) : Option (Factor α) :=
  tabulate (a.inputs ++ b.inputs.filter fun p => !a.has p.1) fun e =>
    match a.eval e, b.eval e with
    | some x, some y => some (o.mul x y)
    | _, _ => none

/-- `f.reduce(op, vars)` for the names of `vars` that are inputs of `f`. -/
def reduceF (op : α → α → α) (unit : α) (f : Factor α) (vars : List Name) : Option (Factor α) :=
  let keep := f.inputs.filter fun p => !vars.contains p.1
  let red := f.inputs.filter fun p => vars.contains p.1
  tabulate keep fun e => foldOpt op unit ((points red).map fun r => f.eval (r ++ e))

def sumOut (o : Ops α) := reduceF o.add o.zero (α := α)
def prodOut (o : Ops α) := reduceF o.mul o.one (α := α)

def powNat (o : Ops α) (x : α) : Nat → α
  | 0 => o.one
  | 1 => x
  | n + 2 => o.mul (powNat o x (n + 1)) x

def powF (o : Ops α) (f : Factor α) (k : Nat) : Factor α := ⟨f.inputs, f.data.map (powNat o · k)⟩

def unitF (o : Ops α) : Factor α := ⟨[], [o.one]⟩

def prodAll (o : Ops α) : List (Factor α) → Option (Factor α)
  | [] => some (unitF o)
  | f :: fs => fs.foldl (fun acc g => acc.bind (mulF o · g)) (some f)

/-- Values of a factor at every point of `free` (inputs of `f` must be among `free`). -/
def tableOver (f : Factor α) (free : List (Name × Nat)) : Option (List α) :=
  (points free).mapM f.eval

/-! ### ordinals -/

def ordOf (P : List Name) (f : Factor α) : List Name := sset (f.names.filter (P.contains ·))

/-- `var_to_ordinal`: for each summed variable that occurs in some factor, the intersection of
    the ordinals of the factors mentioning it. -/
def varOrdinals (P S : List Name) (fs : List (Factor α)) : List (Name × List Name) :=
  let present := sset ((fs.flatMap Factor.names).filter (S.contains ·))
  present.map fun v => (v, interAll ((fs.filter (·.has v)).map (ordOf P)))

def sizeOf? (fs : List (Factor α)) (n : Name) : Option Nat :=
  (fs.flatMap (·.inputs)).lookup n

def sizesConsistent (fs : List (Factor α)) : Bool :=
  let all := fs.flatMap (·.inputs)
  all.all fun p => all.lookup p.1 == some p.2

/-! ### the oracle -/

def scaleOf (scales : List (Name × Nat)) (p : Name) : Nat := (scales.lookup p).getD 1

/-- Product over all instances of all factors, given the free point `fenv` and the assignment `X`
    of the replicated variables (keyed by variable and plate context). -/
def instProd (o : Ops α) (fs : List (Factor α)) (P : List Name) (O : List (Name × List Name))
    (rep : Name → Nat) (fenv : Env) (X : List ((Name × Env) × Nat)) : Option α :=
  foldOpt o.mul o.one <| fs.flatMap fun f =>
    let ord := ordOf P f
    (points (ord.map fun p => (p, rep p))).map fun ctx =>
      let env : Option Env := f.inputs.mapM fun (n, s) =>
        if ord.contains n then (ctx.lookup n).map fun x => (n, x % s)
        else match O.lookup n with
          | some on => (X.lookup (n, ctx.filter fun q => on.contains q.1)).map fun x => (n, x)
          | none => (fenv.lookup n).map fun x => (n, x)
      env.bind f.eval

def sumCopies (o : Ops α) (body : List ((Name × Env) × Nat) → Option α) :
    List ((Name × Env) × Nat) → List ((Name × Env) × Nat) → Option α
  | [], X => body X
  | (key, sz) :: rest, X =>
    foldOpt o.add o.zero ((List.range sz).map fun x => sumCopies o body rest ((key, x) :: X))

def unroll (o : Ops α) (fs : List (Factor α)) (elim plates : List Name) (scales : List (Name × Nat))
    (free : List (Name × Nat)) : Except Err (List α) :=
  if !(fs.all wellFormed && sizesConsistent fs) then .error .malformed else
  let P := sset (inter plates elim)
  let S := diff (sset elim) P
  let O := varOrdinals P S fs
  let rep : Name → Nat := fun p => ((sizeOf? fs p).getD 0) * scaleOf scales p
  let copies : List ((Name × Env) × Nat) := O.flatMap fun (v, ov) =>
    (points (ov.map fun p => (p, rep p))).map fun ctx => ((v, ctx), (sizeOf? fs v).getD 0)
  match (points free).mapM fun fenv => sumCopies o (instProd o fs P O rep fenv) copies [] with
  | some vs => .ok vs
  | none => .error .malformed

/-! ### `_partition` -/

def sharesVar (vars : List Name) (f g : Factor α) : Bool :=
  vars.any fun v => f.has v && g.has v

/-- Grow a component: move every factor of `rest` that shares a leaf variable with the component. -/
def grow (vars : List Name) : Nat → List (Factor α) → List (Factor α) → List (Factor α) × List (Factor α)
  | 0, comp, rest => (comp, rest)
  | fuel + 1, comp, rest =>
    let (inn, out) := rest.partition fun g => comp.any (sharesVar vars · g)
    if inn.isEmpty then (comp, rest) else grow vars fuel (comp ++ inn) out

def partition (vars : List Name) : Nat → List (Factor α) → List (List (Factor α) × List Name)
  | 0, _ => []
  | _, [] => []
  | fuel + 1, f :: rest =>
    let (comp, out) := grow vars rest.length [f] rest
    (comp, vars.filter fun v => comp.any (·.has v)) :: partition vars fuel out

/-! ### the elimination loop -/

structure St (α : Type) where
  pending : List (List Name × List (Factor α))   -- `ordinal_to_factors` (insertion-ordered dict)
  results : List (Factor α)

def addPending (k : List Name) (f : Factor α) :
    List (List Name × List (Factor α)) → List (List Name × List (Factor α))
  | [] => [(k, [f])]
  | (k', fs) :: rest => if k' == k then (k', fs ++ [f]) :: rest else (k', fs) :: addPending k f rest

/-- `max(ordinal_to_factors, key=len)`: the first key of maximal length. -/
def chooseLeaf : List (List Name × List (Factor α)) → Option (List Name)
  | [] => none
  | (k, _) :: rest =>
    match chooseLeaf rest with
    | some k' => if k'.length > k.length then some k' else some k
    | none => some k

structure Cfg where
  elim : List Name            -- `eliminate`
  P : List Name               -- plates used for ordinals
  prodVars : List Name        -- plates that may be product-reduced in the `results` branch
  S : List Name               -- `sum_vars`
  O : List (Name × List Name) -- `var_to_ordinal`
  scales : List (Name × Nat)
  modified : Bool

def applyScale (o : Ops α) (c : Cfg) (reduced : List Name) (f : Factor α) : Factor α :=
  let ss := reduced.filterMap fun p => c.scales.lookup p
  if ss.isEmpty then f else powF o f (ss.foldl (· * ·) 1)

/-- The body of the `for group_factors, group_vars in _partition(...)` loop. -/
def component (o : Ops α) (c : Cfg) (leaf : List Name) (st : St α)
    (grp : List (Factor α) × List Name) : Except Err (St α) :=
  match (prodAll o grp.1).bind (sumOut o · (inter grp.2 c.elim)) with
  | none => .error .malformed
  | some f =>
    let remaining := c.S.filter f.has
    if remaining.isEmpty then
      let red := inter leaf c.prodVars
      match prodOut o f red with
      | none => .error .malformed
      | some g => .ok { st with results := st.results ++ [applyScale o c red g] }
    else
      let newPlates := sset (remaining.flatMap fun v => (c.O.lookup v).getD [])
      if newPlates == leaf then .error .intractable
      else
        -- psp: `leaf - new_plates` (⊆ eliminate, asserted); modified/dynamic (after fix f15cd2e):
        -- `(leaf - new_plates) & prod_vars`, a kept plate stays an input of the factor
        let red := inter (diff leaf newPlates) c.prodVars
        match prodOut o f red with
        | none => .error .malformed
        | some g => .ok { st with pending := addPending newPlates (applyScale o c red g) st.pending }

def pspLoop (o : Ops α) (c : Cfg) : Nat → St α → Except Err (List (Factor α))
  | 0, _ => .error .fuel
  | fuel + 1, st =>
    match chooseLeaf st.pending with
    | none => .ok st.results
    | some leaf =>
      let leafFactors := (st.pending.lookup leaf).getD []
      let st' : St α := { st with pending := st.pending.filter (·.1 != leaf) }
      let leafVars := (c.O.filter (·.2 == leaf)).map (·.1)
      match (partition leafVars leafFactors.length leafFactors).foldlM (component o c leaf) st' with
      | .error e => .error e
      | .ok st'' => pspLoop o c fuel st''

def pedanticFails (fs : List (Factor α)) (elim plates : List Name) : Bool :=
  let kept := diff (diff (sset (fs.flatMap Factor.names)) plates) elim
  kept.any fun v =>
    !(inter (inter (sset elim) (interAll ((fs.filter (·.has v)).map (ordOf plates)))) plates).isEmpty

def mkCfg (fs : List (Factor α)) (elim plates : List Name) (scales : List (Name × Nat))
    (modified : Bool) : Cfg :=
  let Pe := sset (inter plates elim)
  let P := if modified then sset plates else Pe
  let S := diff (sset elim) (if modified then sset plates else Pe)
  { elim := elim, P := P, prodVars := Pe, S := S, O := varOrdinals P S fs, scales := scales,
    modified := modified }

/-- Every key is popped at most once and keys are subsets of `P`. -/
def pspFuel (c : Cfg) (n : Nat) : Nat := 2 ^ c.P.length + n + 1

def psp (o : Ops α) (fs : List (Factor α)) (elim plates : List Name) (scales : List (Name × Nat))
    (modified pedantic : Bool) : Except Err (List (Factor α)) :=
  if !(fs.all wellFormed && sizesConsistent fs) then .error .malformed else
  if pedantic && pedanticFails fs elim plates then .error .pedantic else
  let c := mkCfg fs elim plates scales modified
  let pending := fs.foldl (fun acc f => addPending (ordOf c.P f) f acc) []
  pspLoop o c (pspFuel c fs.length) ⟨pending, []⟩

def sumProduct (o : Ops α) (fs : List (Factor α)) (elim plates : List Name)
    (scales : List (Name × Nat)) : Except Err (Factor α) :=
  match psp o fs elim plates scales false false with
  | .error e => .error e
  | .ok rs => match prodAll o rs with
    | some f => .ok f
    | none => .error .malformed

/-- Two successive calls: the results of the first are the factors of the second. -/
def psp2 (o : Ops α) (fs : List (Factor α)) (e1 e2 plates : List Name) : Except Err (List (Factor α)) :=
  match psp o fs e1 plates [] false false with
  | .error e => .error e
  | .ok rs => psp o rs e2 plates [] false false

/-- `naive_plated_einsum`: which names are eliminated, or NotImplementedError. -/
def einsumElim (inputs : List (List Name)) (output plates : List Name) : Except Err (List Name) :=
  let inputDims := sset inputs.flatten
  let outputPlates := inter (sset output) plates
  if !(inputs.all fun inp => outputPlates.all (inp.contains ·)) then .error .notImplemented
  else .ok (union (diff (sset plates) output) (diff (diff inputDims output) plates))

end FV.C09
