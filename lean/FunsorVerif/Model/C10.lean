/-
  Model/C10.lean — Markov products (funsor/sum_product.py:625-795).

  A transition funsor with a time input of length T, restricted to one assignment of its batch
  inputs, is a list of T elements of a monoid (semiring matrices indexed by the joint previous /
  current state).  The algorithms are modelled on that list, generically in the product `f`.

    naive        naive_sequential_sum_product : pop the last two factors, multiply, push back
    halveIdx     one round of sequential_sum_product, with the Slice/Cat index arithmetic
                 (Slice(time,0,even,2,T), Slice(time,1,even,2,T), Slice(time,T-1,T) + Cat)
    halve        the same round, structurally (pair up neighbours, keep the odd tail)
    scan         sequential_sum_product : iterate the round until one factor is left
    mixed        mixed_sequential_sum_product with `num_segments`
    scanConst    the branch taken when `trans` does not mention `time` (squared per round,
                 declines on an odd tail because Cat refuses parts without the time input)

  Model/C10/Sarkka.lean: sarkka_bilmes_product / naive_sarkka_bilmes_product (names, period, slices, blocks,
  window chain) and eager_markov_product.
-/
namespace FV.C10

variable {α : Type}

/-- `factors[0] ⊗ (factors[1] ⊗ (… ⊗ factors[T-1]))`: what the pop/pop/append loop computes. -/
def naive (f : α → α → α) : List α → Option α
  | [] => none
  | [a] => some a
  | a :: b :: rest => (naive f (b :: rest)).map (f a)

/-- Left-to-right fold over time: the property's oracle. -/
def fold1 (f : α → α → α) : List α → Option α
  | [] => none
  | a :: rest => some (rest.foldl f a)

/-- One halving round, structurally. -/
def halve (f : α → α → α) : List α → List α
  | a :: b :: rest => f a b :: halve f rest
  | [a] => [a]
  | [] => []

/-- One halving round exactly as the code indexes it. -/
def halveIdx (f : α → α → α) (l : List α) : List α :=
  let d := l.length
  let even := d / 2 * 2
  let contracted := (List.range (even / 2)).filterMap fun i =>
    match l[0 + 2 * i]?, l[1 + 2 * i]? with
    | some x, some y => some (f x y)
    | _, _ => none
  if d > even then contracted ++ (l[d - 1]?).toList else contracted

theorem halve_length_le (f : α → α → α) : ∀ l : List α, (halve f l).length ≤ l.length
  | [] => by simp [halve]
  | [_] => by simp [halve]
  | _ :: _ :: rest => by
      have := halve_length_le f rest
      simp [halve]; omega

theorem halve_length_lt (f : α → α → α) (a b : α) (rest : List α) :
    (halve f (a :: b :: rest)).length < (a :: b :: rest).length := by
  have := halve_length_le f rest
  simp [halve]; omega

/-- sequential_sum_product: `while duration > 1: trans = round(trans)`; `return trans(time=0)`. -/
def scan (f : α → α → α) : List α → Option α
  | [] => none
  | [a] => some a
  | a :: b :: rest => scan f (halve f (a :: b :: rest))
termination_by l => l.length
decreasing_by exact halve_length_lt f a b rest

/-- The same loop driven by the index-level round (used by the driver). -/
def scanIdx (f : α → α → α) (fuel : Nat) (l : List α) : Option α :=
  match fuel with
  | 0 => none
  | fuel + 1 =>
    if l.length > 1 then scanIdx f fuel (halveIdx f l) else l[0]?

/-- mixed_sequential_sum_product; `k = num_segments`. `fuel` bounds the remainder recursion
    (one level suffices: the recursive call has `d % k = 0`). -/
def mixed (f : α → α → α) (k : Nat) : Nat → List α → Option α
  | 0, _ => none
  | fuel + 1, l =>
    let d := l.length
    if k = 0 ∨ d = 0 then none
    else if d % k ≠ 0 ∧ d - d % k > 0 then
      let initial := l.take (d - d % k)
      let remainder := l.drop (d - d % k)
      match mixed f k fuel initial with
      | none => none
      | some ie => naive f (ie :: remainder)
    else if k = 1 then naive f l
    else if k ≥ d then scan f l
    else
      let seg := d / k
      let firstStage := (List.range k).mapM fun i => naive f ((l.drop (i * seg)).take seg)
      match firstStage with
      | none => none
      | some rs => scan f rs

/-- Time-independent transition: every round squares it; an odd tail makes `Cat` refuse. -/
def scanConst (f : α → α → α) (x : α) : Nat → Nat → Option α
  | 0, _ => none
  | fuel + 1, d =>
    if d ≤ 1 then some x
    else if d % 2 = 1 then none        -- declines (AssertionError in Cat)
    else scanConst f (f x x) fuel (d / 2)

def pow (f : α → α → α) (x : α) : Nat → α
  | 0 => x
  | 1 => x
  | n + 2 => f (pow f x (n + 1)) x

end FV.C10
