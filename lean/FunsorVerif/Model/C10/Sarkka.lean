/-
  Model/C10/Sarkka.lean — sarkka_bilmes_product / naive_sarkka_bilmes_product
  (funsor/sum_product.py:798-937) and the eager rule of MarkovProduct (sum_product.py:1049-1064).

  Three layers.

  1. NAMES.  `_get_shift` / `_shift_name` on strings (`List Char`): a name is `"_PREV_" * s ++ base`;
     `getShiftS`, `shiftNameS` are the string functions of the code (regex `^(_PREV_)*`, `t * "_PREV_" + name`,
     `name.replace("_PREV_" * -t, "", 1)`); `shiftIdx` is the same arithmetic on the shift count alone.

  2. INDEX PLAN.  `period` (= reduce(lambda a, b: a*b//gcd(a,b), lags)), `sliceList` (funsor's
     `Slice(name, start, stop, step, dtype)` as the list of source indices), `blockSlices`
     (slice_t = Slice(time, t, duration - period + t + 1, period, duration) for t in range(period)),
     `blockShift` (period - t - 1), `blockShifts` (which shifted names a block mentions), `blockStep`
     (block_step = {shift(name, period): name | shift(name) < period}), `absTime` (which original time
     step a relative name of block b denotes).

  3. WINDOW CHAIN.  A time-lagged chain with lags ⊆ {1..k} is a first-order chain over windows
     (x_{t-1},…,x_{t-k}) → (x_t,…,x_{t-k+1}); the factor of time step t is an element m_t of the
     semigroup of window transition matrices (product = contract the shared window).  On the list
     [m_0,…,m_{T-1}]:
        naiveSarkka   result = m_{T-1}; for t = T-2 … 0: result = m_t ⊗ result
        sarkka        the truncated-prefix recursion (duration % period ≠ 0), the block construction
                      through the literal slice indices, and the call into `mixed` on the block chain with
                      num_segments = max 1 (duration / (period * num_periods)).
-/
import FunsorVerif.Model.C10
import FunsorVerif.Core.XR
import FunsorVerif.Core.Semiring
namespace FV.C10.SB

/-! ### 1. names -/

def prevTag : List Char := ['_', 'P', 'R', 'E', 'V', '_']

/-- `len(re.search(r"^(_PREV_)*", name).group(0)) // 6` -/
def getShiftS : List Char → Nat
  | '_' :: 'P' :: 'R' :: 'E' :: 'V' :: '_' :: rest => getShiftS rest + 1
  | _ => 0

/-- `n * "_PREV_"` -/
def prevs : Nat → List Char
  | 0 => []
  | n + 1 => prevTag ++ prevs n

/-- `s.replace(pat, "", 1)`: delete the leftmost occurrence of `pat`, if any. -/
def replaceFirst (pat : List Char) : List Char → List Char
  | [] => []
  | c :: cs => if pat.isPrefixOf (c :: cs) then (c :: cs).drop pat.length else c :: replaceFirst pat cs

/-- `_shift_name(name, t)` -/
def shiftNameS (name : List Char) (t : Int) : List Char :=
  if t ≥ 0 then prevs t.toNat ++ name else replaceFirst (prevs (-t).toNat) name

/-- A name with an explicit shift count: denotes the string `"_PREV_" * shift ++ base`. -/
structure SName where
  base : List Char
  shift : Nat
deriving DecidableEq, Repr

def SName.render (n : SName) : List Char := prevs n.shift ++ n.base

/-- `_shift_name` on the shift count (valid for bases that do not contain the removed tag run). -/
def shiftIdx (s : Nat) (t : Int) : Nat :=
  if t ≥ 0 then s + t.toNat else if (-t).toNat ≤ s then s - (-t).toNat else s

def SName.shiftBy (n : SName) (t : Int) : SName := ⟨n.base, shiftIdx n.shift t⟩

/-- `pat` occurs somewhere in `s`. -/
def occurs (pat : List Char) : List Char → Bool
  | [] => pat.isPrefixOf []
  | c :: cs => pat.isPrefixOf (c :: cs) || occurs pat cs

/-! ### 2. index plan -/

/-- `a * b // gcd(a, b)` -/
def lcmStep (a b : Nat) : Nat := a * b / Nat.gcd a b

/-- `int(reduce(lambda a, b: a * b // gcd(a, b), list(lags)))`; `reduce` of an empty list raises (the code
    returns earlier when there are no lags). -/
def period : List Nat → Option Nat
  | [] => none
  | a :: rest => some (rest.foldl lcmStep a)

/-- `lags = {_get_shift(name) for name in trans.inputs if name != time}; lags.discard(0)` (as a list without
    repetitions; the order is irrelevant, see `Props.C10.period_perm`). -/
def lagsOf (shifts : List Nat) : List Nat := (shifts.filter (· ≠ 0)).eraseDups

/-- Source indices selected by `Slice(name, start, stop, step, dtype)`:
    `stop = min(dtype, max(start, stop))`, `size = max(0, (stop + step - 1 - start) // step)`,
    element i is `start + step * i`. -/
def sliceList (start stop step dtype : Nat) : List Nat :=
  let stop' := min dtype (max start stop)
  (List.range ((stop' + step - 1 - start) / step)).map fun i => start + step * i

/-- `slice_t` for t in range(period) -/
def blockSlices (T p : Nat) : List (List Nat) :=
  (List.range p).map fun t => sliceList t (T - p + t + 1) p T

/-- the shift applied to the factor of offset t inside a block: `period - t - 1` -/
def blockShift (p t : Nat) : Nat := p - t - 1

/-- shifts of the (non-global) names a block mentions: for each offset t the current name (lag 0) and the
    lagged names, all shifted by `blockShift p t`. -/
def blockShifts (p : Nat) (lags : List Nat) : List Nat :=
  (List.range p).flatMap fun t => (0 :: lags).map fun l => l + blockShift p t

/-- `block_step` on shift counts: prev shift ↦ curr shift, for the block's names with shift < period. -/
def blockStep (p : Nat) (shifts : List Nat) : List (Nat × Nat) :=
  ((shifts.filter (· < p)).eraseDups).map fun s => (s + p, s)

/-- shifts summed out at the end: `_shift_name(name, t) for t in range(1, period)` -/
def finalSumShifts (p : Nat) : List Nat := (List.range p).filter (· ≥ 1)

/-- Which original time step the relative name with shift `s` denotes inside block `b`. -/
def absTime (p b s : Nat) : Int := (b * p + p : Nat) - 1 - (s : Int)

/-- The same for the naive loop / the final result of a chain of duration T: shift s denotes x_{T-1-s}. -/
def absTimeNaive (T s : Nat) : Int := (T : Int) - 1 - s

/-- Shifts of the `_PREV_` inputs of the final result: x_{-j} is mentioned iff some factor t < T has a
    lag l = t + j. -/
def resultShifts (T : Nat) (lags : List Nat) : List Nat :=
  ((List.range T).flatMap fun t => (lags.filter (· > t)).map (· - t)).eraseDups

/-! ### 3. window chain -/

variable {α : Type}

/-- `xs[i] for i in idxs` (declines on an index out of range). -/
def gather (l : List α) (idxs : List Nat) : Option (List α) := idxs.mapM (l[·]?)

/-- naive_sarkka_bilmes_product on the window chain. -/
def naiveSarkka (f : α → α → α) (l : List α) : Option α :=
  match l.reverse with
  | [] => none
  | last :: revInit => some (revInit.foldl (fun acc x => f x acc) last)

/-- `for t in reversed(range(rem)): result = factor_t ⊗ result` -/
def tailCombine (f : α → α → α) (l : List α) : Nat → α → Option α
  | 0, res => some res
  | t + 1, res => (l[t]?).bind fun x => tailCombine f l t (f x res)

/-- The block chain: `renamed_factors[t] = shift(trans, period-t-1)(time=slice_t)`,
    `block_trans = reduce(prod_op, renamed_factors)` with block time `Bint[duration // period]`.
    Declines if a slice does not have `duration // period` elements (the time sizes would disagree). -/
def sarkkaBlocks (f : α → α → α) (p : Nat) (l : List α) : Option (List α) :=
  let T := l.length
  let n := T / p
  let slices := blockSlices T p
  if slices.all (fun sl => sl.length == n) then
    (List.range n).mapM fun b =>
      (slices.mapM fun sl => (sl[b]?).bind (l[·]?)).bind (fold1 f)
  else none

/-- sarkka_bilmes_product on the window chain; `p` = period, `np` = num_periods. -/
def sarkka (f : α → α → α) (p np : Nat) : Nat → List α → Option α
  | 0, _ => none
  | fuel + 1, l =>
    let T := l.length
    if p = 0 ∨ np = 0 ∨ T = 0 then none
    else if T % p ≠ 0 then
      let r := T % p
      let init : Option (α × Nat) :=
        if T - r = 0 then (l[r - 1]?).map fun x => (x, r - 1)
        else
          match gather l (sliceList r T 1 T) with
          | none => none
          | some tl => (sarkka f p np fuel tl).map fun x => (x, r)
      match init with
      | none => none
      | some (res, rem) => tailCombine f l rem res
    else
      match sarkkaBlocks f p l with
      | none => none
      | some bs => mixed f (max 1 (T / (p * np))) 2 bs

/-! ### 4. the eager rule of MarkovProduct -/

inductive ProdKind where
  | add | mul | other
deriving DecidableEq, Repr

/-- A transition restricted to one point of its remaining inputs: a genuine sequence over `time`, or a value
    that does not mention `time`. -/
inductive Trans (α : Type) where
  | seq (l : List α)
  | const (x : α)

/-- The T time slices of a transition. -/
def Trans.slices (T : Nat) : Trans α → List α
  | .seq l => l
  | .const x => List.replicate T x

/-- eager_markov_product.  `f` is the product the branch folds with: the semiring matrix product when `step`
    is non-empty, `prod_op` itself on scalars when it is empty.  `smul x T` models `trans * T`, `npow x T`
    models `trans ** T`.  `none` = the rule raises. -/
def markovEager (f : α → α → α) (smul npow : α → Nat → α) (kind : ProdKind) (hasStep : Bool) (T : Nat) :
    Trans α → Option α
  | .seq l =>
    if l.length ≠ T then none
    else if hasStep then scanIdx f (l.length + 1) l      -- sequential_sum_product
    else fold1 f l                                        -- trans.reduce(prod_op, time)
  | .const x =>
    if hasStep then scanConst f x (T + 1) T               -- sequential_sum_product, time-independent
    else match kind with
      | .add => some (smul x T)                           -- trans * T
      | .mul => some (npow x T)                           -- trans ** T
      | .other => none                                    -- NotImplementedError

/-- `MarkovProduct.__init__`: result inputs = trans inputs without time, renamed through step_names. -/
def markovInputs (stepNames : List (String × String)) (time : String) (transInputs : List String) :
    List String :=
  (transInputs.filter (· ≠ time)).map fun k => (stepNames.lookup k).getD k

/-- `MarkovProduct.eager_subs`: `step_names' = {k: rename.get(v, v)}` -/
def renameStepNames (rename : List (String × String)) (stepNames : List (String × String)) :
    List (String × String) :=
  stepNames.map fun (k, v) => (k, (rename.lookup v).getD v)

/-! ### 5. executable scale / power on the driver's carrier (1×1 matrices over XR) -/

/-- `x ** n` by square-and-multiply (deliberately not the fold it is compared with). -/
def xrPow (x : XR) : Nat → Nat → XR
  | 0, _ => 1
  | fuel + 1, n =>
    if n = 0 then 1
    else
      let h := xrPow (XR.mul x x) fuel (n / 2)
      if n % 2 = 1 then (if n = 1 then x else XR.mul x h) else h

def matScale (m : Mat) (T : Nat) : Mat := m.map fun r => r.map fun x => XR.mul x (XR.fin (T : Rat))
def matPow (m : Mat) (T : Nat) : Mat := m.map fun r => r.map fun x => xrPow x (T + 1) T

/-- the window-transition matrix of one time step, built from the factor's table.
    `S` joint state size, `k` window length (max lag), `zero` the semiring zero;
    `fac cur lagged` = factor value at current state `cur` and window `lagged` (x_{t-1},…,x_{t-k}).
    Row = old window, column = new window (x_t, x_{t-1}, …, x_{t-k+1}). -/
def windows (S : Nat) : Nat → List (List Nat)
  | 0 => [[]]
  | k + 1 => (List.range S).flatMap fun s => (windows S k).map fun w => s :: w

def windowMat (S k : Nat) (zero : XR) (fac : Nat → List Nat → XR) : Mat :=
  (windows S k).map fun w =>
    (windows S k).map fun w' =>
      match w' with
      | [] => fac 0 []
      | cur :: rest => if rest == w.take (k - 1) then fac cur w else zero

def winIdx (S : Nat) (w : List Nat) : Nat := w.foldl (fun acc s => acc * S + s) 0

/-- factor table `tab[cur][winIdx window]` → `fac` (out-of-range reads are NaN: visible, never silent). -/
def facOfTable (S : Nat) (tab : List (List XR)) (cur : Nat) (w : List Nat) : XR :=
  match tab[cur]? with
  | none => XR.nan
  | some row => (row[winIdx S w]?).getD XR.nan

/-- The final reduction: ⊕ over the tail (x_{T-2},…,x_{T-k}) of the final window; rows stay indexed by the
    initial window (x_{-1},…,x_{-k}), columns by x_{T-1}. -/
def projectFinal (sr : SR) (S k : Nat) (m : Mat) : Mat :=
  m.map fun row => (List.range S).map fun cur =>
    match (row.drop (cur * S ^ (k - 1))).take (S ^ (k - 1)) with
    | [] => sr.zero
    | t :: ts => ts.foldl sr.add t

end FV.C10.SB
