/-
  Model/C11.lean — adjoints of sum-product expressions (funsor/adjoint.py).

  Variables are natural numbers, an environment assigns an index to every variable, a *named
  tensor* `NT` is a function of the environment together with the mask of the variables it is
  declared to depend on (funsor's `.inputs`).  Everything is generic in the carrier `R` and its
  operations `Ops R`; the theorems (Props/C11.lean) instantiate `Ops` with a commutative semiring,
  the driver (Drv/C11.lean) with `XR` and numpy's conventions.

    Expr        sum-product expressions over leaf occurrences:
                  acc id σ      leaf `id` read through the substitution σ of some of its named axes
                                (σ = [] : the leaf itself; otherwise a `Subs` node: renaming, slice,
                                number, injective index tensor)
                  add / mul     Binary(sum_op) / Binary(prod_op)
                  sum v e       Reduce(sum_op, e, {v})      (several variables = nested binders;
                  prod v e      Reduce(prod_op, e, {v})      also Contraction(⊕,⊗,vs,l,r) = sum vs (mul l r),
                                                             whose adjoint rule is the composition)
                  cat v parts   Cat(v, parts) over plain leaves that carry the axis v
    eval        ordinary evaluation (the forward value)
    fvMask      the free variables (`.inputs`) of an expression
    deriv       the spec: Leibniz derivative of `eval e` with respect to entry `p` of leaf `id`
                (sum over the occurrences of the leaf of the product of everything else)
    backward    the reverse sweep: rules `adjoint_binary`, `adjoint_reduce` (sum and plate branch),
                `adjoint_subs` (through `Scatter`), `adjoint_cat`, and — at every edge — the tape's
                message aggregation  `adjv.reduce(sum_op, adjv.input_vars - v.input_vars - root.input_vars)`
-/
namespace FV.C11

abbrev Env := Nat → Nat
abbrev Mask := Nat → Bool

def upd (env : Env) (v k : Nat) : Env := fun i => if i = v then k else env i

structure Ops (R : Type) where
  add : R → R → R
  mul : R → R → R
  zero : R
  one : R
  /-- `SAFE_BINARY_INVERSES[prod_op]` (safediv / safesub), used only by the plate rule -/
  div : R → R → R

structure NT (R : Type) where
  mask : Mask
  f : Env → R

/-- index expression substituted for a leaf axis -/
inductive Ix where
  | var (v : Nat)                    -- Variable: renaming
  | aff (v start step : Nat)         -- Slice(v, start, stop, step): start + step * v
  | const (c : Nat)                  -- Number
  | tab (v : Nat) (t : List Nat)     -- integer Tensor indexed by v
  deriving Repr, Inhabited

namespace Ix
/-- value of the index in an environment.  `tab` is total because `wf` (checked by the driver before
    anything is evaluated) guarantees the table is long enough; funsor would raise otherwise. -/
def val : Ix → Env → Nat
  | var v, env => env v
  | aff v s st, env => s + st * env v
  | const c, _ => c
  | tab v t, env => match t[env v]? with
      | some x => x
      | none => 0

def dep : Ix → Nat → Bool
  | var v, k => k == v
  | aff v _ _, k => k == v
  | const _, _ => false
  | tab v _, k => k == v

/-- well-formedness against variable sizes `sz` and the size `n` of the leaf axis it indexes -/
def wf (sz : Nat → Nat) (n : Nat) : Ix → Bool
  | var v => sz v ≤ n
  | aff v s st => sz v = 0 || s + st * (sz v - 1) < n
  | const c => c < n
  | tab v t => sz v ≤ t.length && (t.take (sz v)).all (· < n)
end Ix

abbrev Subst := List (Nat × Ix)

def Subst.keys (σ : Subst) (k : Nat) : Bool := σ.any (fun p => p.1 == k)
def Subst.valvars (σ : Subst) (k : Nat) : Bool := σ.any (fun p => p.2.dep k)

/-- simultaneous substitution: the substituted axes read their index expression in the caller's
    environment, every other variable is passed through -/
def substEnv (σ : Subst) (env : Env) : Env := fun k =>
  match σ.lookup k with
  | some ix => ix.val env
  | none => env k

inductive Expr where
  | acc (id : Nat) (σ : Subst)
  | add (a b : Expr)
  | mul (a b : Expr)
  | sum (v : Nat) (e : Expr)
  | prod (v : Nat) (e : Expr)
  | cat (v : Nat) (parts : List (Nat × Nat))
  | scat (i k : Nat) (t : List Nat) (e : Expr)
  deriving Inhabited

/-- the functional index map of a Scatter: `idx(k') = t[k']` (total by the driver's `wf` check) -/
def tabAt (t : List Nat) (j : Nat) : Nat :=
  match t[j]? with
  | some x => x
  | none => 0

section
variable {R : Type} (o : Ops R)

def sumTo (n : Nat) (g : Nat → R) : R :=
  match n with
  | 0 => o.zero
  | n + 1 => o.add (sumTo n g) (g n)

def prodTo (n : Nat) (g : Nat → R) : R :=
  match n with
  | 0 => o.one
  | n + 1 => o.mul (prodTo n g) (g n)

variable (sz : Nat → Nat)

/-- ⨁ over one variable -/
def sum1 (v : Nat) (g : Env → R) : Env → R := fun env => sumTo o (sz v) (fun k => g (upd env v k))

/-- ⨁ over all variables `< n` selected by the mask (`Funsor.reduce(sum_op, vars)`) -/
def sumM : Nat → Mask → (Env → R) → (Env → R)
  | 0, _, g => g
  | n + 1, m, g => sumM n m (if m n then sum1 o sz n g else g)

/-- the leaves: names of the axes (funsor `.inputs` of the Tensor) and the table as a function -/
structure Leaves (R : Type) where
  names : Nat → List Nat
  T : Nat → Env → R

variable (L : Leaves R)

def nameMask (id : Nat) : Mask := fun k => (L.names id).contains k

def catEval (v : Nat) : List (Nat × Nat) → Nat → Env → R
  | [], _, _ => o.zero
  | (id, n) :: rest, off, env =>
      if env v < off + n then L.T id (upd env v (env v - off)) else catEval v rest (off + n) env

def eval : Expr → Env → R
  | .acc id σ, env => L.T id (substEnv σ env)
  | .add a b, env => o.add (eval a env) (eval b env)
  | .mul a b, env => o.mul (eval a env) (eval b env)
  | .sum v e, env => sumTo o (sz v) (fun k => eval e (upd env v k))
  | .prod v e, env => prodTo o (sz v) (fun k => eval e (upd env v k))
  | .cat v parts, env => catEval o L v parts 0 env
  | .scat i k t e, env =>
      -- forward Scatter(sum_op, ((i, idx(k)),), e, {k}):  dest[i] = ⨁_{k' : idx(k') = i} e(k')
      sumTo o (sz k) (fun k' => if tabAt t k' = env i then eval e (upd env k k') else o.zero)

def fvMask : Expr → Mask
  | .acc id σ => fun k => (nameMask L id k && !σ.keys k) || σ.valvars k
  | .add a b => fun k => fvMask a k || fvMask b k
  | .mul a b => fun k => fvMask a k || fvMask b k
  | .sum v e => fun k => fvMask e k && k != v
  | .prod v e => fun k => fvMask e k && k != v
  | .cat _ parts => fun k => parts.any (fun p => nameMask L p.1 k)
  | .scat i k _ e => fun j => (fvMask e j && j != k) || j == i

/-- indicator that the occurrence reads entry `p` of the leaf -/
def hits (names : List Nat) (q p : Env) : Bool := names.all (fun k => q k == p k)

def catDeriv (id : Nat) (p : Env) (v : Nat) : List (Nat × Nat) → Nat → Env → R
  | [], _, _ => o.zero
  | (id', n) :: rest, off, env =>
      if env v < off + n then
        (if id' = id ∧ hits (L.names id) (upd env v (env v - off)) p then o.one else o.zero)
      else catDeriv id p v rest (off + n) env

/-- The spec: derivative of `eval e env` with respect to entry `p` of leaf `id` in the semiring
    (Leibniz rule; for a product of leaf occurrences this is the leave-one-out product). -/
def deriv (id : Nat) (p : Env) : Expr → Env → R
  | .acc id' σ, env => if id' = id ∧ hits (L.names id) (substEnv σ env) p then o.one else o.zero
  | .add a b, env => o.add (deriv id p a env) (deriv id p b env)
  | .mul a b, env => o.add (o.mul (deriv id p a env) (eval o sz L b env))
                            (o.mul (eval o sz L a env) (deriv id p b env))
  | .sum v e, env => sumTo o (sz v) (fun k => deriv id p e (upd env v k))
  | .prod v e, env => sumTo o (sz v) (fun k =>
      o.mul (deriv id p e (upd env v k))
            (prodTo o (sz v) (fun j => if j = k then o.one else eval o sz L e (upd env v j))))
  | .cat v parts, env => catDeriv o L id p v parts 0 env
  | .scat i k t e, env =>
      sumTo o (sz k) (fun k' => if tabAt t k' = env i then deriv id p e (upd env k k') else o.zero)

/-! ### the reverse sweep -/

def zeroNT : NT R := ⟨fun _ => false, fun _ => o.zero⟩
def oneNT : NT R := ⟨fun _ => false, fun _ => o.one⟩
def addNT (x y : NT R) : NT R := ⟨fun k => x.mask k || y.mask k, fun env => o.add (x.f env) (y.f env)⟩
def mulNT (x y : NT R) : NT R := ⟨fun k => x.mask k || y.mask k, fun env => o.mul (x.f env) (y.f env)⟩
def divNT (x y : NT R) : NT R := ⟨fun k => x.mask k || y.mask k, fun env => o.div (x.f env) (y.f env)⟩

def valNT (e : Expr) : NT R := ⟨fvMask L e, eval o sz L e⟩

/-- `adjoint_values[v] = sum_op(old, adjv.reduce(sum_op, adjv.input_vars - v.input_vars - root.input_vars))`:
    the message `a` on its way to a recipient whose inputs are `V`. -/
def agg (n : Nat) (F V : Mask) (a : NT R) : NT R :=
  ⟨fun k => a.mask k && (V k || F k),
   sumM o sz n (fun k => a.mask k && !V k && !F k) a.f⟩

/-- `_expand_like(out_adj, operand, other)`: `out_adj ⊕ (other ⊗ 0)` — the same function, declared to
    depend on the inputs of `other` as well — unless `out_adj` and `operand` already mention them all. -/
def expandNT (n : Nat) (a : NT R) (operand other : Mask) : NT R :=
  if (List.range n).all (fun k => !other k || a.mask k || operand k) then a
  else ⟨fun k => a.mask k || other k, a.f⟩

def single (id : Nat) (x : NT R) : Nat → NT R := fun j => if j = id then x else zeroNT o
def addF (g h : Nat → NT R) : Nat → NT R := fun j => addNT o (g j) (h j)

/-- `adjoint_subs`: `Scatter(sum_op, σ, a, reduced)` renamed back to the leaf's own axis names, with
    `reduced = (inputs of the index values) − (unsubstituted axes of the leaf)`; every other input of `a`
    is a batch input of the Scatter, left to the tape's aggregation.
    The model is the scatter-*add*; funsor implements the injective case (at most one summand). -/
def scatter (n : Nat) (names : Mask) (σ : Subst) (a : NT R) : NT R :=
  let keep : Mask := fun k => names k && !σ.keys k
  let red : Mask := fun k => σ.valvars k && !keep k
  ⟨fun k => ((a.mask k || σ.valvars k) && !red k) || σ.keys k,
   fun env' => sumM o sz n red
      (fun env => if σ.all (fun p => p.2.val env == env' p.1) then a.f env else o.zero) env'⟩

/-- `adjoint_cat`, one part: the slice of the incoming adjoint that the part covers (or the whole adjoint
    if that does not mention the concatenated variable), expanded (`_expand_like`) over the inputs `V` of
    the Cat that neither the message nor the part mention — Cat broadcasts the part over them —, then
    the usual aggregation. -/
def catPart (n : Nat) (F : Mask) (v : Nat) (V : Mask) (a : NT R) (id off : Nat) : NT R :=
  agg o sz n F (nameMask L id)
    (expandNT n (if a.mask v then ⟨a.mask, fun env => a.f (upd env v (off + env v))⟩ else a)
      (nameMask L id) (fun k => V k && k != v))

def catBack (n : Nat) (F : Mask) (v : Nat) (V : Mask) (a : NT R) : List (Nat × Nat) → Nat → (Nat → NT R)
  | [], _ => fun _ => zeroNT o
  | (id, len) :: rest, off =>
      addF o (single o id (catPart o sz L n F v V a id off)) (catBack n F v V a rest (off + len))

/-- `adjoint_scatter` (HEAD, after 63a064e): the adjoint of the source is `out_adj` read at the scattered
    positions, `out_adj(i = idx(k))` — a function of the source's own variable `k`, not reduced over it. -/
def scatMsg (i k : Nat) (t : List Nat) (a : NT R) : NT R :=
  ⟨fun j => (a.mask j && j != i) || (a.mask i && j == k),
   fun env => a.f (upd env i (tabAt t (env k)))⟩

/-- The reverse sweep from a node with (already aggregated) incoming adjoint `a`; the result maps
    every leaf to its accumulated adjoint.  `F` = inputs of the root, `n` bounds the variables. -/
def backward (n : Nat) (F : Mask) : Expr → NT R → (Nat → NT R)
  | .acc id σ, a =>
      if σ.isEmpty then single o id a
      else single o id (scatter o sz n (nameMask L id) σ a)
  | .add l r, a =>
      -- adjoint_binary, op is sum_op: both operands receive out_adj, expanded over the inputs that only
      -- the other operand has (`_expand_like`)
      addF o (backward n F l (agg o sz n F (fvMask L l) (expandNT n a (fvMask L l) (fvMask L r))))
             (backward n F r (agg o sz n F (fvMask L r) (expandNT n a (fvMask L r) (fvMask L l))))
  | .mul l r, a =>
      -- adjoint_binary, op is prod_op: lhs_adj = out_adj ⊗ rhs, rhs_adj = out_adj ⊗ lhs
      addF o (backward n F l (agg o sz n F (fvMask L l) (mulNT o a (valNT o sz L r))))
             (backward n F r (agg o sz n F (fvMask L r) (mulNT o a (valNT o sz L l))))
  | .sum _ e, a =>
      -- adjoint_reduce, op is sum_op: Approximate(...) is exact under eager, the argument receives out_adj
      backward n F e (agg o sz n F (fvMask L e) a)
  | .prod v e, a =>
      -- adjoint_reduce, plate branch: div_op(prod_op(out_adj, out), arg)
      backward n F e (agg o sz n F (fvMask L e)
        (divNT o (mulNT o a (valNT o sz L (.prod v e))) (valNT o sz L e)))
  | .cat v parts, a => catBack o sz L n F v (fvMask L (.cat v parts)) a parts 0
  | .scat i k t e, a => backward n F e (agg o sz n F (fvMask L e) (scatMsg i k t a))

/-- `forward_backward`: forward value and the adjoint of every leaf. -/
def adjoint (n : Nat) (e : Expr) : Nat → NT R := backward o sz L n (fvMask L e) e (oneNT o)

/-- the returned adjoint marginalised onto the leaf's own variables -/
def marginal (n : Nat) (F : Mask) (id : Nat) (g : NT R) : Env → R :=
  sumM o sz n (fun k => F k && !nameMask L id k) g.f

end
end FV.C11
