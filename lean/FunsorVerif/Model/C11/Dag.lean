/-
  Model/C11/Dag.lean — the adjoint tape as a DAG with argument indices.

  A DAG is the list of its non-leaf nodes in recording order, kept newest first; an argument is either a
  leaf tensor or a reference `node d` to the d-th older node (0 = the node recorded just before).  A node
  referenced by several parents is *shared*: the reverse sweep (Tape.sweep: pop `pending[key]`, send the
  rule's messages, ⊕ them into the arguments' `pending`) accumulates the contributions of all its parents
  before it is popped.

    table     the unfolding: the expression tree of every node (shared nodes are duplicated)
    entries   the tape entries of the DAG: key of the node, argument keys, rule + aggregation — the very
              message functions of the tree-shaped `backward`
    dagAdjoint   `tape.adjoint(root)` for the newest node as root: leaf ↦ what is left pending
    dagTrace     the order of pops and the value popped at each node (`adjoint_values`)
-/
import FunsorVerif.Model.C11.Tape
namespace FV.C11.Dag
open FV.C11 FV.C11.Tape

inductive Ref where
  | leaf (id : Nat)
  | node (d : Nat)
  deriving Repr, Inhabited

inductive Node where
  | subs (id : Nat) (σ : Subst)
  | add (l r : Ref)
  | mul (l r : Ref)
  | sum (v : Nat) (c : Ref)
  | prod (v : Nat) (c : Ref)
  | cat (v : Nat) (parts : List (Nat × Nat))
  | scat (i k : Nat) (t : List Nat) (c : Ref)
  deriving Inhabited

def dflt : Expr := .acc 0 []

def refExpr (t : List Expr) : Ref → Expr
  | .leaf id => .acc id []
  | .node d => match t[d]? with
      | some e => e
      | none => dflt            -- out of range: excluded by `RefsOK` (checked by the driver)

def nodeExpr (t' : List Expr) : Node → Expr
  | .subs id σ => .acc id σ
  | .add l r => .add (refExpr t' l) (refExpr t' r)
  | .mul l r => .mul (refExpr t' l) (refExpr t' r)
  | .sum v c => .sum v (refExpr t' c)
  | .prod v c => .prod v (refExpr t' c)
  | .cat v parts => .cat v parts
  | .scat i k t c => .scat i k t (refExpr t' c)

/-- the unfolding of every node, newest first (aligned with the DAG) -/
def table : List Node → List Expr
  | [] => []
  | nd :: older => nodeExpr (table older) nd :: table older

def leafKey (id : Nat) : Nat := 2 * id
def nodeKey (pos : Nat) : Nat := 2 * pos + 1

/-- key of an argument of a node that has `len` older nodes -/
def refKey (len : Nat) : Ref → Nat
  | .leaf id => leafKey id
  | .node d => nodeKey (len - 1 - d)

def refOK (len : Nat) : Ref → Bool
  | .leaf _ => true
  | .node d => d < len

def refsOK (len : Nat) : Node → Bool
  | .subs _ _ => true
  | .add l r => refOK len l && refOK len r
  | .mul l r => refOK len l && refOK len r
  | .sum _ c => refOK len c
  | .prod _ c => refOK len c
  | .cat _ _ => true
  | .scat _ _ _ c => refOK len c

section
variable {R : Type} (o : Ops R) (sz : Nat → Nat) (L : Leaves R) (n : Nat) (F : Mask)

/-- the tape entry of node `nd` recorded after the nodes `older` -/
def entry (older : List Node) (nd : Node) : Entry (NT R) :=
  let t := table older
  let len := older.length
  ⟨nodeKey len,
   match nd with
   | .subs id σ =>
       [(leafKey id, fun a => if σ.isEmpty then a else scatter o sz n (nameMask L id) σ a)]
   | .add l r =>
       let el := refExpr t l; let er := refExpr t r
       [(refKey len l, fun a => agg o sz n F (fvMask L el) (expandNT n a (fvMask L el) (fvMask L er))),
        (refKey len r, fun a => agg o sz n F (fvMask L er) (expandNT n a (fvMask L er) (fvMask L el)))]
   | .mul l r =>
       let el := refExpr t l; let er := refExpr t r
       [(refKey len l, fun a => agg o sz n F (fvMask L el) (mulNT o a (valNT o sz L er))),
        (refKey len r, fun a => agg o sz n F (fvMask L er) (mulNT o a (valNT o sz L el)))]
   | .sum _ c =>
       let ec := refExpr t c
       [(refKey len c, fun a => agg o sz n F (fvMask L ec) a)]
   | .prod v c =>
       let ec := refExpr t c
       [(refKey len c, fun a => agg o sz n F (fvMask L ec)
          (divNT o (mulNT o a (valNT o sz L (.prod v ec))) (valNT o sz L ec)))]
   | .cat v parts =>
       (catChildren o sz L n F v (fvMask L (.cat v parts)) parts 0).map (fun c => (leafKey c.1, c.2))
   | .scat i k tb c =>
       let ec := refExpr t c
       [(refKey len c, fun a => agg o sz n F (fvMask L ec) (scatMsg i k tb a))]⟩

/-- the tape of the DAG, newest entry first -/
def entries : List Node → List (Entry (NT R))
  | [] => []
  | nd :: older => entry o sz L n F older nd :: entries older

/-- what the sweep leaves pending when the newest node is the root -/
def dagSweep (dag : List Node) : List (Nat × NT R) :=
  sweep (addNT o) (zeroNT o) (entries o sz L n F dag) [(nodeKey (dag.length - 1), oneNT o)]

def dagAdjoint (dag : List Node) (id : Nat) : NT R :=
  pendingAt (addNT o) (zeroNT o) (dagSweep o sz L n F dag) (leafKey id)

/-- order of pops and the accumulated value popped at each node -/
def dagTrace (dag : List Node) : List (Nat × NT R) :=
  popped (addNT o) (zeroNT o) (entries o sz L n F dag) [(nodeKey (dag.length - 1), oneNT o)]

end

/-! ### hash-consing an expression into a DAG (used by the driver) -/

def toRef (tbl : List Expr) (pos : Nat) : Expr → Ref
  | .acc id [] => .leaf id
  | e => match tbl.idxOf? e with
      | some j => .node (pos - 1 - j)
      | none => .node pos          -- not recorded: out of range, rejected by `refsOK`

/-- `tbl` = distinct non-leaf sub-terms, oldest first (Tape.nodes); node i refers to older positions -/
def ofTable (tbl : List Expr) : List Node :=
  ((List.range tbl.length).map fun i =>
    match tbl[i]? with
    | some (.acc id σ) => Node.subs id σ
    | some (.add l r) => Node.add (toRef tbl i l) (toRef tbl i r)
    | some (.mul l r) => Node.mul (toRef tbl i l) (toRef tbl i r)
    | some (.sum v e) => Node.sum v (toRef tbl i e)
    | some (.prod v e) => Node.prod v (toRef tbl i e)
    | some (.cat v parts) => Node.cat v parts
    | some (.scat a b tb e) => Node.scat a b tb (toRef tbl i e)
    | none => Node.cat 0 []).reverse

def ofExpr (e : Expr) : List Node := ofTable (nodes e [])

def dagOK : List Node → Bool
  | [] => true
  | nd :: older => refsOK older.length nd && dagOK older

end FV.C11.Dag
