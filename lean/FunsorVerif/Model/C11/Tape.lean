/-
  Model/C11/Tape.lean — AdjointTape at the level of the tape (funsor/adjoint.py:37-150 on HEAD).

  A tape entry is what `AdjointTape.interpret` records for an atomic op: the (hash-consed) key of its
  eager output and, for each argument, the argument's key together with the message the op's adjoint
  rule sends to it *as a function of the adjoint popped for the output* (rule + the tape's aggregation).
  Keys are natural numbers: equal keys = the same funsor object (`adjoint_values` / `pending` are dicts
  keyed by terms).  The tape is kept newest entry first (the order in which `self.tape.pop()` visits it).

    sweep      the reverse sweep of HEAD (after fix d732c46): pop what is pending at the entry's key,
               record it as that node's adjoint, send the messages to the arguments' keys
    result     what `tape.adjoint` returns on HEAD (after fix 2cc17fb): node adjoints recorded when popped
               (by entry), leaf adjoints = what is left pending
    resultOldKeyed  the result before that fix: cumulative totals keyed by eager value, relabelled through
               `_eager_to_lazy`
    lazyLabel, report   the eager→lazy map (last writer wins, as the code does; or first writer) and what
               `tape.adjoint` reports under each lazy form
    sweepOld   the sweep before fix d732c46: propagate the cumulative total stored under the key
    treeBack   the tree-shaped reverse pass on the unfolding of the DAG: a message sent to a key is pushed
               through the newest entry that produces the key, recursively, down to the leaves
    tapeOf     the tape of a C11 expression with structurally equal sub-terms hash-consed to one entry
-/
import FunsorVerif.Model.C11
namespace FV.C11.Tape

structure Entry (M : Type) where
  key : Nat
  children : List (Nat × (M → M))

section
variable {M : Type} (add : M → M → M) (zero : M)

/-- `pending[k]`: everything in the bag of contributions under key `k`, ⊕-ed -/
def pendingAt (bag : List (Nat × M)) (k : Nat) : M :=
  bag.foldr (fun p acc => if p.1 = k then add p.2 acc else acc) zero

def removeKey (bag : List (Nat × M)) (k : Nat) : List (Nat × M) := bag.filter (fun p => p.1 != k)

/-- messages an entry sends when `a` is popped for its output -/
def send (e : Entry M) (a : M) : List (Nat × M) := e.children.map (fun c => (c.1, c.2 a))

/-- The reverse sweep (HEAD): returns what is left pending — the adjoints of the leaves. -/
def sweep : List (Entry M) → List (Nat × M) → List (Nat × M)
  | [], bag => bag
  | e :: older, bag =>
      sweep older (removeKey bag e.key ++ send e (pendingAt add zero bag e.key))

/-- The adjoints recorded for the tape nodes: the value popped at each entry (`adjoint_values`). -/
def popped : List (Entry M) → List (Nat × M) → List (Nat × M)
  | [], _ => []
  | e :: older, bag =>
      (e.key, pendingAt add zero bag e.key) ::
        popped older (removeKey bag e.key ++ send e (pendingAt add zero bag e.key))

/-- `tape.adjoint(...)` on HEAD (after fix 2cc17fb): the adjoint of the i-th tape node is what was
    popped at its entry (`adjoint_values[lazy_output]`, recorded at pop time, identified by the entry —
    not by its eager value); the adjoints of the leaves are what is never popped (`pending`). -/
structure Result (M : Type) where
  nodes : List (Nat × M)      -- in sweep order: (eager key of the entry, adjoint recorded for the node)
  leaves : List (Nat × M)     -- leftover `pending`

def result (tape : List (Entry M)) (bag : List (Nat × M)) : Result M :=
  ⟨popped add zero tape bag, sweep add zero tape bag⟩

/-- every message ever sent during the sweep (HEAD propagation) -/
def sent : List (Entry M) → List (Nat × M) → List (Nat × M)
  | [], _ => []
  | e :: older, bag =>
      let msgs := send e (pendingAt add zero bag e.key)
      msgs ++ sent older (removeKey bag e.key ++ msgs)

/-- `adjoint_values` before fix 2cc17fb: cumulative totals keyed by *eager value* (initial seed plus
    every message), reported under `_eager_to_lazy.get(key, key)`: a key that is the output of some tape
    entry is reported as that entry's lazy term (modelled as `lazyBase + key`), any other key as itself. -/
def lazyBase : Nat := 1000000

def resultOldKeyed (tape : List (Entry M)) (bag : List (Nat × M)) (q : Nat) : M :=
  let all := bag ++ sent add zero tape bag
  let relabel : Nat → Nat := fun k => if tape.any (fun e => e.key == k) then lazyBase + k else k
  pendingAt add zero (all.map (fun p => (relabel p.1, p.2))) q

/-! #### the eager→lazy map (`AdjointTape._eager_to_lazy`)

  `interpret` writes `_eager_to_lazy[result] = lazy form` for every evaluated term — also for the leaves
  (`x ↦ x`) — and simply overwrites: **last writer wins**.  The reverse sweep records the adjoint popped
  at an entry under the lazy form of the entry's eager output, and reports what is left pending under the
  eager keys themselves (for a leaf that is its own lazy form).  Lazy forms are modelled as labels:
  `2*k` = the leaf with eager key `k` itself, `2*pos+1` = the tape entry at position `pos` (from the
  oldest). -/

inductive Policy where
  | lastWriter     -- the code on HEAD
  | firstWriter    -- keep the first lazy form ever recorded for an eager value
  deriving DecidableEq

/-- the lazy form recorded for eager key `k` after the whole forward pass; `leaves` = the eager keys of
    the leaves, which are evaluated (and recorded) before any op that uses them -/
def lazyLabel (pol : Policy) (leaves : List Nat) (tape : List (Entry M)) (k : Nat) : Nat :=
  match pol with
  | .lastWriter =>
      match tape.findIdx? (fun e => e.key == k) with        -- newest entry with that eager value
      | some i => 2 * (tape.length - 1 - i) + 1
      | none => 2 * k
  | .firstWriter =>
      if leaves.contains k then 2 * k
      else match tape.reverse.findIdx? (fun e => e.key == k) with    -- oldest entry with that eager value
        | some i => 2 * i + 1
        | none => 2 * k

/-- what `tape.adjoint` reports under lazy label `q`: the adjoints recorded at pop time under the lazy
    form of the popped entry's output, ⊕ what is left pending under the eager keys -/
def report (pol : Policy) (leaves : List Nat) (tape : List (Entry M)) (bag : List (Nat × M)) (q : Nat) : M :=
  pendingAt add zero
    ((popped add zero tape bag).map (fun p => (lazyLabel pol leaves tape p.1, p.2)) ++
      (sweep add zero tape bag).map (fun p => (2 * p.1, p.2))) q

/-- The sweep before fix d732c46: nothing is popped; an entry propagates the cumulative total stored
    under its key, and messages are added to the totals. -/
def sweepOld : List (Entry M) → List (Nat × M) → List (Nat × M)
  | [], totals => totals
  | e :: older, totals => sweepOld older (totals ++ send e (pendingAt add zero totals e.key))

/-- Tree-shaped reverse pass on the unfolding of the DAG: where a message `a` sent to key `k` ends up
    (leaf key ↦ contribution). -/
def treeBack : List (Entry M) → Nat → M → (Nat → M)
  | [], k, a => fun l => if l = k then a else zero
  | e :: older, k, a =>
      if e.key = k then
        e.children.foldr (fun c acc => fun l => add (treeBack older c.1 (c.2 a) l) (acc l)) (fun _ => zero)
      else treeBack older k a

end

/-! ### the tape of a C11 expression, with hash-consing of structurally equal sub-terms -/

deriving instance BEq for Ix
deriving instance BEq for Expr

section
variable {R : Type} (o : Ops R) (sz : Nat → Nat) (L : Leaves R) (n : Nat) (F : Mask)

/-- distinct non-leaf sub-terms, children before parents (construction order) -/
def nodes : Expr → List Expr → List Expr
  | .acc id σ, acc => if σ.isEmpty || acc.contains (.acc id σ) then acc else acc ++ [.acc id σ]
  | .add l r, acc =>
      let a2 := nodes r (nodes l acc)
      if a2.contains (.add l r) then a2 else a2 ++ [.add l r]
  | .mul l r, acc =>
      let a2 := nodes r (nodes l acc)
      if a2.contains (.mul l r) then a2 else a2 ++ [.mul l r]
  | .sum v e, acc =>
      let a2 := nodes e acc
      if a2.contains (.sum v e) then a2 else a2 ++ [.sum v e]
  | .prod v e, acc =>
      let a2 := nodes e acc
      if a2.contains (.prod v e) then a2 else a2 ++ [.prod v e]
  | .cat v parts, acc => if acc.contains (.cat v parts) then acc else acc ++ [.cat v parts]
  | .scat i k t e, acc =>
      let a2 := nodes e acc
      if a2.contains (.scat i k t e) then a2 else a2 ++ [.scat i k t e]

/-- leaf `id` has key `id`; the i-th recorded node has key `nodeBase + i` -/
def nodeBase : Nat := 100000

def keyOf (tbl : List Expr) : Expr → Nat
  | .acc id [] => id
  | e => match tbl.idxOf? e with
      | some i => nodeBase + i
      | none => nodeBase + tbl.length      -- not on the tape (cannot happen for sub-terms of the root)

def catChildren (v : Nat) (V : Mask) : List (Nat × Nat) → Nat → List (Nat × (NT R → NT R))
  | [], _ => []
  | (id, len) :: rest, off =>
      (id, fun a => catPart o sz L n F v V a id off) :: catChildren v V rest (off + len)

/-- the entry `AdjointTape.interpret` records for a node: argument keys and the rule + aggregation -/
def entryOf (tbl : List Expr) (e : Expr) : Entry (NT R) :=
  ⟨keyOf tbl e,
   match e with
   | .acc id σ => [(id, fun a => scatter o sz n (nameMask L id) σ a)]
   | .add l r =>
       [(keyOf tbl l, fun a => agg o sz n F (fvMask L l) (expandNT n a (fvMask L l) (fvMask L r))),
        (keyOf tbl r, fun a => agg o sz n F (fvMask L r) (expandNT n a (fvMask L r) (fvMask L l)))]
   | .mul l r =>
       [(keyOf tbl l, fun a => agg o sz n F (fvMask L l) (mulNT o a (valNT o sz L r))),
        (keyOf tbl r, fun a => agg o sz n F (fvMask L r) (mulNT o a (valNT o sz L l)))]
   | .sum _ e' => [(keyOf tbl e', fun a => agg o sz n F (fvMask L e') a)]
   | .prod v e' =>
       [(keyOf tbl e', fun a => agg o sz n F (fvMask L e')
          (divNT o (mulNT o a (valNT o sz L (.prod v e'))) (valNT o sz L e')))]
   | .cat v parts => catChildren o sz L n F v (fvMask L (.cat v parts)) parts 0
   | .scat i k t e' => [(keyOf tbl e', fun a => agg o sz n F (fvMask L e') (scatMsg i k t a))]⟩

/-- the tape of `e`, newest entry first -/
def tapeOf (e : Expr) : List (Entry (NT R)) :=
  let tbl := nodes e []
  (tbl.map (entryOf o sz L n F tbl)).reverse

/-- `tape.adjoint(sum_op, prod_op, root)`: leaf ↦ adjoint, by the HEAD sweep over the hash-consed tape -/
def tapeAdjoint (e : Expr) (id : Nat) : NT R :=
  let tbl := nodes e []
  pendingAt (addNT o) (zeroNT o)
    (sweep (addNT o) (zeroNT o) (tapeOf o sz L n (fvMask L e) e) [(keyOf tbl e, oneNT o)]) id

end
end FV.C11.Tape
