/-
  Model/C11Contract.lean — the set-valued rules of funsor/adjoint.py, as the code applies them.

  Model/C11.lean reads `Reduce(op, e, {v1..vm})` and `Contraction(⊕, ⊗, {v1..vm}, l, r)` as *nested*
  one-variable binders around `mul l r` and sweeps through them one at a time.  The code does not: it
  records ONE tape entry for the whole node and applies one rule to it,

    adjoint_contract (binary, prod_op is adj_prod_op, sum_op ∈ {null, adj_sum_op}):
        out_adj' = Approximate(⊕, out_adj, …, reduced_vars)      -- = out_adj under eager
        lhs_adj  = out_adj' ⊗ rhs ;  rhs_adj = lhs ⊗ out_adj'      -- note the operand order
    adjoint_contract_unary / adjoint_reduce, op is adj_sum_op:   arg receives out_adj
    adjoint_reduce, op is adj_prod_op (plate, reduced_vars a set):
        out = arg.reduce(⊗, reduced_vars) ;  arg receives  div(out_adj ⊗ out, arg)

  followed in every case by the tape's aggregation towards the recipient.  This file states these
  one-shot rules over a *list* of reduced variables; Props/C11/Contract.lean proves that each of them
  equals the nested sweep of Model/C11.lean (for the plate rule: under nowhere-zero, where it divides)
  and hence is sound.
-/
import FunsorVerif.Model.C11
namespace FV.C11.Contract
open FV.C11

/-- `Reduce(sum_op, e, vs)` as nested binders -/
def sumL : List Nat → Expr → Expr
  | [], e => e
  | v :: vs, e => .sum v (sumL vs e)

/-- `Reduce(prod_op, e, vs)` as nested binders -/
def prodL : List Nat → Expr → Expr
  | [], e => e
  | v :: vs, e => .prod v (prodL vs e)

section
variable {R : Type} (o : Ops R) (sz : Nat → Nat) (L : Leaves R)

/-- `adjoint_contract` on `Contraction(⊕, ⊗, vs, l, r)`: one step, whatever `vs` is. -/
def contractBack (n : Nat) (F : Mask) (_vs : List Nat) (l r : Expr) (a : NT R) : Nat → NT R :=
  addF o (backward o sz L n F l (agg o sz n F (fvMask L l) (mulNT o a (valNT o sz L r))))
         (backward o sz L n F r (agg o sz n F (fvMask L r) (mulNT o (valNT o sz L l) a)))

/-- `adjoint_contract_unary` / `adjoint_reduce` (sum branch) on `Reduce(⊕, e, vs)`: one step. -/
def reduceBack (n : Nat) (F : Mask) (_vs : List Nat) (e : Expr) (a : NT R) : Nat → NT R :=
  backward o sz L n F e (agg o sz n F (fvMask L e) a)

/-- `adjoint_reduce` (plate branch) on `Reduce(⊗, e, vs)`: one division by the argument. -/
def plateBack (n : Nat) (F : Mask) (vs : List Nat) (e : Expr) (a : NT R) : Nat → NT R :=
  backward o sz L n F e (agg o sz n F (fvMask L e)
    (divNT o (mulNT o a (valNT o sz L (prodL vs e))) (valNT o sz L e)))

end
end FV.C11.Contract
