/-
  Model/C12.lean — Gaussian funsors in square-root information form (funsor/gaussian.py).

      G(x; w, P) = -1/2 ‖ x P - w ‖²        (gaussian.py:425-430; x a row vector of length dim,
                                               P = prec_sqrt of shape dim × rank, w = white_vec)

  One *batch point* of a Gaussian funsor is modelled (integer inputs are pointwise; the harness
  enumerates batch points by name).  Vectors and matrices are index functions `Nat → Rat`,
  `Nat → Nat → Rat` with the dimensions carried next to them, so that numpy's slicing / cat /
  matmul are modelled by their index-level specification and every sum is a `sumTo`.

  Raw layer (positions only):
    sumTo vecMul mulVec matMul tr dot norm2 hcat vcat vappend gatherRows gatherRowsOpt
    SG (dim, rank, w, P), SG.eval, SG.dense, Dense.eval
    SG.addAligned     eager_add_gaussian_gaussian after alignment: column concatenation (1129-1132)
    SG.subsSplit      _eager_subs_real, partial branch (723-744): w − x_b P_b, P_a
    SG.subsAffineRaw  _eager_subs_affine (827-838): w − b P,  A P
    SG.compressWith   _compress_rank, QR branch (103-130), Q and R are *parameters*
    SG.padRank        joint.py:62-73 (Cat pads with zero columns)
    SG.fuse           eager_reduce(ops.add) (908-942): plate fusion = column concatenation of all slices
  Named layer (real inputs laid out in blocks by `_compute_offsets`, 133-151):
    offsetsFrom total locate blockIdx alignSrc
    NG (inputs, rank, w, P); NG.add, NG.align, NG.rename, NG.subsReal, NG.subsAffine
-/
namespace FV.C12

abbrev V := Nat → Rat
abbrev M := Nat → Nat → Rat

/-- `∑ i < n, f i` -/
def sumTo : Nat → (Nat → Rat) → Rat
  | 0, _ => 0
  | n + 1, f => sumTo n f + f n

/-- row vector times matrix: `_vm` -/
def vecMul (n : Nat) (x : V) (A : M) : V := fun j => sumTo n fun i => x i * A i j
/-- matrix times column vector: `_mv` -/
def mulVec (r : Nat) (A : M) (w : V) : V := fun i => sumTo r fun j => A i j * w j
def matMul (k : Nat) (A B : M) : M := fun i j => sumTo k fun l => A i l * B l j
def tr (A : M) : M := fun i j => A j i
/-- `_vv` -/
def dot (n : Nat) (u v : V) : Rat := sumTo n fun i => u i * v i
/-- `_norm2` -/
def norm2 (n : Nat) (u : V) : Rat := dot n u u
def vsub (u v : V) : V := fun i => u i - v i
def vadd (u v : V) : V := fun i => u i + v i
def msub (A B : M) : M := fun i j => A i j - B i j
def madd (A B : M) : M := fun i j => A i j + B i j
def idM : M := fun i j => if i = j then 1 else 0
/-- `ops.cat([u, v], -1)` where `u` has length `n1` -/
def vappend (n1 : Nat) (u v : V) : V := fun j => if j < n1 then u j else v (j - n1)
/-- `ops.cat([A, B], -1)` where `A` has `r1` columns -/
def hcat (r1 : Nat) (A B : M) : M := fun i j => if j < r1 then A i j else B i (j - r1)
/-- `ops.cat([A, B], -2)` where `A` has `n1` rows -/
def vcat (n1 : Nat) (A B : M) : M := fun i j => if i < n1 then A i j else B (i - n1) j
/-- fancy row indexing `A[idx, :]` -/
def gatherRows (idx : List Nat) (A : M) : M := fun i j =>
  match idx[i]? with
  | some s => A s j
  | none => 0
def gatherVec (idx : List Nat) (v : V) : V := fun i =>
  match idx[i]? with
  | some s => v s
  | none => 0
/-- block placement with zero fill (BlockVector/BlockMatrix rows): row `i` is a copy of row `s`
    when `src[i] = some s`, a zero row otherwise. -/
def gatherRowsOpt (src : List (Option Nat)) (A : M) : M := fun i j =>
  match src[i]? with
  | some (some s) => A s j
  | _ => 0

def ofList (l : List Rat) : V := fun i => l.getD i 0
def ofRows (rows : List (List Rat)) : M := fun i j => (rows.getD i []).getD j 0
def tabV (n : Nat) (v : V) : List Rat := (List.range n).map v
def tabM (n r : Nat) (A : M) : List (List Rat) := (List.range n).map fun i => (List.range r).map (A i)

/-! ### raw square-root Gaussians -/

structure SG where
  dim : Nat
  rank : Nat
  w : V
  P : M

/-- `-0.5 * _norm2(_vm(value, prec_sqrt) - white_vec)` (gaussian.py:718) -/
def SG.eval (g : SG) (x : V) : Rat :=
  -(1/2) * norm2 g.rank (vsub (vecMul g.dim x g.P) g.w)

/-- dense quadratic form `-1/2 xΛxᵀ + x·η + c` -/
structure Dense where
  dim : Nat
  prec : M
  info : V
  const : Rat

def Dense.eval (d : Dense) (x : V) : Rat :=
  -(1/2) * dot d.dim x (mulVec d.dim d.prec x) + dot d.dim x d.info + d.const

/-- `_precision`, `_info_vec` (544-569) and the constant `-1/2‖w‖²` -/
def SG.dense (g : SG) : Dense :=
  { dim := g.dim
    prec := matMul g.rank g.P (tr g.P)
    info := mulVec g.rank g.P g.w
    const := -(1/2) * norm2 g.rank g.w }

/-- Gaussian + Gaussian once both are aligned to the same real layout: concatenate columns. -/
def SG.addAligned (a b : SG) : SG :=
  { dim := a.dim, rank := a.rank + b.rank
    w := vappend a.rank a.w b.w
    P := hcat a.rank a.P b.P }

/-- partial real substitution given the index lists of the kept (`ia`) and substituted (`ib`)
    flat positions and the flat substituted value `xb` -/
def SG.subsSplit (g : SG) (ia ib : List Nat) (xb : V) : SG :=
  let Pa := gatherRows ia g.P
  let Pb := gatherRows ib g.P
  { dim := ia.length, rank := g.rank
    w := vsub g.w (vecMul ib.length xb Pb)
    P := Pa }

/-- affine substitution x = y A + b with `A` of shape newDim × dim -/
def SG.subsAffineRaw (g : SG) (newDim : Nat) (A : M) (b : V) : SG :=
  { dim := newDim, rank := g.rank
    w := vsub g.w (vecMul g.dim b g.P)
    P := matMul g.dim A g.P }

/-- `_compress_rank`, QR branch, with the factorisation `Pᵀ = Q R` supplied (Q: rank × dim,
    R: dim × dim).  Returns the compressed Gaussian and the shift `1/2(‖wQ‖² − ‖w‖²)`. -/
def SG.compressWith (g : SG) (Q R : M) : SG × Rat :=
  let wc := vecMul g.rank g.w Q
  ({ dim := g.dim, rank := g.dim, w := wc, P := tr R },
   (1/2) * (norm2 g.dim wc - norm2 g.rank g.w))

/-- the threshold test of GaussianMeta.__call__ (404-406), compression_threshold = 2 -/
def needsCompress (dim rank : Nat) : Bool := rank > dim * 2

/-- zero padding of the rank (joint.py:62-73) -/
def SG.padRank (g : SG) (maxRank : Nat) : SG :=
  { dim := g.dim, rank := maxRank
    w := fun j => if j < g.rank then g.w j else 0
    P := fun i j => if j < g.rank then g.P i j else 0 }

/-- plate fusion: the slices along the reduced batch inputs, concatenated along the rank -/
def SG.fuse (dim : Nat) : List SG → SG
  | [] => { dim := dim, rank := 0, w := fun _ => 0, P := fun _ _ => 0 }
  | g :: gs => SG.addAligned { g with dim := dim } (SG.fuse dim gs)

/-! ### named layer: real inputs laid out in blocks -/

abbrev Inputs := List (String × Nat)

def total : Inputs → Nat
  | [] => 0
  | (_, sz) :: rest => sz + total rest

/-- `_compute_offsets`: name ↦ offset (running sum of num_elements) -/
def offsetsFrom (start : Nat) : Inputs → List (String × Nat)
  | [] => []
  | (k, sz) :: rest => (k, start) :: offsetsFrom (start + sz) rest

def computeOffsets (inp : Inputs) : List (String × Nat) × Nat := (offsetsFrom 0 inp, total inp)

/-- which block and which element of it the flat position `i` is -/
def locate : Inputs → Nat → Option (String × Nat)
  | [], _ => none
  | (k, sz) :: rest, i => if i < sz then some (k, i) else locate rest (i - sz)

/-- flat positions of the blocks selected by `sel`, in layout order -/
def blockIdx (start : Nat) : Inputs → (String → Bool) → List Nat
  | [], _ => []
  | (k, sz) :: rest, sel =>
      (if sel k then List.range' start sz else []) ++ blockIdx (start + sz) rest sel

/-- `align_gaussian` (320-336): for every block of the new layout, the old positions it copies
    (or zeros when the old Gaussian does not have that input). -/
def alignSrc (oldInp : Inputs) : Inputs → List (Option Nat)
  | [] => []
  | (k, sz) :: rest =>
      (match (offsetsFrom 0 oldInp).lookup k with
       | some o => (List.range' o sz).map some
       | none => List.replicate sz none) ++ alignSrc oldInp rest

/-- a point: value of each real input, flattened -/
abbrev Point := String → V

/-- the concatenated value (BlockVector of the substituted values, 711-715) -/
def flat (inp : Inputs) (x : Point) : V := fun i =>
  match locate inp i with
  | some (k, e) => x k e
  | none => 0

structure NG where
  inputs : Inputs
  rank : Nat
  w : V
  P : M

def NG.dim (g : NG) : Nat := total g.inputs
def NG.raw (g : NG) : SG := { dim := g.dim, rank := g.rank, w := g.w, P := g.P }
def NG.eval (g : NG) (x : Point) : Rat := g.raw.eval (flat g.inputs x)

def hasKey (k : String) (inp : Inputs) : Bool := inp.any fun p => p.1 == k

/-- `OrderedDict.update` on inputs -/
def updateInputs (a b : Inputs) : Inputs := a ++ b.filter fun p => !hasKey p.1 a

/-- `align_gaussian(new_inputs, old)` on the real part -/
def NG.alignTo (newInp : Inputs) (g : NG) : NG :=
  { inputs := newInp, rank := g.rank, w := g.w, P := gatherRowsOpt (alignSrc g.inputs newInp) g.P }

/-- eager_add_gaussian_gaussian (1117-1132) -/
def NG.add (a b : NG) : NG :=
  let inp := updateInputs a.inputs b.inputs
  let a' := a.alignTo inp
  let b' := b.alignTo inp
  let s := SG.addAligned a'.raw b'.raw
  { inputs := inp, rank := s.rank, w := s.w, P := s.P }

/-- Gaussian.align (594-603): the named inputs first, then the others -/
def NG.align (g : NG) (names : List String) : Option NG :=
  if names.all (fun k => hasKey k g.inputs) then
    let first := names.filterMap fun k => g.inputs.find? fun p => p.1 == k
    let inp := updateInputs first g.inputs
    some (g.alignTo inp)
  else none

/-- _eager_subs_var (654-661) -/
def NG.rename (g : NG) (ren : List (String × String)) : Option NG :=
  let inp := g.inputs.map fun p => ((ren.lookup p.1).getD p.1, p.2)
  if (inp.map (·.1)).eraseDups.length == inp.length then some { g with inputs := inp } else none

/-- _eager_subs_real (678-744).  `subs` gives the flattened value of each substituted real input.
    Full substitution returns a number, partial substitution a Gaussian over the other inputs. -/
def NG.subsReal (g : NG) (subs : List (String × List Rat)) : Option (Sum Rat NG) :=
  let subs := subs.filter fun p => hasKey p.1 g.inputs
  let okSizes := g.inputs.all fun p =>
    match subs.lookup p.1 with
    | some v => v.length == p.2
    | none => true
  if !okSizes then none else
  let x : Point := fun k => ofList ((subs.lookup k).getD [])
  let isB := fun k => (subs.lookup k).isSome
  if g.inputs.all (fun p => isB p.1) then
    some (Sum.inl (g.raw.eval (flat g.inputs x)))
  else
    let ia := blockIdx 0 g.inputs (fun k => !isB k)
    let ib := blockIdx 0 g.inputs isB
    let inpB := g.inputs.filter fun p => isB p.1
    let s := g.raw.subsSplit ia ib (flat inpB x)
    some (Sum.inr { inputs := g.inputs.filter (fun p => !isB p.1), rank := s.rank, w := s.w, P := s.P })

/-- One affine substitution `old_k := const + Σ_new coeff_new · new`, coefficient of shape
    new_size × old_size (flattened as in 814-823). -/
structure AffSub where
  name : String
  const : List Rat
  coeffs : List (String × Nat × List (List Rat))   -- new name, new size, rows (new_size × old_size)

/-- new_real_inputs (787-793): delete every substituted name, then set each new name
    (appending it unless it is already present). -/
def affineNewInputs (old : Inputs) (subs : List AffSub) : Inputs :=
  let base := old.filter fun p => !(subs.any fun s => s.name == p.1)
  subs.foldl (fun inp s =>
    s.coeffs.foldl (fun inp c =>
      if hasKey c.1 inp then inp.map (fun p => if p.1 == c.1 then (c.1, c.2.1) else p)
      else inp ++ [(c.1, c.2.1)]) inp) base

/-- subs_vector (799, 814): constants of the substituted inputs, zero on the kept ones
    (`if old_k not in affine: … continue`, 804-810). -/
def affineVector (old : Inputs) (subs : List AffSub) : V := fun i =>
  match locate old i with
  | some (k, e) =>
      match subs.find? fun s => s.name == k with
      | some s => s.const.getD e 0
      | none => 0
  | none => 0

/-- subs_matrix (800-823): entry (new flat position i, old flat position j) -/
def affineMatrix (old new : Inputs) (subs : List AffSub) : M := fun i j =>
  match locate new i, locate old j with
  | some (nk, ne), some (ok, oe) =>
      match subs.find? fun s => s.name == ok with
      | none => if nk == ok && ne == oe then 1 else 0          -- kept input: identity block
      | some s =>
          match s.coeffs.find? fun c => c.1 == nk with
          | some c => (c.2.2.getD ne []).getD oe 0
          | none => 0
  | _, _ => 0

/-- _eager_subs_affine (746-839) -/
def NG.subsAffine (g : NG) (subs : List AffSub) : NG :=
  let subs := subs.filter fun s => hasKey s.name g.inputs
  let newInp := affineNewInputs g.inputs subs
  let s := g.raw.subsAffineRaw (total newInp) (affineMatrix g.inputs newInp subs) (affineVector g.inputs subs)
  { inputs := newInp, rank := s.rank, w := s.w, P := s.P }

/-! ### batch axes: `align_tensor` (tensor.py:554-598) as used by `align_gaussian` (312-318) -/

/-- value of each name in a positional index -/
def namedIndex (inp : List (String × Nat)) (idx : List Nat) (k : String) : Nat :=
  match ((inp.map (·.1)).zip idx).lookup k with
  | some v => v
  | none => 0          -- an input the tensor does not have is broadcast (size-1 axis, index 0)

/-- `align_tensor(new_inputs, Tensor(data, old_inputs), expand=True)`: the entry at a positional index of
    the new layout is the old entry at the same NAMED point (permute, insert size-1 axes, expand). -/
def alignBatch {α : Type} (new old : List (String × Nat)) (data : List Nat → α) : List Nat → α :=
  fun idx => data (old.map fun p => namedIndex new idx p.1)

/-- read a batched array at a named point -/
def atNamed {α : Type} (inp : List (String × Nat)) (data : List Nat → α) (env : String → Nat) : α :=
  data (inp.map fun p => env p.1)

end FV.C12
