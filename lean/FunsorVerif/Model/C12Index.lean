import FunsorVerif.Model.C12
namespace FV.C12

/-- put `v` at position `a` of a positional index -/
def insertAt : Nat → Nat → List Nat → List Nat
  | 0, v, idx => v :: idx
  | _ + 1, v, [] => [v]
  | a + 1, v, x :: xs => x :: insertAt a v xs

/-- numpy `x[(slice(None),) * a + (v,)]`: fix axis `a` at `v` (the axis disappears) -/
def indexAxis {α : Type} (a v : Nat) (data : List Nat → α) : List Nat → α := fun idx => data (insertAt a v idx)

/-- axis of the batch input `k` in the CURRENT input order -/
def axisOf (k : String) : List (String × Nat) → Nat
  | [] => 0
  | p :: rest => if p.1 = k then 0 else axisOf k rest + 1

def eraseKey (k : String) : List (String × Nat) → List (String × Nat)
  | [] => []
  | p :: rest => if p.1 = k then rest else p :: eraseKey k rest

/-- integer indexing of several batch inputs, one pair after the other; the axis of each pair is looked up in the
    inputs that are LEFT at that moment (what `Subs(Tensor(x, int_inputs), subs)` achieves by name). -/
def subsInts {α : Type} : List (String × Nat) → List (String × Nat) → (List Nat → α) →
    List (String × Nat) × (List Nat → α)
  | [], inp, data => (inp, data)
  | (k, v) :: subs, inp, data => subsInts subs (eraseKey k inp) (indexAxis (axisOf k inp) v data)

/-- the same loop with every axis computed once, up front, from the ORIGINAL inputs (seed C12_14). -/
def subsIntsStale {α : Type} (inp0 : List (String × Nat)) : List (String × Nat) → List (String × Nat) →
    (List Nat → α) → List (String × Nat) × (List Nat → α)
  | [], inp, data => (inp, data)
  | (k, v) :: subs, inp, data => subsIntsStale inp0 subs (eraseKey k inp) (indexAxis (axisOf k inp0) v data)

/-- the named point after substituting the pairs -/
def override : List (String × Nat) → (String → Nat) → String → Nat
  | [], env => env
  | (k, v) :: s, env => fun n => if n = k then v else override s env n

end FV.C12
