/-
  Model/C13.lean — Gaussian marginals, normalisers and integrals (funsor/gaussian.py:571-592, 841-906,
  1061-1090; funsor/integrate.py:196-262), on top of the square-root model of Model/C12.lean.

  LAPACK factorisations are not modelled.  Where the code takes a Cholesky factor `L Lᵀ = B` and uses it
  only through `B⁻¹` (triangular solves) and `log det B = 2 Σ log Lᵢᵢ`, the model takes `B⁻¹` and `det B`
  over `Rat`; the executable `inverse?` below (Gauss–Jordan with pivot search) produces candidates that
  the driver CHECKS (`B · B⁻¹ = 1` exactly) before use, and the theorems assume exactly that equation.

    inverse?            Gauss–Jordan inverse and determinant over Rat (none when singular)
    marginalWith     _marginalize_after_split (1061-1090): proj = Pbᵀ B⁻¹ Pb, (w − w proj, Pa − Pa proj)
    marginal?        eager_reduce(logaddexp) on a proper subset of the reals (856-906), incl. the
                        "Too little information" error and the rank = dim_b branch (empty Gaussian)
    schur         the closed form: Schur complement, η_a − Λab Λbb⁻¹ η_b, c + ½ η_bᵀ Λbb⁻¹ η_b
    logNormalizer?   _log_normalizer (571-585) incl. the rank shift; value = dim/2·log 2π − ½ log det + rat
    meanCov?            _mean = Λ⁻¹ η
    integrateVar?       ∫ exp(g) x dx = mean · exp(log_normalizer)            (integrate.py:196-212)
    integrateGauss?     ∫ exp(g) h dx = exp(log_normalizer g) · (−½)(‖μ P_h − w_h‖² + tr(P_hᵀ Σ P_h))  (215-262)
-/
import FunsorVerif.Model.C12
namespace FV.C13
open FV.C12

def swapRows (a b : Nat) (A : M) : M := fun i j =>
  if i = a then A b j else if i = b then A a j else A i j

/-- one Gauss–Jordan step on the augmented n × 2n matrix: pivot search in column `c` from row `c`,
    swap, scale, eliminate.  Returns the new (tabulated) matrix and the factor of the determinant. -/
def gjStep (n c : Nat) (A : M) : Option (M × Rat) :=
  match (List.range n).find? (fun r => decide (c ≤ r) && A r c != 0) with
  | none => none
  | some p =>
    let A1 := swapRows c p A
    let pv := A1 c c
    if pv = 0 then none else
    let A2 : M := fun i j => if i = c then A1 c j / pv else A1 i j - A1 i c * (A1 c j / pv)
    some (ofRows (tabM n (2 * n) A2), if p = c then pv else -pv)

def gjLoop (n : Nat) : Nat → Nat → M → Rat → Option (M × Rat)
  | 0, _, A, d => some (A, d)
  | fuel + 1, c, A, d =>
    match gjStep n c A with
    | none => none
    | some (A', f) => gjLoop n fuel (c + 1) A' (d * f)

/-- candidate inverse and determinant of the leading n × n block of `A` -/
def inverse? (n : Nat) (A : M) : Option (M × Rat) :=
  let aug : M := fun i j => if j < n then A i j else if j - n = i then 1 else 0
  (gjLoop n n 0 aug 1).map fun (R, d) => ((fun i j => R i (n + j)), d)

/-- exact check `A · B = 1` on n × n (the hypothesis of every theorem that uses an inverse) -/
def isInverse (n : Nat) (A B : M) : Bool :=
  tabM n n (matMul n A B) == tabM n n idM && tabM n n (matMul n B A) == tabM n n idM

/-- `_marginalize_after_split`, the `rank > dim_b` branch, with `Binv = (Pb Pbᵀ)⁻¹` supplied. -/
def marginalWith (g : SG) (ia ib : List Nat) (Binv : M) : SG :=
  let Pa := gatherRows ia g.P
  let Pb := gatherRows ib g.P
  let proj := matMul ib.length (tr Pb) (matMul ib.length Binv Pb)
  { dim := ia.length, rank := g.rank
    w := vsub g.w (vecMul g.rank g.w proj)
    P := msub Pa (matMul g.rank Pa proj) }

/-- result of a partial marginalisation: the value is
    `g.eval xa + dimB/2 · log 2π − 1/2 · log detB`  -/
structure Marg where
  g : SG
  dimB : Nat
  detB : Rat

inductive MargErr where
  | tooLittleInformation     -- ValueError raised at 897-901
  | notPositiveDefinite      -- ops.cholesky fails / is meaningless
  deriving Repr, BEq

def marginal? (g : SG) (ia ib : List Nat) : Except MargErr Marg :=
  if g.rank < ib.length then .error .tooLittleInformation else
  let Pb := gatherRows ib g.P
  let B := matMul g.rank Pb (tr Pb)
  match inverse? ib.length B with
  | none => .error .notPositiveDefinite
  | some (Binv, det) =>
    if !(isInverse ib.length B Binv) || det ≤ 0 then .error .notPositiveDefinite else
    if g.rank > ib.length then .ok ⟨marginalWith g ia ib Binv, ib.length, det⟩
    else .ok ⟨{ dim := ia.length, rank := 0, w := fun _ => 0, P := fun _ _ => 0 }, ib.length, det⟩

/-- the block `A[ia, ib]` -/
def crossBlock (ia ib : List Nat) (A : M) : M := fun i j =>
  match ia[i]?, ib[j]? with
  | some s, some t => A s t
  | _, _ => 0

/-- closed form on the dense triple: integrate out the positions `ib`, keep `ia`;
    `Binv = Λbb⁻¹`.  The constant excludes `dimB/2·log 2π − ½ log det Λbb`. -/
def schur (d : Dense) (ia ib : List Nat) (Binv : M) : Dense :=
  let Laa := gatherRows ia (tr (gatherRows ia d.prec))      -- Λ[ia, ia]
  let Lab : M := crossBlock ia ib d.prec
  let ea := gatherVec ia d.info
  let eb := gatherVec ib d.info
  let nb := ib.length
  let K := matMul nb Lab Binv                                 -- Λab Λbb⁻¹  (|ia| × nb)
  { dim := ia.length
    prec := msub Laa (matMul nb K (tr Lab))
    info := vsub ea (mulVec nb K eb)
    const := d.const + (1/2) * dot nb eb (mulVec nb Binv eb) }

/-- `_log_normalizer`: value = dim/2·log 2π − ½ log det Λ + rat, returns (rat, det Λ). -/
def logNormalizer? (g : SG) : Except MargErr (Rat × Rat) :=
  if g.rank < g.dim then .error .tooLittleInformation else    -- assert self.is_full_rank (550)
  let lam := matMul g.rank g.P (tr g.P)
  match inverse? g.dim lam with
  | none => .error .notPositiveDefinite
  | some (linv, det) =>
    if !(isInverse g.dim lam linv) || det ≤ 0 then .error .notPositiveDefinite else
    if g.rank = g.dim then .ok (0, det) else
    let eta := mulVec g.rank g.P g.w
    .ok ((1/2) * (dot g.dim eta (mulVec g.dim linv eta) - norm2 g.rank g.w), det)

/-- `_mean` = Λ⁻¹ η and `_covariance` = Λ⁻¹ -/
def meanCov? (g : SG) : Except MargErr (V × M) :=
  if g.rank < g.dim then .error .tooLittleInformation else
  let lam := matMul g.rank g.P (tr g.P)
  match inverse? g.dim lam with
  | none => .error .notPositiveDefinite
  | some (linv, det) =>
    if !(isInverse g.dim lam linv) || det ≤ 0 then .error .notPositiveDefinite else
    .ok (mulVec g.dim linv (mulVec g.rank g.P g.w), linv)

/-- Integrate(g, x, {x}) / exp(log_normalizer) = mean -/
def integrateVar? (g : SG) : Except MargErr V := (meanCov? g).map (·.1)

def traceM (n : Nat) (A : M) : Rat := sumTo n fun i => A i i

/-- Integrate(g, h, reals) / exp(log_normalizer g) for `h` aligned to `g`'s layout:
    `−½ (‖μ P_h − w_h‖² + tr(P_hᵀ Σ P_h))` (Matrix Cookbook 380 in h's whitened space). -/
def integrateGauss? (g h : SG) : Except MargErr Rat :=
  (meanCov? g).map fun (mu, cov) =>
    let m := vecMul g.dim mu h.P
    let vmv := norm2 h.rank (vsub h.w m)
    let tr_ := traceM h.rank (matMul g.dim (tr h.P) (matMul g.dim cov h.P));
    (vmv + tr_) * (-(1/2))

end FV.C13
