/-
  Model/C14.lean — point masses and samples.

  Delta  (funsor/delta.py:136-257, funsor/integrate.py:174-188)
    deltaEval      Delta.eager_subs, ground branch:  (value == point).all().log() + log_density
    deltaLin       the same in linear space (exp): weight at the point, 0 elsewhere
    sumRange       textbook reduction  Σ_{x < n} g x           (ops.logaddexp in log space)
    maxRange       textbook reduction  max_{x < n} g x         (ops.max, in XR)
    deltaAddReduce what (Delta + f).reduce(op, v) returns: eager_add_delta_funsor substitutes the
                   point into f, Delta.eager_reduce then drops the Delta (scale 0): f(point)
    deltaIntegrate what Integrate(Delta, f, v) returns: Subs(delta, point) = log_density, so
                   exp(log_density) * f(point)

  Tensor._sample, numpy path (funsor/tensor.py:332-427), one particle and one batch element at a
  time, weights in linear space (w = exp(logit), -inf ↦ 0), exact rationals:
    prod / encode  row-major flattening of `logits.reshape(batch_shape + (-1,))`
    allIdx         row-major enumeration of the event cells (index-level spec of the reshape)
    probs          exp(logits - max) / sum            (`none` = the all -inf row: NaN probabilities)
    cumsum, countLt, pick      s = cumsum(probs);  flat_sample = sum(s < r)          (pinned tree)
    countLe, lastPos, Variant, pickV   the variants of that statement the translator recognises
    decodeLE / decode          the loop `point = mod_sample % size; mod_sample //= size` over
                               `reversed(event_inputs)`
    sampleVal      the returned funsor  Σ_j Delta(name_j, point_j) + logsumexp(flat_logits)  in
                   linear space: Z if x = point else 0
    sumOver        Σ over all cells of the sampled variables
    ravel/lookup/cellAt/sampleTensor   the whole call on a named tensor: partition of the inputs into
                   batch + event, align, flatten, one uniform per (particle, batch element) laid out
                   as `sample_shape + batch_shape`.
-/
import FunsorVerif.Core.XR
namespace FV.C14

/-! ### Delta -/

/-- `is_equal.log() + log_density` with `is_equal = (value == point).all()`; points are flattened
    event arrays (a number is a one-element list). -/
def deltaEval (point : List Rat) (ld : XR) (value : List Rat) : XR :=
  XR.add (if value = point then XR.fin 0 else XR.ninf) ld

/-- Linear-space density of an integer-valued Delta of weight `w` at `p`. -/
def deltaLin (p : Nat) (w : Rat) (x : Nat) : Rat := if x = p then w else 0

def sumList : List Rat → Rat
  | [] => 0
  | a :: l => a + sumList l

def sumRange (n : Nat) (g : Nat → Rat) : Rat := sumList ((List.range n).map g)

/-- `max` over a non-empty range in XR (numpy `amax`); `none` for the empty range. -/
def maxRange (n : Nat) (g : Nat → XR) : Option XR :=
  match (List.range n).map g with
  | [] => none
  | a :: l => some (l.foldl XR.max a)

/-- Result of `(Delta(v, p, ld) + f).reduce(op, v)` for `op ∈ {logaddexp, max}`. -/
def deltaAddReduce {α : Type} (f : Nat → α) (p : Nat) : α := f p

/-- Result of `Integrate(Delta(v, p, ld), f, v)` with `w = exp ld`. -/
def deltaIntegrate (w : Rat) (f : Nat → Rat) (p : Nat) : Rat := w * f p

/-! ### Deltas binding several variables, reduced / integrated over a subset of them -/

/-- Linear-space density of `Delta(((v₁,(p₁,ld₁)), …, (v_k,(p_k,ld_k))))` with `w_j = exp ld_j`. -/
def deltaProd : List Nat → List Rat → List Nat → Rat
  | p :: ps, w :: ws, x :: xs => (if x = p then w else 0) * deltaProd ps ws xs
  | _, _, _ => 1

/-- Σ over the coordinates selected by `mask` (the reduced variables), the others read from `x`. -/
def sumMask : List Nat → List Bool → (List Nat → Rat) → List Nat → Rat
  | s :: ss, m :: ms, g, x :: xs =>
    if m then sumRange s fun i => sumMask ss ms (fun t => g (i :: t)) xs
    else sumMask ss ms (fun t => g (x :: t)) xs
  | _, _, g, _ => g []

/-- The point on the reduced coordinates, `x` on the others (what `Subs(integrand, subs)` evaluates). -/
def mergePt : List Bool → List Nat → List Nat → List Nat
  | m :: ms, p :: ps, x :: xs => (if m then p else x) :: mergePt ms ps xs
  | _, _, _ => []

/-- Product of the weights of the reduced variables (`Subs(delta, subs)` turns them into log-densities). -/
def wMask : List Bool → List Rat → Rat
  | m :: ms, w :: ws => (if m then w else 1) * wMask ms ws
  | _, _ => 1

/-- The Delta that remains on the un-reduced variables. -/
def deltaRest : List Bool → List Nat → List Rat → List Nat → Rat
  | m :: ms, p :: ps, w :: ws, x :: xs =>
    (if m then 1 else (if x = p then w else 0)) * deltaRest ms ps ws xs
  | _, _, _, _ => 1

/-- `Integrate(Delta, f, S)` as `integrate.eager_integrate` computes it: substitute the points of the
    reduced names into integrand and measure, keep the remaining Delta. -/
def deltaIntegrateSubset (mask : List Bool) (pt : List Nat) (ws : List Rat) (f : List Nat → Rat)
    (x : List Nat) : Rat :=
  wMask mask ws * deltaRest mask pt ws x * f (mergePt mask pt x)

/-- `(Delta + f).reduce(logaddexp, S)`: `Delta.eager_reduce` drops the reduced terms (unit mass:
    their log-densities do not enter), the remaining Delta keeps its own. -/
def deltaReduceSubset (mask : List Bool) (pt : List Nat) (ws : List Rat) (f : List Nat → Rat)
    (x : List Nat) : Rat :=
  deltaRest mask pt ws x * f (mergePt mask pt x)

/-! ### Mixed radix -/

def prod : List Nat → Nat
  | [] => 1
  | s :: ss => s * prod ss

/-- Row-major flat index of a multi-index (numpy reshape / ravel_multi_index). -/
def encode : List Nat → List Nat → Nat
  | _ :: ss, i :: is => i * prod ss + encode ss is
  | _, _ => 0

/-- Little-endian positional value: first digit least significant. -/
def encodeLE : List Nat → List Nat → Nat
  | s :: ss, i :: is => i + s * encodeLE ss is
  | _, _ => 0

/-- The decode loop, in the order it runs (sizes of `reversed(event_inputs)`). -/
def decodeLE : List Nat → Nat → List Nat
  | [], _ => []
  | s :: ss, m => (m % s) :: decodeLE ss (m / s)

/-- Per-variable indices, listed in `event_inputs` order. -/
def decode (sizes : List Nat) (m : Nat) : List Nat := (decodeLE sizes.reverse m).reverse

/-- Row-major enumeration of all multi-indices. -/
def allIdx : List Nat → List (List Nat)
  | [] => [[]]
  | s :: ss => (List.range s).flatMap fun i => (allIdx ss).map (i :: ·)

def InRange : List Nat → List Nat → Prop
  | [], [] => True
  | s :: ss, i :: is => i < s ∧ InRange ss is
  | _, _ => False

/-! ### Categorical draw -/

def cumsumFrom (acc : Rat) : List Rat → List Rat
  | [] => []
  | p :: ps => (acc + p) :: cumsumFrom (acc + p) ps

def cumsum (p : List Rat) : List Rat := cumsumFrom 0 p

/-- `np.sum(s < r, axis=-1)` -/
def countLt (r : Rat) : List Rat → Nat
  | [] => 0
  | s :: ss => (if s < r then 1 else 0) + countLt r ss

/-- `np.sum(s <= r, axis=-1)` -/
def countLe (r : Rat) : List Rat → Nat
  | [] => 0
  | s :: ss => (if s ≤ r then 1 else 0) + countLe r ss

/-- `n - 1 - argmax((probs > 0)[::-1])`: index of the last cell of positive mass (`n - 1` if none). -/
def lastPosFrom : List Rat → Nat → Nat → Nat
  | [], _, best => best
  | x :: xs, i, best => lastPosFrom xs (i + 1) (if 0 < x then i else best)

def lastPos (p : List Rat) : Nat := lastPosFrom p 0 (p.length - 1)

/-- Which comparison the source uses to turn prefix sums into an index (regenerated from
    funsor/tensor.py on every run into Gen/C14Variant.lean):
      `lt`  `dropLast = false`   np.sum(s < r)                      (pinned tree)
      `le`  `dropLast = true`    np.sum(s[..., :-1] <= r)
      `clamp`                    np.minimum(flat_sample, last cell of positive mass)
      `recognised = false`       the translator could not read the statement (fails closed). -/
inductive Cmp where
  | lt | le
  deriving Repr, DecidableEq

structure Variant where
  cmp : Cmp
  dropLast : Bool
  clamp : Bool
  recognised : Bool
  deriving Repr, DecidableEq

def pickV (v : Variant) (p : List Rat) (r : Rat) : Nat :=
  let s := cumsum p
  let s := if v.dropLast then s.dropLast else s
  let k := match v.cmp with
    | Cmp.lt => countLt r s
    | Cmp.le => countLe r s
  if v.clamp then min k (lastPos p) else k

/-- The pinned tree's draw. -/
def pick (p : List Rat) (r : Rat) : Nat := countLt r (cumsum p)

def maxList (w : List Rat) : Rat := w.foldl (fun a b => if a ≤ b then b else a) 0

/-- `probs = exp(logits - amax); probs /= probs.sum()`, on linear weights.  `none`: the row has no
    positive weight (all logits -inf): `-inf - -inf = nan`, every comparison `s < r` is False. -/
def probs (w : List Rat) : Option (List Rat) :=
  let m := maxList w
  if m = 0 then none
  else
    let q := w.map (· / m)
    let t := sumList q
    if t = 0 then none else some (q.map (· / t))

/-- `flat_sample` for one row of weights and one uniform. -/
def pickCell (w : List Rat) (r : Rat) : Nat :=
  match probs w with
  | none => 0
  | some p => pick p r

/-- `flat_sample` under the source's current variant.  The all -inf row has NaN probabilities: every
    comparison is False, the count is 0 (and the clamp, `min 0 _`, leaves it there). -/
def pickCellV (v : Variant) (w : List Rat) (r : Rat) : Nat :=
  match probs w with
  | none => 0
  | some p => pickV v p r

/-- The sample funsor at one (particle, batch element), linear space: `Z` at the point, 0 elsewhere. -/
def sampleVal (point : List Nat) (Z : Rat) (x : List Nat) : Rat := if x = point then Z else 0

/-- Σ over all cells of variables with the given sizes. -/
def sumOver : List Nat → (List Nat → Rat) → Rat
  | [], g => g []
  | s :: ss, g => sumRange s fun i => sumOver ss fun t => g (i :: t)

/-- One row: weights of the event cells in row-major order ↦ (per-variable point, normaliser). -/
def sampleRow (esizes : List Nat) (w : List Rat) (r : Rat) : List Nat × Rat :=
  (decode esizes (pickCell w r), sumList w)

def sampleRowV (v : Variant) (esizes : List Nat) (w : List Rat) (r : Rat) : List Nat × Rat :=
  (decode esizes (pickCellV v w r), sumList w)

/-! ### The whole call on a named tensor -/

abbrev Inputs := List (String × Nat)

def lookup (env : List (String × Nat)) (k : String) : Option Nat :=
  match env with
  | [] => none
  | (n, v) :: rest => if n = k then some v else lookup rest k

/-- value of the tensor at a full assignment of its inputs (`none`: missing name / out of bounds). -/
def cellAt (inputs : Inputs) (data : List Rat) (env : List (String × Nat)) : Option Rat := do
  let idx ← inputs.mapM fun (n, _) => lookup env n
  data[encode (inputs.map (·.2)) idx]?

structure RowOut where
  batch : List Nat          -- batch multi-index (batch_inputs order)
  point : List Nat          -- sampled indices (event_inputs order)
  z : Rat                   -- exp(normaliser)
  deriving Repr

/-- `Tensor._sample(sampled_vars, sample_inputs)`: `rs` is the stubbed `np.random.rand(*shape)`
    flattened row-major, `shape = sample_shape + batch_shape`.  Returns the names of batch and event
    inputs and, per particle, per batch element, the drawn point and the normaliser.
    `none` = malformed request (not a behaviour of the code). -/
def sampleTensor (v : Variant) (inputs : Inputs) (data : List Rat) (sampled : List String) (nParticles : Nat)
    (rs : List Rat) : Option (List String × List String × List (List RowOut)) := do
  let batchIn := inputs.filter fun (n, _) => !sampled.contains n
  let eventIn := inputs.filter fun (n, _) => sampled.contains n
  let bsizes := batchIn.map (·.2)
  let esizes := eventIn.map (·.2)
  let nb := prod bsizes
  let rows ← (allIdx bsizes).mapM fun b =>
    (allIdx esizes).mapM fun e =>
      cellAt inputs data ((batchIn.map (·.1)).zip b ++ (eventIn.map (·.1)).zip e)
  let out ← (List.range nParticles).mapM fun s =>
    ((allIdx bsizes).zip rows).zipIdx.mapM fun ((b, w), bi) => do
      let r ← rs[s * nb + bi]?
      let (pt, z) := sampleRowV v esizes w r
      pure { batch := b, point := pt, z := z : RowOut }
  pure (batchIn.map (·.1), eventIn.map (·.1), out)

end FV.C14
