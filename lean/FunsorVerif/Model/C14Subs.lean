/-
  Model/C14Subs.lean — the substitution and Delta+Delta rules of funsor/delta.py on Deltas that bind
  SEVERAL variables and whose points / log-densities DEPEND on other variables (lazy expressions,
  tensors with batch inputs), discrete-valued, linear space (`w = exp log_density`, `-inf ↦ 0`).

  Modelled source (pinned /repo):
    terms.substitute + SubstituteInterpretation.interpret (funsor/terms.py:53-119)
        children (points, log-densities) are rebuilt with ALL substitutions applied simultaneously,
        then the rebuilt Delta node gets `eager_subs(fresh_subs)` for the substituted names it binds.
        → `substChild`, `deltaSubs`
    Delta.eager_subs (funsor/delta.py:137-176)
        per term, in order:  name not substituted → kept;  value is a `Variable` → the term is renamed;
        value/point without real inputs → the term leaves the Delta and
        `(value == point).all().log() + log_density` joins `log_densities`;
        result shape: `Delta(new_terms)` | `reduce(add, log_densities)` | `Delta(new_terms) + reduce(...)`.
        → `eagerSubs`, `DNF`, `SubsOut`, `shape`
        NOT modelled: the `solve` branch (real-valued value/point: inverting a transform).
    eager_add_multidelta / eager_add_delta_funsor / eager_add_funsor_delta (funsor/delta.py:221-257),
        both operands Deltas:  if the left Delta binds an input of the right one, the left points are
        substituted into the right operand and the sum is re-dispatched; symmetric; otherwise the
        term tuples are concatenated.  → `pointSubst`, `addMultidelta` (the re-dispatched sum is
        recorded in the normal form `Delta(terms) + Σ scales`).

  Points and weights are functions of the environment (`Env = String → Nat`) together with the
  DECLARED list of names they read (`deps`, what funsor calls `.inputs`): branch selection in
  `addMultidelta` reads only the declared names, exactly like `lhs.fresh.intersection(rhs.inputs)`.
  The theorems in Props/C14/Subs.lean hold whatever the declarations are.
-/
namespace FV.C14.Subs

abbrev Env := String → Nat

/-- One `(name, (point, log_density))` entry of `Delta.terms`. -/
structure DTerm where
  name  : String
  deps  : List String
  point : Env → Nat
  w     : Env → Rat

/-- A substituted value: `Variable(y)` or a discrete-valued funsor reading `deps`. -/
inductive SVal where
  | var (y : String)
  | val (deps : List String) (v : Env → Nat)

def SVal.eval : SVal → Env → Nat
  | .var y, env => env y
  | .val _ v, env => v env

def SVal.inputs : SVal → List String
  | .var y => [y]
  | .val ds _ => ds

/-- `subs` as an association list (keys unique in funsor: it comes from `**kwargs` / an OrderedDict). -/
abbrev Subst := List (String × SVal)

/-- The environment in which the substituted expression is read: simultaneous substitution. -/
def substEnv (s : Subst) (env : Env) : Env := fun k =>
  match s.lookup k with
  | some v => v.eval env
  | none => env k

/-- `env` with `x` set to `i` (the summation variable of a reduction over `x`). -/
def upd (env : Env) (x : String) (i : Nat) : Env := fun k => if k = x then i else env k

/-- Density of one term / of the whole Delta at `env` (linear space). -/
def termDen (t : DTerm) (env : Env) : Rat := if env t.name = t.point env then t.w env else 0

def termsDen : List DTerm → Env → Rat
  | [], _ => 1
  | t :: ts, env => termDen t env * termsDen ts env

def prodScales : List (Env → Rat) → Env → Rat
  | [], _ => 1
  | f :: fs, env => f env * prodScales fs env

/-- `Delta(terms) + Σ log_densities` (linear space: a product). -/
structure DNF where
  terms  : List DTerm
  scales : List (Env → Rat)

def DNF.den (d : DNF) (env : Env) : Rat := termsDen d.terms env * prodScales d.scales env

/-- New declared inputs of a child after substitution. -/
def substDeps (s : Subst) (ds : List String) : List String :=
  ds.flatMap fun d => match s.lookup d with
    | some v => v.inputs
    | none => [d]

/-- `substitute` on the children of a Delta node: point and log-density with all of `subs` applied. -/
def substChild (s : Subst) (t : DTerm) : DTerm :=
  { name := t.name, deps := substDeps s t.deps,
    point := fun env => t.point (substEnv s env), w := fun env => t.w (substEnv s env) }

/-- `Delta.eager_subs(subs)` on the rebuilt node (children already substituted). -/
def eagerSubs (s : Subst) : List DTerm → DNF
  | [] => ⟨[], []⟩
  | t :: ts =>
    let r := eagerSubs s ts
    match s.lookup t.name with
    | some (.var y) => ⟨{ t with name := y } :: r.terms, r.scales⟩
    | some (.val _ v) => ⟨r.terms, (fun env => if v env = t.point env then t.w env else 0) :: r.scales⟩
    | none => ⟨t :: r.terms, r.scales⟩

/-- `Delta(terms)(**subs)`: children first, then the node's own rule. -/
def deltaSubs (s : Subst) (ts : List DTerm) : DNF := eagerSubs s (ts.map (substChild s))

/-- The three return statements of `Delta.eager_subs`; `none` = `Delta(())` (assertion error, only for
    an empty Delta, which the constructor refuses). -/
inductive SubsOut where
  | delta (ts : List DTerm)
  | scale (ss : List (Env → Rat))
  | both (ts : List DTerm) (ss : List (Env → Rat))

def SubsOut.den : SubsOut → Env → Rat
  | .delta ts, env => termsDen ts env
  | .scale ss, env => prodScales ss env
  | .both ts ss, env => termsDen ts env * prodScales ss env

def shape (d : DNF) : Option SubsOut :=
  match d.scales, d.terms with
  | [], [] => none
  | [], ts => some (.delta ts)
  | ss, [] => some (.scale ss)
  | ss, ts => some (.both ts ss)

/-! ### Delta + Delta -/

def freshOf (ts : List DTerm) : List String := ts.map (·.name)
def inputsOf (ts : List DTerm) : List String := ts.flatMap fun t => t.name :: t.deps

/-- `{name: point for name, (point, ld) in lhs.terms if name in rhs.inputs}`. -/
def pointSubst (lhs : List DTerm) (rhsInputs : List String) : Subst :=
  (lhs.filter fun t => rhsInputs.contains t.name).map fun t => (t.name, SVal.val t.deps t.point)

/-- `eager_add_multidelta(ops.add, lhs, rhs)`. -/
def addMultidelta (lhs rhs : List DTerm) : DNF :=
  if (freshOf lhs).any (inputsOf rhs).contains then
    let r := deltaSubs (pointSubst lhs (inputsOf rhs)) rhs
    ⟨lhs ++ r.terms, r.scales⟩
  else if (freshOf rhs).any (inputsOf lhs).contains then
    let l := deltaSubs (pointSubst rhs (inputsOf lhs)) lhs
    ⟨l.terms ++ rhs, l.scales⟩
  else ⟨lhs ++ rhs, []⟩

end FV.C14.Subs
