/-
  Model/C15.lean — property C15 (op tables are truthful; scalar/array agreement; stabilised ops).

  Part A.  Names of the ops / unit values that occur in funsor's published algebraic tables
           (`Gen/C15OpTables.lean` is regenerated from /repo in these terms).
  Part B.  A finite abstract domain of IEEE-754 special-value classes with *sound* transfer
           functions (overflow / underflow / exact cancellation included), a small relational
           refinement (a result may be known to *be* one of the two inputs), and — written as the
           composition of primitives the source code performs — every implementation variant of
           logaddexp, safesub, safediv, reciprocal, log, max, min (scalar default in
           funsor/ops/builtin.py, numpy registrations in funsor/ops/array.py, number×array),
           of `ops.logsumexp`, and of the log-space / max-plus einsum inner product.

  Core-only imports: the driver links this natively.
-/
import FunsorVerif.Core.Sexp
import FunsorVerif.Core.XR
namespace FV.C15

/-! ## Part A — table vocabulary -/

/-- Ops that may occur in the published tables.  `other` keeps the generated file well-typed when
    funsor grows an op the catalogue does not know (its obligations then fail closed). -/
inductive Op where
  | add | sub | mul | truediv | pow | max | min | and_ | or_ | xor
  | logaddexp | sample | safesub | safediv | neg | reciprocal
  | other (name : String)
  deriving DecidableEq, Repr, Inhabited

/-- Unit values as written in `UNITS[op] = v`. -/
inductive UVal where
  | zero      -- 0.0 / 0
  | one       -- 1.0 / 1
  | ninf      -- -math.inf
  | pinf      -- math.inf
  | tt        -- True
  | ff        -- False
  | other (repr : String)
  deriving DecidableEq, Repr, Inhabited

def Op.name : Op → String
  | .add => "add" | .sub => "sub" | .mul => "mul" | .truediv => "truediv" | .pow => "pow"
  | .max => "max" | .min => "min" | .and_ => "and_" | .or_ => "or_" | .xor => "xor"
  | .logaddexp => "logaddexp" | .sample => "sample" | .safesub => "safesub"
  | .safediv => "safediv" | .neg => "neg" | .reciprocal => "reciprocal" | .other n => n

def UVal.name : UVal → String
  | .zero => "zero" | .one => "one" | .ninf => "ninf" | .pinf => "pinf" | .tt => "tt" | .ff => "ff"
  | .other r => r

/-! ## Part B — special values -/

/-- Classes of IEEE doubles.  `pos` is *every* positive finite double (1.0 included); `one` is the
    refinement `{1.0}` (so `γ one ⊆ γ pos`), kept because `exp 0 = 1`, `log 1 = 0`, `1 + 0 = 1`
    are exact and decide whether logaddexp returns its finite operand unchanged at −∞. -/
inductive Cls where
  | nan | ninf | neg | nzero | pzero | pos | one | pinf
  deriving DecidableEq, Repr, Inhabited

namespace Cls

def all : List Cls := [nan, ninf, neg, nzero, pzero, pos, one, pinf]

def name : Cls → String
  | nan => "nan" | ninf => "ninf" | neg => "neg" | nzero => "nzero" | pzero => "pzero"
  | pos => "pos" | one => "one" | pinf => "pinf"

def ofName? : String → Option Cls
  | "nan" => some nan | "ninf" => some ninf | "neg" => some neg | "nzero" => some nzero
  | "pzero" => some pzero | "pos" => some pos | "one" => some one | "pinf" => some pinf
  | _ => none

/-- forget the `one` refinement -/
def gen : Cls → Cls
  | one => pos
  | c => c

def isNan : Cls → Bool | nan => true | _ => false
def isInf : Cls → Bool | ninf => true | pinf => true | _ => false
def isZero : Cls → Bool | nzero => true | pzero => true | _ => false
/-- sign bit set (−∞, negative, −0) -/
def sgnNeg : Cls → Bool | ninf => true | neg => true | nzero => true | _ => false
/-- finite and non-zero -/
def isFinNZ : Cls → Bool | neg => true | pos => true | one => true | _ => false
def isFinite : Cls → Bool | nan => false | ninf => false | pinf => false | _ => true

/-- position on the extended real line (NaN has none; the two zeros compare equal). -/
def rank : Cls → Nat
  | nan => 0 | ninf => 0 | neg => 1 | nzero => 2 | pzero => 2 | pos => 3 | one => 3 | pinf => 4

end Cls

/-- A set of classes, kept in the canonical order of `Cls.all`, `one` absorbed by `pos`. -/
abbrev CSet := List Cls

def norm (s : CSet) : CSet :=
  Cls.all.filter fun c => s.contains c && !(c == Cls.one && s.contains Cls.pos)

def lift1 (f : Cls → CSet) (a : CSet) : CSet := norm (a.flatMap f)
def lift2 (f : Cls → Cls → CSet) (a b : CSet) : CSet :=
  norm (a.flatMap fun x => b.flatMap fun y => f x y)

open Cls in
/-- IEEE addition (round to nearest): overflow of same-signed finite sums, exact cancellation of
    opposite-signed ones gives +0, `−0 + −0 = −0`, every other zero sum is `+0`. -/
def addG : Cls → Cls → CSet
  | nan, _ => [nan]
  | _, nan => [nan]
  | ninf, pinf => [nan]
  | pinf, ninf => [nan]
  | ninf, _ => [ninf]
  | _, ninf => [ninf]
  | pinf, _ => [pinf]
  | _, pinf => [pinf]
  | neg, neg => [ninf, neg]
  | pos, pos => [pos, pinf]
  | neg, pos => [neg, pzero, pos]
  | pos, neg => [neg, pzero, pos]
  | neg, _ => [neg]
  | _, neg => [neg]
  | pos, _ => [pos]
  | _, pos => [pos]
  | nzero, nzero => [nzero]
  | _, _ => [pzero]

open Cls in
def addC (a b : Cls) : CSet :=
  if (a == one && b.isZero) || (b == one && a.isZero) then [one] else addG a.gen b.gen

open Cls in
def negC : Cls → Cls
  | nan => nan | ninf => pinf | neg => pos | nzero => pzero | pzero => nzero | pos => neg
  | one => neg | pinf => ninf

def subC (a b : Cls) : CSet := addC a (negC b)

open Cls in
/-- IEEE multiplication: `∞·0 = NaN`; products of finite non-zero values may overflow to ±∞ or
    underflow to ±0; `1·x = x` exactly. -/
def mulG (a b : Cls) : CSet :=
  if a.isNan || b.isNan then [nan]
  else if (a.isInf && b.isZero) || (a.isZero && b.isInf) then [nan]
  else
    let s := a.sgnNeg != b.sgnNeg
    if a.isInf || b.isInf then [if s then ninf else pinf]
    else if a.isZero || b.isZero then [if s then nzero else pzero]
    else if s then [ninf, neg, nzero] else [pzero, pos, pinf]

open Cls in
def mulC (a b : Cls) : CSet :=
  if a == one then [b] else if b == one then [a] else mulG a.gen b.gen

open Cls in
/-- `np.reciprocal` / `1.0 / x` away from the Python `ZeroDivisionError`:
    `1/±0 = ±∞`, `1/±∞ = ±0`, reciprocals of subnormals overflow, none underflows to 0. -/
def recipC : Cls → CSet
  | nan => [nan] | ninf => [nzero] | neg => [ninf, neg] | nzero => [ninf] | pzero => [pinf]
  | pos => [pos, pinf] | one => [one] | pinf => [pzero]

open Cls in
/-- IEEE division (numpy semantics: no exception). -/
def divC (a b : Cls) : CSet :=
  if a.isNan || b.isNan then [nan]
  else if (a.isInf && b.isInf) || (a.isZero && b.isZero) then [nan]
  else
    let s := a.sgnNeg != b.sgnNeg
    if a.isInf || b.isZero then [if s then ninf else pinf]
    else if a.isZero || b.isInf then [if s then nzero else pzero]
    else if b == one then [a]
    else if s then [ninf, neg, nzero] else [pzero, pos, pinf]

open Cls in
/-- `exp` (numpy; `math.exp` raises `OverflowError` where this says `pinf`). -/
def expC : Cls → CSet
  | nan => [nan] | ninf => [pzero] | neg => [pzero, pos] | nzero => [one] | pzero => [one]
  | pos => [pos, pinf] | one => [pos] | pinf => [pinf]

open Cls in
/-- `np.log` (the array registration `_log`, non-bool dtype). -/
def logNpC : Cls → CSet
  | nan => [nan] | ninf => [nan] | neg => [nan] | nzero => [ninf] | pzero => [ninf]
  | pos => [neg, pzero, pos] | one => [pzero] | pinf => [pinf]

open Cls in
/-- scalar default `log(x) = math.log(x) if x > 0 else -math.inf` (builtin.py): everything that
    is not `> 0` — NaN included, since `nan > 0` is False — is sent to −∞. -/
def logPyC : Cls → CSet
  | pos => [neg, pzero, pos] | one => [pzero] | pinf => [pinf]
  | _ => [ninf]

open Cls in
/-- `np.maximum` (NaN propagates; `max(−0,+0)` may be either zero). -/
def maxNpC (a b : Cls) : CSet :=
  if a.isNan || b.isNan then [nan]
  else if a.rank < b.rank then [b] else if b.rank < a.rank then [a] else [a, b]

open Cls in
def minNpC (a b : Cls) : CSet :=
  if a.isNan || b.isNan then [nan]
  else if a.rank < b.rank then [a] else if b.rank < a.rank then [b] else [a, b]

open Cls in
/-- Python's builtin `max(l, r)`: `r if r > l else l`; a NaN comparison is False. -/
def maxPyC (l r : Cls) : CSet :=
  if l.isNan then [nan] else if r.isNan then [l]
  else if l.rank < r.rank then [r] else if r.rank < l.rank then [l]
  else if l.isFinNZ then [l, r] else [l]

open Cls in
/-- Python's builtin `min(l, r)`: `r if r < l else l`. -/
def minPyC (l r : Cls) : CSet :=
  if l.isNan then [nan] else if r.isNan then [l]
  else if r.rank < l.rank then [r] else if l.rank < r.rank then [l]
  else if l.isFinNZ then [l, r] else [l]

open Cls in
/-- `np.clip(v, finfo.min, None)`: −∞ becomes the most negative finite double. -/
def clipLoC : Cls → Cls | ninf => neg | c => c
open Cls in
/-- `np.clip(v, None, finfo.max)`: +∞ becomes the largest finite double. -/
def clipHiC : Cls → Cls | pinf => pos | c => c

/-! ### Abstract values with provenance -/

/-- `x`/`y`: the value is (`==`-)equal to the first / second input of the op. -/
inductive Tag where
  | none | x | y
  deriving DecidableEq, Repr, Inhabited

structure AV where
  cs : CSet
  tag : Tag := .none
  deriving DecidableEq, Repr, Inhabited

def AV.hasNan (a : AV) : Bool := a.cs.contains Cls.nan
def AV.of (s : CSet) : AV := ⟨norm s, .none⟩

/-- The abstract input of a binary op: the classes of the two operands and how they compare. -/
structure In where
  cx : Cls
  cy : Cls
  ord : Ordering     -- compare x y
  deriving DecidableEq, Repr, Inhabited

namespace In

/-- `ord` must be consistent with the classes (when a NaN is present we fix `ord = eq`). -/
def ok (i : In) : Bool :=
  if i.cx.isNan || i.cy.isNan then i.ord == .eq
  else if i.cx.rank < i.cy.rank then i.ord == .lt
  else if i.cy.rank < i.cx.rank then i.ord == .gt
  else if i.cx.isFinNZ then !(i.cx == Cls.one && i.cy == Cls.one) || i.ord == .eq
  else i.ord == .eq

def X (i : In) : AV := ⟨[i.cx], .x⟩
def Y (i : In) : AV := ⟨[i.cy], .y⟩
def swap (i : In) : In := ⟨i.cy, i.cx, i.ord.swap⟩

/-- compare two abstract values when both are (copies of) inputs -/
def cmp (i : In) (a b : AV) : Option Ordering :=
  if a.hasNan || b.hasNan then none else
  match a.tag, b.tag with
  | .x, .x => some .eq
  | .y, .y => some .eq
  | .x, .y => some i.ord
  | .y, .x => some i.ord.swap
  | _, _ => none

end In

/-- swap the meaning of the provenance tags (used by the operand-swapping registrations) -/
def AV.swapTag (a : AV) : AV :=
  ⟨a.cs, match a.tag with | .x => .y | .y => .x | .none => .none⟩

def addA (a b : AV) : AV :=
  -- v + (+0) = v unless v = −0 ;  v + (−0) = v always
  if b.cs == [Cls.nzero] then a
  else if a.cs == [Cls.nzero] then b
  else if b.cs == [Cls.pzero] && !a.cs.contains Cls.nzero then a
  else if a.cs == [Cls.pzero] && !b.cs.contains Cls.nzero then b
  else ⟨lift2 addC a.cs b.cs, .none⟩

def negA (a : AV) : AV := ⟨norm (a.cs.map negC), .none⟩

def singleFinNZ (a : AV) : Bool :=
  match a.cs with
  | [c] => c.isFinNZ
  | _ => false

/-- both singletons of the same sign -/
def sameSign (a b : AV) : Bool :=
  match a.cs, b.cs with
  | [c], [d] => c.sgnNeg == d.sgnNeg
  | _, _ => false

/-- subtraction; when both operands are copies of finite non-zero inputs their order is known:
    equal values cancel to +0 exactly, `a < b` gives a negative result, never 0 (gradual
    underflow), which can overflow to −∞ only when the signs differ. -/
def subA (i : In) (a b : AV) : AV :=
  if singleFinNZ a && singleFinNZ b then
    match i.cmp a b with
    | some .eq => ⟨[Cls.pzero], .none⟩
    | some .lt => ⟨if sameSign a b then [Cls.neg] else [Cls.ninf, Cls.neg], .none⟩
    | some .gt => ⟨if sameSign a b then [Cls.pos] else [Cls.pos, Cls.pinf], .none⟩
    | none => ⟨lift2 subC a.cs b.cs, .none⟩
  else ⟨lift2 subC a.cs b.cs, .none⟩

def mulA (a b : AV) : AV :=
  if a.cs == [Cls.one] then b else if b.cs == [Cls.one] then a
  else ⟨lift2 mulC a.cs b.cs, .none⟩

def divNpA (a b : AV) : AV :=
  if b.cs == [Cls.one] then a else ⟨lift2 divC a.cs b.cs, .none⟩

def recipA (a : AV) : AV := ⟨lift1 recipC a.cs, if a.cs == [Cls.one] then a.tag else .none⟩
def expA (a : AV) : AV := ⟨lift1 expC a.cs, .none⟩
def logNpA (a : AV) : AV := ⟨lift1 logNpC a.cs, .none⟩
def logPyA (a : AV) : AV := ⟨lift1 logPyC a.cs, .none⟩

/-- `np.clip(a, finfo.min, None)`: identity (provenance kept) unless the value may be −∞. -/
def clipLoFMin (a : AV) : AV :=
  ⟨norm (a.cs.map clipLoC), if a.cs.contains Cls.ninf then .none else a.tag⟩

/-- `np.clip(a, None, finfo.max)`. -/
def clipHiFMax (a : AV) : AV :=
  ⟨norm (a.cs.map clipHiC), if a.cs.contains Cls.pinf then .none else a.tag⟩

/-- the operands compare equal: the result is value-equal to the first (provenance kept), but it
    may be either object — they differ only when they are zeros of different sign (numpy's
    `maximum(+0, −0)` is unspecified). -/
def eqPick (a b : AV) : AV := if a.cs == b.cs then a else ⟨norm (a.cs ++ b.cs), a.tag⟩

/-- Python builtin `max(l, r)` (what `ops.max` does on two Numbers). -/
def maxPyA (i : In) (l r : AV) : AV :=
  match i.cmp l r with
  | some .lt => r
  | some .eq => eqPick l r
  | some _ => l
  | none => ⟨lift2 maxPyC l.cs r.cs, .none⟩

def minPyA (i : In) (l r : AV) : AV :=
  match i.cmp l r with
  | some .gt => r
  | some .eq => eqPick l r
  | some _ => l
  | none => ⟨lift2 minPyC l.cs r.cs, .none⟩

/-- `np.maximum(a, b)` (what `ops.max` does on two arrays; also `np.clip(a, b, None)`). -/
def maxNpA (i : In) (a b : AV) : AV :=
  match i.cmp a b with
  | some .lt => b
  | some .eq => eqPick a b
  | some _ => a
  | none => ⟨lift2 maxNpC a.cs b.cs, .none⟩

def minNpA (i : In) (a b : AV) : AV :=
  match i.cmp a b with
  | some .gt => b
  | some .eq => eqPick a b
  | some _ => a
  | none => ⟨lift2 minNpC a.cs b.cs, .none⟩

/-- the constant `finfo.min` (most negative finite double) -/
def fminA : AV := ⟨[Cls.neg], .none⟩

/-- Python `max(x, finfo.min)` for a Number `x`: `finfo.min if finfo.min > x else x`. -/
def maxPyFMin (a : AV) : AV :=
  match a.cs with
  | [Cls.ninf] => fminA
  | [Cls.nan] => a                       -- `finfo.min > nan` is False
  | [_] => a                            -- every finite value and +∞ is ≥ finfo.min
  | _ => ⟨norm (a.cs.map clipLoC), .none⟩

/-- `np.clip(a, lo, None)` with `lo = max(x, finfo.min)` -/
def clipLoA (i : In) (a lo : AV) : AV :=
  if lo == fminA then clipLoFMin a else maxNpA i a lo

/-! ### The implementation variants, as the source composes them -/

inductive Variant where
  | scalar     -- both operands Python numbers: the `default` of the op (builtin.py / array.py def)
  | arr        -- (array, array) registration (0-d arrays, numpy scalars, elementwise)
  | numArr     -- (Number, array)
  | arrNum     -- (array, Number)
  deriving DecidableEq, Repr, Inhabited

def Variant.all : List Variant := [.scalar, .arr, .numArr, .arrNum]
def Variant.name : Variant → String
  | .scalar => "scalar" | .arr => "arr" | .numArr => "numArr" | .arrNum => "arrNum"
def Variant.ofName? : String → Option Variant
  | "scalar" => some .scalar | "arr" => some .arr | "numArr" => some .numArr
  | "arrNum" => some .arrNum | _ => none

/-- array.py `logaddexp` default:  `shift = max(detach(x), detach(y));
    log(exp(x - shift) + exp(y - shift)) + shift`  with `max`, `log`, `exp` the *scalar* ops
    (Python `max`, guarded `math.log`, `math.exp`). -/
def logaddexpScalar (i : In) : AV :=
  let shift := maxPyA i i.X i.Y
  addA (logPyA (addA (expA (subA i i.X shift)) (expA (subA i i.Y shift)))) shift

/-- `_safe_logaddexp_tensor_tensor`: `shift = np.clip(max(x, y), finfo.min, None);
    np.log(np.exp(x - shift) + np.exp(y - shift)) + shift`. -/
def logaddexpArr (i : In) : AV :=
  let shift := clipLoFMin (maxNpA i i.X i.Y)
  addA (logNpA (addA (expA (subA i i.X shift)) (expA (subA i i.Y shift)))) shift

/-- `_safe_logaddexp_number_tensor(x, y)`: `shift = np.clip(y, max(x, finfo.min), None)`. -/
def logaddexpNumArr (i : In) : AV :=
  let shift := clipLoA i i.Y (maxPyFMin i.X)
  addA (logNpA (addA (expA (subA i i.X shift)) (expA (subA i i.Y shift)))) shift

/-- `_safe_logaddexp_tensor_number(x, y) = _safe_logaddexp_number_tensor(y, x)`. -/
def logaddexpArrNum (i : In) : AV := (logaddexpNumArr i.swap).swapTag

def logaddexpV : Variant → In → AV
  | .scalar => logaddexpScalar | .arr => logaddexpArr
  | .numArr => logaddexpNumArr | .arrNum => logaddexpArrNum

/-- `ops.sample` is `logaddexp.make(logaddexp.default, name="sample")`: the *default* body with the
    generic ops; on two arrays `max` is `np.maximum`, `log` is `np.log` — and no clipping. -/
def sampleArr (i : In) : AV :=
  let shift := maxNpA i i.X i.Y
  addA (logNpA (addA (expA (subA i i.X shift)) (expA (subA i i.Y shift)))) shift

/-- safesub.  builtin.py default: `sub(x, y)` when `y` is a Number (so also (array, Number));
    array.py `_safesub` for (array, array) and (Number, array): `x + np.clip(-y, None, finfo.max)`. -/
def safesubV : Variant → In → AV
  | .scalar, i => subA i i.X i.Y
  | .arrNum, i => subA i i.X i.Y
  | _, i => addA i.X (clipHiFMax (negA i.Y))

/-- safediv.  builtin.py default: `operator.truediv(x, y)` when `y` is a Number: raises
    `ZeroDivisionError` for two Python numbers and a zero divisor (`none`), numpy division for
    (array, Number); array.py `_safediv`: `x * np.clip(np.reciprocal(y), None, finfo.max)`, with an
    integer/bool divisor array first converted to float64 (/repo 0be2287) — so the composition is
    over the float classes for every divisor dtype. -/
def safedivV : Variant → In → Option AV
  | .scalar, i => if i.cy.isZero then none else some (divNpA i.X i.Y)
  | .arrNum, i => some (divNpA i.X i.Y)
  | _, i => some (mulA i.X (clipHiFMax (recipA i.Y)))

/-- reciprocal.  builtin.py: `1.0 / x` (raises at 0); array.py: `np.clip(np.reciprocal(x), None,
    finfo.max)`.  Unary: only `cx` is used. -/
def reciprocalV : Variant → Cls → Option AV
  | .scalar, c => if c.isZero then none else some (recipA ⟨[c], .x⟩)
  | _, c => some (clipHiFMax (recipA ⟨[c], .x⟩))

/-- log.  builtin.py: guarded `math.log`; array.py `_log`: `np.log` (float dtype). -/
def logV : Variant → Cls → AV
  | .scalar, c => logPyA ⟨[c], .x⟩
  | _, c => logNpA ⟨[c], .x⟩

/-- `_log` on a bool array: `np.where(x, 0.0, -inf)`; a bool is `pzero`(False) or `one`(True). -/
def logBool : Bool → Cls
  | true => Cls.pzero
  | false => Cls.ninf

/-- max.  scalars: Python `max`; arrays: `np.maximum`; number×array: `np.clip(arr, num, None)`. -/
def maxV : Variant → In → AV
  | .scalar, i => maxPyA i i.X i.Y
  | .arr, i => maxNpA i i.X i.Y
  | .numArr, i => maxNpA i i.Y i.X      -- np.clip(y, x, None)
  | .arrNum, i => maxNpA i i.X i.Y      -- np.clip(x, y, None)

def minV : Variant → In → AV
  | .scalar, i => minPyA i i.X i.Y
  | .arr, i => minNpA i i.X i.Y
  | .numArr, i => minNpA i i.Y i.X
  | .arrNum, i => minNpA i i.X i.Y

/-! ### Reductions over arrays of arbitrary length -/

/-- classes of `np.amax` over a non-empty array (NaN propagates) -/
def amaxC : List Cls → CSet
  | [] => []
  | [c] => [c]
  | c :: cs => lift2 maxNpC [c] (amaxC cs)

/-- `np.where(np.isfinite(amax), amax, 0.0)` -/
def finiteOrZeroC (c : Cls) : Cls := if c.isFinite then c else Cls.pzero

/-- `np.sum` of a list of class sets, left to right from the first element. -/
def sumSets : List CSet → CSet
  | [] => [Cls.pzero]
  | [s] => norm s
  | s :: ss => lift2 addC s (sumSets ss)

/-- array.py `logsumexp` (full reduction):
      amax = np.amax(x); amax = np.where(np.isfinite(amax), amax, 0.0)
      log(np.sum(np.exp(x - amax))) + amax                      (log = np.log on an array) -/
def logsumexpA (xs : List Cls) : CSet :=
  let amax := norm ((amaxC xs).map finiteOrZeroC)
  let terms := xs.map fun c => lift1 expC (lift2 subC [c] amax)
  lift2 addC (lift1 logNpC (sumSets terms)) amax

/-- addition known not to overflow (finite + finite stays finite) -/
def addNoOvfC (a b : Cls) : CSet :=
  (addC a b).filter fun r => !(r.isInf && a.isFinite && b.isFinite)

/-- product of two values of [0, 1]: cannot overflow -/
def mulUnitC (a b : Cls) : CSet :=
  (mulC a b).filter fun r => !(r.isInf && a.isFinite && b.isFinite)

def sumSetsNoOvf : List CSet → CSet
  | [] => [Cls.pzero]
  | [s] => norm s
  | s :: ss => lift2 addNoOvfC s (sumSetsNoOvf ss)

/-- einsum/numpy_log.py on `"a,a->"` (a log-space inner product), per operand
      shift = clamp(amax(operand), finfo.min, None);  e = exp(operand - shift)
    then `log(einsum(e₁, e₂)) + shift₁ + shift₂`.
    Relational facts used (validated by the harness on the real code): `operand − shift ≤ 0`
    because `shift ≥` every entry, so `exp(operand − shift) ∈ [0, 1]` — class `pzero`/`pos`/`one`,
    never `+∞`; products and sums of fewer than 2^1023 such values do not overflow.
    `ovf` says whether the *sum of the shifts* may overflow; the stated domain of the log-space
    einsum is `ovf = false` (Σ shifts representable).  `expLeShift c` is the class set of
    `exp(c − shift)`. -/
def expLeShift (shift : CSet) (c : Cls) : CSet :=
  norm ((lift1 expC (lift2 subC [c] shift)).map fun r => if r == Cls.pinf then Cls.pos else r)

def logEinsumDot (ovf : Bool) (xs ys : List Cls) : CSet :=
  let sx := norm ((amaxC xs).map clipLoC)
  let sy := norm ((amaxC ys).map clipLoC)
  let prods := List.zipWith (fun a b => lift2 mulUnitC (expLeShift sx a) (expLeShift sy b)) xs ys
  let shifts := if ovf then lift2 addC sx sy else lift2 addNoOvfC sx sy
  lift2 addC shifts (lift1 logNpC (sumSetsNoOvf prods))

/-- einsum/numpy_map.py on `"a,a->"`: `amax(x + y)`. -/
def maxEinsumDot (xs ys : List Cls) : CSet :=
  match List.zipWith (fun a b => addC a b) xs ys with
  | [] => []
  | s :: ss => (s :: ss).foldl (fun acc t => lift2 maxNpC acc t) s

/-! ### Exact arithmetic of the table ops on XR (used by the law grid of the harness) -/

def boolXR (b : Bool) : XR := if b then 1 else 0

/-- value of a table op on exact operands (`none`: not an exact-arithmetic op) -/
def evalOp : Op → XR → XR → Option XR
  | .add, a, b => some (XR.add a b)
  | .sub, a, b => some (XR.sub a b)
  | .mul, a, b => some (XR.mul a b)
  | .max, a, b => some (XR.max a b)
  | .min, a, b => some (XR.min a b)
  | .and_, a, b => some (boolXR (a != 0 && b != 0))
  | .or_, a, b => some (boolXR (a != 0 || b != 0))
  | .xor, a, b => some (boolXR ((a != 0) != (b != 0)))
  | _, _, _ => none

/-! ### Mixed (Python scalar, array) calls across array dtypes

  `ops.max(s, arr)` / `ops.min(arr, s)` with a Python number `s` and an array whose dtype is
  int64 or bool are registered as `np.clip(arr, s, None)` / `np.clip(arr, None, s)`: numpy
  promotes the array ELEMENTS to the common (float) type — an exact embedding of ℤ / Bool into the
  extended rationals — and compares there.  `mixedMax` / `mixedMin` are that composition.
  `…Cast` is the other composition one could write (lift the scalar INTO the array's dtype first,
  `np.full_like(arr, s, shape=())`, then `np.maximum`): it is the scalar op only when the scalar is
  representable in the dtype (Props/C15/Dtype.lean). -/

inductive DType where
  | f64 | i64 | bool
  deriving DecidableEq, Repr, Inhabited

/-- a stored array element: an exact rational-or-special (f64), an integer, a boolean -/
inductive Elem where
  | f (x : XR) | i (n : Int) | b (v : Bool)
  deriving DecidableEq, Repr, Inhabited

def Elem.dtype : Elem → DType | .f _ => .f64 | .i _ => .i64 | .b _ => .bool

/-- numpy's value-preserving promotion of an element to the float carrier -/
def embed : Elem → XR
  | .f x => x
  | .i n => XR.ofInt n
  | .b v => boolXR v

/-- `np.clip(arr, s, None)` elementwise: promote the element, then maximum -/
def mixedMax (s : XR) (e : Elem) : XR := XR.max s (embed e)
/-- `np.clip(arr, None, s)` -/
def mixedMin (s : XR) (e : Elem) : XR := XR.min s (embed e)

def int64Min : Int := -9223372036854775808

/-- C cast double → int64 as numpy performs it: truncation toward zero; ±∞ and NaN give INT64_MIN -/
def castInt : XR → Int
  | .fin q => Int.tdiv q.num q.den
  | _ => int64Min

/-- cast double → bool: anything non-zero (±∞, NaN included) is True -/
def castBool : XR → Bool
  | .fin q => q != 0
  | _ => true

/-- the scalar lifted into the element's dtype (`np.full_like(arr, s, shape=())`) -/
def castLike (s : XR) : Elem → Elem
  | .f _ => .f s
  | .i _ => .i (castInt s)
  | .b _ => .b (castBool s)

def elemMax : Elem → Elem → Elem
  | .f x, .f y => .f (XR.max x y)
  | .i m, .i n => .i (if m ≤ n then n else m)
  | .b u, .b v => .b (u || v)
  | a, _ => a

def elemMin : Elem → Elem → Elem
  | .f x, .f y => .f (XR.min x y)
  | .i m, .i n => .i (if m ≤ n then m else n)
  | .b u, .b v => .b (u && v)
  | a, _ => a

/-- `np.maximum(np.full_like(arr, s, shape=()), arr)`: cast the scalar first -/
def mixedMaxCast (s : XR) (e : Elem) : XR := embed (elemMax (castLike s e) e)
def mixedMinCast (s : XR) (e : Elem) : XR := embed (elemMin (castLike s e) e)

/-! ### Machine-limit helpers are functions of the dtype tag

  `ops.finfo(x) = np.finfo(x.dtype)`: the limits a stabilised op clamps with depend on the dtype of
  THIS operand only, never on what was asked before.  The limits are recorded by their binary
  exponent (max ≈ 2^maxExp, smallest normal 2^minExp, eps 2^-mant). -/

inductive FloatTy where
  | f16 | f32 | f64
  deriving DecidableEq, Repr, Inhabited

structure Limits where
  maxExp : Nat
  minExp : Int
  mant : Nat
  deriving DecidableEq, Repr, Inhabited

def finfoOf : FloatTy → Limits
  | .f16 => ⟨16, -14, 10⟩
  | .f32 => ⟨128, -126, 23⟩
  | .f64 => ⟨1024, -1022, 52⟩

/-- what the code does: a pure lookup; the history of earlier requests is ignored -/
def finfoAfter (_history : List FloatTy) (dt : FloatTy) : Limits := finfoOf dt

/-- a cache keyed by the dtype KIND ('f' for every float type): the first float type ever asked
    fixes the answer for all later ones -/
def finfoKindCached (history : List FloatTy) (dt : FloatTy) : Limits :=
  match history with
  | [] => finfoOf dt
  | first :: _ => finfoOf first

/-! ### dtype special-case guards in funsor/ops/array.py (regenerated into Gen/C15DtypeGuards.lean) -/

/-- numpy dtype kinds -/
inductive Kind where
  | b | i | u | f | other (code : String)
  deriving DecidableEq, Repr, Inhabited

/-- the registered function a guard sits in -/
inductive GuardFn where
  | log | safediv | other (name : String)
  deriving DecidableEq, Repr, Inhabited

/-- `_log`'s special branch `np.where(x, 0.0, -inf)`: the value it returns for a stored integer -/
def maskLog (n : Nat) : Cls := if n = 0 then Cls.ninf else Cls.pzero

end FV.C15
