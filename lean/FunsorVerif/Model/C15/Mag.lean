/-
  Model/C15/Mag.lean — a magnitude-refined abstract domain for the overflow-freedom clause of C15
  ("logaddexp … return the exact limit … near the float range boundary").

  The 8-class domain of Model/C15.lean cannot tell `1e308` from `3.0`, so finite + finite may be ±∞
  there.  Here every finite non-zero class is split by magnitude:
      S (small) : 0 < |v| ≤ 2^10          M (moderate) : 2^10 < |v| ≤ 2^1000
      H (huge)  : 2^1000 < |v| ≤ max double
  Facts used by the transfer functions (IEEE double, round to nearest):
    * H + S = H  (|S| ≤ 2^10 is below half an ulp of any H value, so even max + S rounds to max);
    * S + S ⊆ S ∪ M;  M + M, S + M ⊆ M ∪ H;  only M + H and H + H can overflow;
    * a difference of values of different levels has the sign of the larger and is not 0;
    * exp v = 0 for v < −2^10, exp v = +∞ for v > 2^10, exp of a non-positive value is ≤ 1;
    * |log v| < 2^10 for every finite positive v (log of the smallest subnormal is −744.4,
      of the largest double 709.8).
  Each variant of logaddexp is written again as the composition the source performs
  (see Model/C15.lean for the quoted code).  Core-only.
-/
import FunsorVerif.Core.Sexp
namespace FV.C15.Mag

inductive M where
  | nan | ninf | nH | nM | nS | nz | pz | pS | pM | pH | pinf
  deriving DecidableEq, Repr, Inhabited

namespace M

def all : List M := [nan, ninf, nH, nM, nS, nz, pz, pS, pM, pH, pinf]

def name : M → String
  | nan => "nan" | ninf => "ninf" | nH => "nH" | nM => "nM" | nS => "nS" | nz => "nz" | pz => "pz"
  | pS => "pS" | pM => "pM" | pH => "pH" | pinf => "pinf"

def ofName? : String → Option M
  | "nan" => some nan | "ninf" => some ninf | "nH" => some nH | "nM" => some nM | "nS" => some nS
  | "nz" => some nz | "pz" => some pz | "pS" => some pS | "pM" => some pM | "pH" => some pH
  | "pinf" => some pinf | _ => none

def isNan : M → Bool | nan => true | _ => false
def isInf : M → Bool | ninf => true | pinf => true | _ => false
def isZero : M → Bool | nz => true | pz => true | _ => false
def isFinite : M → Bool | nan => false | ninf => false | pinf => false | _ => true
def isFinNZ (c : M) : Bool := c.isFinite && !c.isZero
def sgnNeg : M → Bool | ninf => true | nH => true | nM => true | nS => true | nz => true | _ => false
/-- magnitude level of a finite non-zero class: S = 1, M = 2, H = 3 (0 otherwise) -/
def level : M → Nat
  | nS => 1 | pS => 1 | nM => 2 | pM => 2 | nH => 3 | pH => 3 | _ => 0
/-- the finite non-zero class of a sign and level -/
def mk (negative : Bool) (lvl : Nat) : M :=
  match negative, lvl with
  | true, 1 => nS | true, 2 => nM | true, _ => nH
  | false, 1 => pS | false, 2 => pM | false, _ => pH
def rank : M → Nat
  | nan => 0 | ninf => 0 | nH => 1 | nM => 2 | nS => 3 | nz => 4 | pz => 4 | pS => 5 | pM => 6
  | pH => 7 | pinf => 8
def neg : M → M
  | nan => nan | ninf => pinf | nH => pH | nM => pM | nS => pS | nz => pz | pz => nz | pS => nS
  | pM => nM | pH => nH | pinf => ninf

end M

abbrev MSet := List M
def norm (s : MSet) : MSet := M.all.filter fun c => s.contains c
def lift1 (f : M → MSet) (a : MSet) : MSet := norm (a.flatMap f)
def lift2 (f : M → M → MSet) (a b : MSet) : MSet := norm (a.flatMap fun x => b.flatMap fun y => f x y)

/-- levels `1 … n` -/
def upTo (n : Nat) : List Nat := (List.range n).map (· + 1)

open M in
def addC (a b : M) : MSet :=
  if a.isNan || b.isNan then [nan]
  else if (a == ninf && b == pinf) || (a == pinf && b == ninf) then [nan]
  else if a.isInf then [a] else if b.isInf then [b]
  else if a.isZero && b.isZero then (if a == nz && b == nz then [nz] else [pz])
  else if a.isZero then [b] else if b.isZero then [a]
  else
    let la := a.level
    let lb := b.level
    let hi := Nat.max la lb
    let lo := Nat.min la lb
    if a.sgnNeg == b.sgnNeg then
      let s := a.sgnNeg
      if hi == 3 then (if lo == 1 then [mk s 3] else [mk s 3, if s then ninf else pinf])
      else if hi == 2 then [mk s 2, mk s 3]
      else [mk s 1, mk s 2]
    else if la == lb then
      -- opposite signs, same level: anything up to that level, either sign, or exact cancellation
      (upTo la).flatMap (fun l => [mk true l, mk false l]) ++ [pz]
    else
      -- opposite signs, different levels: sign of the larger, never 0
      let s := if la > lb then a.sgnNeg else b.sgnNeg
      (upTo hi).map (mk s)

def subC (a b : M) : MSet := addC a b.neg

open M in
/-- `exp` (numpy) -/
def expC : M → MSet
  | nan => [nan] | ninf => [pz] | nH => [pz] | nM => [pz] | nS => [pz, pS] | nz => [pS] | pz => [pS]
  | pS => [pS, pM, pH, pinf] | pM => [pinf] | pH => [pinf] | pinf => [pinf]

open M in
/-- `np.log` -/
def logNpC : M → MSet
  | nan => [nan] | ninf => [nan] | nH => [nan] | nM => [nan] | nS => [nan] | nz => [ninf] | pz => [ninf]
  | pS => [nS, pz, pS] | pM => [pS] | pH => [pS] | pinf => [pinf]

open M in
/-- scalar `log`: `math.log(x) if x > 0 else -inf` -/
def logPyC : M → MSet
  | pS => [nS, pz, pS] | pM => [pS] | pH => [pS] | pinf => [pinf]
  | _ => [ninf]

open M in
def maxNpC (a b : M) : MSet :=
  if a.isNan || b.isNan then [nan]
  else if a.rank < b.rank then [b] else if b.rank < a.rank then [a] else [a, b]

open M in
def maxPyC (l r : M) : MSet :=
  if l.isNan then [nan] else if r.isNan then [l]
  else if l.rank < r.rank then [r] else if r.rank < l.rank then [l]
  else [l, r]

open M in
/-- `np.clip(v, finfo.min, None)` -/
def clipLoC : M → M | ninf => nH | c => c

inductive Tag where
  | none | x | y
  deriving DecidableEq, Repr, Inhabited

structure AV where
  cs : MSet
  tag : Tag := .none
  deriving DecidableEq, Repr, Inhabited

def AV.hasNan (a : AV) : Bool := a.cs.contains M.nan

structure In where
  cx : M
  cy : M
  ord : Ordering
  deriving DecidableEq, Repr, Inhabited

namespace In
def ok (i : In) : Bool :=
  if i.cx.isNan || i.cy.isNan then i.ord == .eq
  else if i.cx.rank < i.cy.rank then i.ord == .lt
  else if i.cy.rank < i.cx.rank then i.ord == .gt
  else if i.cx.isFinNZ then true
  else i.ord == .eq
def X (i : In) : AV := ⟨[i.cx], .x⟩
def Y (i : In) : AV := ⟨[i.cy], .y⟩
def swap (i : In) : In := ⟨i.cy, i.cx, i.ord.swap⟩
def cmp (i : In) (a b : AV) : Option Ordering :=
  if a.hasNan || b.hasNan then none else
  match a.tag, b.tag with
  | .x, .x => some .eq
  | .y, .y => some .eq
  | .x, .y => some i.ord
  | .y, .x => some i.ord.swap
  | _, _ => none
end In

def AV.swapTag (a : AV) : AV := ⟨a.cs, match a.tag with | .x => .y | .y => .x | .none => .none⟩

def addA (a b : AV) : AV :=
  if b.cs == [M.nz] then a
  else if a.cs == [M.nz] then b
  else if b.cs == [M.pz] && !a.cs.contains M.nz then a
  else if a.cs == [M.pz] && !b.cs.contains M.nz then b
  else ⟨lift2 addC a.cs b.cs, .none⟩

def single? (a : AV) : Option M :=
  match a.cs with
  | [c] => some c
  | _ => none

/-- subtraction with the order knowledge of two copied inputs: `a ≤ b` gives a non-positive result
    (0 exactly iff equal), of any level up to the larger, which overflows to −∞ only when the
    signs differ and a level is H or both are M-or-above. -/
def subA (i : In) (a b : AV) : AV :=
  match single? a, single? b with
  | some ca, some cb =>
    if ca.isFinNZ && cb.isFinNZ then
      match i.cmp a b with
      | some .eq => ⟨[M.pz], .none⟩
      | some .lt => ⟨norm ((subC ca cb).filter fun r => r.sgnNeg && !r.isZero), .none⟩
      | some .gt => ⟨norm ((subC ca cb).filter fun r => !r.sgnNeg && !r.isZero), .none⟩
      | none => ⟨lift2 subC a.cs b.cs, .none⟩
    else ⟨lift2 subC a.cs b.cs, .none⟩
  | _, _ => ⟨lift2 subC a.cs b.cs, .none⟩

def expA (a : AV) : AV := ⟨lift1 expC a.cs, .none⟩
def logNpA (a : AV) : AV := ⟨lift1 logNpC a.cs, .none⟩
def logPyA (a : AV) : AV := ⟨lift1 logPyC a.cs, .none⟩

def clipLoFMin (a : AV) : AV :=
  ⟨norm (a.cs.map clipLoC), if a.cs.contains M.ninf then .none else a.tag⟩

def eqPick (a b : AV) : AV := if a.cs == b.cs then a else ⟨norm (a.cs ++ b.cs), a.tag⟩

def maxPyA (i : In) (l r : AV) : AV :=
  match i.cmp l r with
  | some .lt => r
  | some .eq => eqPick l r
  | some _ => l
  | none => ⟨lift2 maxPyC l.cs r.cs, .none⟩

def maxNpA (i : In) (a b : AV) : AV :=
  match i.cmp a b with
  | some .lt => b
  | some .eq => eqPick a b
  | some _ => a
  | none => ⟨lift2 maxNpC a.cs b.cs, .none⟩

def fminA : AV := ⟨[M.nH], .none⟩

def maxPyFMin (a : AV) : AV :=
  match a.cs with
  | [M.ninf] => fminA
  | [_] => a
  | _ => ⟨norm (a.cs.map clipLoC), .none⟩

def clipLoA (i : In) (a lo : AV) : AV :=
  if lo == fminA then clipLoFMin a else maxNpA i a lo

inductive Variant where
  | scalar | arr | numArr | arrNum
  deriving DecidableEq, Repr, Inhabited

def Variant.ofName? : String → Option Variant
  | "scalar" => some .scalar | "arr" => some .arr | "numArr" => some .numArr
  | "arrNum" => some .arrNum | _ => none

def logaddexpScalar (i : In) : AV :=
  let shift := maxPyA i i.X i.Y
  addA (logPyA (addA (expA (subA i i.X shift)) (expA (subA i i.Y shift)))) shift

def logaddexpArr (i : In) : AV :=
  let shift := clipLoFMin (maxNpA i i.X i.Y)
  addA (logNpA (addA (expA (subA i i.X shift)) (expA (subA i i.Y shift)))) shift

def logaddexpNumArr (i : In) : AV :=
  let shift := clipLoA i i.Y (maxPyFMin i.X)
  addA (logNpA (addA (expA (subA i i.X shift)) (expA (subA i i.Y shift)))) shift

def logaddexpArrNum (i : In) : AV := (logaddexpNumArr i.swap).swapTag

def logaddexpV : Variant → In → AV
  | .scalar => logaddexpScalar | .arr => logaddexpArr
  | .numArr => logaddexpNumArr | .arrNum => logaddexpArrNum

/-- safesub, stabilised registration: `x + np.clip(-y, None, finfo.max)` -/
def safesubArr (i : In) : AV :=
  addA i.X ⟨norm (i.Y.cs.map fun c => if c.neg == M.pinf then M.pH else c.neg), .none⟩

end FV.C15.Mag
