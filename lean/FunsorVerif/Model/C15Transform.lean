/-
  Model/C15Transform.lean — property C15, the *transform* tables of funsor/ops/builtin.py.

  Besides UNITS / DISTRIBUTIVE_OPS / …_INVERSES, builtin.py publishes a second family of algebraic
  claims that the rewrite rules and `funsor.distribution`/`funsor.domains` consume as axioms: for
  every `TransformOp`

      exp.set_inv(log)            log.set_inv(exp)
      tanh.set_inv(atanh)         atanh.set_inv(tanh)
      sigmoid.set_inv(sigmoid_inv)
      <op>.set_log_abs_det_jacobian(<fn of x, y>)

  i.e. "`t.inv` inverts `t`" and "`t.log_abs_det_jacobian(x, t(x))` is `log |dt/dx|`".

  This file transcribes, as a first-order expression language over the `math.*` primitives the
  source calls, the *bodies* of the scalar definitions (builtin.py:190-262):

      softplus(x)    = log(1.0 + exp(x))
      sigmoid(x)     = 1 / (1 + exp(-x))
      sigmoid_inv(y) = log(y) - log1p(-y)
      ladj exp       = x            (x.sum() on a scalar)
      ladj log       = -y
      ladj tanh      = 2.0 * (math.log(2.0) - x - softplus(-2.0 * x))
      ladj atanh     = -tanh.log_abs_det_jacobian(y, x)
      ladj sigmoid   = -softplus(-x) - softplus(x)

  and the two tables (`invTable`, `ladj`).  The real-number reading and the proofs are in
  `Props/C15/Transform.lean`.  Core-only; `evalF` is the executable reading over `Float`.
-/
namespace FV.C15.Transform

/-- `math.*` primitives used by the bodies.  `log` is funsor's guarded `ops.log`
    (`math.log(x) if x > 0 else -inf`); inside its domain `x > 0` it is `math.log`. -/
inductive Prim where
  | exp | log | log1p | tanh | atanh
  deriving DecidableEq, Repr, Inhabited

/-- Expressions in the two formal arguments `x` (input) and `y` (output) of a transform. -/
inductive E where
  | x | y
  | lit (n : Nat)                 -- 1, 1.0, 2.0 …
  | neg (a : E)
  | add (a b : E) | sub (a b : E) | mul (a b : E) | div (a b : E)
  | prim (p : Prim) (a : E)
  deriving DecidableEq, Repr, Inhabited

/-- substitute the formal arguments (`f(a, b)` for a body `f(x, y)`) -/
def E.subst (e : E) (ax ay : E) : E :=
  match e with
  | .x => ax
  | .y => ay
  | .lit n => .lit n
  | .neg a => .neg (a.subst ax ay)
  | .add a b => .add (a.subst ax ay) (b.subst ax ay)
  | .sub a b => .sub (a.subst ax ay) (b.subst ax ay)
  | .mul a b => .mul (a.subst ax ay) (b.subst ax ay)
  | .div a b => .div (a.subst ax ay) (b.subst ax ay)
  | .prim p a => .prim p (a.subst ax ay)

/-- `softplus(a) = log(1.0 + exp(a))` (builtin.py:196-198) -/
def softplus (a : E) : E := .prim .log (.add (.lit 1) (.prim .exp a))

/-- The transform ops of builtin.py (plus the anonymous `sigmoid_inv`). -/
inductive T where
  | exp | log | tanh | atanh | sigmoid | sigmoidInv
  deriving DecidableEq, Repr, Inhabited

/-- body of the scalar default, as a function of `x` -/
def T.body : T → E
  | .exp => .prim .exp .x
  | .log => .prim .log .x
  | .tanh => .prim .tanh .x
  | .atanh => .prim .atanh .x
  | .sigmoid => .div (.lit 1) (.add (.lit 1) (.prim .exp (.neg .x)))          -- 1 / (1 + exp(-x))
  | .sigmoidInv => .sub (.prim .log .x) (.prim .log1p (.neg .x))              -- log(y) - log1p(-y)

/-- `t.set_inv(u)` entries, in source order (builtin.py:226-229, 242-244) -/
def invTable : List (T × T) :=
  [(.exp, .log), (.log, .exp), (.tanh, .atanh), (.atanh, .tanh), (.sigmoid, .sigmoidInv)]

/-- `tanh_log_abs_det_jacobian(x, y)` (builtin.py:232-234) -/
def ladjTanh : E :=
  .mul (.lit 2) (.sub (.sub (.prim .log (.lit 2)) .x) (softplus (.mul (.neg (.lit 2)) .x)))

/-- `t.set_log_abs_det_jacobian(fn)` bodies as functions of `(x, y)`, on a scalar
    (`.sum()` of a 0-d value is the value).  `sigmoidInv` has none. -/
def ladj : T → Option E
  | .exp => some .x
  | .log => some (.neg .y)
  | .tanh => some ladjTanh
  | .atanh => some (.neg (ladjTanh.subst .y .x))       -- -tanh.log_abs_det_jacobian(y, x)
  | .sigmoid => some (.sub (.neg (softplus (.neg .x))) (softplus .x))
  | .sigmoidInv => none

/-- executable reading over `Float` (`log1p a` as `log (1 + a)`: core has no `Float.log1p`) -/
def evalF (vx vy : Float) : E → Float
  | .x => vx
  | .y => vy
  | .lit n => n.toFloat
  | .neg a => - evalF vx vy a
  | .add a b => evalF vx vy a + evalF vx vy b
  | .sub a b => evalF vx vy a - evalF vx vy b
  | .mul a b => evalF vx vy a * evalF vx vy b
  | .div a b => evalF vx vy a / evalF vx vy b
  | .prim .exp a => Float.exp (evalF vx vy a)
  | .prim .log a => let v := evalF vx vy a; if v > 0 then Float.log v else -(1.0 / 0.0)
  | .prim .log1p a => Float.log (1.0 + evalF vx vy a)
  | .prim .tanh a => Float.tanh (evalF vx vy a)
  | .prim .atanh a => Float.atanh (evalF vx vy a)

end FV.C15.Transform
