/-
  Model/C16.lean — the parametric subtype relation of funsor/typing.py (`deep_issubclass` and the
  per-origin checks, `GenericTypeMeta.__subclasscheck__`, `deep_type`) and the part of
  multipledispatch that funsor/registry.py uses (`supercedes`, `consistent`, `edge`, first-match
  `dispatch_iter`, the `_cache` of `PartialDispatcher.partial_call`).

  Two executable versions of the relation are given:
    * `sub kf`   Bool-valued, total: the relation itself.  `kf = true` reproduces the clause
                 `if not subcls_args: return cls_args[0] is typing.Any` of `_subclasscheck_tuple`
                 for fixed-length tuples exactly as written (known finding KF-tuple-subclass);
                 `kf = false` is the same code with that clause answering `False`.
    * `subE`     three-valued (`Res.t | Res.f | Res.e`): additionally models where the real code
                 raises `TypeError("issubclass() arg 1 must be a class")` (a typing generic handed to
                 `type.__subclasscheck__`), with Python's left-to-right short-circuit evaluation of
                 `all(...)`/`any(...)`.  Props proves `subE = ok v → sub true = v`.

  Both are *structurally* recursive (no well-founded recursion, no fuel) so that `decide` can
  evaluate them on the generated registry tables: `sub a` is defined by recursion on `a` and returns
  a function of `b` which is itself defined by recursion on `b` (`against`).
-/
namespace FV.C16

/-- Type expressions.  `cls k` is a plain class (leaf id `k`, including the builtins `tuple`,
    `frozenset`, `object`); `fn k args` is a `GenericTypeMeta` class with origin `k`
    (`args = []`: the unsubscripted class).  `tupB`/`fsB` are bare `typing.Tuple`/`typing.FrozenSet`. -/
inductive Ty where
  | any
  | cls (k : Nat)
  | tupB
  | tup (xs : List Ty)
  | tupV (x : Ty)
  | fsB
  | fs (x : Ty)
  | union (xs : List Ty)
  | fn (k : Nat) (args : List Ty)
  deriving Repr, Inhabited

mutual
/-- Structural equality (`cls is subcls`: parametrised classes and typing generics are cached, so
    identity of live type objects is structural equality of their expressions). -/
def Ty.beq : Ty → Ty → Bool
  | .any, .any => true
  | .cls a, .cls b => a == b
  | .tupB, .tupB => true
  | .tup xs, .tup ys => Ty.beqL xs ys
  | .tupV x, .tupV y => Ty.beq x y
  | .fsB, .fsB => true
  | .fs x, .fs y => Ty.beq x y
  | .union xs, .union ys => Ty.beqL xs ys
  | .fn a xs, .fn b ys => a == b && Ty.beqL xs ys
  | _, _ => false
def Ty.beqL : List Ty → List Ty → Bool
  | [], [] => true
  | x :: xs, y :: ys => Ty.beq x y && Ty.beqL xs ys
  | _, _ => false
end

/-- Leaf-class environment: `L a b` = `issubclass(a, b)` on leaf ids (generated table). -/
structure Env where
  L : Nat → Nat → Bool
  kTuple : Nat
  kFs : Nat
  /-- leaf id is the origin of a GenericTypeMeta (funsor) class -/
  isFn : Nat → Bool
  /-- what `issubclass(<typing generic>, k)` does for the plain class `k`:
      `true` = raises TypeError (metaclass `type`/`ABCMeta`), `false` = returns False (custom metaclass). -/
  raisesNonClass : Nat → Bool
  /-- pseudo leaf standing for any `multipledispatch.variadic.Variadic[...]` class when it occurs
      on the *left* of `issubclass` (it is a plain class below `object` only) -/
  kVar : Nat

def isAny : Ty → Bool
  | .any => true
  | _ => false

/-- `cls_args[0] is typing.Any` for a possibly empty argument list. -/
def headIsAny : List Ty → Bool
  | y :: _ => isAny y
  | [] => false

section Pure
variable (E : Env) (kf : Bool)

/-- What `against` needs to know about the left type `a`: its shape, with the already
    partially-applied relation for each child. -/
inductive AKind (ρ : Type) where
  | plain (k : Nat)
  | tupB
  | tup (fs : List (Ty → ρ))
  | tupV (f : Ty → ρ)
  | fsB
  | fs (f : Ty → ρ)
  | fn (k : Nat) (fs : List (Ty → ρ))

/-- `get_origin(subcls)` as a leaf id. -/
def AKind.org {ρ : Type} : AKind ρ → Nat
  | .plain k => k
  | .tupB | .tup _ | .tupV _ => E.kTuple
  | .fsB | .fs _ => E.kFs
  | .fn k _ => k

/-- `get_args(subcls)` seen from the tuple/frozenset checks: `none` = no args, `some (fs, variadic)`. -/
def AKind.args {ρ : Type} : AKind ρ → Option (List (Ty → ρ) × Bool)
  | .plain _ | .tupB | .fsB => none
  | .tup [] => none
  | .tup (g :: gs) => some (g :: gs, false)
  | .tupV f => some ([f], true)
  | .fs f => some ([f], false)
  | .fn _ [] => none
  | .fn _ (g :: gs) => some (g :: gs, false)

/-- `len(cls_args) == len(subcls_args) and all(deep_issubclass(a, b) for a, b in zip(...))` -/
def all2 : List (Ty → Bool) → List Ty → Bool
  | [], [] => true
  | f :: fs, y :: ys => f y && all2 fs ys
  | _, _ => false

/-- cls_args of a tuple type on the right. -/
inductive TArgs where
  | bare
  | fixed (ys : List Ty)
  | var (y : Ty)

/-- `_subclasscheck_tuple(cls, subcls)` -/
def tupleCheck (a : AKind Bool) (b : TArgs) : Bool :=
  if !E.L (a.org E) E.kTuple then false else
  match b with
  | .bare => true
  | .fixed ys =>
    match a.args with
    | none => kf && headIsAny ys            -- `if not subcls_args: return cls_args[0] is typing.Any`
    | some (_, true) => false               -- only subcls variadic
    | some (fs, false) => all2 fs ys
  | .var y =>
    match a.args with
    | none => isAny y                       -- same clause, cls variadic: Tuple ≤ Tuple[Any, ...]
    | some ([f], true) => f y               -- both variadic
    | some (_, true) => false               -- (unreachable: a variadic subcls has one argument)
    | some (fs, false) => fs.all (fun f => f y)

/-- `_subclasscheck_frozenset(cls, subcls)`; `b = none` for bare FrozenSet. -/
def fsCheck (a : AKind Bool) (b : Option Ty) : Bool :=
  if !E.L (a.org E) E.kFs then false else
  match b with
  | none => true
  | some y =>
    match a.args with
    | none => isAny y
    | some ([f], false) => f y
    | some _ => false                        -- len(subcls_args) == len(cls_args) == 1 fails

/-- `GenericTypeMeta.__subclasscheck__(cls = fn kb bargs, subcls = a)`.  For a typing generic on
    the left the real code raises; the Bool relation answers by the origin (see `subE`). -/
def fnCheck (self : Ty) (a : AKind Bool) (kb : Nat) (bargs : List Ty) : Bool :=
  if self.beq (.fn kb bargs) then true else
  match a with
  | .fn ka fs =>
    E.L ka kb && (if fs.length != bargs.length then bargs.isEmpty else all2 fs bargs)
  | a => E.L (a.org E) kb

mutual
/-- `deep_issubclass(a, b)` once `a` is known not to be a Union or Any: case analysis on `cls = b`
    (`_subclasscheck_registry[get_origin(cls)]`, falling back to `issubclass`). -/
def against (self : Ty) (a : AKind Bool) : Ty → Bool
  | .any => true
  | .union ys => anyAgainst self a ys
  | .cls k => E.L (a.org E) k
  | .tupB => tupleCheck E kf a .bare
  | .tup [] => tupleCheck E kf a .bare
  | .tup (y :: ys) => tupleCheck E kf a (.fixed (y :: ys))
  | .tupV y => tupleCheck E kf a (.var y)
  | .fsB => fsCheck E a none
  | .fs y => fsCheck E a (some y)
  | .fn kb bargs => fnCheck E self a kb bargs
def anyAgainst (self : Ty) (a : AKind Bool) : List Ty → Bool
  | [] => false
  | y :: ys => against self a y || anyAgainst self a ys
end

mutual
/-- `deep_issubclass(a, b)`. -/
def sub : Ty → Ty → Bool
  | .union xs, b => subAll xs b
  | .any, b => isAny b
  | .cls k, b => against E kf (.cls k) (.plain k) b
  | .tupB, b => against E kf .tupB .tupB b
  | .tup xs, b => against E kf (.tup xs) (.tup (subFns xs)) b
  | .tupV x, b => against E kf (.tupV x) (.tupV (sub x)) b
  | .fsB, b => against E kf .fsB .fsB b
  | .fs x, b => against E kf (.fs x) (.fs (sub x)) b
  | .fn k args, b => against E kf (.fn k args) (.fn k (subFns args)) b
def subAll : List Ty → Ty → Bool
  | [], _ => true
  | x :: xs, b => sub x b && subAll xs b
def subFns : List Ty → List (Ty → Bool)
  | [] => []
  | x :: xs => sub x :: subFns xs
end

end Pure

/-! ## Three-valued version: where the real code raises TypeError -/

inductive Res where
  | t | f | e
  deriving DecidableEq, Repr, Inhabited

def Res.ofBool (b : Bool) : Res := if b then .t else .f
def Res.toString : Res → String
  | .t => "T" | .f => "F" | .e => "E"

section Exc
variable (E : Env)

/-- `all(f(y) for f in fs)` with a fixed right argument, short-circuit, errors propagate. -/
def allE : List (Ty → Res) → Ty → Res
  | [], _ => .t
  | g :: gs, y => match g y with
    | .t => allE gs y
    | r => r

/-- `all(deep_issubclass(a, b) for a, b in zip(as, bs))` -/
def allZipE : List (Ty → Res) → List Ty → Res
  | g :: gs, y :: ys => match g y with
    | .t => allZipE gs ys
    | r => r
  | _, _ => .t

def all2E (gs : List (Ty → Res)) (ys : List Ty) : Res :=
  if gs.length != ys.length then .f else allZipE gs ys

def tupleCheckE (a : AKind Res) (b : TArgs) : Res :=
  if !E.L (a.org E) E.kTuple then .f else
  match b with
  | .bare => .t
  | .fixed ys =>
    match a.args with
    | none => Res.ofBool (headIsAny ys)
    | some (_, true) => .f
    | some (gs, false) => all2E gs ys
  | .var y =>
    match a.args with
    | none => Res.ofBool (isAny y)
    | some ([g], true) => g y
    | some (_, true) => .f
    | some (gs, false) => allE gs y

def fsCheckE (a : AKind Res) (b : Option Ty) : Res :=
  if !E.L (a.org E) E.kFs then .f else
  match b with
  | none => .t
  | some y =>
    match a.args with
    | none => Res.ofBool (isAny y)
    | some ([g], false) => g y
    | some _ => .f

/-- is the left type a typing generic (not a class): `type.__subclasscheck__(_, a)` raises. -/
def AKind.generic {ρ : Type} : AKind ρ → Bool
  | .plain _ | .fn _ _ => false
  | _ => true

def fnCheckE (self : Ty) (a : AKind Res) (kb : Nat) (bargs : List Ty) : Res :=
  if self.beq (.fn kb bargs) then .t else
  match a with
  | .fn ka gs =>
    if !E.L ka kb then .f
    else if gs.length != bargs.length then Res.ofBool bargs.isEmpty
    else allZipE gs bargs
  | a => if a.generic then .e else Res.ofBool (E.L (a.org E) kb)

/-- fallback `issubclass(subcls, cls)` for a plain class `cls = k` that is not `tuple`/`frozenset`. -/
def plainCheckE (a : AKind Res) (k : Nat) : Res :=
  if a.generic then (if E.raisesNonClass k then .e else .f) else Res.ofBool (E.L (a.org E) k)

mutual
def againstE (self : Ty) (a : AKind Res) : Ty → Res
  | .any => .t
  | .union ys => anyAgainstE self a ys
  | .cls k =>
    if k == E.kTuple then tupleCheckE E a .bare
    else if k == E.kFs then fsCheckE E a none
    else plainCheckE E a k
  | .tupB => tupleCheckE E a .bare
  | .tup [] => tupleCheckE E a .bare
  | .tup (y :: ys) => tupleCheckE E a (.fixed (y :: ys))
  | .tupV y => tupleCheckE E a (.var y)
  | .fsB => fsCheckE E a none
  | .fs y => fsCheckE E a (some y)
  | .fn kb bargs => fnCheckE E self a kb bargs
def anyAgainstE (self : Ty) (a : AKind Res) : List Ty → Res
  | [] => .f
  | y :: ys => match againstE self a y with
    | .f => anyAgainstE self a ys
    | r => r
end

mutual
/-- `deep_issubclass(a, b)` with TypeError as `Res.e`. -/
def subE : Ty → Ty → Res
  | .union xs, b => subAllE xs b
  | .any, b => Res.ofBool (isAny b)
  | .cls k, b => againstE E (.cls k) (.plain k) b
  | .tupB, b => againstE E .tupB .tupB b
  | .tup xs, b => againstE E (.tup xs) (.tup (subFnsE xs)) b
  | .tupV x, b => againstE E (.tupV x) (.tupV (subE x)) b
  | .fsB, b => againstE E .fsB .fsB b
  | .fs x, b => againstE E (.fs x) (.fs (subE x)) b
  | .fn k args, b => againstE E (.fn k args) (.fn k (subFnsE args)) b
def subAllE : List Ty → Ty → Res
  | [], _ => .t
  | x :: xs, b => match subE x b with
    | .t => subAllE xs b
    | r => r
def subFnsE : List Ty → List (Ty → Res)
  | [] => []
  | x :: xs => subE x :: subFnsE xs
end

/-- `get_origin(tp)` as a type expression (`typing.Union` itself has no arguments). -/
def originTy : Ty → Ty
  | .tupB | .tup _ | .tupV _ => .cls E.kTuple
  | .fsB | .fs _ => .cls E.kFs
  | .union _ => .union []
  | .fn k _ => .fn k []
  | t => t

/-! ## Signature slots, `issubclass` between them, multipledispatch -/

/-- One non-variadic signature element: `typing_wrap[ty]` (`wrapped`) or a GenericTypeMeta class. -/
structure Alt where
  wrapped : Bool
  ty : Ty
  deriving Repr, Inhabited

def Alt.beq (a b : Alt) : Bool := a.wrapped == b.wrapped && a.ty.beq b.ty

inductive Slot where
  | one (a : Alt)
  | var (alts : List Alt)       -- multipledispatch Variadic[(alt, …)]
  deriving Repr, Inhabited

def Slot.isVar : Slot → Bool
  | .var _ => true
  | _ => false

abbrev Sig := List Slot

/-- `issubclass(A, B)` for two non-variadic slots. -/
def altSubE (a b : Alt) : Res :=
  if b.wrapped then
    -- `_RuntimeSubclassCheckMeta.__subclasscheck__` → `deep_issubclass(A, b.ty)`
    if a.wrapped then
      match subE E a.ty b.ty with
      | .e => subE E (originTy E a.ty) b.ty      -- the `except TypeError` retry with the origin
      | r => r
    else subE E a.ty b.ty
  else
    -- `GenericTypeMeta.__subclasscheck__(B, A)`; a wrapper's origin is `typing_wrap`
    if a.wrapped then .f else subE E a.ty b.ty

/-- `issubclass(a, (b1, …, bn))` -/
def anyAltE (a : Alt) : List Alt → Res
  | [] => .f
  | b :: bs => match altSubE E a b with
    | .f => anyAltE a bs
    | r => r

def allAnyAltE : List Alt → List Alt → Res
  | [], _ => .t
  | a :: as, bs => match anyAltE E a bs with
    | .t => allAnyAltE as bs
    | r => r

/-- `issubclass(A, B)` for signature elements. -/
def slotSubE : Slot → Slot → Res
  | .one a, .one b => altSubE E a b
  | .var _, .one b => if b.wrapped then subE E (.cls E.kVar) b.ty else .f
  | .one a, .var bs => anyAltE E a bs
  | .var as, .var bs => allAnyAltE E as bs

/-- `all(map(issubclass, xs, ys))` (stops at the shorter list, like `map`). -/
def allSlotsE : List Slot → List Slot → Res
  | x :: xs, y :: ys => match slotSubE E x y with
    | .t => allSlotsE xs ys
    | r => r
  | _, _ => .t

/-- the `len(a) > len(b)` loop of `conflict.supercedes`. -/
def supWalkE : List Slot → List Slot → Res
  | [], bs => Res.ofBool (bs.length == 1)
  | _ :: _, [] => .f
  | ca :: as, cb :: bs =>
    if ca.isVar then
      if bs.isEmpty then slotSubE E ca cb else .f
    else if cb.isVar then
      match slotSubE E ca cb with
      | .t => supWalkE as (cb :: bs)
      | r => r
    else
      match slotSubE E ca cb with
      | .t => supWalkE as bs
      | r => r

def lastIsVar (s : Sig) : Bool :=
  match s.getLast? with
  | some x => x.isVar
  | none => false

/-- `multipledispatch.conflict.supercedes(a, b)` -/
def supercedesE (a b : Sig) : Res :=
  if a.length < b.length then Res.ofBool (a.isEmpty && b.length == 1 && lastIsVar b)
  else if a.length == b.length then allSlotsE E a b
  else supWalkE E a b

def supercedes (a b : Sig) : Bool := supercedesE E a b == .t

def orE (x : Res) (y : Unit → Res) : Res :=
  match x with
  | .f => y ()
  | r => r

/-- the unequal-length loop of `conflict.consistent`; `la`/`lb` = "cur_a / cur_b was variadic" in the
    last executed iteration; the lists are `a[p1:]`, `b[p2:]`; the first argument is fuel
    (`len a + len b + 1` suffices: every iteration consumes an element of one list). -/
def consWalk : Nat → List Slot → List Slot → Bool → Bool → Res
  | 0, _, _, _, _ => .f
  | n + 1, ca :: as, cb :: bs, _, _ =>
    match orE (slotSubE E cb ca) (fun _ => slotSubE E ca cb) with
    | .t =>
      if !(ca.isVar || cb.isVar) then consWalk n as bs false false
      else if ca.isVar then consWalk n (ca :: as) bs true cb.isVar
      else consWalk n as (cb :: bs) false true
    | r => r
  | _ + 1, as, bs, la, lb => Res.ofBool ((la && bs.isEmpty) || (lb && as.isEmpty))

def consZip : List Slot → List Slot → Res
  | x :: xs, y :: ys =>
    match orE (slotSubE E x y) (fun _ => slotSubE E y x) with
    | .t => consZip xs ys
    | r => r
  | _, _ => .t

/-- `multipledispatch.conflict.consistent(a, b)` -/
def consistentE (a b : Sig) : Res :=
  match a, b with
  | [], [] => .t
  | [], y :: _ => Res.ofBool y.isVar
  | x :: _, [] => Res.ofBool x.isVar
  | _, _ =>
    if a.length == b.length then consZip E a b
    else consWalk E (a.length + b.length + 1) a b false false

def ambiguous (a b : Sig) : Bool :=
  consistentE E a b == .t && !(supercedes E a b || supercedes E b a)

/-- `variadic_signature_matches_iter`: `cur` is the current signature element, `rest` what the
    iterator still holds.  (`next` on an exhausted iterator inside the generator cannot happen when
    only the last element is variadic; it is modelled as an error.) -/
def vmWalkE : List Slot → Slot → List Slot → Res
  | [], _, [] => .t
  | [], _, _ :: _ => .f
  | t :: ts, cur, rest =>
    match slotSubE E t cur with
    | .t =>
      if cur.isVar then vmWalkE ts cur rest
      else match rest with
        | [] => .e
        | nxt :: rest' => vmWalkE ts nxt rest'
    | r => r

/-- `variadic_signature_matches(types, full_signature)` -/
def vmatchE (types : List Slot) : Sig → Res
  | [] => .f
  | s :: rest => vmWalkE E types s rest

/-- one iteration of `Dispatcher.dispatch_iter`: does `signature` accept `types`? -/
def matchSigE (types : List Slot) (sig : Sig) : Res :=
  let fixed : Res := if sig.length == types.length then allSlotsE E types sig else .f
  match fixed with
  | .f => if lastIsVar sig then vmatchE E types sig else .f
  | r => r

def Slot.beq : Slot → Slot → Bool
  | .one a, .one b => a.beq b
  | _, _ => false

def sigKeyEq : List Slot → Sig → Bool
  | [], [] => true
  | x :: xs, y :: ys => x.beq y && sigKeyEq xs ys
  | _, _ => false

inductive DRes where
  | found (i : Nat)
  | none
  | raised
  deriving DecidableEq, Repr, Inhabited

/-- first match along `order` (indices into `sigs`). -/
def firstMatchE (sigs : List Sig) (types : List Slot) : List Nat → DRes
  | [] => .none
  | i :: rest =>
    match sigs[i]? with
    | Option.none => firstMatchE sigs types rest
    | some s =>
      match matchSigE E types s with
      | .t => .found i
      | .f => firstMatchE sigs types rest
      | .e => .raised

/-- `Dispatcher.dispatch(*types)`: exact key hit in `funcs`, else first match in the ordering. -/
def dispatch (sigs : List Sig) (order : List Nat) (types : List Slot) : DRes :=
  match sigs.findIdx? (sigKeyEq types) with
  | some i => .found i
  | Option.none => firstMatchE E sigs types order

/-- indices of all signatures accepting `types` (errors count as no match). -/
def matching (sigs : List Sig) (types : List Slot) : List Nat :=
  (List.range sigs.length).filter fun i =>
    match sigs[i]? with
    | some s => matchSigE E types s == .t
    | Option.none => false

/-- `order` never places a signature after one it strictly supercedes. -/
def isLinExt (sigs : List Sig) : List Nat → Bool
  | [] => true
  | i :: rest =>
    rest.all (fun j =>
      match sigs[i]?, sigs[j]? with
      | some si, some sj => !(supercedes E sj si && !supercedes E si sj)
      | _, _ => false) && isLinExt sigs rest

def isPerm (n : Nat) (order : List Nat) : Bool :=
  order.length == n && (List.range n).all (fun i => order.contains i)

def noRaise (sigs : List Sig) : Bool :=
  sigs.all fun a => sigs.all fun b => supercedesE E a b != .e && consistentE E a b != .e

/-- `conflict.ambiguities` as index pairs `(i, j)`, `i < j`. -/
def ambiguities (sigs : List Sig) : List (Nat × Nat) :=
  let n := sigs.length
  (List.range n).flatMap fun i =>
    ((List.range n).filter fun j =>
      i < j &&
      match sigs[i]?, sigs[j]? with
      | some a, some b =>
        ambiguous E a b && !(sigs.any fun c => supercedes E c a && supercedes E c b)
      | _, _ => false).map fun j => (i, j)

end Exc

/-! ## `deep_type` on values -/

inductive Val where
  | obj (k : Nat)                       -- instance of the plain class `k`
  | term (k : Nat) (args : List Val)    -- funsor term: `type(x) = origin[deep_type(args)…]` (terms.reflect)
  | tuple (xs : List Val)
  | fset (xs : List Val)                -- in iteration order
  deriving Repr, Inhabited

section DeepType
variable (E : Env)

/-- the loop of `_deep_type_frozenset` over the element types. -/
def fsetLoop (tp : Ty) : List Ty → Option Ty
  | [] => some tp
  | y :: ys =>
    let tp1 := if sub E true y tp then tp else originTy E tp
    if sub E true y tp1 then fsetLoop tp1 ys else none    -- NotImplementedError (inhomogeneous)

mutual
def deepType : Val → Option Ty
  | .obj k => some (.cls k)
  | .term k args => (deepTypes args).map (Ty.fn k)
  | .tuple [] => some .tupB
  | .tuple (x :: xs) => (deepTypes (x :: xs)).map Ty.tup
  | .fset [] => some .fsB
  | .fset (x :: xs) =>
    match deepTypes (x :: xs) with
    | some (t :: ts) => (fsetLoop E t (t :: ts)).map Ty.fs
    | _ => none
def deepTypes : List Val → Option (List Ty)
  | [] => some []
  | x :: xs =>
    match deepType x, deepTypes xs with
    | some t, some ts => some (t :: ts)
    | _, _ => none
end

end DeepType

/-! ## The memo cache of `PartialDispatcher.partial_call` -/

structure Disp where
  sigs : List Sig
  order : List Nat
  cache : List (List Slot × Nat)

def cacheLookup (types : List Slot) : List (List Slot × Nat) → Option Nat
  | [] => none
  | (k, v) :: rest => if sigKeyEq k types then some v else cacheLookup types rest

/-- `partial_call`: a hit returns the memoised rule; a miss dispatches and stores a found rule. -/
def Disp.call (E : Env) (d : Disp) (types : List Slot) : DRes × Disp :=
  match cacheLookup types d.cache with
  | some i => (.found i, d)
  | none =>
    match dispatch E d.sigs d.order types with
    | .found i => (.found i, { d with cache := (types, i) :: d.cache })
    | r => (r, d)

/-- `Dispatcher.add`: registers, clears `_cache`, drops `_ordering` (recomputed as `ord` of the new table). -/
def Disp.add (ord : List Sig → List Nat) (d : Disp) (s : Sig) : Disp :=
  let sigs := d.sigs ++ [s]
  { sigs := sigs, order := ord sigs, cache := [] }

/-! ## Generated tables (see fv/harness/c16.py `extract`) -/

/-- Leaf classes: row `k` of `sups` lists the ids `b ≠ k` with `issubclass(k, b)` in the live process. -/
structure Table where
  sups : List (List Nat)
  fnFlag : List Bool
  raises : List Bool
  kTuple : Nat
  kFs : Nat
  kVar : Nat

def Table.row (T : Table) (a : Nat) : List Nat := T.sups.getD a []
def Table.L (T : Table) (a b : Nat) : Bool := a == b || (T.row a).contains b
def Table.isFn (T : Table) (k : Nat) : Bool := T.fnFlag.getD k false

def Table.env (T : Table) : Env :=
  { L := T.L, kTuple := T.kTuple, kFs := T.kFs, isFn := T.isFn,
    raisesNonClass := fun k => T.raises.getD k true, kVar := T.kVar }

/-- One live dispatcher (`registry[key]` of one interpretation): signatures in registration order,
    the ordering multipledispatch computed in the extracting process (indices into `sigs`), and the
    ambiguous pairs it reported. -/
structure DTab where
  name : String
  sigs : List Sig
  /-- qualified name of the rule function registered for each signature -/
  rules : List String
  order : List Nat
  ambig : List (Nat × Nat)

/-! ## Overlap of patterns (may one argument type match both?) — conservative, used to find
    ambiguities that `multipledispatch.conflict.consistent` (slot-wise subclass comparability) misses -/

mutual
def tsize : Ty → Nat
  | .tup xs => 1 + tsizeL xs
  | .tupV x => 1 + tsize x
  | .fs x => 1 + tsize x
  | .union xs => 1 + tsizeL xs
  | .fn _ args => 1 + tsizeL args
  | _ => 1
def tsizeL : List Ty → Nat
  | [] => 0
  | x :: xs => tsize x + tsizeL xs
end

section Overlap
variable (E : Env)

def comparable (a b : Nat) : Bool := E.L a b || E.L b a

def all2o (r : Ty → Ty → Bool) : List Ty → List Ty → Bool
  | [], [] => true
  | x :: xs, y :: ys => r x y && all2o r xs ys
  | _, _ => false

/-- `true` unless the two patterns are certainly disjoint on argument types (first argument: fuel). -/
def overlapF : Nat → Ty → Ty → Bool
  | 0, _, _ => true
  | n + 1, a, b =>
    match a, b with
    | .any, _ => true
    | _, .any => true
    | .union xs, b => xs.any (fun x => overlapF n x b)
    | a, .union ys => ys.any (fun y => overlapF n a y)
    | .cls k1, .cls k2 => comparable E k1 k2
    | .cls k, .fn kb _ => comparable E k kb
    | .fn ka _, .cls k => comparable E ka k
    | .cls k, .tupB | .cls k, .tup _ | .cls k, .tupV _ => comparable E k E.kTuple
    | .tupB, .cls k | .tup _, .cls k | .tupV _, .cls k => comparable E k E.kTuple
    | .cls k, .fsB | .cls k, .fs _ => comparable E k E.kFs
    | .fsB, .cls k | .fs _, .cls k => comparable E k E.kFs
    | .tup xs, .tup ys => all2o (overlapF n) xs ys
    | .tup xs, .tupV y => xs.all (fun x => overlapF n x y)
    | .tupV x, .tup ys => ys.all (fun y => overlapF n x y)
    | .tupB, .tupB | .tupB, .tup _ | .tupB, .tupV _ | .tup _, .tupB | .tupV _, .tupB | .tupV _, .tupV _ => true
    | .fsB, .fsB | .fsB, .fs _ | .fs _, .fsB | .fs _, .fs _ => true      -- the empty frozenset
    | .fn ka as, .fn kb bs =>
      comparable E ka kb && (as.isEmpty || bs.isEmpty || all2o (overlapF n) as bs)
    | _, _ => false

def overlap (a b : Ty) : Bool := overlapF E (tsize a + tsize b) a b

def Slot.alts : Slot → List Alt
  | .one a => [a]
  | .var as => as

def slotOverlap (a b : Slot) : Bool :=
  a.alts.any fun x => b.alts.any fun y => overlap E x.ty y.ty

/-- may one tuple of argument types be accepted by both signatures (first argument: fuel) -/
def sigOverlapF : Nat → Sig → Sig → Bool
  | 0, _, _ => true
  | _ + 1, [], [] => true
  | _ + 1, [], [b] => b.isVar
  | _ + 1, [a], [] => a.isVar
  | _ + 1, [], _ => false
  | _ + 1, _, [] => false
  | n + 1, a :: as, b :: bs =>
    slotOverlap E a b &&
      (if a.isVar && b.isVar then true
       else if a.isVar then sigOverlapF n (a :: as) bs
       else if b.isVar then sigOverlapF n as (b :: bs)
       else sigOverlapF n as bs)

def sigOverlap (a b : Sig) : Bool := sigOverlapF E (a.length + b.length + 1) a b

/-- pairs `(i, j)`, `i < j`, of overlapping signatures neither of which supercedes the other and that
    no third signature refines — whether or not multipledispatch noticed. -/
def hiddenAmbiguities (sigs : List Sig) : List (Nat × Nat) :=
  let n := sigs.length
  (List.range n).flatMap fun i =>
    ((List.range n).filter fun j =>
      i < j &&
      match sigs[i]?, sigs[j]? with
      | some a, some b =>
        sigOverlap E a b && !(supercedes E a b || supercedes E b a) &&
          !(sigs.any fun c => supercedes E c a && supercedes E c b)
      | _, _ => false).map fun j => (i, j)

end Overlap

/-! ## The cache key of `PartialDispatcher.partial_call`, as the source builds it -/

/-- Source forms of the expression used as `self._cache[...]` key that the translator recognises
    (fv/harness/c16.py `extract`, from the AST of funsor/registry.py). -/
inductive KeyForm where
  /-- `tuple(map(typing_wrap, map(deep_type, args)))` — the deep types themselves -/
  | deepTypes
  /-- `tuple(typing_wrap(C' if isinstance(arg, C) else deep_type(arg)) for arg in args)`:
      arguments that are instances of leaf class `C` are keyed by the constant class `C'` -/
  | perArg (cases : List (Nat × Nat))
  /-- anything else (not understood: the obligation fails closed) -/
  | other
  deriving Repr, Inhabited, DecidableEq

/-- origin leaf of an argument type (argument types are never `Any` / `Union`) -/
def argOrg (E : Env) : Ty → Nat
  | .cls k => k
  | .tupB | .tup _ | .tupV _ => E.kTuple
  | .fsB | .fs _ => E.kFs
  | .fn k _ => k
  | _ => E.kVar

def keyAtom (E : Env) (cases : List (Nat × Nat)) (t : Ty) : Ty :=
  match cases.find? (fun c => E.L (argOrg E t) c.1) with
  | some c => .cls c.2
  | none => t

/-- the key computed for a tuple of argument (deep) types -/
def keyFn (E : Env) : KeyForm → List Slot → List Slot
  | .deepTypes, ts => ts
  | .perArg cases, ts => ts.map fun s =>
      match s with
      | .one ⟨w, t⟩ =>
        match cases.find? (fun c => E.L (argOrg E t) c.1) with
        | some c => .one ⟨true, .cls c.2⟩
        | none => .one ⟨w, t⟩
      | v => v
  | .other, _ => []

def KeyForm.injective : KeyForm → Bool
  | .deepTypes => true
  | .perArg cases => cases.isEmpty
  | .other => false

/-- `partial_call` with an arbitrary key function: lookup and store under `keyf types`, resolve a miss
    from the full types. -/
def Disp.callK (E : Env) (keyf : List Slot → List Slot) (d : Disp) (types : List Slot) : DRes × Disp :=
  match cacheLookup (keyf types) d.cache with
  | some i => (.found i, d)
  | none =>
    match dispatch E d.sigs d.order types with
    | .found i => (.found i, { d with cache := (keyf types, i) :: d.cache })
    | r => (r, d)

/-- `PartialDispatcher.add` as the source has it: registers, drops `_ordering`, and clears `_cache`
    iff `clears` (read from the source: it delegates to `Dispatcher.add`, which does `self._cache.clear()`,
    or clears itself). -/
def Disp.addC (clears : Bool) (ord : List Sig → List Nat) (d : Disp) (s : Sig) : Disp :=
  let sigs := d.sigs ++ [s]
  { sigs := sigs, order := ord sigs, cache := if clears then [] else d.cache }

end FV.C16
