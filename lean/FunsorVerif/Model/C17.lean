/-
  Model/C17.lean — the interpretation stack (funsor/interpreter.py:23,32-48;
  funsor/interpretations.py:33-43,150-190,284-292,346-347; funsor/terms.py:52-72,92;
  funsor/adjoint.py:38-70).

    I            an interpretation *object*: reflect, a DispatchedInterpretation leaf, a
                 PrioritizedInterpretation (flattened sub-interpretations; `tag` = the module-level
                 name when it is one of the global objects), Memoize(base), an AdjointTape with its
                 `_old_interpretation`, SubstituteInterpretation(subs, base)
    push/pop?    `_STACK.append` / `_STACK.pop()`  (innermost last)
    mkPrio       PrioritizedInterpretation.__init__ with its three assertions
    enterI       Interpretation.__enter__: total -> push self; partial -> push
                 PrioritizedInterpretation(self, get_interpretation())  (may refuse: `< 10`)
    interp       `_STACK[-1].interpret(cls, *args)` for one probe term, *including* the temporary
                 pushes made while interpreting (AdjointTape.interpret: `with self._old_interpretation`;
                 SubstituteInterpretation.interpret: `with self.base_interpretation`)
    Prog, exec   user programs: with-blocks, decorator use, raise, try/except, probes
-/
namespace FV.C17

/-- Probe kinds are named by strings (`num`, `a`, `b`, `bin`, `S`); the model is parametric in them. -/
abbrev K := String

inductive I where
  | reflect : I
  | disp (name : String) : I
  | prio (tag : Option String) (subs : List I) : I
  | memo (cid : Nat) (shared : Bool) (base : I) : I
  | tape (old : I) : I
  | subst (live : Bool) (base : I) : I
  deriving Repr, Inhabited

abbrev Stack := List I

inductive Err where
  | emptyStack        -- IndexError: `_STACK[-1]` / `_STACK.pop()` on an empty list
  | assertEmpty       -- `assert subinterpretations`
  | assertOverflow    -- `assert len(subinterpretations) < 10, "suspicious interpretation overflow"`
  | assertTotalOrder  -- `assert not any(s.is_total for s in subinterpretations[:-1])`
  | unknownName       -- NameError (never generated; keeps `named` total)
  | probe             -- the exception injected by the harness (`raise ProbeError`)
  deriving Repr, DecidableEq, Inhabited

inductive Outcome where
  | normal
  | exc (e : Err)
  deriving Repr, DecidableEq, Inhabited

/-! ### is_total / subinterpretations -/

mutual
/-- `Interpretation.is_total` (class attribute False; `reflect.is_total = True`;
    Prioritized: any; Memoize / SubstituteInterpretation: that of the base). -/
def I.isTotal : I → Bool
  | .reflect => true
  | .disp _ => false
  | .prio _ l => anyTotal l
  | .memo _ _ b => b.isTotal
  | .tape _ => false
  | .subst _ b => b.isTotal
def anyTotal : List I → Bool
  | [] => false
  | x :: xs => x.isTotal || anyTotal xs
end

/-- `Interpretation.subinterpretations`: `(self,)` except for a PrioritizedInterpretation. -/
def I.subinterps : I → List I
  | .prio _ l => l
  | x => [x]

/-! ### the stack primitives -/

def push (i : I) (s : Stack) : Stack := s ++ [i]

/-- `_STACK.pop()`; `none` = IndexError. -/
def pop? (s : Stack) : Option Stack :=
  match s.getLast? with
  | none => none
  | some _ => some s.dropLast

/-- `get_interpretation()` = `_STACK[-1]`. -/
def top? (s : Stack) : Option I := s.getLast?

/-- `PrioritizedInterpretation(*subinterpretations)`. -/
def mkPrio (l : List I) : Except Err I :=
  let flat := l.flatMap I.subinterps
  if flat.isEmpty then .error .assertEmpty
  else if ¬ (flat.length < 10) then .error .assertOverflow
  else if anyTotal flat.dropLast then .error .assertTotalOrder
  else .ok (.prio none flat)

/-- `Interpretation.__enter__` (lines 33-40): nothing is pushed unless everything before succeeded. -/
def enterI (i : I) (s : Stack) : Except Err Stack :=
  if i.isTotal then .ok (push i s)
  else match top? s with
    | none => .error .emptyStack
    | some t =>
      match mkPrio [i, t] with
      | .error e => .error e
      | .ok p => .ok (push p s)

/-! ### environment: which names exist, which leaf has a rule for which probe -/

structure Env where
  named : String → Option I
  rules : String → K → Bool
  /-- the leaf's rule raises `ProbeError` when the probe is armed (harness-defined rules only) -/
  raises : String → Bool
  /-- the probe's class is in `adjoint_ops` (AdjointTape.interpret takes the `with old:` branch) -/
  adjointOp : K → Bool
  /-- the probe has a fresh variable named by the substitution (its `eager_subs` is called) -/
  substK : K → Bool

/-! ### Memoize caches as explicit state -/

mutual
/-- structural equality of interpretation objects (sound: `Props.C17.beq_eq`) -/
def I.beq : I → I → Bool
  | .reflect, .reflect => true
  | .disp a, .disp b => a == b
  | .prio t l, .prio t' l' => t == t' && beqList l l'
  | .memo c s b, .memo c' s' b' => c == c' && s == s' && I.beq b b'
  | .tape o, .tape o' => I.beq o o'
  | .subst l b, .subst l' b' => l == l' && I.beq b b'
  | _, _ => false
def beqList : List I → List I → Bool
  | [], [] => true
  | x :: xs, y :: ys => I.beq x y && beqList xs ys
  | _, _ => false
end

/-- one entry of a Memoize cache: key = `make_hash_key(cls, *args)` = the probe (kind, token),
    value = the cached result, identified by the leaf whose rule produced it -/
structure CEntry where
  k : K
  tok : Nat
  h : String
  deriving Repr, Inhabited

/-- One cache dict.  A dict created by `memoize()` without `cache=` is reachable only through the
    Memoize object made at that entry, so it is identified by that object (`cid`, `base`); a dict
    passed explicitly (`memoize(cache=d)`) is identified by the user's dict `cid` alone, whatever
    base it is used under (`shared = true`). -/
structure CRec where
  cid : Nat
  shared : Bool
  base : I
  entries : List CEntry
  deriving Repr, Inhabited

abbrev Caches := List CRec

def CRec.isFor (r : CRec) (cid : Nat) (sh : Bool) (b : I) : Bool :=
  r.cid == cid && r.shared == sh && (sh || r.base.beq b)

def findEntry (es : List CEntry) (k : K) (tok : Nat) : Option String :=
  match es with
  | [] => none
  | e :: r => if e.k == k && e.tok == tok then some e.h else findEntry r k tok

/-- `self.cache.get(key)` -/
def cacheGet (cs : Caches) (cid : Nat) (sh : Bool) (b : I) (k : K) (tok : Nat) : Option String :=
  match cs with
  | [] => none
  | r :: rs => if r.isFor cid sh b then findEntry r.entries k tok else cacheGet rs cid sh b k tok

/-- `self.cache[key] = value` -/
def cachePut (cs : Caches) (cid : Nat) (sh : Bool) (b : I) (k : K) (tok : Nat) (h : String) : Caches :=
  match cs with
  | [] => [⟨cid, sh, b, [⟨k, tok, h⟩]⟩]
  | r :: rs =>
    if r.isFor cid sh b then { r with entries := ⟨k, tok, h⟩ :: r.entries } :: rs
    else r :: cachePut rs cid sh b k tok h

/-! ### interpreting one probe term -/

structure IRes where
  out : Outcome
  stack : Stack
  /-- the rule that produced the value (leaf name) and the stack at the moment it fired
      (for a cache hit: the leaf that produced the cached value, and the current stack) -/
  fired : Option (String × Stack)
  caches : Caches
  /-- the value came out of a Memoize cache (no rule fired) -/
  hit : Bool
  deriving Inhabited

/-- `with i: body` on the interpretation *object* `i` (`__exit__` pops unconditionally and returns
    None, so the body's exception propagates). -/
def withObj (i : I) (s : Stack) (cs : Caches) (body : Stack → IRes) : IRes :=
  match enterI i s with
  | .error e => ⟨.exc e, s, none, cs, false⟩
  | .ok s1 =>
    let r := body s1
    match pop? r.stack with
    | none => ⟨.exc .emptyStack, r.stack, r.fired, r.caches, r.hit⟩
    | some s2 => ⟨r.out, s2, r.fired, r.caches, r.hit⟩

mutual
/-- `i.interpret(cls, *args)` for the probe term (kind `k`, token `tok`: the same kind and token give
    the same class and arguments, hence the same Memoize key), current stack `s`, caches `cs`. -/
def interp (env : Env) (k : K) (tok : Nat) (armed : Bool) : I → Stack → Caches → IRes
  | .reflect, s, cs => ⟨.normal, s, some ("reflect", s), cs, false⟩
  | .disp n, s, cs =>
      if env.rules n k then
        ⟨if armed && env.raises n then .exc .probe else .normal, s, some (n, s), cs, false⟩
      else ⟨.normal, s, none, cs, false⟩
  | .prio _ l, s, cs => interpList env k tok armed l s cs
  | .memo cid sh b, s, cs =>
      -- Memoize.interpret: value = cache.get(key); if value is None: cache[key] = value = base.interpret(…)
      match cacheGet cs cid sh b k tok with
      | some h => ⟨.normal, s, some (h, s), cs, true⟩
      | none =>
        let r := interp env k tok armed b s cs
        match r.out, r.fired with
        | .normal, some (h, _) => ⟨r.out, r.stack, r.fired, cachePut r.caches cid sh b k tok h, r.hit⟩
        | _, _ => r
  | .tape old, s, cs =>
      -- adjoint.py:45-65
      let r := if env.adjointOp k then withObj old s cs (fun s1 => interp env k tok armed old s1 cs)
               else interp env k tok armed old s cs
      match r.out with
      | .normal =>
        -- reflect.interpret(cls, *lazy_args)
        let r2 := withObj old r.stack r.caches (fun s1 => ⟨.normal, s1, none, r.caches, false⟩)
        ⟨r2.out, r2.stack, r.fired, r.caches, r.hit⟩
      | .exc _ => r
  | .subst live b, s, cs =>
      -- terms.py:64-72 (`live`: its `subs` names the probe's fresh variable)
      withObj b s cs (fun s1 =>
        let r := interp env k tok armed b s1 cs
        match r.out with
        | .normal =>
          if live && env.substK k then
            ⟨if armed then .exc .probe else .normal, r.stack, some ("subst", r.stack), r.caches, false⟩
          else r
        | .exc _ => r)
/-- `PrioritizedInterpretation.interpret`: first sub-interpretation returning non-None. -/
def interpList (env : Env) (k : K) (tok : Nat) (armed : Bool) : List I → Stack → Caches → IRes
  | [], s, cs => ⟨.normal, s, none, cs, false⟩
  | x :: xs, s, cs =>
      let r := interp env k tok armed x s cs
      match r.out, r.fired with
      | .normal, none => interpList env k tok armed xs r.stack r.caches
      | _, _ => r
end

mutual
/-- Which leaf produces the value, as a function of the interpretation object alone. -/
def handler (env : Env) (k : K) : I → Option String
  | .reflect => some "reflect"
  | .disp n => if env.rules n k then some n else none
  | .prio _ l => handlerList env k l
  | .memo _ _ b => handler env k b
  | .tape old => handler env k old
  | .subst live b => if live && env.substK k then some "subst" else handler env k b
def handlerList (env : Env) (k : K) : List I → Option String
  | [] => none
  | x :: xs => match handler env k x with
    | some h => some h
    | none => handlerList env k xs
end

/-! ### programs -/

/-- An interpretation *expression*, evaluated when the block is entered. -/
inductive Ctx where
  | named (n : String)   -- a module-level / user-defined interpretation object
  | memoize              -- `funsor.interpretations.memoize()` (generator-based context manager; fresh cache)
  | memoShared (c : Nat) -- `memoize(cache=d_c)`: the user's own dict `d_c`, possibly used under several bases
  | built (i : I)        -- an interpretation OBJECT constructed earlier, elsewhere (`m = Memoize(P)`,
                         -- `PrioritizedInterpretation(P, lazy)`, a StatefulInterpretation instance …): constructing
                         -- is pure w.r.t. the stack, the object holds only its arguments; it is ENTERED here
  | tape                 -- `AdjointTape()`
  | subst (live : Bool)  -- `SubstituteInterpretation(subs, get_interpretation())`: `live` = the one pushed
                         -- by `terms.substitute` for the probe at hand; `false` = one with unrelated subs
  deriving Repr, Inhabited

inductive Prog where
  | skip
  | obs                                  -- look at `_STACK`
  | probe (k : K) (armed : Bool) (tok : Nat)   -- build the probe term (k, tok) (armed: a harness rule raises)
  | raise                                -- `raise ProbeError`
  | withI (c : Ctx) (body : Prog)        -- `with c: body`
  | deco (c : Ctx) (body : Prog)         -- `@c def f(): body` ; `f()`   (ContextDecorator)
  | seq (a b : Prog)
  | catch (body : Prog)                  -- `try: body  except (ProbeError, AssertionError, IndexError): pass`
  | quiet (body : Prog)                  -- run `body` where the harness cannot look: its observations are dropped
  deriving Repr, Inhabited

inductive Obs where
  | at (s : Stack)
  /-- `top`: the interpretation that was asked; `ok`: the construction returned; `hit`: from a cache -/
  | probe (k : K) (handler : Option String) (s : Stack) (hit : Bool) (top : I) (ok : Bool)
  deriving Repr, Inhabited

def Obs.stack : Obs → Stack
  | .at s => s
  | .probe _ _ s _ _ _ => s

structure St where
  stack : Stack
  log : List Obs       -- newest first
  caches : Caches := []
  next : Nat := 0      -- next fresh cache id
  deriving Inhabited

/-- The object a context expression denotes at entry time (and the next fresh cache id). -/
def ctxObj (env : Env) (c : Ctx) (s : Stack) (next : Nat) : Except Err (I × Nat) :=
  match c with
  | .named n => match env.named n with
    | some i => .ok (i, next)
    | none => .error .unknownName
  | .memoize => match top? s with        -- base_interpretation = get_interpretation(); cache = {}
    | some t => .ok (.memo next false t, next + 1)
    | none => .error .emptyStack
  | .memoShared c => match top? s with   -- base_interpretation = get_interpretation(); cache = d_c
    | some t => .ok (.memo c true t, next)
    | none => .error .emptyStack
  | .built i => .ok (i, next)
  | .tape => match top? s with           -- self._old_interpretation = interpreter.get_interpretation()
    | some t => .ok (.tape t, next)
    | none => .error .emptyStack
  | .subst live => match top? s with
    | some t => .ok (.subst live t, next)
    | none => .error .emptyStack

def enter (env : Env) (c : Ctx) (s : Stack) (next : Nat) : Except Err (Stack × Nat) :=
  match ctxObj env c s next with
  | .error e => .error e
  | .ok (i, n) => match enterI i s with
    | .error e => .error e
    | .ok s1 => .ok (s1, n)

def exec (env : Env) : Prog → St → Outcome × St
  | .skip, st => (.normal, st)
  | .obs, st => (.normal, { st with log := .at st.stack :: st.log })
  | .raise, st => (.exc .probe, st)
  | .probe k armed tok, st =>
      match top? st.stack with
      | none => (.exc .emptyStack, st)
      | some t =>
        let r := interp env k tok armed t st.stack st.caches
        let ok := match r.out with | .normal => true | .exc _ => false
        let o : Obs := match r.fired with
          | some (h, fs) => .probe k (some h) fs r.hit t ok
          | none => .probe k none st.stack false t ok
        (r.out, { st with stack := r.stack, log := o :: st.log, caches := r.caches })
  | .withI c body, st =>
      match enter env c st.stack st.next with
      | .error e => (.exc e, st)
      | .ok (s1, n) =>
        let (o, st2) := exec env body { st with stack := s1, next := n }
        match pop? st2.stack with
        | none => (.exc .emptyStack, st2)
        | some s3 => (o, { st2 with stack := s3 })
  | .deco c body, st =>
      match enter env c st.stack st.next with
      | .error e => (.exc e, st)
      | .ok (s1, n) =>
        let (o, st2) := exec env body { st with stack := s1, next := n }
        match pop? st2.stack with
        | none => (.exc .emptyStack, st2)
        | some s3 => (o, { st2 with stack := s3 })
  | .seq a b, st =>
      match exec env a st with
      | (.normal, st1) => exec env b st1
      | (.exc e, st1) => (.exc e, st1)
  | .catch body, st =>
      match exec env body st with
      | (_, st1) => (.normal, st1)
  | .quiet body, st =>
      match exec env body st with
      | (o, st1) => (o, { st1 with log := st.log })

/-- `funsor.optimizer.apply_optimizer(x)` for the lazy probe term `x = (k, tok)` (optimizer.py:162-167):

        with unfold:
            expr = interpreter.reinterpret(x)
        with PrioritizedInterpretation(optimize_base, get_interpretation()):
            return interpreter.reinterpret(expr)

    The second context is exactly what `with optimize_base:` builds (`Interpretation.__enter__` layers a
    partial interpretation over `get_interpretation()`): the optimizer's rules over the CALL-TIME stack.
    (Probe kinds are restricted to those `unfold` leaves alone, so phase one returns `x` itself.) -/
def applyOpt (k : K) (armed : Bool) (tok : Nat) : Prog :=
  .seq (.withI (.named "unfold") (.quiet (.probe k false tok)))
       (.withI (.named "optimize_base") (.probe k armed tok))

/-- `funsor.adjoint.forward_backward(sum_op, prod_op, x)`: `with AdjointTape() as tape: forward =
    stack_reinterpret(x)`; the backward pass works under `with reflect:` blocks of its own and is not observed. -/
def forwardBackward (k : K) (tok : Nat) : Prog := .withI .tape (.probe k false tok)

/-! ### canonical printing (shared format with fv/harness/c17.py) -/

mutual
def I.canon : I → String
  | .reflect => "reflect"
  | .disp n => n
  | .prio (some t) _ => t
  | .prio none l => "[" ++ canonList l ++ "]"
  | .memo _ false b => "memo(" ++ b.canon ++ ")"
  | .memo c true b => "memoS" ++ toString c ++ "(" ++ b.canon ++ ")"
  | .tape o => "tape(" ++ o.canon ++ ")"
  | .subst true b => "subst(" ++ b.canon ++ ")"
  | .subst false b => "subst0(" ++ b.canon ++ ")"
def canonList : List I → String
  | [] => ""
  | [x] => x.canon
  | x :: y :: r => x.canon ++ " " ++ canonList (y :: r)
end

def canonStack (s : Stack) : String := ",".intercalate (s.map I.canon)

/-- `observable h`: the harness can see the stack at the moment leaf `h` fires (its own rules and
    `MarkS.eager_subs`); for funsor's built-in rules only the handler is compared. -/
def Obs.canon (observable : String → Bool) : Obs → String
  | .at s => "@" ++ canonStack s
  | .probe k none _ _ _ _ => "?" ++ k ++ "=-@*"
  | .probe k (some h) s hit _ _ =>
      "?" ++ k ++ "=" ++ h ++ "@" ++ (if observable h then (if hit then "cached" else canonStack s) else "*")

def Err.canon : Err → String
  | .emptyStack => "IndexError"
  | .assertEmpty => "AssertionError"
  | .assertOverflow => "AssertionError"
  | .assertTotalOrder => "AssertionError"
  | .unknownName => "NameError"
  | .probe => "ProbeError"

def Outcome.canon : Outcome → String
  | .normal => "normal"
  | .exc e => e.canon

/-! ### building the environment from tables (generated from /repo + the harness's own rules) -/

def lookup (t : List (String × List String)) (n : String) : Option (List String) :=
  match t with
  | [] => none
  | (k, v) :: r => if k == n then some v else lookup r n

/-- `leaves`: partial DispatchedInterpretation objects; `reflect` is the only total leaf;
    `chains`: module-level PrioritizedInterpretation objects (flattened leaf names). -/
def leafOf (leaves : List String) (n : String) : Option I :=
  if n == "reflect" then some .reflect
  else if leaves.contains n then some (.disp n) else none

def Env.ofTables (leaves : List String) (chains rules : List (String × List String))
    (raising adj substKs : List String) : Env where
  named n :=
    match leafOf leaves n with
    | some i => some i
    | none => match lookup chains n with
      | some ls => (ls.mapM (leafOf leaves)).map (I.prio (some n))
      | none => none
  rules n k := match lookup rules n with
    | some ks => ks.contains k
    | none => false
  raises n := raising.contains n
  adjointOp k := adj.contains k
  substK k := substKs.contains k

def initStack (env : Env) (names : List String) : Option Stack := names.mapM env.named

end FV.C17
