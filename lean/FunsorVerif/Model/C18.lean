/-
  Model/C18.lean — compiled programs vs interpretation.

  What is modelled, statement by statement:

    Expr / Args / Node   lazy funsor terms of the compiler's fragment after `compiler.lower`
                         (Number/Tensor constants, Variable, Unary, Binary, Tuple) and the raw
                         python `tuple` that is the single AST child of a `Tuple`.  Funsors are
                         hash-consed and raw tuples hash/compare element-wise, so *structural equality
                         is exactly the identity every python dict in this code keys on*; sharing in
                         the DAG is equality of sub-terms.
    children             `interpreter.children` filtered by `stop=is_atom` (funsor/interpreter.py:115-146):
                         ops, names, domains, data are atoms; the empty tuple `()` is an atom.
    eval                 the meaning of `expr(**data)`: substitute and evaluate (the specification).
    anf                  `interpreter.anf` (funsor/interpreter.py:159-186): breadth-first discovery with the
                         `child_to_parents` / `children_counts` dictionaries, then the leaves queue
                         (Kahn's algorithm), `env` as an OrderedDict seeded with the root, `move_to_end`.
    compileWith          `compiler.compile_funsor` (funsor/compiler.py:40-81) for a given node ordering:
                         the `ids` dict, constants, then inputs, then operations; `rawConsumesId = true`
                         is the numbering of the tree before commit 6850cf7 (a raw tuple node consumed an id).
    run                  `OpProgram.__call__` (funsor/ops/program.py:32-54).
    asCode / execCode    `OpProgram.as_code` (program.py:56-87) and python's execution of the printed
                         function, with ONE namespace shared by parameters and the `v{i}` temporaries.
    traceDag / traceCompile   `tracer.trace_function` (funsor/ops/tracer.py:48-87): backward extraction
                         of the relevant part of the op trace, then the same three numbering passes.

  Core-only imports; everything is total (`Option`/`Except` where python raises or loops).
-/
namespace FV.C18

/-! ## Terms -/

mutual
inductive Expr where
  | const (k : Nat)                    -- Number / Tensor; `k` identifies the constant (its `.data`)
  | var (name : String)                -- Variable(name, domain)
  | unary (op : String) (a : Expr)
  | binary (op : String) (a b : Expr)
  | tuple (args : Args)                -- Tuple(args)
  deriving DecidableEq, Repr
inductive Args where
  | nil
  | cons (a : Expr) (rest : Args)
  deriving DecidableEq, Repr
end

/-- What `anf` walks over: funsors and raw python tuples of funsors. -/
inductive Node where
  | fn (e : Expr)
  | raw (es : Args)
  deriving DecidableEq, Repr

def Args.toList : Args → List Expr
  | .nil => []
  | .cons a r => a :: r.toList

def Args.ofList : List Expr → Args
  | [] => .nil
  | a :: r => .cons a (Args.ofList r)

/-- `children(h)` minus the atoms (`if stop(c): continue`), in `_ast_values` order. -/
def children : Node → List Node
  | .fn (.const _) => []
  | .fn (.var _) => []
  | .fn (.unary _ a) => [.fn a]
  | .fn (.binary _ a b) => [.fn a, .fn b]
  | .fn (.tuple .nil) => []                            -- `()` is an atom
  | .fn (.tuple (.cons a r)) => [.raw (.cons a r)]
  | .raw es => es.toList.map .fn

mutual
def Expr.size : Expr → Nat
  | .const _ => 1
  | .var _ => 1
  | .unary _ a => a.size + 1
  | .binary _ a b => a.size + b.size + 1
  | .tuple as => as.size + 2
def Args.size : Args → Nat
  | .nil => 0
  | .cons a r => a.size + r.size
end

def Node.size : Node → Nat
  | .fn e => e.size
  | .raw es => es.size + 1

/-- Reachability from the root along `children`: the node set of the DAG. -/
inductive Reach (r : Node) : Node → Prop
  | refl : Reach r r
  | step {n c : Node} : Reach r n → c ∈ children n → Reach r c

/-! ## Values and the specification -/

/-- Interpretation of constants and ops on an arbitrary value type. -/
structure Interp (V : Type) where
  const : Nat → V
  un : String → V → V
  bin : String → V → V → V
  tup : List V → V

abbrev Kw (V : Type) := List (String × V)

def kwGet {V : Type} : Kw V → String → Option V
  | [], _ => none
  | (k, v) :: r, n => if k = n then some v else kwGet r n

def kwErase {V : Type} : Kw V → String → Kw V
  | [], _ => []
  | (k, v) :: r, n => if k = n then r else (k, v) :: kwErase r n

def kwKeys {V : Type} (kw : Kw V) : List String := kw.map (·.1)

mutual
/-- `expr(**data)` evaluated eagerly; `none` = a variable is unbound (the term stays lazy). -/
def eval {V : Type} (I : Interp V) (kw : Kw V) : Expr → Option V
  | .const k => some (I.const k)
  | .var n => kwGet kw n
  | .unary op a => (eval I kw a).map (I.un op)
  | .binary op a b =>
    match eval I kw a, eval I kw b with
    | some x, some y => some (I.bin op x y)
    | _, _ => none
  | .tuple as => (evalArgs I kw as).map I.tup
def evalArgs {V : Type} (I : Interp V) (kw : Kw V) : Args → Option (List V)
  | .nil => some []
  | .cons a r =>
    match eval I kw a, evalArgs I kw r with
    | some x, some xs => some (x :: xs)
    | _, _ => none
end

/-- `union a b`: `OrderedDict.update` on key lists (existing keys keep their place). -/
def union (a b : List String) : List String := a ++ b.filter (fun x => !a.contains x)

mutual
/-- `expr.inputs` key order (Unary: arg's; Binary: lhs then rhs; Tuple: args left to right). -/
def inputsOf : Expr → List String
  | .const _ => []
  | .var n => [n]
  | .unary _ a => inputsOf a
  | .binary _ a b => union (inputsOf a) (inputsOf b)
  | .tuple as => inputsOfArgs as
def inputsOfArgs : Args → List String
  | .nil => []
  | .cons a r => union (inputsOf a) (inputsOfArgs r)
end

/-! ## Python dicts as insertion-ordered association lists -/

def dGet {κ α : Type} [DecidableEq κ] : List (κ × α) → κ → Option α
  | [], _ => none
  | (k, v) :: r, n => if k = n then some v else dGet r n

/-- `d[k] = v`: overwrite in place, or append a new key at the end. -/
def dSet {κ α : Type} [DecidableEq κ] : List (κ × α) → κ → α → List (κ × α)
  | [], n, v => [(n, v)]
  | (k, w) :: r, n, v => if k = n then (k, v) :: r else (k, w) :: dSet r n v

/-! ## anf (funsor/interpreter.py:159-186) -/

structure Bfs where
  stack : List Node                       -- `stack` (a deque used first-in first-out)
  c2p : List (Node × List Node)           -- `child_to_parents`
  counts : List (Node × Int)              -- `children_counts`
  leaves : List Node
  deriving Repr

/-- The `for c in children(h)` loop. -/
def visit (h : Node) : List Node → Bfs → Bfs
  | [], s => s
  | c :: cs, s =>
    let stack := if (dGet s.c2p c).isNone then s.stack ++ [c] else s.stack
    let c2p := dSet s.c2p c ((dGet s.c2p c).getD [] ++ [h])
    let counts := dSet s.counts h ((dGet s.counts h).getD 0 + 1)
    visit h cs { s with stack := stack, c2p := c2p, counts := counts }

/-- `while stack:` of the first phase; `none` = out of fuel. -/
def bfs : Nat → Bfs → Option Bfs
  | 0, _ => none
  | fuel + 1, s =>
    match s.stack with
    | [] => some s
    | h :: rest =>
      let s1 := visit h (children h) { s with stack := rest }
      let s2 := if (dGet s1.counts h).getD 0 = 0 then { s1 with leaves := s1.leaves ++ [h] } else s1
      bfs fuel s2

/-- The `for parent in child_to_parents[h]` loop on (leaves, children_counts). -/
def relax : List Node → List Node × List (Node × Int) → List Node × List (Node × Int)
  | [], s => s
  | p :: ps, (q, cnt) =>
    let k := (dGet cnt p).getD 0 - 1
    relax ps (if k = 0 then q ++ [p] else q, dSet cnt p k)

/-- `env[h] = h` on an OrderedDict. -/
def envSet (env : List Node) (h : Node) : List Node := if h ∈ env then env else env ++ [h]

/-- `while leaves:` of the second phase; state = (leaves, children_counts, env). -/
def kahn (c2p : List (Node × List Node)) : Nat → List Node → List (Node × Int) → List Node → Option (List Node)
  | 0, _, _, _ => none
  | fuel + 1, leaves, cnt, env =>
    match leaves with
    | [] => some env
    | h :: rest =>
      let (q, cnt') := relax ((dGet c2p h).getD []) (rest, cnt)
      kahn c2p fuel q cnt' (envSet env h)

/-- Iteration budget for both loops: each reachable node is popped once, plus the final test. -/
def anfFuel (x : Node) : Nat := x.size + 1

def anfWith (fuel : Nat) (x : Node) : Option (List Node) :=
  match bfs fuel ⟨[x], [], [], []⟩ with
  | none => none
  | some s =>
    match kahn s.c2p fuel s.leaves s.counts [x] with
    | none => none
    | some env => some (env.erase x ++ [x])          -- `env.move_to_end(x)`

def anf (x : Node) : Option (List Node) := anfWith (anfFuel x) x

/-- Every child of every element occurs strictly earlier. -/
def Topological (ord : List Node) : Prop :=
  ∀ pre n post, ord = pre ++ n :: post → ∀ c ∈ children n, c ∈ pre

/-- The ordering lists exactly the nodes of the DAG rooted at `e`, the root last. -/
def Complete (ord : List Node) (e : Expr) : Prop :=
  (∀ n, n ∈ ord ↔ Reach (.fn e) n) ∧ ord.getLast? = some (.fn e)

/-! ## Programs (funsor/ops/program.py) -/

inductive OpTag where
  | op (name : String)
  | mkTuple
  deriving DecidableEq, Repr

structure Prog where
  constants : List Nat                      -- which constant's data sits in the slot
  inputs : List String
  operations : List (OpTag × List Nat)
  deriving DecidableEq, Repr

inductive Err where
  | missing (name : String)                 -- ValueError("Missing kwarg")
  | unrecognized (names : List String)      -- ValueError("Unrecognized kwargs")
  | index (i : Nat)                         -- IndexError: env[i]
  | arity (op : String) (n : Nat)           -- TypeError from op(*args)
  | emptyEnv                                -- IndexError: env[-1]
  | key (n : Node)                          -- KeyError: ids[...]
  | keyId (i : Nat)                         -- KeyError: ids[id(arg)] in the tracer
  | notImplemented (n : Node)               -- NotImplementedError(type(f).__name__)
  | name (s : String)                       -- NameError in printed code
  | reserved                                -- ValueError: input named ops / set_backend
  | fuel
  deriving DecidableEq, Repr

def applyOp {V : Type} (I : Interp V) : OpTag → List V → Except Err V
  | .mkTuple, args => .ok (I.tup args)
  | .op name, [x] => .ok (I.un name x)
  | .op name, [x, y] => .ok (I.bin name x y)
  | .op name, args => .error (.arity name args.length)

/-- `for name in self.inputs: value = kwargs.pop(name, None) …; env.append(value)`. -/
def readInputs {V : Type} : List String → Kw V → List V → Except Err (List V × Kw V)
  | [], kw, env => .ok (env, kw)
  | n :: ns, kw, env =>
    match kwGet kw n with
    | none => .error (.missing n)
    | some v => readInputs ns (kwErase kw n) (env ++ [v])

def getArgs {V : Type} (env : List V) : List Nat → Except Err (List V)
  | [] => .ok []
  | i :: is =>
    match env[i]? with
    | none => .error (.index i)
    | some v =>
      match getArgs env is with
      | .error e => .error e
      | .ok vs => .ok (v :: vs)

/-- `for op, arg_ids in self.operations: … env.append(value)`. -/
def runOps {V : Type} (I : Interp V) : List (OpTag × List Nat) → List V → Except Err (List V)
  | [], env => .ok env
  | (tag, ids) :: rest, env =>
    match getArgs env ids with
    | .error e => .error e
    | .ok args =>
      match applyOp I tag args with
      | .error e => .error e
      | .ok v => runOps I rest (env ++ [v])

/-- `OpProgram.__call__(**kw)`. -/
def run {V : Type} (I : Interp V) (p : Prog) (kw : Kw V) : Except Err V :=
  match readInputs p.inputs kw (p.constants.map I.const) with
  | .error e => .error e
  | .ok (env, rest) =>
    if rest ≠ [] then .error (.unrecognized (kwKeys rest))
    else
      match runOps I p.operations env with
      | .error e => .error e
      | .ok env' =>
        match env'.getLast? with
        | none => .error .emptyEnv
        | some v => .ok v

/-! ## compile_funsor (funsor/compiler.py:40-81) -/

abbrev Ids := List (Node × Nat)

/-- `for f in anf: if isinstance(f, (Number, Tensor)): ids[f] = len(ids); constants.append(f.data)`. -/
def collectConsts : List Node → Ids → List Nat → Ids × List Nat
  | [], ids, cs => (ids, cs)
  | .fn (.const k) :: rest, ids, cs =>
    collectConsts rest (dSet ids (.fn (.const k)) ids.length) (cs ++ [k])
  | _ :: rest, ids, cs => collectConsts rest ids cs

/-- `for k, d in expr.inputs.items(): f = Variable(k, d); ids[f] = len(ids); inputs.append(k)`. -/
def collectInputs : List String → Ids → Ids
  | [], ids => ids
  | n :: ns, ids => collectInputs ns (dSet ids (.fn (.var n)) ids.length)

/-- `tuple(ids[arg] for arg in f.args)`. -/
def lookupAll (ids : Ids) : List Node → Except Err (List Nat)
  | [] => .ok []
  | n :: ns =>
    match dGet ids n with
    | none => .error (.key n)
    | some i =>
      match lookupAll ids ns with
      | .error e => .error e
      | .ok is => .ok (i :: is)

/-- The third loop.  `rawConsumesId = false` is the code as it stands (the `isinstance(f, tuple):
    continue` precedes `ids[f] = len(ids)`); `true` is the order before commit 6850cf7. -/
def collectOps (rawConsumesId : Bool) :
    List Node → Ids → List (OpTag × List Nat) → Except Err (Ids × List (OpTag × List Nat))
  | [], ids, ops => .ok (ids, ops)
  | f :: rest, ids, ops =>
    if (dGet ids f).isSome then collectOps rawConsumesId rest ids ops     -- constant or free variable
    else
      match f with
      | .raw _ =>
        if rawConsumesId then collectOps rawConsumesId rest (dSet ids f ids.length) ops
        else collectOps rawConsumesId rest ids ops
      | .fn e =>
        let ids' := dSet ids f ids.length
        match e with
        | .unary op a =>
          match lookupAll ids' [.fn a] with
          | .error er => .error er
          | .ok is => collectOps rawConsumesId rest ids' (ops ++ [(.op op, is)])
        | .binary op a b =>
          match lookupAll ids' [.fn a, .fn b] with
          | .error er => .error er
          | .ok is => collectOps rawConsumesId rest ids' (ops ++ [(.op op, is)])
        | .tuple as =>
          match lookupAll ids' (as.toList.map .fn) with
          | .error er => .error er
          | .ok is => collectOps rawConsumesId rest ids' (ops ++ [(.mkTuple, is)])
        | _ => .error (.notImplemented f)

/-- `compile_funsor` for the node ordering `ord` and the input names `inputs` (= `expr.inputs`);
    also returns the final `ids` dict. -/
def compileIds (rawConsumesId : Bool) (ord : List Node) (inputs : List String) : Except Err (Prog × Ids) :=
  let (ids1, cs) := collectConsts ord [] []
  let ids2 := collectInputs inputs ids1
  match collectOps rawConsumesId ord ids2 [] with
  | .error e => .error e
  | .ok (ids3, ops) => .ok (⟨cs, inputs, ops⟩, ids3)

def compileWith (ord : List Node) (inputs : List String) : Except Err Prog :=
  match compileIds false ord inputs with
  | .error e => .error e
  | .ok (p, _) => .ok p

/-- The numbering of the tree before commit 6850cf7. -/
def compileWithPreFix (ord : List Node) (inputs : List String) : Except Err Prog :=
  match compileIds true ord inputs with
  | .error e => .error e
  | .ok (p, _) => .ok p

/-- `compile_funsor(expr)` end to end. -/
def compile (e : Expr) : Except Err Prog :=
  match anf (.fn e) with
  | none => .error .fuel
  | some ord => compileWith ord (inputsOf e)

/-! ## as_code (funsor/ops/program.py:56-98) and its execution -/

inductive Rhs where
  | const (k : Nat)                         -- `v{i} = <constant literal>`
  | name (s : String)                       -- `v{i} = <input name>`
  | call (tag : OpTag) (args : List Nat)    -- `v{i} = op(v{a}, v{b},)`
  deriving DecidableEq, Repr

structure Code where
  params : List String                      -- `def program(<params>):`
  pfx : Nat                                 -- temporaries are called `"_"*pfx + "v" + str(i)`
  lets : List (Nat × Rhs)                   -- `v{i} = rhs`, i = len(lines) - start at the time of printing
  ret : Option Nat                          -- `return v{len(lines) - start - 1}`; `none` when that is `v-1`
  deriving DecidableEq, Repr

/-- `let(body)`. -/
def codeLet (lines : List (Nat × Rhs)) (r : Rhs) : List (Nat × Rhs) := lines ++ [(lines.length, r)]

/-- The prefix `"_" * k + "v"` as characters. -/
def tmpPrefix (k : Nat) : List Char := List.replicate k '_' ++ ['v']

/-- The python identifier of temporary `i` under prefix `k`. -/
def tmpName (k i : Nat) : List Char := tmpPrefix k ++ (Nat.repr i).toList

/-- `v = "v"; while any(name.startswith(v) for name in self.inputs): v = "_" + v` (`none` = out of fuel). -/
def choosePrefix (inputs : List String) : Nat → Nat → Option Nat
  | 0, _ => none
  | fuel + 1, k =>
    if inputs.any (fun n => (tmpPrefix k).isPrefixOf n.toList) then choosePrefix inputs fuel (k + 1)
    else some k

/-- One more than the longest input name: a prefix that long is a prefix of no input. -/
def prefixFuel (inputs : List String) : Nat := (inputs.map (fun n => n.toList.length)).foldl max 0 + 2

def asCode (p : Prog) : Except Err Code :=
  if p.inputs.any (fun n => n = "ops" || n = "set_backend") then .error (.reserved)     -- ValueError
  else
    match choosePrefix p.inputs (prefixFuel p.inputs) 0 with
    | none => .error .fuel
    | some k =>
      let l1 := p.constants.foldl (fun ls c => codeLet ls (.const c)) []
      let l2 := p.inputs.foldl (fun ls n => codeLet ls (.name n)) l1
      let l3 := p.operations.foldl (fun ls o => codeLet ls (.call o.1 o.2)) l2
      .ok ⟨p.inputs, k, l3, if l3.length = 0 then none else some (l3.length - 1)⟩

/-- The local namespace of the printed function: parameters AND temporaries, keyed by identifier. -/
abbrev Locals (V : Type) := List (List Char × V)

/-- Keyword call of `def f(params)`: every parameter must be given, nothing else may be. -/
def bindParams {V : Type} : List String → Kw V → Locals V → Except Err (Locals V)
  | [], kw, loc => if kw ≠ [] then .error (.unrecognized (kwKeys kw)) else .ok loc
  | n :: ns, kw, loc =>
    match kwGet kw n with
    | none => .error (.missing n)
    | some v => bindParams ns (kwErase kw n) (dSet loc n.toList v)

def readNames {V : Type} (loc : Locals V) (k : Nat) : List Nat → Except Err (List V)
  | [] => .ok []
  | i :: is =>
    match dGet loc (tmpName k i) with
    | none => .error (.name (String.ofList (tmpName k i)))
    | some v =>
      match readNames loc k is with
      | .error e => .error e
      | .ok vs => .ok (v :: vs)

/-- Straight-line execution in ONE local namespace (parameters and temporaries share it). -/
def execLets {V : Type} (I : Interp V) (k : Nat) : List (Nat × Rhs) → Locals V → Except Err (Locals V)
  | [], loc => .ok loc
  | (i, r) :: rest, loc =>
    match r with
    | .const c => execLets I k rest (dSet loc (tmpName k i) (I.const c))
    | .name s =>
      match dGet loc s.toList with
      | none => .error (.name s)
      | some v => execLets I k rest (dSet loc (tmpName k i) v)
    | .call tag args =>
      match readNames loc k args with
      | .error e => .error e
      | .ok vs =>
        match applyOp I tag vs with
        | .error e => .error e
        | .ok v => execLets I k rest (dSet loc (tmpName k i) v)

def execCode {V : Type} (I : Interp V) (c : Code) (kw : Kw V) : Except Err V :=
  match bindParams c.params kw [] with
  | .error e => .error e
  | .ok loc =>
    match execLets I c.pfx c.lets loc with
    | .error e => .error e
    | .ok loc' =>
      match c.ret with
      | none => .error (.name "v")
      | some i =>
        match dGet loc' (tmpName c.pfx i) with
        | none => .error (.name (String.ofList (tmpName c.pfx i)))
        | some v => .ok v

/-- The printed code before commit e099338: the prefix was always `v`, whatever the inputs are called. -/
def asCodeOld (p : Prog) : Code :=
  let l1 := p.constants.foldl (fun ls c => codeLet ls (.const c)) []
  let l2 := p.inputs.foldl (fun ls n => codeLet ls (.name n)) l1
  let l3 := p.operations.foldl (fun ls o => codeLet ls (.call o.1 o.2)) l2
  ⟨p.inputs, 0, l3, if l3.length = 0 then none else some (l3.length - 1)⟩

/-! ## lowering (funsor/compiler.py:84-139)

  `compile_funsor` first rewrites the expression with `lower`: atoms are kept, `Tuple`/`Unary`/`Binary`
  are rebuilt from their lowered parts, and a `Contraction` without reduced variables becomes the
  left-nested `Binary` chain `functools.reduce(Binary(bin_op), terms)`.  Nothing else is rewritten. -/

mutual
inductive Src where
  | const (k : Nat)
  | var (name : String)
  | unary (op : String) (a : Src)
  | binary (op : String) (a b : Src)
  | tuple (args : SrcArgs)
  | contraction (binOp : String) (terms : SrcArgs)      -- Contraction(null, bin_op, frozenset(), terms)
  deriving DecidableEq, Repr
inductive SrcArgs where
  | nil
  | cons (a : Src) (rest : SrcArgs)
  deriving DecidableEq, Repr
end

/-- `functools.reduce(f, xs)`: left fold, the first element is the seed; raises on an empty sequence. -/
def reduce1 {α : Type} (f : α → α → α) : List α → Option α
  | [] => none
  | x :: xs => some (xs.foldl f x)

mutual
/-- Meaning of a source term under substitution; a contraction is its operands combined left to right. -/
def evalSrc {V : Type} (I : Interp V) (kw : Kw V) : Src → Option V
  | .const k => some (I.const k)
  | .var n => kwGet kw n
  | .unary op a => (evalSrc I kw a).map (I.un op)
  | .binary op a b =>
    match evalSrc I kw a, evalSrc I kw b with
    | some x, some y => some (I.bin op x y)
    | _, _ => none
  | .tuple as => (evalSrcArgs I kw as).map I.tup
  | .contraction op ts =>
    match evalSrcArgs I kw ts with
    | some vs => reduce1 (I.bin op) vs
    | none => none
def evalSrcArgs {V : Type} (I : Interp V) (kw : Kw V) : SrcArgs → Option (List V)
  | .nil => some []
  | .cons a r =>
    match evalSrc I kw a, evalSrcArgs I kw r with
    | some x, some xs => some (x :: xs)
    | _, _ => none
end

mutual
/-- `compiler.lower`; `none` = `functools.reduce` on an empty `terms` raises. -/
def lower : Src → Option Expr
  | .const k => some (.const k)
  | .var n => some (.var n)
  | .unary op a => (lower a).map (.unary op)
  | .binary op a b =>
    match lower a, lower b with
    | some x, some y => some (.binary op x y)
    | _, _ => none
  | .tuple as => (lowerArgs as).map fun es => .tuple (Args.ofList es)
  | .contraction op ts =>
    match lowerArgs ts with
    | some es => reduce1 (Expr.binary op) es
    | none => none
def lowerArgs : SrcArgs → Option (List Expr)
  | .nil => some []
  | .cons a r =>
    match lower a, lowerArgs r with
    | some x, some xs => some (x :: xs)
    | _, _ => none
end

/-- The variant of seeded defect C18_7: a Contraction's lowered terms are emitted once each
    (`list(dict.fromkeys(terms))`) before the `Binary` chain is built.  The real code keeps the term LIST
    positionally (a multiset of operands), see `lower`. -/
def lowerContrDedup (op : String) (es : List Expr) : Option Expr := reduce1 (Expr.binary op) es.eraseDups

/-- The peephole of seeded defect C18_3 on an already lowered term: a unary op applied directly to the
    op registered as its `.inv` is dropped together with it. -/
def cancelInv (inv : String → Option String) : Expr → Expr
  | .unary op (.unary op' a) => if inv op = some op' then a else .unary op (.unary op' a)
  | e => e

/-! ## call histories on one program object

  `OpProgram.__call__` builds its environment in a local (`env = list(self.constants)`), so the object is the
  same before and after every call, whether it returns or raises.  `callSeq` threads the object through a
  sequence of calls.  `SharedProg`/`callShared` is the variant of seeded defect C18_5: one environment list
  kept on the object, extended by each call and truncated back to the constants only on normal return. -/

/-- One call: the new state of the object and the outcome. -/
def callStep {V : Type} (I : Interp V) (p : Prog) (kw : Kw V) : Prog × Except Err V := (p, run I p kw)

def callSeq {V : Type} (I : Interp V) : Prog → List (Kw V) → Prog × List (Except Err V)
  | p, [] => (p, [])
  | p, kw :: rest =>
    let (p1, r) := callStep I p kw
    let (p2, rs) := callSeq I p1 rest
    (p2, r :: rs)

structure SharedProg (V : Type) where
  prog : Prog
  env : List V                                -- `self._env`

/-- `readInputs` appending to the shared list: returns the list as it stands when the loop stops. -/
def readInputsShared {V : Type} : List String → Kw V → List V → List V × Except Err (Kw V)
  | [], kw, env => (env, .ok kw)
  | n :: ns, kw, env =>
    match kwGet kw n with
    | none => (env, .error (.missing n))
    | some v => readInputsShared ns (kwErase kw n) (env ++ [v])

def runOpsShared {V : Type} (I : Interp V) : List (OpTag × List Nat) → List V → List V × Except Err Unit
  | [], env => (env, .ok ())
  | (tag, ids) :: rest, env =>
    match getArgs env ids with
    | .error e => (env, .error e)
    | .ok args =>
      match applyOp I tag args with
      | .error e => (env, .error e)
      | .ok v => runOpsShared I rest (env ++ [v])

def callShared {V : Type} (I : Interp V) (s : SharedProg V) (kw : Kw V) : SharedProg V × Except Err V :=
  match readInputsShared s.prog.inputs kw s.env with
  | (env, .error e) => ({ s with env := env }, .error e)
  | (env, .ok rest) =>
    if rest ≠ [] then ({ s with env := env }, .error (.unrecognized (kwKeys rest)))
    else
      match runOpsShared I s.prog.operations env with
      | (env', .error e) => ({ s with env := env' }, .error e)
      | (env', .ok ()) =>
        match env'.getLast? with
        | none => ({ s with env := env' }, .error .emptyEnv)
        | some v => ({ s with env := env'.take s.prog.constants.length }, .ok v)   -- `del env[len(constants):]`

/-! ## the raw default of `ops.getitem` (funsor/ops/builtin.py:45-49), the op a compiled `x[:, …, i]` calls

  `getitem(lhs, rhs, offset) = lhs[(slice(None),) * offset + (rhs,)]`: select index `rhs` along axis `offset`;
  the other axes keep their order. -/

inductive Arr where
  | leaf (v : Int)
  | node (items : List Arr)
  deriving Repr, Inhabited

mutual
def Arr.beq : Arr → Arr → Bool
  | .leaf a, .leaf b => a == b
  | .node xs, .node ys => Arr.beqList xs ys
  | _, _ => false
def Arr.beqList : List Arr → List Arr → Bool
  | [], [] => true
  | x :: xs, y :: ys => Arr.beq x y && Arr.beqList xs ys
  | _, _ => false
end

mutual
/-- `getitemAt k i a`: index `i` along axis `k` (`none` = IndexError / too few axes). -/
def getitemAt : Nat → Nat → Arr → Option Arr
  | _, _, .leaf _ => none
  | 0, i, .node xs => xs[i]?
  | k + 1, i, .node xs => (getitemAtAll k i xs).map .node
def getitemAtAll : Nat → Nat → List Arr → Option (List Arr)
  | _, _, [] => some []
  | k, i, x :: xs =>
    match getitemAt k i x, getitemAtAll k i xs with
    | some y, some ys => some (y :: ys)
    | _, _ => none
end

/-- rows of a rank-≥2 array as lists -/
def Arr.rows : Arr → Option (List (List Arr))
  | .node xs => xs.mapM fun | .node r => some r | .leaf _ => none
  | .leaf _ => none

def transposeRows : List (List Arr) → List (List Arr)
  | [] => []
  | r :: rs => (List.range r.length).map fun j => (r :: rs).filterMap (·[j]?)

/-- `lhs.swapaxes(0, 2)[i]` on a rank-3 array (seeded defect C18_10): result[b][a] = lhs[a][b][i], i.e. the
    transpose of the correct selection along axis 2. -/
def swapaxes02ThenIndex (i : Nat) (a : Arr) : Option Arr :=
  match getitemAt 2 i a with
  | none => none
  | some sel => (sel.rows).map fun rs => .node ((transposeRows rs).map .node)

/-! ## comparison ops and their mirror images (`a op b = b (mirror op) a`) -/

inductive Cmp where
  | lt | le | gt | ge | eq | ne
  deriving DecidableEq, Repr

def Cmp.eval : Cmp → Int → Int → Bool
  | .lt, a, b => decide (a < b)
  | .le, a, b => decide (a ≤ b)
  | .gt, a, b => decide (a > b)
  | .ge, a, b => decide (a ≥ b)
  | .eq, a, b => decide (a = b)
  | .ne, a, b => decide (a ≠ b)

def Cmp.mirror : Cmp → Cmp
  | .lt => .gt | .le => .ge | .gt => .lt | .ge => .le | .eq => .eq | .ne => .ne

/-- the table of seeded defect C18_11: `ge ↦ lt` instead of `le` -/
def Cmp.mirrorSlip : Cmp → Cmp
  | .ge => .lt
  | op => op.mirror

/-! ## printing of parametrised ops (`program._print_op`, funsor/ops/program.py:101-108)

  An op instance is its class plus the current value of every parameter, in signature order
  (`op.defaults`); values are kept as their printed text (`str(v)`).  The printed expression is evaluated
  by python with POSITIONAL binding, trailing parameters taking the class defaults. -/

structure OpClass where
  name : String                              -- `type(op).__name__`
  params : List (String × String)            -- parameter names with the class defaults `type(op)().defaults`
  deriving DecidableEq, Repr

structure OpInst where
  cls : OpClass
  vals : List String                         -- `op.defaults.values()`
  deriving DecidableEq, Repr

def OpInst.WF (o : OpInst) : Prop := o.vals.length = o.cls.params.length

inductive Printed where
  | ref (name : String)                      -- `repr(op)`: the registered default instance `ops.<name>`
  | ctor (cls : String) (args : List String) -- `ops.<Class>(a1, …, an)`
  deriving DecidableEq, Repr

/-- `_print_op` on a parametrised op: all parameter values, positionally, unless they are the defaults. -/
def printOp (o : OpInst) : Printed :=
  if o.cls.params ≠ [] ∧ o.vals ≠ o.cls.params.map (·.2) then .ctor o.cls.name o.vals
  else .ref o.cls.name

/-- What python builds from the printed expression. -/
def parsePrinted (c : OpClass) : Printed → Option OpInst
  | .ref _ => some ⟨c, c.params.map (·.2)⟩
  | .ctor _ args =>
    if args.length ≤ c.params.length then some ⟨c, args ++ (c.params.drop args.length).map (·.2)⟩
    else none                                -- TypeError: too many positional arguments

/-- The "shortened" scheme: print only the values that differ from the defaults, still positionally. -/
def printOmit (o : OpInst) : Printed :=
  if o.cls.params ≠ [] ∧ o.vals ≠ o.cls.params.map (·.2) then
    .ctor o.cls.name ((o.vals.zip (o.cls.params.map (·.2))).filterMap fun (v, d) => if v = d then none else some v)
  else .ref o.cls.name

/-! ## trace_function (funsor/ops/tracer.py:48-87)

  A trace is the list of `(result, op, args)` entries in execution order; values are identified by
  `id(...)`, here natural numbers.  `is_variable` is a predicate on identities (python ints/floats
  are not variables, arrays are). -/

structure TEntry where
  result : Nat
  tag : OpTag
  args : List Nat
  deriving DecidableEq, Repr

abbrev Dag := List (Nat × Option (OpTag × List Nat))     -- id ↦ (op, args) or leaf

/-- `for arg in args: dag.setdefault(id(arg), leaf)`. -/
def setDefaults : List Nat → Dag → Dag
  | [], d => d
  | a :: as, d => setDefaults as (if (dGet d a).isSome then d else d ++ [(a, none)])

/-- `for result, op, args in reversed(trace.values())` — `rtrace` is already reversed. -/
def traceBackward (isVar : Nat → Bool) : List TEntry → Dag → Dag
  | [], d => d
  | t :: rest, d =>
    if (dGet d t.result).isNone || !isVar t.result then traceBackward isVar rest d
    else traceBackward isVar rest (dSet (setDefaults t.args d) t.result (some (t.tag, t.args)))

/-- `anf = list(reversed(dag.values()))`. -/
def traceDag (isVar : Nat → Bool) (trace : List TEntry) (root : Nat) : Dag :=
  (traceBackward isVar trace.reverse [(root, none)]).reverse

abbrev TIds := List (Nat × Nat)

def tConsts (isVar : Nat → Bool) (allowConstants : Bool) (kwIds : List Nat) :
    Dag → TIds → List Nat → Except Err (TIds × List Nat)
  | [], ids, cs => .ok (ids, cs)
  | (r, none) :: rest, ids, cs =>
    if kwIds.contains r then tConsts isVar allowConstants kwIds rest ids cs
    else if !allowConstants && isVar r then .error (.notImplemented (.fn (.const r)))   -- ValueError("Found constant")
    else tConsts isVar allowConstants kwIds rest (dSet ids r ids.length) (cs ++ [r])
  | (_, some _) :: rest, ids, cs => tConsts isVar allowConstants kwIds rest ids cs

def tInputs : List (String × Nat) → TIds → TIds
  | [], ids => ids
  | (_, v) :: rest, ids => tInputs rest (dSet ids v ids.length)

def tLookupAll (ids : TIds) : List Nat → Except Err (List Nat)
  | [] => .ok []
  | a :: as =>
    match dGet ids a with
    | none => .error (.keyId a)
    | some i =>
      match tLookupAll ids as with
      | .error e => .error e
      | .ok is => .ok (i :: is)

def tOps : Dag → TIds → List (OpTag × List Nat) → Except Err (TIds × List (OpTag × List Nat))
  | [], ids, ops => .ok (ids, ops)
  | (r, node) :: rest, ids, ops =>
    if (dGet ids r).isSome then tOps rest ids ops
    else
      match node with
      | none => .error (.keyId r)                         -- `assert op is not None`
      | some (tag, args) =>
        let ids' := dSet ids r ids.length
        match tLookupAll ids' args with
        | .error e => .error e
        | .ok is => tOps rest ids' (ops ++ [(tag, is)])

/-- `trace_function` after the trace has been recorded: `kwargs` maps input names to value ids,
    constants are named by their value id. -/
def traceCompile (isVar : Nat → Bool) (allowConstants : Bool) (trace : List TEntry) (root : Nat)
    (kwargs : List (String × Nat)) : Except Err Prog :=
  let dag := traceDag isVar trace root
  match tConsts isVar allowConstants (kwargs.map (·.2)) dag [] [] with
  | .error e => .error e
  | .ok (ids1, cs) =>
    let ids2 := tInputs kwargs ids1
    match tOps dag ids2 [] with
    | .error e => .error e
    | .ok (ids3, ops) =>
      -- `if ids[id(root)] != len(ids) - 1: raise NotImplementedError` (an OpProgram returns its last slot)
      match dGet ids3 root with
      | none => .error (.keyId root)
      | some i =>
        if i + 1 ≠ ids3.length then .error (.notImplemented (.fn (.const root)))
        else .ok ⟨cs, kwargs.map (·.1), ops⟩

end FV.C18
