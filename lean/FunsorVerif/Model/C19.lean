/-
  Model/C19.lean — conversions and re-alignment (funsor/tensor.py).

  Arrays are a shape plus an *index function* (`Arr.get : List Nat → α`); the row-major memory
  layout is recovered with `ravel`/`unravel` (`Arr.toFlat`), which is also how numpy's `reshape`
  is modelled (same flat buffer, new shape).  numpy primitives are modelled by their index-level
  specification:

    reshape   x.reshape(s)            ValueError unless the element counts agree; flat order kept
    permute   ops.permute(x, axes)    ValueError unless `axes` is a permutation of range(rank);
                                      result[idx'] = x[idx] with idx'[j] = idx[axes[j]]
    expandTo  ops.expand(x, s)        ValueError unless same rank and each dim equal or 1

  Funsor code modelled on top, line by line on the bookkeeping that decides which axis gets
  which name:

    toFunsor      tensor_to_funsor (tensor.py:484-520)
    toData        tensor_to_data   (tensor.py:594-625)
    Tensor.align  Tensor.align     (tensor.py:196-211)
    alignTensor   align_tensor     (tensor.py:523-568)
    alignTensors  align_tensors    (tensor.py:571-591)
    binaryT       eager_binary_tensor_tensor for scalar outputs (tensor.py:700-726)
    materialize   materialize      (tensor.py:465-481) over a small lazy term language
    madeOp2       op_factory.eager_tensor_made_op (to_data by name, raw fn under broadcasting, to_funsor)
    LTerm.alignT  Funsor.align / Align / Contraction.align with eager_align; deltaAlign = Delta.align

  `gather v js` uses `getD … 0` purely as index plumbing behind the `isPerm` guard that models
  numpy's ValueError; no modelled raise is replaced by a default.
-/
namespace FV.C19

/-! ### Index arithmetic -/

def prod : List Nat → Nat
  | [] => 1
  | s :: ss => s * prod ss

/-- Row-major flat offset of a multi-index. -/
def ravel : List Nat → List Nat → Nat
  | _ :: ss, i :: is => i * prod ss + ravel ss is
  | _, _ => 0

/-- Multi-index of a flat offset (inverse of `ravel` on in-bounds arguments). -/
def unravel : List Nat → Nat → List Nat
  | [], _ => []
  | _ :: ss, k => k / prod ss :: unravel ss (k % prod ss)

/-- `idx` is a valid index into an array of shape `s`. -/
def inb : List Nat → List Nat → Bool
  | [], [] => true
  | s :: ss, i :: is => decide (i < s) && inb ss is
  | _, _ => false

/-- Position of the first occurrence (Python `list.index`); `l.length` if absent. -/
def pos {β : Type} [DecidableEq β] (a : β) : List β → Nat
  | [] => 0
  | b :: l => if b = a then 0 else pos a l + 1

/-- `js.map (v[·])`. -/
def gather (v : List Nat) (js : List Nat) : List Nat := js.map fun j => v.getD j 0

/-- Is `p` a permutation of `range n`? -/
def isPerm (p : List Nat) (n : Nat) : Bool :=
  p.length == n && p.all (· < n) && (List.range n).all (· ∈ p)

def invPerm (p : List Nat) : List Nat := (List.range p.length).map fun i => pos i p

inductive Err where
  | valueError | keyError | assertionError
  deriving Repr, DecidableEq

/-! ### Arrays -/

structure Arr (α : Type) where
  shape : List Nat
  get : List Nat → α

variable {α : Type}

/-- The row-major buffer. -/
def Arr.toFlat (a : Arr α) : List α :=
  (List.range (prod a.shape)).map fun k => a.get (unravel a.shape k)

/-- An array from its row-major buffer (entries outside the buffer are `none`). -/
def Arr.ofFlat (shape : List Nat) (xs : List α) : Arr (Option α) :=
  ⟨shape, fun idx => if inb shape idx then xs[ravel shape idx]? else none⟩

def reshape (a : Arr α) (s : List Nat) : Except Err (Arr α) :=
  if prod s = prod a.shape then
    .ok ⟨s, fun idx => a.get (unravel a.shape (ravel s idx))⟩
  else .error .valueError

def permute (a : Arr α) (p : List Nat) : Except Err (Arr α) :=
  if isPerm p a.shape.length then
    .ok ⟨gather a.shape p, fun idx => a.get (gather idx (invPerm p))⟩
  else .error .valueError

def canExpand : List Nat → List Nat → Bool
  | [], [] => true
  | a :: as, b :: bs => (a == b || a == 1) && canExpand as bs
  | _, _ => false

/-- Index into the un-expanded array: size-1 axes are read at 0. -/
def clip : List Nat → List Nat → List Nat
  | s :: ss, i :: is => (if s = 1 then 0 else i) :: clip ss is
  | _, _ => []

def expandTo (a : Arr α) (s : List Nat) : Except Err (Arr α) :=
  if canExpand a.shape s then .ok ⟨s, fun idx => a.get (clip a.shape idx)⟩
  else .error .valueError

/-! ### Ordered dictionaries (Python `OrderedDict`) -/

abbrev Inputs := List (String × Nat)

def oset (d : Inputs) (k : String) (v : Nat) : Inputs :=
  match d with
  | [] => [(k, v)]
  | (k', v') :: r => if k' = k then (k, v) :: r else (k', v') :: oset r k v

def oupdate (d e : Inputs) : Inputs := e.foldl (fun acc p => oset acc p.1 p.2) d

def lookup {κ β : Type} [DecidableEq κ] (k : κ) : List (κ × β) → Option β
  | [] => none
  | (k', v) :: r => if k' = k then some v else lookup k r

/-! ### Tensors -/

structure Tensor (α : Type) where
  inputs : Inputs
  data : Arr α
  dtype : Option Nat := none     -- `none` = "real", `some n` = bounded integer

def Tensor.keys (t : Tensor α) : List String := t.inputs.map (·.1)
def Tensor.sizes (t : Tensor α) : List Nat := t.inputs.map (·.2)
def Tensor.outShape (t : Tensor α) : List Nat := t.data.shape.drop t.inputs.length

/-- `Tensor.__init__`'s assertion: the leading axes are the inputs, in order. -/
def Tensor.WF (t : Tensor α) : Prop := t.data.shape = t.sizes ++ t.outShape

/-- Value at a named point `env` and event index `ev`. -/
def Tensor.atEnv (t : Tensor α) (env : String → Nat) (ev : List Nat) : α :=
  t.data.get (t.keys.map env ++ ev)

/-! ### tensor_to_funsor -/

/-- The packing loop: `if name is not None and size != 1: packed_inputs[name] = Bint[size]`. -/
def packLoop : List (Option String × Nat) → Inputs → Inputs
  | [], acc => acc
  | (some n, s) :: l, acc => if s ≠ 1 then packLoop l (oset acc n s) else packLoop l acc
  | (none, _) :: l, acc => packLoop l acc

/-- Name of batch axis `j` (0-based from the left, `nb` batch axes): `dim_to_name.get(j - nb)`. -/
def axisNames (d2n : List (Int × String)) (nb : Nat) : List (Option String) :=
  (List.range nb).map fun (j : Nat) => lookup ((j : Int) - (nb : Int)) d2n

def minInt : List Int → Option Int
  | [] => none
  | a :: l => match minInt l with
    | none => some a
    | some m => some (if a ≤ m then a else m)

/-- `tensor_to_funsor(x, output, dim_to_name)`; `output`/`d2n` `none` = Python `None`. -/
def toFunsor (x : Arr α) (output : Option (List Nat)) (dtype : Option Nat)
    (d2n : Option (List (Int × String))) : Except Err (Tensor α) :=
  match d2n with
  | none | some [] =>
    let out := match output with | some o => o | none => x.shape
    if x.shape = out then .ok ⟨[], x, dtype⟩ else .error .valueError
  | some (e :: d2n') =>
    let d2n := e :: d2n'
    if !(d2n.all fun p => p.1 < 0) then .error .assertionError else
    let out := match output with
      | some o => o
      | none => match minInt (d2n.map (·.1)) with
        | some m => x.shape.drop (min (-m).toNat x.shape.length)
        | none => x.shape
    let nb := x.shape.length - out.length
    let packed := packLoop ((axisNames d2n nb).zip x.shape) []
    match reshape x (packed.map (·.2) ++ out) with
    | .ok data => .ok ⟨packed, data, dtype⟩
    | .error e => .error e

/-! ### tensor_to_data -/

def insertSorted (a : Int) : List Int → List Int
  | [] => [a]
  | b :: l => if a ≤ b then a :: b :: l else b :: insertSorted a l

def sortInts : List Int → List Int
  | [] => []
  | a :: l => insertSorted a (sortInts l)

/-- `batch_shape[dim] = size` with Python's negative indexing (IndexError cannot occur for
    `dim ≥ -len`; outside that range the model reports an assertion failure). -/
def setNeg (l : List Nat) (d : Int) (v : Nat) : Except Err (List Nat) :=
  if d < 0 ∧ -d ≤ l.length then .ok (l.set (l.length - (-d).toNat) v) else .error .assertionError

def scatterDims : List (Int × Nat) → List Nat → Except Err (List Nat)
  | [], acc => .ok acc
  | (d, s) :: r, acc => match setNeg acc d s with
    | .ok acc' => scatterDims r acc'
    | .error e => .error e

def toData (x : Tensor α) (n2d : Option (List (String × Int))) : Except Err (Arr α) :=
  let n2d' := match n2d with | some l => l | none => []
  if n2d'.isEmpty || x.inputs.isEmpty then
    if !x.inputs.isEmpty then .error .valueError else .ok x.data
  else
    if !(n2d'.all fun p => p.2 < 0) then .error .assertionError else
    match reshape x.data (x.sizes ++ x.outShape) with
    | .error e => .error e
    | .ok data =>
    match x.keys.mapM (fun k => lookup k n2d') with
    | none => .error .keyError
    | some unsorted =>
    let dims := sortInts unsorted
    let perm := dims.map (fun d => pos d unsorted)
      ++ List.range' dims.length x.outShape.length
    match permute data perm with
    | .error e => .error e
    | .ok data =>
    match dims with
    | [] => .error .assertionError      -- unreachable: x.inputs is non-empty
    | d0 :: _ =>
    match scatterDims (dims.zip data.shape) (List.replicate (-d0).toNat 1) with
    | .error e => .error e
    | .ok batchShape => reshape data (batchShape ++ x.outShape)

/-! ### Tensor.align -/

def fromPairs (l : Inputs) : Inputs := oupdate [] l

def Tensor.align (t : Tensor α) (names : List String) : Except Err (Tensor α) :=
  if !(names.all (· ∈ t.keys)) then .error .assertionError
  else if names.isEmpty || names = t.keys then .ok t
  else
    let inputs := oupdate
      (fromPairs (names.filterMap fun n => (lookup n t.inputs).map fun s => (n, s))) t.inputs
    let newDims := inputs.map (·.1)
    let perm := newDims.map (fun d => pos d t.keys)
    let perm := perm ++ List.range' perm.length t.outShape.length
    match permute t.data perm with
    | .ok data => .ok ⟨inputs, data, t.dtype⟩
    | .error e => .error e

/-! ### align_tensor / align_tensors -/

/-- `old_inputs[k].dtype if k in old_inputs else 1` -/
def sizeOr1 (d : Inputs) (p : String × Nat) : Nat :=
  match lookup p.1 d with | some s => s | none => 1

def alignTensor (newInputs : Inputs) (x : Tensor α) (expand : Bool) : Except Err (Arr α) :=
  if x.inputs = newInputs then .ok x.data else
  let perm := (newInputs.filter fun p => p.1 ∈ x.keys).map (fun p => pos p.1 x.keys)
    ++ List.range' x.inputs.length (x.data.shape.length - x.inputs.length)
  match permute x.data perm with
  | .error e => .error e
  | .ok data =>
  let shape1 := newInputs.map (sizeOr1 x.inputs) ++ x.outShape
  match reshape data shape1 with
  | .error e => .error e
  | .ok data =>
    if expand then expandTo data (newInputs.map (·.2) ++ x.outShape) else .ok data

def okOrNone {β : Type} : Except Err β → Option β
  | .ok a => some a
  | .error _ => none

def unionInputs (xs : List (Tensor α)) : Inputs := xs.foldl (fun acc x => oupdate acc x.inputs) []

def alignTensors (xs : List (Tensor α)) (expand : Bool) : Except Err (Inputs × List (Arr α)) :=
  let inputs := unionInputs xs
  match xs.mapM (fun x => okOrNone (alignTensor inputs x expand)) with
  | some as => .ok (inputs, as)
  | none => .error .valueError

/-! ### Eager binary op on scalar-output tensors, and materialize -/

/-- `eager_binary_tensor_tensor` for scalar outputs: align, then broadcast the op pointwise. -/
def binaryT (f : α → α → α) (l r : Tensor α) : Except Err (Tensor α) :=
  if l.inputs = r.inputs then
    .ok ⟨l.inputs, ⟨l.data.shape, fun idx => f (l.data.get idx) (r.data.get idx)⟩, none⟩
  else
    match alignTensors [l, r] false with
    | .ok (inputs, [a, b]) =>
      .ok ⟨inputs, ⟨inputs.map (·.2),
        fun idx => f (a.get (clip a.shape idx)) (b.get (clip b.shape idx))⟩, none⟩
    | .ok _ => .error .assertionError
    | .error e => .error e

/-- A small lazy term language: integer variables, real variables, ground tensors, binary ops. -/
inductive Term (α : Type) where
  | var (name : String) (size : Nat)       -- Variable(name, Bint[size])
  | rvar (name : String)                   -- Variable(name, Real): never materialised
  | tensor (t : Tensor α)                  -- scalar-output ground tensor
  | binary (op : Nat) (l r : Term α)       -- op index into a table of binary functions
  | slice (name : String) (start stop step dtype : Nat)   -- Slice(name, start, stop, step, dtype)

/-- Number of points of `Slice(start, stop, step)`: `max(0, (stop + step - 1 - start) // step)`. -/
def sliceSize (start stop step : Nat) : Nat := (stop + step - 1 - start) / step

/-- What `Slice.eager_subs` returns for an arange index: `start + step * arange(size)` on the
    slice's own input, with the slice's dtype. -/
def sliceTensor (ofNat : Nat → α) (name : String) (start stop step dtype : Nat) : Tensor α :=
  ⟨[(name, sliceSize start stop step)], ⟨[sliceSize start stop step],
    fun idx => match idx with | [i] => ofNat (start + step * i) | _ => ofNat start⟩, some dtype⟩

/-- `Tensor.new_arange(name, size)`: inputs {name: Bint[size]}, data = arange(size). -/
def arange (ofNat : Nat → α) (name : String) (size : Nat) : Tensor α :=
  ⟨[(name, size)], ⟨[size], fun idx => match idx with | [i] => ofNat i | _ => ofNat 0⟩, some size⟩

/-- `materialize`: substitute an arange for every bounded-integer free variable. -/
def Term.materialize (ofNat : Nat → α) : Term α → Term α
  | .var n s => .tensor (arange ofNat n s)
  | .rvar n => .rvar n
  | .tensor t => .tensor t
  | .binary op l r => .binary op (l.materialize ofNat) (r.materialize ofNat)
  | .slice n a b c d => .tensor (sliceTensor ofNat n a b c d)

/-- The declared `.inputs` of the lazy term (Binary: lhs inputs updated with rhs inputs). -/
def Term.inputs : Term α → Inputs
  | .var n s => [(n, s)]
  | .rvar _ => []
  | .tensor t => t.inputs
  | .binary _ l r => oupdate l.inputs r.inputs
  | .slice n a b c _ => [(n, sliceSize a b c)]

/-- Textbook meaning: value at a named point. -/
def Term.denote (ofNat : Nat → α) (ops : Nat → α → α → α) (renv : String → α)
    (env : String → Nat) : Term α → α
  | .var n _ => ofNat (env n)
  | .rvar n => renv n
  | .tensor t => t.atEnv env []
  | .binary op l r => ops op (l.denote ofNat ops renv env) (r.denote ofNat ops renv env)
  | .slice n a _ c _ => ofNat (a + c * env n)

/-- Eager evaluation of a variable-free term (`none`: stays lazy / an alignment failed). -/
def Term.eval (ops : Nat → α → α → α) : Term α → Option (Tensor α)
  | .var _ _ => none
  | .rvar _ => none
  | .slice _ _ _ _ _ => none
  | .tensor t => some t
  | .binary op l r =>
    match l.eval ops, r.eval ops with
    | some a, some b => match binaryT (ops op) a b with
      | .ok t => some t
      | .error _ => none
    | _, _ => none

/-! ### Lazy alignment: `Funsor.align` / `Align` / `Contraction.align` / `Delta.align` -/

/-- Lazy terms for alignment: variables, ground tensors, lazy binary ops, the lazy `Align`
    wrapper and a two-operand `Contraction(red_op, bin_op, reduced_vars, (l, r))`. -/
inductive LTerm (α : Type) where
  | var (name : String) (size : Nat)
  | tensor (t : Tensor α)
  | binary (op : Nat) (l r : LTerm α)
  | align (t : LTerm α) (names : List String)
  | contract (rop bop : Nat) (rv : Inputs) (l r : LTerm α)

/-- `.inputs`, in order (Binary: lhs then rhs; Align: names first; Contraction: operands' inputs
    minus the reduced variables). -/
def LTerm.inputs : LTerm α → Inputs
  | .var n s => [(n, s)]
  | .tensor t => t.inputs
  | .binary _ l r => oupdate l.inputs r.inputs
  | .align t names =>
    oupdate (fromPairs (names.filterMap fun n => (lookup n t.inputs).map fun s => (n, s))) t.inputs
  | .contract _ _ rv l r =>
    oupdate (l.inputs.filter fun p => decide (p.1 ∉ rv.map (·.1)))
      (r.inputs.filter fun p => decide (p.1 ∉ rv.map (·.1)))

def LTerm.keys (t : LTerm α) : List String := t.inputs.map (·.1)

def updEnv (env : String → Nat) (k : String) (v : Nat) : String → Nat :=
  fun n => if n = k then v else env n

/-- Reduce `body` over every assignment of the reduced variables (`red` folds a list of values). -/
def reduceVars (red : List α → α) : Inputs → ((String → Nat) → α) → (String → Nat) → α
  | [], body, env => body env
  | (v, n) :: rest, body, env =>
    red ((List.range n).map fun i => reduceVars red rest body (updEnv env v i))

/-- Textbook meaning of a lazy term at a named point; `Align` is the identity. -/
def LTerm.denote (ofNat : Nat → α) (ops : Nat → α → α → α) (red : Nat → List α → α) :
    LTerm α → (String → Nat) → α
  | .var n _, env => ofNat (env n)
  | .tensor t, env => t.atEnv env []
  | .binary op l r, env => ops op (l.denote ofNat ops red env) (r.denote ofNat ops red env)
  | .align t _, env => t.denote ofNat ops red env
  | .contract rop bop rv l r, env =>
    reduceVars (red rop) rv
      (fun e => ops bop (l.denote ofNat ops red e) (r.denote ofNat ops red e)) env

def sameSet (a b : List String) : Bool := a.all (· ∈ b) && b.all (· ∈ a)

/-- `Align(arg, names)` built under the eager interpretation: `Align.__init__` asserts
    `names ⊆ arg.inputs`; `eager_align` drops the wrapper unless `names` are all the names. -/
def mkAlign (t : LTerm α) (names : List String) : Option (LTerm α) :=
  if !(names.all (· ∈ t.keys)) then none
  else if sameSet names t.keys then some (.align t names) else some t

/-- `Funsor.align` (terms.py:497-511). -/
def funsorAlign (t : LTerm α) (names : List String) : Option (LTerm α) :=
  if names.isEmpty || names = t.keys then some t else mkAlign t names

/-- `x.align(names)` dispatched on the class of `x`; `none` = an assertion failed. -/
def LTerm.alignT : LTerm α → List String → Option (LTerm α)
  | .var n s, names => funsorAlign (.var n s) names
  | .binary op l r, names => funsorAlign (.binary op l r) names
  | .tensor t, names =>
    match t.align names with
    | .ok t' => some (.tensor t')
    | .error _ => none
  | .align t _, names => t.alignT names                    -- Align.align: self.arg.align(names)
  | .contract rop bop rv l r, names =>                     -- Contraction.align (cnf.py:203-214)
    if !(names.all (· ∈ (LTerm.contract rop bop rv l r).keys)) then none else
    match l.alignT (names.filter (· ∈ l.keys)), r.alignT (names.filter (· ∈ r.keys)) with
    | some l', some r' =>
      if names = (LTerm.contract rop bop rv l' r').keys then some (.contract rop bop rv l' r')
      else mkAlign (.contract rop bop rv l' r') names
    | _, _ => none

/-- Stable insertion by key (Python `sorted(..., key=...)`). -/
def insertBy {β : Type} (key : β → Nat) (a : β) : List β → List β
  | [] => [a]
  | b :: l => if key a ≤ key b then a :: b :: l else b :: insertBy key a l

def sortBy {β : Type} (key : β → Nat) : List β → List β
  | [] => []
  | a :: l => insertBy key a (sortBy key l)

/-- `Delta.align(names)` on the tuple of `(name, (point, log_density))` terms (delta.py:127-134);
    `tuple.index` raises `ValueError` for a term whose name is missing from `names`. -/
def deltaAlign {β : Type} (terms : List (String × β)) (names : List String) :
    Except Err (List (String × β)) :=
  if !(names.all (· ∈ terms.map (·.1))) then .error .assertionError
  else if names.isEmpty || names = terms.map (·.1) then .ok terms
  else if !((terms.map (·.1)).all (· ∈ names)) then .error .valueError
  else .ok (sortBy (fun t => pos t.1 names) terms)

/-! ### `funsor.make_op` ops: `op_factory.eager_tensor_made_op` -/

/-- `name_to_dim.setdefault(k, -1 - len(name_to_dim))`. -/
def setDefaultDim (acc : List (String × Int)) (k : String) : List (String × Int) :=
  match lookup k acc with
  | some _ => acc
  | none => acc ++ [(k, -1 - (acc.length : Int))]

/-- The `name_to_dim` the rule builds: every operand's inputs, reversed, first operand first. -/
def madeDims (args : List (Tensor α)) : List (String × Int) :=
  args.foldl (fun acc t => t.keys.reverse.foldl setDefaultDim acc) []

/-- numpy broadcasting, step 1: prepend size-1 axes up to rank `n`. -/
def padLeft (a : Arr α) (n : Nat) : Except Err (Arr α) :=
  reshape a (List.replicate (n - a.shape.length) 1 ++ a.shape)

/-- numpy broadcasting, step 2: axis by axis the sizes agree or one of them is 1. -/
def bshape2 : List Nat → List Nat → Option (List Nat)
  | [], [] => some []
  | a :: as, b :: bs =>
    match bshape2 as bs with
    | none => none
    | some r => if a = b then some (a :: r) else if a = 1 then some (b :: r)
                else if b = 1 then some (a :: r) else none
  | _, _ => none

/-- A raw elementwise function of two arrays under numpy broadcasting. -/
def bcast2 (f : α → α → α) (a b : Arr α) : Except Err (Arr α) :=
  let n := max a.shape.length b.shape.length
  match padLeft a n, padLeft b n with
  | .ok a', .ok b' =>
    match bshape2 a'.shape b'.shape with
    | some s => .ok ⟨s, fun idx => f (a'.get (clip a'.shape idx)) (b'.get (clip b'.shape idx))⟩
    | none => .error .valueError
  | _, _ => .error .valueError

/-- `eager_tensor_made_op(op, x, y)` for a scalar elementwise raw function `f`:
    `to_data` each operand with the joint `name_to_dim`, apply `f`, `to_funsor` with the inverse map.
    `skipX` / `skipY` model the *unsound* shortcut "pass `.data` through" (for the witness only). -/
def madeOp2 (f : α → α → α) (x y : Tensor α) (skipX skipY : Bool := false) :
    Except Err (Tensor α) :=
  let n2d := madeDims [x, y]
  let raw := fun (t : Tensor α) (skip : Bool) => if skip then .ok t.data else toData t (some n2d)
  match raw x skipX, raw y skipY with
  | .ok a, .ok b =>
    match bcast2 f a b with
    | .ok data => toFunsor data (some []) none (some (n2d.map fun p => (p.2, p.1)))
    | .error e => .error e
  | .error e, _ => .error e
  | _, .error e => .error e

end FV.C19
