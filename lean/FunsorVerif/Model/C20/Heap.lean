/-
  Model/C20/Heap.lean — heap model for property C20 (terms and the arrays behind them are never mutated).

  Part 1.  A heap of flat buffers; array handles are *views* (a base buffer id plus the base offsets
           the view's cells alias, in the view's own order).  Instructions are classified as
             pure-view   (slice / rev / alias):  new handle, same base, heap untouched
             alloc-new   (alloc / copy / binop / gather): new buffer appended to the heap
             write       (setItem / fill / iadd / assign): cells of the *destination's base* change
           "copy-then-write" is `copy` followed by a write through the new handle.
           `absStep`/`staticOK` is the provenance analysis the translator (fv/harness/c20_scan.py)
           performs on Python source, restricted to this instruction set: a register is `fresh`
           iff it was produced by an allocating instruction of this program or is a view of such.

  Part 2 (Model/C20/Review.lean).  The reviewed lists used by the table obligation in Props/C20/Table.lean: write sites of the
           real source whose target is not a fresh local, each with the reason it cannot touch a
           term or an array the caller holds.  Hand-written, keyed by (file, function, target text,
           allowed kinds) so that line drift does not matter but a *new kind of write* into the
           same target does.
-/
namespace FV.C20

/-! ## Part 1: heap, views, instructions -/

abbrev Buf := List Int
abbrev Heap := List Buf

structure View where
  base : Nat
  offs : List Nat
  deriving DecidableEq, Repr, Inhabited

structure State where
  heap : Heap
  regs : List View
  deriving Repr, Inhabited

inductive Instr where
  | alloc (n : Nat) (v : Int)               -- np.full(n, v)                 alloc-new
  | copy (src : Nat)                        -- r.copy()                      alloc-new
  | binop (a b : Nat)                       -- r_a + r_b                     alloc-new
  | gather (src : Nat) (idx : List Nat)     -- r[[i, j, …]]  (fancy index)   alloc-new
  | slice (src start stop step : Nat)       -- r[start:stop:step]            pure-view
  | rev (src : Nat)                         -- r[::-1]                       pure-view
  | alias (src : Nat)                       -- np.asarray(r) / r.reshape(-1) pure-view
  | setItem (dst k : Nat) (v : Int)         -- r[k] = v                      write
  | fill (dst : Nat) (v : Int)              -- r[...] = v / r.fill(v)        write
  | iadd (dst src : Nat)                    -- r_dst += r_src                write
  | assign (dst src : Nat)                  -- r_dst[...] = r_src            write
  deriving Repr, Inhabited

/-- The register a write instruction writes through (none for view/alloc instructions). -/
def Instr.dst? : Instr → Option Nat
  | .setItem d _ _ => some d
  | .fill d _ => some d
  | .iadd d _ => some d
  | .assign d _ => some d
  | _ => none

/-- Read the cells a view addresses; `none` if the handle dangles (cannot happen for well-formed states). -/
def readView (h : Heap) (v : View) : Option (List Int) := do
  let b ← h[v.base]?
  v.offs.mapM (fun o => b[o]?)

/-- Replace buffer `l` of the heap by `f` of it (heap unchanged if `l` is out of range). -/
def modifyBuf (h : Heap) (l : Nat) (f : Buf → Buf) : Heap := h.modify l f

/-- Write `vals` through the offsets `offs` of buffer `b` (pairwise, left to right). -/
def writeCells (b : Buf) : List Nat → List Int → Buf
  | o :: os, x :: xs => writeCells (b.set o x) os xs
  | _, _ => b

/-- Python slice indices of `range(start, stop, step)` clipped to length `n` (non-negative args). -/
def sliceIdx (n start stop step : Nat) : List Nat :=
  let stop := min stop n
  if step = 0 then [] else
  (List.range ((stop - start + step - 1) / step)).map (fun i => start + i * step)

def pushReg (s : State) (v : View) : State := { s with regs := s.regs ++ [v] }

def allocBuf (s : State) (b : Buf) : State :=
  { heap := s.heap ++ [b], regs := s.regs ++ [⟨s.heap.length, List.range b.length⟩] }

/-- One instruction.  `none` models the Python exception (IndexError / shape mismatch / bad register). -/
def step (i : Instr) (s : State) : Option State :=
  match i with
  | .alloc n v => some (allocBuf s (List.replicate n v))
  | .copy src => do
      let vw ← s.regs[src]?
      let xs ← readView s.heap vw
      some (allocBuf s xs)
  | .binop a b => do
      let va ← s.regs[a]?
      let vb ← s.regs[b]?
      let xs ← readView s.heap va
      let ys ← readView s.heap vb
      if xs.length = ys.length then some (allocBuf s (List.zipWith (· + ·) xs ys)) else none
  | .gather src idx => do
      let vw ← s.regs[src]?
      let xs ← readView s.heap vw
      let ys ← idx.mapM (fun k => xs[k]?)
      some (allocBuf s ys)
  | .slice src start stop st => do
      let vw ← s.regs[src]?
      if st = 0 then none else
      let sel ← (sliceIdx vw.offs.length start stop st).mapM (fun k => vw.offs[k]?)
      some (pushReg s ⟨vw.base, sel⟩)
  | .rev src => do
      let vw ← s.regs[src]?
      some (pushReg s ⟨vw.base, vw.offs.reverse⟩)
  | .alias src => do
      let vw ← s.regs[src]?
      some (pushReg s vw)
  | .setItem dst k v => do
      let vw ← s.regs[dst]?
      let o ← vw.offs[k]?
      let b ← s.heap[vw.base]?
      if o < b.length then some { s with heap := modifyBuf s.heap vw.base (fun b => b.set o v) } else none
  | .fill dst v => do
      let vw ← s.regs[dst]?
      let _ ← readView s.heap vw
      some { s with heap := modifyBuf s.heap vw.base
                      (fun b => writeCells b vw.offs (List.replicate vw.offs.length v)) }
  | .iadd dst src => do
      let vd ← s.regs[dst]?
      let vs ← s.regs[src]?
      let xs ← readView s.heap vd
      let ys ← readView s.heap vs
      if xs.length = ys.length then
        some { s with heap := modifyBuf s.heap vd.base
                        (fun b => writeCells b vd.offs (List.zipWith (· + ·) xs ys)) }
      else none
  | .assign dst src => do
      let vd ← s.regs[dst]?
      let vs ← s.regs[src]?
      let xs ← readView s.heap vd
      let ys ← readView s.heap vs
      if xs.length = ys.length then
        some { s with heap := modifyBuf s.heap vd.base (fun b => writeCells b vd.offs ys) }
      else none

/-- Run a program; an exception stops it (`none`). -/
def run : List Instr → State → Option State
  | [], s => some s
  | i :: is, s => (step i s).bind (run is)

/-- Run as far as possible: the state reached when the program ends or the first instruction raises
    (this is what the caller observes after a Python exception: all earlier effects persist). -/
def runPartial : List Instr → State → State
  | [], s => s
  | i :: is, s => match step i s with
    | some s' => runPartial is s'
    | none => s

/-! ### The provenance analysis (what the translator does on Python source) -/

def tagOf (tags : List Bool) (r : Nat) : Bool :=
  match tags[r]? with
  | some b => b
  | none => false

/-- Abstract step: allocating instructions yield a fresh register, views inherit, writes add none. -/
def absStep (i : Instr) (tags : List Bool) : List Bool :=
  match i with
  | .alloc _ _ | .copy _ | .binop _ _ | .gather _ _ => tags ++ [true]
  | .slice src _ _ _ | .rev src | .alias src => tags ++ [tagOf tags src]
  | .setItem _ _ _ | .fill _ _ | .iadd _ _ | .assign _ _ => tags

/-- A write site is accepted iff its destination register is tagged fresh. -/
def siteFresh (i : Instr) (tags : List Bool) : Bool :=
  match i.dst? with
  | some d => tagOf tags d
  | none => true

/-- The static obligation on a whole program: every write site is `freshLocal`. -/
def staticOK : List Instr → List Bool → Bool
  | [], _ => true
  | i :: is, tags => siteFresh i tags && staticOK is (absStep i tags)

/-- Tags of all write sites of a program, in order (what the translator's table lists). -/
def siteTags : List Instr → List Bool → List Bool
  | [], _ => []
  | i :: is, tags =>
    (match i.dst? with
     | some d => [tagOf tags d]
     | none => []) ++ siteTags is (absStep i tags)

/-- Initial tags: nothing the caller handed in is fresh. -/
def initTags (s : State) : List Bool := List.replicate s.regs.length false

end FV.C20
