/-
  Model/C20/Obj.lean — object/container extension of the heap model of Model/C20/Heap.lean.

  Heap.lean only knows flat array buffers.  The write-site table (Gen/C20WriteSites.lean) however also
  lists *element stores into containers* (`d[k] = x`, `lst.append(x)`, `del d[k]`: kinds subscriptStore /
  containerMethod / delItem) and *attribute stores on objects* (`obj.attr = x`, `setattr(obj, …)`,
  `del obj.attr`: kinds attrStore / setattrCall / delAttr).  The translator classifies those with
  provenance `freshLocal` (container built in the same function) or `initSelf` (object allocated by
  the `__new__`/`__init__` under way) and until now only the review argued that such stores are harmless.

  Here the heap has two kinds of cells:
     arrs : array buffers (as in Heap.lean; handles are views)
     objs : objects = slot tables  key ↦ value   (a dict, a list (key = position), an instance `__dict__`)
  and a value (what a register or a slot holds) is an array view or a *reference* to an object.
  References are shared: storing a caller's object/array into a fresh container stores the reference,
  and loading it back gives a handle on the caller's cell again — the analysis (`oabsStep`) therefore
  tags the result of a load as NOT fresh (freshness is shallow), exactly as fv/harness/c20_scan.py does
  (a `Subscript`/`Attribute` load is only fresh if its root was produced by a copying primitive).

  Instruction classes
     alloc-new : newArr (np.full) · newObj (`{}`, `[]`, `object.__new__(cls)`) · copyObj (`dict(d)`,
                 `list(l)`, `copy.copy(o)`: new slot table, *same* slot values)
     pure      : alias (`y = x`) · load (`d[k]`, `o.attr`)
     pure      : const (an immutable value)
     write     : augSlot (`d[k] op= x`: rebinding when the element is immutable, IN-PLACE update of
                 the element when it is an array) · store (`d[k] = x` / `o.attr = x` / `l.append(x)`) · del (`del d[k]` / `del o.attr` /
                 `d.pop(k)`) · setItem (`a[k] = v` on an array view)
-/
import FunsorVerif.Model.C20.Heap
namespace FV.C20.Obj
open FV.C20

/-- What a register or an object slot holds. -/
inductive Val where
  | arr (v : View)     -- handle on an array buffer
  | obj (o : Nat)      -- reference to object number `o`
  | imm (n : Int)      -- an immutable value (int, str, tuple, frozenset, a Funsor): no cell behind it
  deriving DecidableEq, Repr, Inhabited

/-- An object: slot table (attribute name / dict key / list position, numbered) ↦ value. -/
abbrev Slots := List (Nat × Val)

structure OState where
  arrs : Heap
  objs : List Slots
  regs : List Val
  deriving Repr, Inhabited

def getSlot (sl : Slots) (k : Nat) : Option Val := (sl.find? (fun p => p.1 == k)).map (·.2)
def delSlot (sl : Slots) (k : Nat) : Slots := sl.filter (fun p => p.1 != k)
def setSlot (sl : Slots) (k : Nat) (v : Val) : Slots := delSlot sl k ++ [(k, v)]

inductive OInstr where
  | newArr (n : Nat) (v : Int)          -- np.full(n, v)                              alloc-new
  | newObj                              -- {} / [] / object.__new__(cls)              alloc-new
  | copyObj (src : Nat)                 -- dict(d) / list(l) / copy.copy(o) (shallow) alloc-new
  | alias (src : Nat)                   -- y = x                                      pure
  | load (src key : Nat)                -- d[k] / o.attr                              pure
  | store (dst key src : Nat)           -- d[k] = x / o.attr = x / setattr(o, k, x)   write
  | del (dst key : Nat)                 -- del d[k] / del o.attr                      write
  | setItem (dst k : Nat) (v : Int)     -- a[k] = v  (array element)                  write
  | const (n : Int)                     -- y = 3 / y = frozenset()                    pure
  | augSlot (dst key src : Nat) (guard : Bool)
      -- d[k] op= x / o.attr op= x.  Python: `cur = d[k]; cur = cur.__iop__(x); d[k] = cur` — an
      -- immutable `cur` is *rebound* (only `d` is written), a mutable one (array) is updated IN PLACE
      -- (the element's own buffer is written, whoever else holds it).  `guard = true`: the site sits
      -- under a type test / assert that the element is immutable (the translator's `guard` column);
      -- a mutable element then raises instead of being updated.                     write (×2)
  deriving Repr, Inhabited

/-- The register a write instruction writes through. -/
def OInstr.dst? : OInstr → Option Nat
  | .store d _ _ => some d
  | .del d _ => some d
  | .setItem d _ _ => some d
  | .augSlot d _ _ _ => some d
  | _ => none

/-- The element an unguarded `augSlot` would update in place (second write target), if any. -/
def OInstr.elemTarget (i : OInstr) (s : OState) : Option Val :=
  match i with
  | .augSlot dst key _ false =>
      match s.regs[dst]? with
      | some (.obj o) =>
        match s.objs[o]? with
        | some sl => getSlot sl key
        | none => none
      | _ => none
  | _ => none

/-- `d[k] op= x` once `d = obj o`, the current element `cur` and the operand `x` are known. -/
def augStep (s : OState) (o key : Nat) (cur x : Val) (guard : Bool) : Option OState :=
  match cur, x with
  | .imm a, .imm b => some { s with objs := s.objs.modify o (fun sl => setSlot sl key (.imm (a + b))) }
  | .arr vd, .arr vs =>
      if guard then none else
      match readView s.arrs vd, readView s.arrs vs with
      | some xs, some ys =>
        if xs.length = ys.length then
          some { s with arrs := s.arrs.modify vd.base (fun b => writeCells b vd.offs (List.zipWith (· + ·) xs ys)) }
        else none
      | _, _ => none
  | _, _ => none

/-- One instruction; `none` = Python exception (KeyError / AttributeError / IndexError / TypeError). -/
def ostep (i : OInstr) (s : OState) : Option OState :=
  match i with
  | .newArr n v =>
      some { s with arrs := s.arrs ++ [List.replicate n v],
                    regs := s.regs ++ [.arr ⟨s.arrs.length, List.range n⟩] }
  | .newObj => some { s with objs := s.objs ++ [[]], regs := s.regs ++ [.obj s.objs.length] }
  | .copyObj src =>
      match s.regs[src]? with
      | some (.obj o) =>
        match s.objs[o]? with
        | some sl => some { s with objs := s.objs ++ [sl], regs := s.regs ++ [.obj s.objs.length] }
        | none => none
      | _ => none
  | .alias src =>
      match s.regs[src]? with
      | some v => some { s with regs := s.regs ++ [v] }
      | none => none
  | .load src key =>
      match s.regs[src]? with
      | some (.obj o) =>
        match s.objs[o]? with
        | some sl =>
          match getSlot sl key with
          | some v => some { s with regs := s.regs ++ [v] }
          | none => none
        | none => none
      | _ => none
  | .store dst key src =>
      match s.regs[dst]?, s.regs[src]? with
      | some (.obj o), some v =>
        if o < s.objs.length then some { s with objs := s.objs.modify o (fun sl => setSlot sl key v) }
        else none
      | _, _ => none
  | .del dst key =>
      match s.regs[dst]? with
      | some (.obj o) =>
        match s.objs[o]? with
        | some sl =>
          if (getSlot sl key).isSome then some { s with objs := s.objs.modify o (fun sl => delSlot sl key) }
          else none
        | none => none
      | _ => none
  | .setItem dst k v =>
      match s.regs[dst]? with
      | some (.arr vw) =>
        match vw.offs[k]?, s.arrs[vw.base]? with
        | some o, some b =>
          if o < b.length then some { s with arrs := s.arrs.modify vw.base (fun b => b.set o v) } else none
        | _, _ => none
      | _ => none
  | .const n => some { s with regs := s.regs ++ [.imm n] }
  | .augSlot dst key src guard =>
      match s.regs[dst]? with
      | some (.obj o) =>
        match s.objs[o]? with
        | some sl =>
          match getSlot sl key, s.regs[src]? with
          | some cur, some x => augStep s o key cur x guard
          | _, _ => none
        | none => none
      | _ => none

def orun : List OInstr → OState → Option OState
  | [], s => some s
  | i :: is, s => (ostep i s).bind (orun is)

/-- State the caller observes when the run ends or the first instruction raises. -/
def orunPartial : List OInstr → OState → OState
  | [], s => s
  | i :: is, s => match ostep i s with
    | some s' => orunPartial is s'
    | none => s

/-! ### Provenance analysis (shallow freshness) -/

/-- allocating instructions give a fresh register; `alias` inherits; a **load is never fresh**
    (the slot of a fresh container may hold a reference the caller passed in); writes add none. -/
def oabsStep (i : OInstr) (tags : List Bool) : List Bool :=
  match i with
  | .newArr _ _ | .newObj | .copyObj _ => tags ++ [true]
  | .alias src => tags ++ [tagOf tags src]
  | .load _ _ => tags ++ [false]
  | .const _ => tags ++ [false]
  | .store _ _ _ | .del _ _ | .setItem _ _ _ | .augSlot _ _ _ _ => tags

/-- A store site is accepted iff the container/object/array written into is fresh — and, for an
    augmented element assignment, the element is guarded immutable (freshness of the container says
    nothing about what it contains). -/
def ositeFresh (i : OInstr) (tags : List Bool) : Bool :=
  (match i.dst? with
   | some d => tagOf tags d
   | none => true) &&
  (match i with
   | .augSlot _ _ _ guard => guard
   | _ => true)

/-- The analysis that judges `d[k] op= x` by the container alone (what the write-site table's
    `augSubscript … freshLocal "FO"` rows amount to without the review of the element type);
    used only to state the witness that this is not enough. -/
def ositeFreshContainerOnly (i : OInstr) (tags : List Bool) : Bool :=
  match i.dst? with
  | some d => tagOf tags d
  | none => true

def ostaticOKContainerOnly : List OInstr → List Bool → Bool
  | [], _ => true
  | i :: is, tags => ositeFreshContainerOnly i tags && ostaticOKContainerOnly is (oabsStep i tags)

def ostaticOK : List OInstr → List Bool → Bool
  | [], _ => true
  | i :: is, tags => ositeFresh i tags && ostaticOK is (oabsStep i tags)

def oinitTags (s : OState) : List Bool := List.replicate s.regs.length false

/-- The unsound variant of the analysis in which a load from a fresh container counts as fresh
    ("deep freshness"); used only to state the witness that this would be wrong. -/
def oabsStepDeep (i : OInstr) (tags : List Bool) : List Bool :=
  match i with
  | .load src _ => tags ++ [tagOf tags src]
  | i => oabsStep i tags

def ostaticOKDeep : List OInstr → List Bool → Bool
  | [], _ => true
  | i :: is, tags => ositeFresh i tags && ostaticOKDeep is (oabsStepDeep i tags)

end FV.C20.Obj
