/-
  Model/C20/Review.lean — the reviewed lists used by the table obligation in Props/C20/Table.lean:
  write sites of the real source whose target is not a fresh local, each with the reason it cannot
  touch a term or an array the caller holds.  Hand-written, keyed by (file, function, target text,
  allowed kinds) so that line drift does not matter but a *new kind of write* into the same target,
  or the same write in another function, is not covered.
-/
import FunsorVerif.Gen.C20WriteSites
namespace FV.C20

/-! ## Part 2: reviewed lists for the generated write-site table -/

open FV.Gen.C20

/-- Why a store whose target is not a fresh local cannot touch a term or a caller's array. -/
inductive Why where
  | printing        -- `out`/`lines`: list of text lines threaded through quote()/pretty helpers
  | profiling       -- instrument.COUNTERS / STACK_SIZE: debug counters (ints keyed by strings)
  | interpState     -- interpreter._STACK push/pop, gensym counter: the documented global engine state
  | classRegistry   -- per-class caches/registries created at class-creation time (cons cache, type
                    --   cache, op instance cache, dispatcher tables, __name__/__module__ of new classes)
  | lazyAttr        -- write-once cached attribute on a term (`_ast_values` at construction,
                    --   `_ast_stats`, `_affine_inputs`, lazy_property): never an observable field
  | rebindImmutable -- `x += …` where x is a Funsor / frozenset / tuple / int / str: rebinding, not
                    --   mutation (checked at run time by the harness's type probe on every such site)
  | localBuilder    -- element of a container built in the same function (or handed down by the only
                    --   caller) holding names/ordinals/builders — no term, no array
  | engineState     -- attribute of an interpretation/state object passed as `state`/`self`
  deriving DecidableEq, Repr

structure Reviewed where
  file : String
  func : String
  target : String
  why : Why
  /-- for `rebindImmutable`: the type guards (enclosing isinstance/type tests, with polarity) under which
      the target was reviewed to be an immutable value; must equal the site's extracted guard, so that
      widening a guard (accepting a new kind of value in the same branch) is not covered. -/
  guard : String
  deriving Repr

/-- Which store kinds a justification covers (a new *kind* of write into a reviewed target is not covered). -/
def Why.allows : Why → Kind → Bool
  | .printing, k => k == .containerMethod || k == .subscriptStore || k == .augName
  | .profiling, k => k == .augSubscript || k == .augName || k == .augAttr || k == .subscriptStore
  | .interpState, k => k == .containerMethod || k == .augName
  | .classRegistry, k => k == .attrStore || k == .subscriptStore || k == .containerMethod
                          || k == .setattrCall || k == .arrayMethod
  | .lazyAttr, k => k == .attrStore || k == .setattrCall
  | .rebindImmutable, k => k == .augName
  | .localBuilder, k => k == .containerMethod || k == .subscriptStore
  | .engineState, k => k == .attrStore || k == .subscriptStore || k == .containerMethod

def reviewedSites : List Reviewed := [
  -- printing: quote()/pretty() accumulators (lists of (indent, text))
  ⟨"funsor/cnf.py", "_", "out", .printing, ""⟩,
  ⟨"funsor/sum_product.py", "_", "out", .printing, ""⟩,
  ⟨"funsor/tensor.py", "_", "out", .printing, ""⟩,
  ⟨"funsor/terms.py", "_", "out", .printing, ""⟩,
  ⟨"funsor/terms.py", "quote_inplace_oneline", "out", .printing, ""⟩,
  ⟨"funsor/terms.py", "quote_inplace_first_arg_on_first_line", "out", .printing, ""⟩,
  ⟨"funsor/util.py", "_", "out", .printing, ""⟩,
  ⟨"funsor/util.py", "_quote_inplace", "out", .printing, ""⟩,
  ⟨"funsor/util.py", "_quote_repr", "out", .printing, ""⟩,
  ⟨"funsor/util.py", "_quote", "out", .printing, ""⟩,
  ⟨"funsor/util.py", "quote", "line", .printing, ""⟩,
  ⟨"funsor/ops/program.py", "OpProgram.as_code.<locals>.let", "lines", .printing, ""⟩,
  -- profiling counters
  ⟨"funsor/instrument.py", "DebugLogged.__call__", "STACK_SIZE", .profiling, ""⟩,
  ⟨"funsor/instrument.py", "ProfileLogged.__call__", "COUNTERS['time']", .profiling, ""⟩,
  ⟨"funsor/instrument.py", "ProfileLogged.__call__", "COUNTERS['call']", .profiling, ""⟩,
  ⟨"funsor/instrument.py", "print_counters", "COUNTERS['time']", .profiling, ""⟩,
  ⟨"funsor/instrument.py", "print_counters", "counter", .profiling, ""⟩,
  ⟨"funsor/interpretations.py", "DispatchedInterpretation.__init__.<locals>.profiled_dispatch", "COUNTERS['time']", .profiling, ""⟩,
  ⟨"funsor/interpretations.py", "DispatchedInterpretation.__init__.<locals>.profiled_dispatch", "COUNTERS['call']", .profiling, ""⟩,
  ⟨"funsor/interpretations.py", "DispatchedInterpretation.__init__.<locals>.profiled_dispatch", "COUNTERS['interpretation']", .profiling, ""⟩,
  ⟨"funsor/interpretations.py", "StatefulInterpretationMeta.__init__.<locals>.profiled_dispatch", "COUNTERS['time']", .profiling, ""⟩,
  ⟨"funsor/interpretations.py", "StatefulInterpretationMeta.__init__.<locals>.profiled_dispatch", "COUNTERS['call']", .profiling, ""⟩,
  ⟨"funsor/interpretations.py", "StatefulInterpretationMeta.__init__.<locals>.profiled_dispatch", "COUNTERS['interpretation']", .profiling, ""⟩,
  ⟨"funsor/interpreter.py", "interpret", "instrument.STACK_SIZE", .profiling, ""⟩,
  ⟨"funsor/terms.py", "SubstituteInterpretation.interpret", "instrument.COUNTERS['interpretation']", .profiling, ""⟩,
  ⟨"funsor/terms.py", "reflect", "instrument.COUNTERS['ast_size']", .profiling, ""⟩,
  ⟨"funsor/terms.py", "reflect", "instrument.COUNTERS['ast_depth']", .profiling, ""⟩,
  ⟨"funsor/terms.py", "reflect", "instrument.COUNTERS['funsor']", .profiling, ""⟩,
  ⟨"funsor/terms.py", "reflect", "instrument.COUNTERS[classname]", .profiling, ""⟩,
  -- interpreter state
  ⟨"funsor/interpreter.py", "push_interpretation", "_STACK", .interpState, ""⟩,
  ⟨"funsor/interpreter.py", "pop_interpretation", "_STACK", .interpState, ""⟩,
  ⟨"funsor/interpreter.py", "gensym", "_GENSYM_COUNTER", .interpState, ""⟩,
  -- class-level registries and caches
  ⟨"funsor/terms.py", "reflect", "cls._cons_cache", .classRegistry, ""⟩,
  ⟨"funsor/terms.py", "FunsorMeta.__init__", "cls._ast_fields", .classRegistry, ""⟩,
  ⟨"funsor/terms.py", "FunsorMeta.__init__", "cls._cons_cache", .classRegistry, ""⟩,
  ⟨"funsor/domains.py", "ArrayType.__getitem__", "ArrayType._type_cache", .classRegistry, ""⟩,
  ⟨"funsor/domains.py", "ProductDomain.__getitem__", "ProductDomain._type_cache", .classRegistry, ""⟩,
  ⟨"funsor/typing.py", "register_subclasscheck.<locals>._fn", "_subclasscheck_registry", .classRegistry, ""⟩,
  ⟨"funsor/typing.py", "GenericTypeMeta.__init__", "cls.__args__", .classRegistry, ""⟩,
  ⟨"funsor/typing.py", "GenericTypeMeta.__init__", "cls.__origin__", .classRegistry, ""⟩,
  ⟨"funsor/typing.py", "GenericTypeMeta.__init__", "cls._type_cache", .classRegistry, ""⟩,
  ⟨"funsor/typing.py", "GenericTypeMeta.__getitem__", "cls._type_cache", .classRegistry, ""⟩,
  ⟨"funsor/ops/op.py", "OpMeta.__init__", "cls._instance_cache", .classRegistry, ""⟩,
  ⟨"funsor/ops/op.py", "OpMeta.__init__", "cls._subclass_registry", .classRegistry, ""⟩,
  ⟨"funsor/ops/op.py", "OpMeta.__init__", "cls.dispatcher", .classRegistry, ""⟩,
  ⟨"funsor/ops/op.py", "OpMeta.__call__", "cls._instance_cache", .classRegistry, ""⟩,
  ⟨"funsor/ops/op.py", "Op.subclass_register.<locals>.decorator", "dispatcher", .classRegistry, ""⟩,
  ⟨"funsor/ops/op.py", "Op.subclass_register.<locals>.decorator", "cls._subclass_registry", .classRegistry, ""⟩,
  ⟨"funsor/ops/op.py", "Op.make", "op_class.__module__", .classRegistry, ""⟩,
  ⟨"funsor/ops/op.py", "declare_op_types", "typ.__module__", .classRegistry, ""⟩,
  ⟨"funsor/ops/op.py", "declare_op_types", "all_", .classRegistry, ""⟩,
  ⟨"funsor/ops/op.py", "declare_op_types", "locals_", .classRegistry, ""⟩,
  ⟨"funsor/distribution.py", "CoerceDistributionToFunsor.__call__", "cls._funsor_ast_fields", .classRegistry, ""⟩,
  ⟨"funsor/distribution.py", "CoerceDistributionToFunsor.__call__", "cls._funsor_cls", .classRegistry, ""⟩,
  ⟨"funsor/factory.py", "_erase_types", "result.__name__", .classRegistry, ""⟩,
  ⟨"funsor/factory.py", "_erase_types", "result.__module__", .classRegistry, ""⟩,
  ⟨"funsor/factory.py", "make_funsor", "ResultMeta.__name__", .classRegistry, ""⟩,
  ⟨"funsor/factory.py", "make_funsor.<locals>.__init__", "self", .classRegistry, ""⟩,
  ⟨"funsor/tensor.py", "_nested_function", "fn_i.__name__", .classRegistry, ""⟩,
  ⟨"funsor/util.py", "methodof.<locals>.decorator", "cls", .classRegistry, ""⟩,
  ⟨"funsor/util.py", "register_pprint", "pprint.PrettyPrinter._dispatch", .classRegistry, ""⟩,
  ⟨"funsor/util.py", "pretty", "quote.printoptions", .classRegistry, ""⟩,
  ⟨"funsor/util.py", "_pprint_funsor", "quote.printoptions", .classRegistry, ""⟩,
  ⟨"funsor/util.py", "_quote_register_repr", "quote.reprtypes", .classRegistry, ""⟩,
  ⟨"funsor/gaussian.py", "Gaussian.set_compression_threshold", "cls.compression_threshold", .classRegistry, ""⟩,
  -- lazily cached attributes on terms
  ⟨"funsor/terms.py", "reflect", "result._ast_values", .lazyAttr, ""⟩,
  ⟨"funsor/terms.py", "_", "x._ast_stats", .lazyAttr, ""⟩,
  ⟨"funsor/affine.py", "affine_inputs", "fn._affine_inputs", .lazyAttr, ""⟩,
  ⟨"funsor/util.py", "lazy_property.__get__", "obj", .lazyAttr, ""⟩,
  ⟨"funsor/testing.py", "make_einsum_example", "operand._pyro_dims", .lazyAttr, ""⟩,
  -- `x += …` on immutable values (Funsor, frozenset, tuple, int)
  ⟨"funsor/approximations.py", "argmax_approximate_logaddexp", "result", .rebindImmutable, ""⟩,
  ⟨"funsor/cnf.py", "eager_contraction_generic_recursive", "reduced_vars", .rebindImmutable, ""⟩,
  ⟨"funsor/delta.py", "solve_unary", "log_density", .rebindImmutable, ""⟩,
  ⟨"funsor/delta.py", "Delta.eager_reduce", "scale", .rebindImmutable, ""⟩,
  ⟨"funsor/distribution.py", "expandeddist_to_funsor", "funsor_base_dist", .rebindImmutable, "T:not isinstance(funsor_base_dist, Distribution)"⟩,
  ⟨"funsor/gaussian.py", "GaussianMeta.__call__", "result", .rebindImmutable, ""⟩,
  ⟨"funsor/gaussian.py", "Gaussian._eager_subs_affine", "remaining_subs", .rebindImmutable, "F:isinstance(const, Tensor) and all((isinstance(coeff, Tensor) for coeff, _ in coeffs.values()))"⟩,
  ⟨"funsor/gaussian.py", "Gaussian._marginalize_after_split", "result", .rebindImmutable, ""⟩,
  ⟨"funsor/joint.py", "moment_matching_contract_joint", "discrete", .rebindImmutable, ""⟩,
  ⟨"funsor/joint.py", "moment_matching_contract_joint", "new_discrete", .rebindImmutable, ""⟩,
  ⟨"funsor/sum_product.py", "_unroll_plate", "sum_vars", .rebindImmutable, ""⟩,
  ⟨"funsor/sum_product.py", "partial_sum_product", "plates", .rebindImmutable, ""⟩,
  ⟨"funsor/sum_product.py", "naive_sarkka_bilmes_product", "global_vars", .rebindImmutable, ""⟩,
  ⟨"funsor/sum_product.py", "sarkka_bilmes_product", "global_vars", .rebindImmutable, ""⟩,
  ⟨"funsor/terms.py", "Funsor.reduce", "reduced_vars", .rebindImmutable, "T:isinstance(op, ops.ReductionOp) && T:isinstance(op, ops.MeanOp)"⟩,
  ⟨"funsor/terms.py", "Funsor.approximate", "approx_vars", .rebindImmutable, ""⟩,
  ⟨"funsor/terms.py", "Stack.eager_reduce", "reduced_vars", .rebindImmutable, ""⟩,
  ⟨"funsor/terms.py", "Cat.eager_subs", "n", .rebindImmutable, "F:isinstance(value, Variable) && T:isinstance(value, Number)"⟩,
  -- elements of containers built locally / handed down by the single caller
  ⟨"funsor/distribution.py", "Distribution.eager_log_prob", "dim_to_name", .localBuilder, ""⟩,
  ⟨"funsor/distribution.py", "Distribution._sample", "dim_to_name", .localBuilder, ""⟩,
  ⟨"funsor/distribution.py", "Distribution.enumerate_support", "dim_to_name", .localBuilder, ""⟩,
  ⟨"funsor/gaussian.py", "BlockMatrix.__setitem__", "self.parts[i]", .localBuilder, ""⟩,
  ⟨"funsor/gaussian.py", "BlockMatrix.as_tensor", "self.parts[i]", .localBuilder, ""⟩,
  ⟨"funsor/gaussian.py", "Gaussian._eager_subs_affine", "coeffs", .localBuilder, ""⟩,
  ⟨"funsor/ops/op.py", "Op.__call__", "bound.arguments", .localBuilder, ""⟩,
  ⟨"funsor/ops/op.py", "Op.__call__", "trace", .localBuilder, ""⟩,
  ⟨"funsor/sum_product.py", "_partition", "neighbors[term]", .localBuilder, ""⟩,
  ⟨"funsor/sum_product.py", "_partition", "neighbors.setdefault(dim, [])", .localBuilder, ""⟩,
  ⟨"funsor/sum_product.py", "_partition", "pending", .localBuilder, ""⟩,
  ⟨"funsor/sum_product.py", "_unroll_plate", "var_to_ordinal", .localBuilder, ""⟩,
  -- interpretation state objects
  ⟨"funsor/montecarlo.py", "monte_carlo_integrate", "state.rng_key", .engineState, ""⟩,
  ⟨"funsor/montecarlo.py", "monte_carlo_approximate", "state.rng_key", .engineState, ""⟩,
  ⟨"funsor/precondition.py", "precondition_approximate_gaussian", "state.sample_inputs", .engineState, ""⟩,
  ⟨"funsor/precondition.py", "precondition_approximate_gaussian", "state.sample_vars", .engineState, ""⟩
]

/-- Classes whose instances are engine state / builders, not terms: a depth-1 store into
    `self.<attr>` in their methods is the object's own bookkeeping (provenance `ownState`). -/
def stateClasses : List (String × String) := [
  ("funsor/adam.py", "Adam"),                                   -- optimiser: parameter store
  ("funsor/adjoint.py", "AdjointTape"),                         -- interpretation: tape of (output, fn, args)
  ("funsor/gaussian.py", "BlockVector"),                        -- builder of a *new* array (parts dict)
  ("funsor/gaussian.py", "BlockMatrix"),
  ("funsor/interpretations.py", "CallableInterpretation"),      -- set_callable at import time
  ("funsor/interpretations.py", "StatefulInterpretationMeta"),  -- per-class registry/dispatch
  ("funsor/interpretations.py", "Memoize"),                     -- memo cache of the interpretation
  ("funsor/ops/op.py", "Op"),                                   -- op instance defaults
  ("funsor/ops/op.py", "TransformOp"),                          -- inverse / log-det registration
  ("funsor/registry.py", "PartialDispatcher"),                  -- dispatch cache
  ("funsor/tensor.py", "_Memoized")                             -- compiled-function cache
]

def siteOk (w : WriteSite) : Bool :=
  match w.prov with
  | .freshLocal | .immutable | .initSelf | .importTime => true
  | .ownState => stateClasses.any (fun c => c.1 == w.file && c.2 == w.cls)
  | .notFresh => reviewedSites.any (fun r =>
      r.file == w.file && r.func == w.func && r.target == w.target && r.why.allows w.kind
      && (r.why != .rebindImmutable || r.guard == w.guard))

/-- Sites of the generated table not covered by any justification (empty on a conforming tree). -/
def offending : List WriteSite := writeSites.filter (fun w => !siteOk w)

end FV.C20
