/-
  Model/Term.lean — the shared term language and its denotation ("textbook meaning").

  One constructor per funsor term class in scope (funsor/terms.py, funsor/tensor.py, funsor/cnf.py,
  funsor/delta.py).  `denote : Term → Env → Option Sem` is the specification every exact
  interpretation is compared against (C01–C05, C08): binders are interpreted by environment update,
  substitution evaluates its values in the caller's environment, simultaneously.  `none` means
  "ill-typed / outside the modelled fragment", never a silent default.

  Core-only (the drivers link natively).
-/
import FunsorVerif.Core.Sexp
import FunsorVerif.Core.XR
namespace FV

abbrev Name := String

inductive DType where
  | real
  | bint (n : Nat)
  deriving Repr, DecidableEq, Inhabited

structure Dom where
  dtype : DType
  shape : List Nat
  deriving Repr, DecidableEq, Inhabited

/-- A semantic value: an array of extended rationals with an event shape (scalars: shape = []). -/
structure Sem where
  shape : List Nat
  get : List Nat → XR

abbrev Env := List (Name × Sem)

namespace Sem
def scalar (x : XR) : Sem := ⟨[], fun _ => x⟩
def ofNat (n : Nat) : Sem := scalar (XR.fin (n : Rat))
/-- The natural number denoted by a scalar integer value. -/
def toNat? (s : Sem) : Option Nat :=
  match s.shape, s.get [] with
  | [], XR.fin q => if q.den = 1 ∧ 0 ≤ q.num then some q.num.toNat else none
  | _, _ => none
end Sem

def Env.lookup (env : Env) (n : Name) : Option Sem :=
  match env with
  | [] => none
  | (k, v) :: rest => if k == n then some v else Env.lookup rest n

/-! ### Index arithmetic -/

def prodList (l : List Nat) : Nat := l.foldl (· * ·) 1

/-- Row-major flat offset of `idx` in an array of shape `shape` (none if out of range / rank mismatch). -/
def ravel : List Nat → List Nat → Option Nat
  | [], [] => some 0
  | s :: ss, i :: is =>
    if i < s then (ravel ss is).map (fun r => i * prodList ss + r) else none
  | _, _ => none

/-- All indices of an array of shape `shape`, in row-major order. -/
def allIdx : List Nat → List (List Nat)
  | [] => [[]]
  | s :: ss => (List.range s).flatMap fun i => (allIdx ss).map (i :: ·)

/-- numpy broadcasting of two shapes (aligned at the right). -/
def broadcastShapes (a b : List Nat) : Option (List Nat) :=
  let rec go : List Nat → List Nat → Option (List Nat)
    | [], ys => some ys
    | xs, [] => some xs
    | x :: xs, y :: ys =>
      match go xs ys with
      | none => none
      | some r =>
        if x = y then some (x :: r) else if x = 1 then some (y :: r) else if y = 1 then some (x :: r)
        else none
  (go a.reverse b.reverse).map List.reverse

/-- Index into an operand of shape `s` from an index of the broadcast shape. -/
def bcastIdx (s : List Nat) (idx : List Nat) : List Nat :=
  let idx' := idx.drop (idx.length - s.length)
  List.zipWith (fun d i => if d = 1 then 0 else i) s idx'

/-! ### Ops -/

structure Op where
  name : String
  params : Sexp := Sexp.list []
  deriving Repr, Inhabited, BEq

def boolXR (b : Bool) : XR := if b then XR.fin 1 else XR.fin 0

def XR.truthy : XR → Bool
  | XR.fin q => q ≠ 0
  | XR.nan => true
  | _ => true

def ratFloorDiv (a b : Rat) : Option Rat := if b = 0 then none else some ((a / b).floor : Rat)
def ratMod (a b : Rat) : Option Rat := if b = 0 then none else some (a - b * ((a / b).floor : Rat))

/-- The integer denoted by an integer-valued `XR` (python int / numpy int or bool entry). -/
def xrInt? : XR → Option Int
  | XR.fin q => if q.den = 1 then some q.num else none
  | _ => none

/-- Bitwise ops on two's complement integers (python `int.__and__` …), from the `Nat` ops of core:
    a negative `x` is `Int.not n` with `n = -x-1 ≥ 0`. -/
def natAndNot (a b : Nat) : Nat := a ^^^ (a &&& b)
def intLand (x y : Int) : Int :=
  match decide (0 ≤ x), decide (0 ≤ y) with
  | true, true => ((x.toNat &&& y.toNat : Nat) : Int)
  | true, false => ((natAndNot x.toNat (Int.not y).toNat : Nat) : Int)
  | false, true => ((natAndNot y.toNat (Int.not x).toNat : Nat) : Int)
  | false, false => Int.not (((Int.not x).toNat ||| (Int.not y).toNat : Nat) : Int)
def intLor (x y : Int) : Int :=
  match decide (0 ≤ x), decide (0 ≤ y) with
  | true, true => ((x.toNat ||| y.toNat : Nat) : Int)
  | true, false => Int.not ((natAndNot (Int.not y).toNat x.toNat : Nat) : Int)
  | false, true => Int.not ((natAndNot (Int.not x).toNat y.toNat : Nat) : Int)
  | false, false => Int.not (((Int.not x).toNat &&& (Int.not y).toNat : Nat) : Int)
def intXor (x y : Int) : Int :=
  match decide (0 ≤ x), decide (0 ≤ y) with
  | true, true => ((x.toNat ^^^ y.toNat : Nat) : Int)
  | true, false => Int.not ((x.toNat ^^^ (Int.not y).toNat : Nat) : Int)
  | false, true => Int.not (((Int.not x).toNat ^^^ y.toNat : Nat) : Int)
  | false, false => (((Int.not x).toNat ^^^ (Int.not y).toNat : Nat) : Int)

/-- `operator.and_/or_/xor` as funsor's ops use them: BITWISE on (two's complement) integers — which on
    boolean data {0,1} coincides with the logical connective — and a TypeError on floats. -/
def bitop (f : Int → Int → Int) (a b : XR) : Option XR :=
  match xrInt? a, xrInt? b with
  | some x, some y => some (XR.fin ((f x y : Int) : Rat))
  | _, _ => none

/-- Pointwise binary ops with numpy conventions on the exact fragment (no transcendental ops). -/
def binop (name : String) (a b : XR) : Option XR :=
  match name with
  | "add" => some (XR.add a b)
  | "sub" => some (XR.sub a b)
  | "mul" => some (XR.mul a b)
  | "max" => some (XR.max a b)
  | "min" => some (XR.min a b)
  | "and" => bitop intLand a b
  | "or" => bitop intLor a b
  | "xor" => bitop intXor a b
  -- logical connectives by truthiness: what `np.all` / `np.any` fold with (used for the `all` / `any` reductions)
  | "land" => some (boolXR (a.truthy && b.truthy))
  | "lor" => some (boolXR (a.truthy || b.truthy))
  | "eq" => some (boolXR (decide (a = b) && !a.isNan))
  | "ne" => some (boolXR (!(decide (a = b) && !a.isNan)))
  | "lt" => some (boolXR (XR.lt a b))
  | "le" => some (boolXR (XR.le a b))
  | "gt" => some (boolXR (XR.lt b a))
  | "ge" => some (boolXR (XR.le b a))
  | "truediv" =>
    match a, b with
    | XR.fin x, XR.fin y => if y = 0 then none else some (XR.fin (x / y))
    | _, _ => none
  | "floordiv" =>
    match a, b with
    | XR.fin x, XR.fin y => (ratFloorDiv x y).map XR.fin
    | _, _ => none
  | "mod" =>
    match a, b with
    | XR.fin x, XR.fin y => (ratMod x y).map XR.fin
    | _, _ => none
  | "pow" =>
    match a, b with
    | XR.fin x, XR.fin y =>
      if y.den = 1 ∧ 0 ≤ y.num then some (XR.fin (x ^ y.num.toNat)) else none
    | _, _ => none
  | _ => none

def unop (name : String) (a : XR) : Option XR :=
  match name with
  | "neg" => some (XR.neg a)
  | "pos" => some a
  | "abs" => some (if XR.lt a 0 then XR.neg a else a)
  -- `operator.invert`: logical not on numpy-bool entries, `-x-1` on integers.  A 0/1 value does not tell
  -- which it is: the logical reading is taken for {0,1} (numpy-bool arrays, what comparisons produce);
  -- int-typed 0/1 data and python-int `Number` booleans (`~Number(False, 2) = Number(-1, 2)`) are outside
  -- the exact fragment and must not be generated.
  | "invert" =>
    match xrInt? a with
    | some x => if x = 0 ∨ x = 1 then some (XR.fin ((1 - x : Int) : Rat)) else some (XR.fin ((-x - 1 : Int) : Rat))
    | none => none
  | "not" => some (boolXR (!a.truthy))
  | "reciprocal" =>
    match a with
    | XR.fin x => if x = 0 then none else some (XR.fin (1 / x))
    | _ => none
  | _ => none

/-- Units used when folding an associative op over an empty set of assignments. -/
def unitOf (name : String) : Option XR :=
  match name with
  | "add" => some 0
  | "mul" => some 1
  | "max" => some XR.ninf
  | "min" => some XR.pinf
  | "and" => some 1
  | "or" => some 0
  | "xor" => some 0
  | "land" => some 1
  | "lor" => some 0
  | _ => none

/-- Fold an associative op over a non-empty list of values (first element is the seed). -/
def foldOp (name : String) : List XR → Option XR
  | [] => unitOf name
  | x :: xs => xs.foldlM (fun acc y => binop name acc y) x

/-! ### Terms -/

inductive Term where
  | var (name : Name) (dom : Dom)
  | num (v : XR) (dtype : DType)
  /-- `data` is row-major over the input sizes followed by the event shape `dom.shape`. -/
  | tensor (inputs : List (Name × Nat)) (dom : Dom) (data : Array XR)
  | unary (op : Op) (arg : Term)
  | binary (op : Op) (lhs rhs : Term)
  | reduce (op : String) (arg : Term) (vars : List (Name × Dom))
  | subs (arg : Term) (σ : List (Name × Term))
  | slice (name : Name) (start stop step dtype : Nat)
  | stack (name : Name) (parts : List Term)
  /-- `sizes`: the size of `partName` in each part. -/
  | cat (name partName : Name) (sizes : List Nat) (parts : List Term)
  | lambda (name : Name) (size : Nat) (body : Term)
  /-- `size`: the size of `bintVar` in `fn`. -/
  | independent (fn : Term) (realsVar bintVar diagVar : Name) (size : Nat)
  | align (arg : Term) (names : List Name)
  | contraction (redOp binOp : String) (vars : List (Name × Dom)) (terms : List Term)
  | finitary (op : Op) (args : List Term)
  /-- Delta: (name, point, log_density) triples. -/
  | delta (terms : List (Name × Term × Term))
  deriving Inhabited

/-! ### Pointwise evaluation helpers on `Sem` -/

def Sem.table (s : Sem) : List XR := (allIdx s.shape).map s.get

def Sem.map? (f : XR → Option XR) (s : Sem) : Option Sem :=
  -- evaluate eagerly once so that an undefined point makes the whole value undefined
  match (allIdx s.shape).mapM (fun i => f (s.get i)) with
  | none => none
  | some _ => some ⟨s.shape, fun i => (f (s.get i)).getD XR.nan⟩

def Sem.zip? (f : XR → XR → Option XR) (a b : Sem) : Option Sem :=
  match broadcastShapes a.shape b.shape with
  | none => none
  | some sh =>
    match (allIdx sh).mapM (fun i => f (a.get (bcastIdx a.shape i)) (b.get (bcastIdx b.shape i))) with
    | none => none
    | some _ => some ⟨sh, fun i => (f (a.get (bcastIdx a.shape i)) (b.get (bcastIdx b.shape i))).getD XR.nan⟩

/-- Pointwise fold of an associative op over a list of equally shaped values. -/
def Sem.foldList (op : String) (shape : List Nat) (vals : List Sem) : Option Sem :=
  match (allIdx shape).mapM (fun i => foldOp op (vals.map (·.get i))) with
  | none => none
  | some _ => some ⟨shape, fun i => (foldOp op (vals.map (·.get i))).getD XR.nan⟩

/-- Normalise a possibly negative axis. -/
def normAxis (rank : Nat) (a : Int) : Option Nat :=
  if 0 ≤ a ∧ a < rank then some a.toNat
  else if a < 0 ∧ -a ≤ rank then some (rank - (-a).toNat) else none

/-- Reduction of event dimensions (numpy `op(x, axis, keepdims)`). `axes = none` means all. -/
def Sem.reduceAxes (op : String) (s : Sem) (axes : Option (List Int)) (keepdims : Bool) : Option Sem :=
  let rank := s.shape.length
  let axs? : Option (List Nat) := match axes with
    | none => some (List.range rank)
    | some l => l.mapM (normAxis rank)
  match axs? with
  | none => none
  | some axs =>
    let keepMask := (List.range rank).map (fun d => !axs.contains d)
    let outShape := (s.shape.zip keepMask).filterMap (fun (d, k) => if k then some d else if keepdims then some 1 else none)
    let redShape := (s.shape.zip keepMask).filterMap (fun (d, k) => if k then none else some d)
    -- rebuild a full index from an output index and a reduced index
    let build (oi ri : List Nat) : List Nat :=
      let oi' := if keepdims then (oi.zip keepMask).filterMap (fun (i, k) => if k then some i else none) else oi
      let rec go : List Bool → List Nat → List Nat → List Nat
        | [], _, _ => []
        | true :: ms, o :: os, rs => o :: go ms os rs
        | false :: ms, os, r :: rs => r :: go ms os rs
        | _ :: _, _, _ => []
      go keepMask oi' ri
    let f (oi : List Nat) : Option XR := foldOp op ((allIdx redShape).map (fun ri => s.get (build oi ri)))
    match (allIdx outShape).mapM f with
    | none => none
    | some _ => some ⟨outShape, fun oi => (f oi).getD XR.nan⟩

def Sem.reshape (s : Sem) (newShape : List Nat) : Option Sem :=
  if prodList newShape ≠ prodList s.shape then none
  else
    let tab := (s.table).toArray
    some ⟨newShape, fun i => match ravel newShape i with
      | some k => tab.getD k XR.nan
      | none => XR.nan⟩

/-- `x[i]` at event dimension `offset`. -/
def Sem.getitem (s : Sem) (offset : Nat) (i : Nat) : Option Sem :=
  match s.shape[offset]? with
  | none => none
  | some d =>
    if i < d then
      some ⟨s.shape.take offset ++ s.shape.drop (offset + 1),
            fun idx => s.get (idx.take offset ++ [i] ++ idx.drop offset)⟩
    else none

/-- One component of a basic index: an integer or a slice (start stop step already normalised). -/
inductive IdxItem where
  | int (i : Nat)
  | slice (start stop step : Nat)
  deriving Repr

def sliceLen (start stop step : Nat) : Nat := if step = 0 then 0 else (stop + step - 1 - start) / step

/-- Basic indexing `x[items…]` on leading event dims (missing trailing items = full slices). -/
def Sem.getslice (s : Sem) (items : List IdxItem) : Option Sem :=
  if items.length > s.shape.length then none else
  let full := items ++ (s.shape.drop items.length).map (fun d => IdxItem.slice 0 d 1)
  let ok := (full.zip s.shape).all fun (it, d) => match it with
    | IdxItem.int i => i < d
    | IdxItem.slice a b st => a ≤ b ∧ b ≤ d ∧ st > 0
  if !ok then none else
  let outShape := full.filterMap fun it => match it with
    | IdxItem.int _ => none
    | IdxItem.slice a b st => some (sliceLen a b st)
  let rec build : List IdxItem → List Nat → List Nat
    | [], _ => []
    | IdxItem.int i :: rest, oi => i :: build rest oi
    | IdxItem.slice a _ st :: rest, o :: os => (a + st * o) :: build rest os
    | IdxItem.slice _ _ _ :: _, [] => []
  some ⟨outShape, fun oi => s.get (build full oi)⟩

/-- Matrix product on the last two event dims (vector operands promoted as numpy does);
    batch dims must be equal (no batch broadcasting modelled). -/
def Sem.matmul (a b : Sem) : Option Sem :=
  match a.shape.reverse, b.shape.reverse with
  | [k], [k'] =>
    if k = k' then
      (foldOp "add" ((List.range k).filterMap fun j => binop "mul" (a.get [j]) (b.get [j]))).map Sem.scalar
    else none
  | k :: m :: [], [k'] =>
    if k = k' then some ⟨[m], fun idx => match idx with
      | [i] => ((foldOp "add" ((List.range k).filterMap fun j => binop "mul" (a.get [i, j]) (b.get [j]))).getD XR.nan)
      | _ => XR.nan⟩ else none
  | [k], n :: k' :: [] =>
    if k = k' then some ⟨[n], fun idx => match idx with
      | [c] => ((foldOp "add" ((List.range k).filterMap fun j => binop "mul" (a.get [j]) (b.get [j, c]))).getD XR.nan)
      | _ => XR.nan⟩ else none
  | k :: m :: [], n :: k' :: [] =>
    if k = k' then some ⟨[m, n], fun idx => match idx with
      | [i, c] => ((foldOp "add" ((List.range k).filterMap fun j => binop "mul" (a.get [i, j]) (b.get [j, c]))).getD XR.nan)
      | _ => XR.nan⟩ else none
  | _, _ => none

/-! ### Parameters carried by ops (decoded from the wire S-expression) -/

def sexpInts? (s : Sexp) : Option (List Int) := s.asInts?

def paramOf (params : Sexp) (key : String) : Option Sexp :=
  match params with
  | Sexp.list items =>
    items.findSome? fun it => match it with
      | Sexp.list [Sexp.atom k, v] => if k == key then some v else none
      | _ => none
  | _ => none

def parseIdxItems (s : Sexp) : Option (List IdxItem) := do
  let items ← s.asList?
  items.mapM fun it => match it with
    | Sexp.list [Sexp.atom "int", i] => (i.asNat?).map IdxItem.int
    | Sexp.list [Sexp.atom "slice", a, b, c] => do
        let a ← a.asNat?; let b ← b.asNat?; let c ← c.asNat?
        pure (IdxItem.slice a b c)
    | _ => none

def reductionOps : List (String × String) :=
  [("sum", "add"), ("prod", "mul"), ("amax", "max"), ("amin", "min"), ("all", "land"), ("any", "lor")]

def evalUnary (op : Op) (s : Sem) : Option Sem :=
  match reductionOps.lookup op.name with
  | some base =>
    let axes : Option (List Int) := match paramOf op.params "axis" with
      | some (Sexp.atom "none") => none
      | some (Sexp.atom a) => a.toInt?.map (fun i => [i])
      | some l => sexpInts? l
      | none => none
    let keep := match paramOf op.params "keepdims" with
      | some b => (b.asBool?).getD false
      | none => false
    -- distinguish "axis=None" from a malformed axis
    match paramOf op.params "axis" with
    | some (Sexp.atom "none") => s.reduceAxes base none keep
    | none => s.reduceAxes base none keep
    | some _ => match axes with
      | some ax => s.reduceAxes base (some ax) keep
      | none => none
  | none =>
    match op.name with
    | "reshape" => (paramOf op.params "shape").bind Sexp.asNats? |>.bind s.reshape
    | "getslice" => (paramOf op.params "index").bind parseIdxItems |>.bind s.getslice
    | n => s.map? (unop n)

def evalBinary (op : Op) (a b : Sem) : Option Sem :=
  match op.name with
  | "getitem" =>
    let offset := ((paramOf op.params "offset").bind Sexp.asNat?).getD 0
    b.toNat?.bind (a.getitem offset)
  | "matmul" => a.matmul b
  | n => Sem.zip? (binop n) a b

/-! ### Denotation -/

/-- All assignments of bounded-integer variables, as environments (row-major in `vars` order). -/
def assignments : List (Name × Dom) → Option (List Env)
  | [] => some [[]]
  | (n, d) :: rest =>
    match d.dtype, d.shape, assignments rest with
    | DType.bint k, [], some tails =>
      some ((List.range k).flatMap fun i => tails.map fun t => (n, Sem.ofNat i) :: t)
    | _, _, _ => none

/-- Locate global position `g` inside consecutive parts of the given sizes: (part index, local index). -/
def locate : List Nat → Nat → Nat → Option (Nat × Nat)
  | [], _, _ => none
  | s :: ss, g, k => if g < s then some (k, g) else locate ss (g - s) (k + 1)

def semEq (a b : Sem) : Bool :=
  a.shape == b.shape && (allIdx a.shape).all (fun i => decide (a.get i = b.get i))

mutual
  def denote : Term → Env → Option Sem
    | Term.var n _, env => env.lookup n
    | Term.num v _, _ => some (Sem.scalar v)
    | Term.tensor inputs dom data, env =>
      match inputs.mapM (fun (n, _) => (env.lookup n).bind Sem.toNat?) with
      | none => none
      | some pre =>
        let sizes := inputs.map (·.2)
        if (pre.zip sizes).all (fun (i, s) => i < s) then
          some ⟨dom.shape, fun ev => match ravel (sizes ++ dom.shape) (pre ++ ev) with
            | some k => data.getD k XR.nan
            | none => XR.nan⟩
        else none
    | Term.unary op arg, env => (denote arg env).bind (evalUnary op)
    | Term.binary op l r, env =>
      match denote l env, denote r env with
      | some a, some b => evalBinary op a b
      | _, _ => none
    | Term.reduce op arg vars, env =>
      match assignments vars with
      | none => none
      | some asgs =>
        match denoteAll arg (asgs.map (· ++ env)) with
        | none => none
        | some [] => none
        | some (v :: vs) => Sem.foldList op v.shape (v :: vs)
    | Term.subs arg σ, env =>
      match denoteSubs σ env with
      | none => none
      | some bound => denote arg (bound ++ env)
    | Term.slice n start _ step _, env =>
      ((env.lookup n).bind Sem.toNat?).map fun i => Sem.ofNat (start + step * i)
    | Term.stack n parts, env =>
      match (env.lookup n).bind Sem.toNat? with
      | none => none
      | some i => denoteNth parts i env
    | Term.cat n pn sizes parts, env =>
      match (env.lookup n).bind Sem.toNat? with
      | none => none
      | some g =>
        match locate sizes g 0 with
        | none => none
        | some (k, loc) => denoteNth parts k ((pn, Sem.ofNat loc) :: env)
    | Term.lambda n size body, env =>
      match denoteAll body ((List.range size).map fun i => (n, Sem.ofNat i) :: env) with
      | none => none
      | some [] => none
      | some (v :: vs) =>
        let vals := (v :: vs).toArray
        some ⟨size :: v.shape, fun idx => match idx with
          | i :: rest => match vals[i]? with
            | some s => s.get rest
            | none => XR.nan
          | [] => XR.nan⟩
    | Term.independent fn rv bv dv size, env =>
      match env.lookup rv with
      | none => none
      | some x =>
        match denoteAll fn ((List.range size).map fun i =>
            (dv, ⟨x.shape.drop 1, fun idx => x.get (i :: idx)⟩) :: (bv, Sem.ofNat i) :: env) with
        | none => none
        | some [] => none
        | some (v :: vs) => Sem.foldList "add" v.shape (v :: vs)
    | Term.align arg _, env => denote arg env
    | Term.contraction redOp binOp vars terms, env =>
      match assignments vars with
      | none => none
      | some asgs =>
        match asgs.mapM (fun a => denoteProd binOp terms (a ++ env)) with
        | none => none
        | some [] => none
        | some (v :: vs) =>
          if redOp == "null" then (if vs.isEmpty then some v else none)
          else Sem.foldList redOp v.shape (v :: vs)
    | Term.finitary _ _, _ => none
    | Term.delta terms, env => denoteDelta terms env

  /-- Denote `t` under each environment of a list. -/
  def denoteAll : Term → List Env → Option (List Sem)
    | _, [] => some []
    | t, e :: es =>
      match denote t e, denoteAll t es with
      | some v, some vs => some (v :: vs)
      | _, _ => none

  def denoteNth : List Term → Nat → Env → Option Sem
    | [], _, _ => none
    | t :: _, 0, env => denote t env
    | _ :: ts, i + 1, env => denoteNth ts i env

  def denoteSubs : List (Name × Term) → Env → Option Env
    | [], _ => some []
    | (n, t) :: rest, env =>
      match denote t env, denoteSubs rest env with
      | some v, some vs => some ((n, v) :: vs)
      | _, _ => none

  /-- ⨂ of the terms under one environment (left fold with broadcasting, as `reduce(bin_op, terms)`). -/
  def denoteProd : String → List Term → Env → Option Sem
    | _, [], _ => none
    | _, [t], env => denote t env
    | binOp, t :: ts, env =>
      match denote t env, denoteProd binOp ts env with
      | some a, some b => Sem.zip? (binop binOp) a b
      | _, _ => none

  def denoteDelta : List (Name × Term × Term) → Env → Option Sem
    | [], _ => some (Sem.scalar 0)
    | (n, point, logd) :: rest, env =>
      match env.lookup n, denote point env, denote logd env, denoteDelta rest env with
      | some x, some p, some d, some r =>
        let here : Sem := if semEq x p then d else Sem.scalar XR.ninf
        Sem.zip? (binop "add") here r
      | _, _, _, _ => none
end

/-! ### Free variables (names a term's value may depend on) -/

mutual
  def Term.fv : Term → List Name
    | Term.var n _ => [n]
    | Term.num _ _ => []
    | Term.tensor inputs _ _ => inputs.map (·.1)
    | Term.unary _ a => a.fv
    | Term.binary _ l r => l.fv ++ r.fv
    | Term.reduce _ a vars => a.fv.filter (fun n => !(vars.map (·.1)).contains n)
    | Term.subs a σ => (a.fv.filter (fun n => !(σ.map (·.1)).contains n)) ++ fvSubs σ
    | Term.slice n _ _ _ _ => [n]
    | Term.stack n parts => n :: fvList parts
    | Term.cat n pn _ parts => n :: (fvList parts).filter (· != pn)
    | Term.lambda n _ b => b.fv.filter (· != n)
    | Term.independent fn rv bv dv _ => rv :: fn.fv.filter (fun n => n != bv && n != dv)
    | Term.align a _ => a.fv
    | Term.contraction _ _ vars ts => (fvList ts).filter (fun n => !(vars.map (·.1)).contains n)
    | Term.finitary _ args => fvList args
    | Term.delta ts => fvDelta ts
  def fvList : List Term → List Name
    | [] => []
    | t :: ts => t.fv ++ fvList ts
  def fvSubs : List (Name × Term) → List Name
    | [] => []
    | (_, t) :: ts => t.fv ++ fvSubs ts
  def fvDelta : List (Name × Term × Term) → List Name
    | [] => []
    | (n, p, d) :: ts => n :: p.fv ++ d.fv ++ fvDelta ts
end

end FV
