/-
  Model/TermParse.lean — wire format (S-expression) ⇄ Term, and helpers for drivers that answer
  with tables of values.  Driver-side only (uses `partial`); no theorem depends on this file.

  term ::= (var "n" DOM) | (num VAL DTYPE) | (tensor (("n" size)*) DOM (VAL*))
         | (unary OP term) | (binary OP term term) | (reduce OPNAME term (("n" DOM)*))
         | (subs term (("n" term)*)) | (slice "n" start stop step dtype)
         | (stack "n" term*) | (cat "n" "pn" (size*) term*) | (lambda "n" size term)
         | (independent term "rv" "bv" "dv" size) | (align term ("n"*))
         | (contraction RED BIN (("n" DOM)*) term*) | (finitary OP term*) | (delta ("n" term term)*)
  DOM  ::= (real d*) | (bint n d*)          DTYPE ::= real | n
  OP   ::= (opname (key val)*)
-/
import FunsorVerif.Model.Term
namespace FV

def parseDType : Sexp → Option DType
  | Sexp.atom "real" => some DType.real
  | Sexp.atom a => a.toNat?.map DType.bint
  | _ => none

def parseDom : Sexp → Option Dom
  | Sexp.list (Sexp.atom "real" :: ds) => (ds.mapM Sexp.asNat?).map (Dom.mk DType.real)
  | Sexp.list (Sexp.atom "bint" :: n :: ds) => do
      let n ← n.asNat?
      let ds ← ds.mapM Sexp.asNat?
      pure ⟨DType.bint n, ds⟩
  | _ => none

def parseOp : Sexp → Option Op
  | Sexp.list (Sexp.atom n :: params) => some ⟨n, Sexp.list params⟩
  | Sexp.atom n => some ⟨n, Sexp.list []⟩
  | _ => none

def parseVars (s : Sexp) : Option (List (Name × Dom)) := do
  let xs ← s.asList?
  xs.mapM fun x => match x with
    | Sexp.list [n, d] => do
        let n ← n.asStr?
        let d ← parseDom d
        pure (n, d)
    | _ => none

partial def parseTerm : Sexp → Option Term
  | Sexp.list [Sexp.atom "var", n, d] => do
      pure (Term.var (← n.asStr?) (← parseDom d))
  | Sexp.list [Sexp.atom "num", v, dt] => do
      pure (Term.num (← XR.ofSexp? v) (← parseDType dt))
  | Sexp.list [Sexp.atom "tensor", ins, d, data] => do
      let ins ← ins.asList?
      let ins ← ins.mapM fun x => match x with
        | Sexp.list [n, s] => do pure ((← n.asStr?), (← s.asNat?))
        | _ => none
      let d ← parseDom d
      let data ← data.asList?
      let data ← data.mapM XR.ofSexp?
      pure (Term.tensor ins d data.toArray)
  | Sexp.list [Sexp.atom "unary", op, a] => do
      pure (Term.unary (← parseOp op) (← parseTerm a))
  | Sexp.list [Sexp.atom "binary", op, a, b] => do
      pure (Term.binary (← parseOp op) (← parseTerm a) (← parseTerm b))
  | Sexp.list [Sexp.atom "reduce", Sexp.atom op, a, vars] => do
      pure (Term.reduce op (← parseTerm a) (← parseVars vars))
  | Sexp.list [Sexp.atom "subs", a, σ] => do
      let a ← parseTerm a
      let σ ← σ.asList?
      let σ ← σ.mapM fun x => match x with
        | Sexp.list [n, t] => do pure ((← n.asStr?), (← parseTerm t))
        | _ => none
      pure (Term.subs a σ)
  | Sexp.list [Sexp.atom "slice", n, a, b, c, d] => do
      pure (Term.slice (← n.asStr?) (← a.asNat?) (← b.asNat?) (← c.asNat?) (← d.asNat?))
  | Sexp.list (Sexp.atom "stack" :: n :: parts) => do
      pure (Term.stack (← n.asStr?) (← parts.mapM parseTerm))
  | Sexp.list (Sexp.atom "cat" :: n :: pn :: sizes :: parts) => do
      pure (Term.cat (← n.asStr?) (← pn.asStr?) (← sizes.asNats?) (← parts.mapM parseTerm))
  | Sexp.list [Sexp.atom "lambda", n, size, b] => do
      pure (Term.lambda (← n.asStr?) (← size.asNat?) (← parseTerm b))
  | Sexp.list [Sexp.atom "independent", f, rv, bv, dv, size] => do
      pure (Term.independent (← parseTerm f) (← rv.asStr?) (← bv.asStr?) (← dv.asStr?) (← size.asNat?))
  | Sexp.list [Sexp.atom "align", a, names] => do
      pure (Term.align (← parseTerm a) (← names.asStrs?))
  | Sexp.list (Sexp.atom "contraction" :: Sexp.atom r :: Sexp.atom b :: vars :: ts) => do
      pure (Term.contraction r b (← parseVars vars) (← ts.mapM parseTerm))
  | Sexp.list (Sexp.atom "finitary" :: op :: args) => do
      pure (Term.finitary (← parseOp op) (← args.mapM parseTerm))
  | Sexp.list (Sexp.atom "delta" :: ts) => do
      let ts ← ts.mapM fun x => match x with
        | Sexp.list [n, p, d] => do pure ((← n.asStr?), (← parseTerm p), (← parseTerm d))
        | _ => none
      pure (Term.delta ts)
  | _ => none

/-- An environment on the wire: (("n" VALUE)*) with VALUE ::= scalar | (arr (d*) (VAL*)). -/
def parseSem : Sexp → Option Sem
  | Sexp.list [Sexp.atom "arr", shape, data] => do
      let shape ← shape.asNats?
      let data ← data.asList?
      let data ← data.mapM XR.ofSexp?
      let arr := data.toArray
      pure ⟨shape, fun i => match ravel shape i with
        | some k => arr.getD k XR.nan
        | none => XR.nan⟩
  | s => (XR.ofSexp? s).map Sem.scalar

def parseEnv (s : Sexp) : Option Env := do
  let xs ← s.asList?
  xs.mapM fun x => match x with
    | Sexp.list [n, v] => do pure ((← n.asStr?), (← parseSem v))
    | _ => none

def semToSexp (s : Sem) : Sexp :=
  Sexp.list [Sexp.atom "arr", Sexp.ofNats s.shape, Sexp.list (s.table.map XR.toSexp)]

/-- The table of a term over the named bounded-integer inputs `ins` (row-major, in that order),
    with the remaining (e.g. real-valued) inputs bound by `env`.  Each entry is a `Sem` or `none`. -/
def denoteTable (t : Term) (ins : List (Name × Nat)) (env : Env) : List (Option Sem) :=
  match assignments (ins.map fun (n, k) => (n, ⟨DType.bint k, []⟩)) with
  | none => []
  | some asgs => asgs.map fun a => denote t (a ++ env)

def tableToSexp (tab : List (Option Sem)) : Sexp :=
  Sexp.list (tab.map fun o => match o with
    | some s => semToSexp s
    | none => Sexp.atom "undef")

/-- Standard request shared by the term-level drivers:
      denote TERM (("n" size)*) ENV   →   ok ((arr shape (vals)) | undef …)                         -/
def handleDenote (args : List Sexp) : Option String :=
  match args with
  | [t, ins, env] => do
      let t ← parseTerm t
      let ins ← ins.asList?
      let ins ← ins.mapM fun x => match x with
        | Sexp.list [n, s] => do pure ((← n.asStr?), (← s.asNat?))
        | _ => none
      let env ← parseEnv env
      pure ("ok " ++ toString (tableToSexp (denoteTable t ins env)))
  | _ => none

end FV
