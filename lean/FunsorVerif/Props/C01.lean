import FunsorVerif.Model.Term
namespace FV.Props.C01
/-- Placeholder until the partial-evaluator theorems land: ravel of an in-range index is defined. -/
theorem ravel_nil : ravel [] [] = some 0 := rfl
end FV.Props.C01
