/-
  Props/C01.lean — eager evaluation returns the mathematical value of the expression.

  Model/C01.lean: positional named tensors `NT` and the operations of funsor/tensor.py + the
  bottom-up partial evaluator `peval`.  The theorems live in Props/C01/*.lean:

    Basic.lean    the gather lemma (names ↔ axes bookkeeping)
    Ops.lean      tensor_sem unary_sem binary_sem reduce_sem subsNum_sem stack_sem lambda_sem getitem_sem …
    Algebra.lean  XR is a commutative monoid under add/mul/max/min (with ±∞, NaN); fold_unrelated
    Reduce.lean   eagerReduce_sem (incl. variables absent from the argument, scale_eq_rep)
    Rows.lean     mapRows_sem reshape_sem getslice_sem reduction_axis_sem (negative axes) cat_sem unaryOp_sem
    Sound.lean    peval_sound
    Subs.lean     subsGen_sem (eager_subs at value level: numbers/variables/slices/index tensors), getitem_semI
    Einsum.lean   einsum_sem (eager_einsum's batch-subscript construction)
    Carriers.lean logaddexp carrier: cmon_lae, rep_lae (x + log m), fold_unrelated_lae; Bool: fold_unrelated_bool (Algebra)
    Phi.lean      uninterpreted scalar functions (exp, log, sigmoid, …): mapData_sem, readAt_mapData, binary_/eagerReduce_/subsNum_/getitem_mapData_sem, atAll_mapData
    Independent.lean  pevalR_sound, independent_sem (diagonal extraction + body + sum)
    Reshape.lean  allIdx_ravel, reshape_self, reshapeS_sem_partial (the arg.shape == shape shortcut)
    Aggregates.lean  reductionWith_sem (any aggregate), reduceAxesWith_scalar, reductionWith_scalar_sem, aggAny_single
    NamedAgg.lean reduceNamedWith_sem, ReplInv, replInv_max/min, mean_unrelated, var_unrelated, reduceNamedWith_absent, sum_not_replInv
    ReshapeFull.lean  reshapeS_sem_full (spec value fixed at EVERY index + equal tables), reshapeS_sem (exact equation on
                  canonical rows), reshape_canon, reshape_self_canon, ofTensor_canon
    FinStack.lean finStack_sem, finStack_get (eager_finitary_stack = np.stack of the parts' values, every axis; Model/C01Fin.lean)
    Slice.lean    slicePositions_full_rev, _length, slicePositions_full, slicePositions_full_rev_ne_full (signed Python slices,
                  Model/C01Slice.lean: same shape never implies same contents), same_shape_not_identity_witness
    Total.lean    peval_total_core, core_complete_and_sound (typing commutes with evaluation)
  This file: non-vacuity examples.
-/
import FunsorVerif.Props.C01.Total
import FunsorVerif.Props.C01.Einsum
import FunsorVerif.Props.C01.Reshape
import FunsorVerif.Props.C01.Aggregates
import FunsorVerif.Props.C01.NamedAgg
import FunsorVerif.Props.C01.ReshapeFull
import FunsorVerif.Props.C01.FinStack
import FunsorVerif.Props.C01.Slice
namespace FV.Props.C01
open FV FV.C01

/-! ### Non-vacuity: concrete tensors satisfying the hypotheses of the lemmas -/

def exA : NT := ofTensor [("i", 2), ("j", 3)] [] #[1, 2, 3, 4, 5, 6]
def exB : NT := ofTensor [("j", 3), ("k", 2)] [2] #[1, 0, 2, 0, 3, 0, 4, 0, 5, 0, 6, 0]
def exEnv : Env := [("i", Sem.ofNat 1), ("j", Sem.ofNat 2), ("k", Sem.ofNat 0)]

/-- binary: inputs are lhs inputs then the new rhs inputs; the hypotheses of `binary_sem` hold. -/
example : ((binary "add" exA exB).map (·.inputs)) = some [("i", 2), ("j", 3), ("k", 2)] := by decide
example : ((binary "add" exA exB).bind fun r => (preOf r.inputs exEnv)) = some [1, 2, 0] := by decide
example : ((binary "mul" exB exA).map (·.inputs)) = some [("j", 3), ("k", 2), ("i", 2)] := by decide
/-- reduce: over a present and an absent variable. -/
example : ((C01.eagerReduce "add" [("j", 3), ("z", 4)] exA).map (·.inputs)) = some [("i", 2)] := by decide
example : ((C01.eagerReduce "add" [("j", 3), ("z", 4)] exA).map (·.flat)) = some [24, 60] := by decide +kernel
example : ((C01.eagerReduce "max" [("z", 4)] exA).map (·.flat)) = some [1, 2, 3, 4, 5, 6] := by decide +kernel
/-- stack / lambda / getitem / subsNum succeed on non-trivial tensors. -/
example : ((stack "s" [exA, exA]).map (·.inputs)) = some [("s", 2), ("i", 2), ("j", 3)] := by decide
example : ((lambda "i" 2 exA).map fun r => (r.inputs, r.shape, r.flat)) = some ([("j", 3)], [2], [1, 4, 2, 5, 3, 6]) := by
  decide +kernel
example : ((subsNum [("j", 1)] exA).map fun r => (r.inputs, r.flat)) = some ([("i", 2)], [2, 5]) := by decide +kernel
example : ((getitem 0 exB (ofNumber 1)).map fun r => (r.inputs, r.shape, r.flat)) =
    some ([("j", 3), ("k", 2)], [], [0, 0, 0, 0, 0, 0]) := by decide +kernel

/-- cat: the concatenated input comes first, the part name is deleted, the others keep their order. -/
def exC1 : NT := ofTensor [("j", 3), ("t", 1)] [] #[1, 2, 3]
def exC2 : NT := ofTensor [("t", 2), ("i", 2)] [] #[4, 5, 6, 7]
example : ((cat "c" "t" [exC1, exC2]).map fun r => (r.inputs, r.shape)) = some ([("c", 3), ("j", 3), ("i", 2)], []) := by
  decide
example : ((cat "c" "t" [exC1, exC2]).map (·.flat)) =
    some [1, 1, 2, 2, 3, 3, 4, 5, 4, 5, 4, 5, 6, 7, 6, 7, 6, 7] := by decide +kernel
/-- reductions of output axes with a batch input present: axis 0 of the event part = data axis -2. -/
example : ((reductionAxis "add" (some [0]) false exB).map fun r => (r.inputs, r.shape, r.flat)) =
    some ([("j", 3), ("k", 2)], [], [1, 2, 3, 4, 5, 6]) := by decide +kernel
example : ((reductionAxis "max" (some [-1]) true exB).map fun r => (r.inputs, r.shape)) =
    some ([("j", 3), ("k", 2)], [1]) := by decide +kernel
example : negAxis 2 1 = -1 ∧ negAxis 2 (-2) = -2 ∧ axisValid 2 (-2) = true ∧ axisValid 2 2 = false := by decide
/-- reshape / getslice act on the event part only. -/
example : ((C01.reshape [1, 2] exB).map fun r => (r.inputs, r.shape)) = some ([("j", 3), ("k", 2)], [1, 2]) := by
  decide +kernel
example : ((C01.getslice [IdxItem.slice 1 2 1] exB).map fun r => (r.inputs, r.shape, r.flat)) =
    some ([("j", 3), ("k", 2)], [1], [0, 0, 0, 0, 0, 0]) := by decide +kernel
/-- the core fragment is inhabited by a non-trivial expression, on which eager evaluation is complete and sound -/
def exTerm : Term :=
  Term.reduce "add"
    (Term.binary ⟨"mul", Sexp.list []⟩
      (Term.tensor [("i", 2), ("j", 3)] ⟨DType.real, []⟩ #[1, 2, 3, 4, 5, 6])
      (Term.tensor [("j", 3)] ⟨DType.real, []⟩ #[1, 0, 2]))
    [("j", ⟨DType.bint 3, []⟩), ("z", ⟨DType.bint 2, []⟩)]
example : isCore [] exTerm = true := by decide
example : ((peval exTerm).map fun r => (r.inputs, r.flat)) = some ([("i", 2)], [14, 32]) := by decide +kernel

/-- general substitution: rename onto a fresh name, an index tensor, a slice -/
example : ((subsGen [("j", rangeNT "m" 0 1 3)] exA).map fun r => (r.inputs, r.flat)) =
    some ([("i", 2), ("m", 3)], [1, 2, 3, 4, 5, 6]) := by decide +kernel
example : ((subsGen [("j", rangeNT "i" 0 1 2)] exA).map fun r => (r.inputs, r.flat)) =
    some ([("i", 2)], [1, 5]) := by decide +kernel
example : ((subsGen [("j", rangeNT "m" 1 1 2)] exA).map fun r => (r.inputs, r.flat)) =
    some ([("i", 2), ("m", 2)], [2, 3, 5, 6]) := by decide +kernel

end FV.Props.C01
