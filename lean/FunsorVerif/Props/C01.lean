/-
  Props/C01.lean — eager evaluation returns the mathematical value of the expression.

  Model/C01.lean: positional named tensors `NT` and the operations of funsor/tensor.py + the
  bottom-up partial evaluator `peval`.  The theorems live in Props/C01/*.lean:

    Basic.lean    the gather lemma (names ↔ axes bookkeeping)
    Ops.lean      tensor_sem unary_sem binary_sem reduce_sem subsNum_sem stack_sem lambda_sem getitem_sem …
    Algebra.lean  XR is a commutative monoid under add/mul/max/min (with ±∞, NaN); fold_unrelated
    Reduce.lean   eagerReduce_sem (incl. variables absent from the argument, scale_eq_rep)
    Sound.lean    peval_sound
    Total.lean    peval_total_core, core_complete_and_sound (typing commutes with evaluation)
  This file: non-vacuity examples.
-/
import FunsorVerif.Props.C01.Total
namespace FV.Props.C01
open FV FV.C01

/-! ### Non-vacuity: concrete tensors satisfying the hypotheses of the lemmas -/

def exA : NT := ofTensor [("i", 2), ("j", 3)] [] #[1, 2, 3, 4, 5, 6]
def exB : NT := ofTensor [("j", 3), ("k", 2)] [2] #[1, 0, 2, 0, 3, 0, 4, 0, 5, 0, 6, 0]
def exEnv : Env := [("i", Sem.ofNat 1), ("j", Sem.ofNat 2), ("k", Sem.ofNat 0)]

/-- binary: inputs are lhs inputs then the new rhs inputs; the hypotheses of `binary_sem` hold. -/
example : ((binary "add" exA exB).map (·.inputs)) = some [("i", 2), ("j", 3), ("k", 2)] := by decide
example : ((binary "add" exA exB).bind fun r => (preOf r.inputs exEnv)) = some [1, 2, 0] := by decide
example : ((binary "mul" exB exA).map (·.inputs)) = some [("j", 3), ("k", 2), ("i", 2)] := by decide
/-- reduce: over a present and an absent variable. -/
example : ((C01.eagerReduce "add" [("j", 3), ("z", 4)] exA).map (·.inputs)) = some [("i", 2)] := by decide
example : ((C01.eagerReduce "add" [("j", 3), ("z", 4)] exA).map (·.flat)) = some [24, 60] := by decide +kernel
example : ((C01.eagerReduce "max" [("z", 4)] exA).map (·.flat)) = some [1, 2, 3, 4, 5, 6] := by decide +kernel
/-- stack / lambda / getitem / subsNum succeed on non-trivial tensors. -/
example : ((stack "s" [exA, exA]).map (·.inputs)) = some [("s", 2), ("i", 2), ("j", 3)] := by decide
example : ((lambda "i" 2 exA).map fun r => (r.inputs, r.shape, r.flat)) = some ([("j", 3)], [2], [1, 4, 2, 5, 3, 6]) := by
  decide +kernel
example : ((subsNum [("j", 1)] exA).map fun r => (r.inputs, r.flat)) = some ([("i", 2)], [2, 5]) := by decide +kernel
example : ((getitem 0 exB (ofNumber 1)).map fun r => (r.inputs, r.shape, r.flat)) =
    some ([("j", 3), ("k", 2)], [], [0, 0, 0, 0, 0, 0]) := by decide +kernel

end FV.Props.C01
