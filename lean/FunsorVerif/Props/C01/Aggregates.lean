/-
  Props/C01/Aggregates.lean — output-axis reductions with an ARBITRARY aggregate (mean, std, var, logsumexp,
  any, all, …: `reductionWith_sem`), and the scalar branch of eager_reduction_tensor: a scalar-valued tensor
  with named inputs becomes, entry by entry, the aggregate of the one-element collection
  (`reductionWith_scalar_sem`) — the identity only for aggregates with `agg [x] = x`.
-/
import FunsorVerif.Props.C01.Reshape
namespace FV.Props.C01
open FV FV.C01

theorem shapeOnly_reduceAxesWith (agg : List XR → XR) (axes : Option (List Int)) (keep : Bool) :
    ShapeOnly (fun s => reduceAxesWith agg s axes keep) := by
  intro s s' hs r hr
  simp only at hr ⊢
  unfold reduceAxesWith at hr ⊢
  rw [← hs]
  dsimp only at hr ⊢
  split at hr
  · cases hr
  · cases hr
    exact ⟨_, rfl, rfl⟩

theorem reduceAxesWith_negAxis (agg : List XR → XR) (s : Sem) (l : List Int) (keep : Bool)
    (h : l.all (axisValid s.shape.length) = true) :
    reduceAxesWith agg s (some (l.map (negAxis s.shape.length))) keep = reduceAxesWith agg s (some l) keep := by
  unfold reduceAxesWith
  simp only [mapM_negAxis _ l h]

/-- eager_reduction_tensor for ANY reduction op: row by row, the aggregate of each reduced block. -/
theorem reductionWith_sem (agg : List XR → XR) (axes : Option (List Int)) (keep : Bool) (a r : NT) (env : Env)
    (h : reductionAxisWith agg axes keep a = some r) (hpre : (preOf r.inputs env).isSome) :
    r.atEnv env = (a.atEnv env).bind (fun s => reduceAxesWith agg s axes keep) := by
  unfold reductionAxisWith at h
  split at h
  · split at h
    · exact mapRows_sem _ (shapeOnly_reduceAxesWith agg none keep) a r env h hpre
    · cases h
  · split at h
    · exact mapRows_sem _ (shapeOnly_reduceAxesWith agg axes keep) a r env h hpre
    · split at h
      · exact mapRows_sem _ (shapeOnly_reduceAxesWith agg none keep) a r env h hpre
      · rename_i l
        split at h
        · rename_i hv
          rw [mapRows_sem _ (shapeOnly_reduceAxesWith agg _ keep) a r env h hpre]
          cases hx : a.atEnv env with
          | none => rfl
          | some s =>
            simp only [Option.bind_some]
            have hsh : s.shape = a.shape := by
              simp only [NT.atEnv] at hx
              cases hp : preOf a.inputs env with
              | none => rw [hp] at hx; cases hx
              | some p => rw [hp] at hx; cases hx; rfl
            rw [← hsh] at hv ⊢
            exact reduceAxesWith_negAxis agg s l keep hv
        · cases h

/-- The scalar branch: reducing a scalar (no axis) is the aggregate of the ONE-element collection. -/
theorem reduceAxesWith_scalar (agg : List XR → XR) (s : Sem) (keep : Bool) (hs : s.shape = []) :
    reduceAxesWith agg s none keep = some ⟨[], fun _ => agg [s.get []]⟩ := by
  unfold reduceAxesWith
  simp only [hs, List.length_nil, List.range_zero, List.map_nil, List.zip_nil_right, List.filterMap_nil, allIdx,
    List.map_cons, Option.some.injEq, Sem.mk.injEq, true_and]
  funext oi
  cases keep <;> simp [reduceAxesWith.go]

theorem aggAny_single (x : XR) : aggAny [x] = boolXR x.truthy := by simp [aggAny]
theorem aggAll_single (x : XR) : aggAll [x] = boolXR x.truthy := by simp [aggAll]

/-- … which for `any`/`all` is NOT the element itself on non-boolean data (the class of seeded defect C01_6:
    returning the argument unchanged is only right for aggregates with `agg [x] = x`). -/
theorem aggAny_single_ne_id : aggAny [XR.fin 3] ≠ XR.fin 3 := by decide

/-- A scalar-valued tensor WITH named inputs under a reduction op: every entry becomes `agg [entry]`. -/
theorem reductionWith_scalar_sem (agg : List XR → XR) (keep : Bool) (a r : NT) (env : Env) (hs : a.shape = [])
    (h : reductionAxisWith agg none keep a = some r) (hpre : (preOf r.inputs env).isSome) :
    r.atEnv env = (a.atEnv env).map (fun s => ⟨[], fun _ => agg [s.get []]⟩) := by
  rw [reductionWith_sem agg none keep a r env h hpre]
  cases hx : a.atEnv env with
  | none => rfl
  | some s =>
    have hsh : s.shape = [] := by
      simp only [NT.atEnv] at hx
      cases hp : preOf a.inputs env with
      | none => rw [hp] at hx; cases hx
      | some p => rw [hp] at hx; cases hx; exact hs
    simp only [Option.bind_some, Option.map_some, reduceAxesWith_scalar agg s keep hsh]

end FV.Props.C01
