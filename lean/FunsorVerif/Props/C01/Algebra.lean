/-
  Props/C01/Algebra.lean — the algebra behind reductions over variables the argument does not mention
  (terms._reduce_unrelated_vars): `XR` with add / mul / max / min is a commutative monoid (including
  ±∞ and NaN, numpy conventions), and folding an expression over the full assignment space of a list
  of variables, some of which it ignores, equals folding the `m`-fold power over the variables it
  does depend on (`fold_unrelated`), `m` = number of assignments of the ignored variables.
-/
import FunsorVerif.Model.C01
import Mathlib.Tactic.Linarith
import Mathlib.Tactic.Ring
import Mathlib.Algebra.Order.Field.Rat
namespace FV.Props.C01
open FV FV.C01

theorem XR.add_comm' (a b : XR) : XR.add a b = XR.add b a := by
  cases a <;> cases b <;> simp [XR.add, Rat.add_comm]

theorem XR.add_assoc' (a b c : XR) : XR.add (XR.add a b) c = XR.add a (XR.add b c) := by
  cases a <;> cases b <;> cases c <;> simp [XR.add, Rat.add_assoc]

theorem XR.max_comm' (a b : XR) : XR.max a b = XR.max b a := by
  cases a <;> cases b <;> simp [XR.max, XR.le] <;> grind

theorem XR.max_assoc' (a b c : XR) : XR.max (XR.max a b) c = XR.max a (XR.max b c) := by
  cases a <;> cases b <;> cases c <;> simp [XR.max, XR.le] <;> grind

theorem XR.max_idem' (a : XR) : XR.max a a = a := by
  cases a <;> simp [XR.max, XR.le]

theorem XR.ninf_max' (a : XR) : XR.max XR.ninf a = a := by
  cases a <;> simp [XR.max, XR.le]

theorem XR.min_comm' (a b : XR) : XR.min a b = XR.min b a := by
  cases a <;> cases b <;> simp [XR.min, XR.le] <;> grind

theorem XR.min_assoc' (a b c : XR) : XR.min (XR.min a b) c = XR.min a (XR.min b c) := by
  cases a <;> cases b <;> cases c <;> simp [XR.min, XR.le] <;> grind

theorem XR.min_idem' (a : XR) : XR.min a a = a := by
  cases a <;> simp [XR.min, XR.le]

theorem XR.pinf_min' (a : XR) : XR.min XR.pinf a = a := by
  cases a <;> simp [XR.min, XR.le]

theorem XR.zero_eq : (0 : XR) = XR.fin 0 := by
  show XR.fin ((0 : Nat) : Rat) = XR.fin 0
  simp
theorem XR.one_eq : (1 : XR) = XR.fin 1 := by
  show XR.fin ((1 : Nat) : Rat) = XR.fin 1
  simp

theorem XR.zero_add' (a : XR) : XR.add 0 a = a := by
  rw [XR.zero_eq]; cases a <;> simp [XR.add]

theorem XR.one_mul' (a : XR) : XR.mul 1 a = a := by
  rw [XR.one_eq]; cases a <;> simp [XR.mul, XR.sgn] <;> decide

theorem XR.mul_comm' (a b : XR) : XR.mul a b = XR.mul b a := by
  cases a <;> cases b <;> simp [XR.mul, XR.sgn, mul_comm]

theorem sgn_mul (a b : Rat) : XR.sgn (XR.fin (a * b)) = XR.sgn (XR.fin a) * XR.sgn (XR.fin b) := by
  simp only [XR.sgn]
  rcases lt_trichotomy a 0 with ha | ha | ha <;> rcases lt_trichotomy b 0 with hb | hb | hb
  · have := mul_pos_of_neg_of_neg ha hb
    simp [ha, hb, this.not_gt, this.ne']
  · simp [ha, hb]
  · have := mul_neg_of_neg_of_pos ha hb
    simp [ha, hb, this, hb.not_gt, hb.ne']
  · simp [ha, hb]
  · simp [ha, hb]
  · simp [ha, hb]
  · have := mul_neg_of_pos_of_neg ha hb
    simp [ha, hb, this, ha.not_gt, ha.ne']
  · simp [ha, hb]
  · have := mul_pos ha hb
    simp [ha, hb, this.not_gt, this.ne', ha.not_gt, ha.ne', hb.not_gt, hb.ne']

def sres (s : Int) : XR := if s = 0 then XR.nan else if s > 0 then XR.pinf else XR.ninf

def isFin : XR → Bool
  | XR.fin _ => true
  | _ => false

theorem sgn_cases (a : XR) : XR.sgn a = -1 ∨ XR.sgn a = 0 ∨ XR.sgn a = 1 := by
  cases a with
  | fin q =>
    simp only [XR.sgn]
    by_cases h1 : q < 0
    · simp [h1]
    · by_cases h2 : q = 0 <;> simp [h1, h2]
  | pinf => simp [XR.sgn]
  | ninf => simp [XR.sgn]
  | nan => simp [XR.sgn]

theorem sgn_sres (s : Int) (h : s = -1 ∨ s = 0 ∨ s = 1) : XR.sgn (sres s) = s := by
  rcases h with h | h | h <;> subst h <;> simp [sres, XR.sgn]

theorem mul_eq_sres (a b : XR) (h : ¬ (isFin a = true ∧ isFin b = true)) :
    XR.mul a b = sres (XR.sgn a * XR.sgn b) := by
  cases a <;> cases b <;> simp_all [XR.mul, isFin, sres, XR.sgn]

theorem sgn_prod_cases (a b : XR) :
    XR.sgn a * XR.sgn b = -1 ∨ XR.sgn a * XR.sgn b = 0 ∨ XR.sgn a * XR.sgn b = 1 := by
  rcases sgn_cases a with h | h | h <;> rcases sgn_cases b with h' | h' | h' <;> simp [h, h']

theorem sgn_mul_xr (a b : XR) : XR.sgn (XR.mul a b) = XR.sgn a * XR.sgn b := by
  by_cases h : isFin a = true ∧ isFin b = true
  · cases a <;> cases b <;> simp_all [isFin]
    simp only [XR.mul]; exact sgn_mul _ _
  · rw [mul_eq_sres a b h]; exact sgn_sres _ (sgn_prod_cases a b)

theorem isFin_mul (a b : XR) : isFin (XR.mul a b) = (isFin a && isFin b) := by
  by_cases h : isFin a = true ∧ isFin b = true
  · cases a <;> cases b <;> simp_all [isFin, XR.mul]
  · rw [mul_eq_sres a b h]
    have : isFin (sres (XR.sgn a * XR.sgn b)) = false := by
      unfold sres; split
      · rfl
      · split <;> rfl
    rw [this]
    cases ha : isFin a <;> cases hb : isFin b <;> simp_all

theorem XR.mul_assoc' (a b c : XR) : XR.mul (XR.mul a b) c = XR.mul a (XR.mul b c) := by
  by_cases h : isFin a = true ∧ isFin b = true ∧ isFin c = true
  · cases a <;> cases b <;> cases c <;> simp_all [isFin]
    simp only [XR.mul, mul_assoc]
  · have h1 : ¬ (isFin (XR.mul a b) = true ∧ isFin c = true) := by
      rw [isFin_mul]; simp only [Bool.and_eq_true]; tauto
    have h2 : ¬ (isFin a = true ∧ isFin (XR.mul b c) = true) := by
      rw [isFin_mul]; simp only [Bool.and_eq_true]; tauto
    rw [mul_eq_sres _ _ h1, mul_eq_sres _ _ h2, sgn_mul_xr, sgn_mul_xr, mul_assoc]


/-! ### Commutative monoids on XR and folds -/

/-- A commutative monoid on an arbitrary carrier `V` (XR with add/mul/max/min below; Bool with
    and/or; log-space reals with logaddexp, see Props/C15/Laws.lean `lae_*`). -/
structure CMon {V : Type} (F : V → V → V) (U : V) : Prop where
  assoc : ∀ a b c, F (F a b) c = F a (F b c)
  comm : ∀ a b, F a b = F b a
  unit : ∀ a, F U a = a

theorem cmon_add : CMon XR.add 0 := ⟨XR.add_assoc', XR.add_comm', XR.zero_add'⟩
theorem cmon_mul : CMon XR.mul 1 := ⟨XR.mul_assoc', XR.mul_comm', XR.one_mul'⟩
theorem cmon_max : CMon XR.max XR.ninf := ⟨XR.max_assoc', XR.max_comm', XR.ninf_max'⟩
theorem cmon_min : CMon XR.min XR.pinf := ⟨XR.min_assoc', XR.min_comm', XR.pinf_min'⟩

theorem cmon_band : CMon (fun a b : Bool => a && b) true := ⟨by decide, by decide, by decide⟩
theorem cmon_bor : CMon (fun a b : Bool => a || b) false := ⟨by decide, by decide, by decide⟩

/-- Monoid fold. -/
def mf {V : Type} (F : V → V → V) (U : V) (l : List V) : V := l.foldl F U

/-- `n` copies of `x` folded together. -/
def rep {V : Type} (F : V → V → V) (U : V) (x : V) : Nat → V
  | 0 => U
  | n + 1 => F (rep F U x n) x

theorem mf_nil {V : Type} (F : V → V → V) (U : V) : mf F U [] = U := rfl

section
variable {V : Type} {F : V → V → V} {U : V} (h : CMon F U)
include h

theorem foldl_F (a b : V) (l : List V) : l.foldl F (F a b) = F a (l.foldl F b) := by
  induction l generalizing b with
  | nil => rfl
  | cons c l ih => simp only [List.foldl_cons]; rw [h.assoc a b c]; exact ih (F b c)

theorem unit_right (a : V) : F a U = a := by rw [h.comm, h.unit]

theorem mf_cons (x : V) (l : List V) : mf F U (x :: l) = F x (mf F U l) := by
  simp only [mf, List.foldl_cons]
  rw [h.comm U x, foldl_F h]

theorem mf_append (l1 l2 : List V) : mf F U (l1 ++ l2) = F (mf F U l1) (mf F U l2) := by
  induction l1 with
  | nil => simp [mf_nil, h.unit]
  | cons x l1 ih => simp only [List.cons_append, mf_cons h, ih, h.assoc]

theorem mf_flatMap {ι : Type} (l : List ι) (f : ι → List V) :
    mf F U (l.flatMap f) = mf F U (l.map fun x => mf F U (f x)) := by
  induction l with
  | nil => rfl
  | cons x l ih => simp only [List.flatMap_cons, List.map_cons, mf_append h, mf_cons h, ih]

theorem mf_map_F {ι : Type} (l : List ι) (f g : ι → V) :
    mf F U (l.map fun x => F (f x) (g x)) = F (mf F U (l.map f)) (mf F U (l.map g)) := by
  induction l with
  | nil => simp [mf_nil, h.unit]
  | cons x l ih =>
    simp only [List.map_cons, mf_cons h, ih]
    rw [h.assoc, h.assoc]; congr 1
    rw [← h.assoc, ← h.assoc, h.comm (g x)]

theorem mf_const_U {ι : Type} (l : List ι) : mf F U (l.map fun _ => U) = U := by
  induction l with
  | nil => rfl
  | cons x l ih => simp only [List.map_cons, mf_cons h, ih, h.unit]

theorem mf_rep {ι : Type} (l : List ι) (f : ι → V) (n : Nat) :
    mf F U (l.map fun x => rep F U (f x) n) = rep F U (mf F U (l.map f)) n := by
  induction n with
  | zero => simp only [rep]; exact mf_const_U h l
  | succ n ih => simp only [rep]; rw [mf_map_F h, ih]

theorem rep_one (x : V) : rep F U x 1 = x := by simp [rep, h.unit]

theorem rep_add (x : V) (a b : Nat) : rep F U x (a + b) = F (rep F U x a) (rep F U x b) := by
  induction b with
  | zero => simp [rep, unit_right h]
  | succ b ih => rw [← Nat.add_assoc]; simp only [rep, ih, h.assoc]

theorem rep_rep (x : V) (m n : Nat) : rep F U (rep F U x m) n = rep F U x (m * n) := by
  induction n with
  | zero => simp [rep]
  | succ n ih => simp only [rep, ih, Nat.mul_succ, rep_add h]

theorem mf_range_const (X : V) (s : Nat) : mf F U ((List.range s).map fun _ => X) = rep F U X s := by
  induction s with
  | zero => rfl
  | succ s ih =>
    rw [List.range_succ, List.map_append, mf_append h, ih]
    simp [rep, mf_cons h, mf_nil, unit_right h]

end

/-! ### Folding over variables the expression ignores -/

/-- Keep the entries whose mask bit is set. -/
def projMask {α : Type} : List Bool → List α → List α
  | true :: bs, i :: is => i :: projMask bs is
  | false :: bs, _ :: is => projMask bs is
  | _, _ => []

/-- Number of assignments of the masked-out variables. -/
def absProd : List Bool → List Nat → Nat
  | true :: bs, _ :: ss => absProd bs ss
  | false :: bs, s :: ss => s * absProd bs ss
  | _, _ => 1

theorem fold_unrelated {V : Type} {F : V → V → V} {U : V} (h : CMon F U) :
    ∀ (mask : List Bool) (sizes : List Nat), mask.length = sizes.length → ∀ (g : List Nat → V),
      mf F U ((allIdx sizes).map fun asg => g (projMask mask asg)) =
      mf F U ((allIdx (projMask mask sizes)).map fun j => rep F U (g j) (absProd mask sizes)) := by
  intro mask
  induction mask with
  | nil =>
    intro sizes hl g
    cases sizes with
    | nil => simp [allIdx, projMask, absProd, rep_one h]
    | cons _ _ => simp at hl
  | cons b bs ih =>
    intro sizes hl g
    cases sizes with
    | nil => simp at hl
    | cons s ss =>
      have hl' : bs.length = ss.length := by simpa using hl
      cases b with
      | true =>
        simp only [projMask, absProd, allIdx, List.map_flatMap, List.map_map, Function.comp_def, mf_flatMap h]
        congr 1
        apply List.map_congr_left
        intro i _
        exact ih ss hl' (fun j => g (i :: j))
      | false =>
        simp only [projMask, absProd, allIdx, List.map_flatMap, List.map_map, Function.comp_def, mf_flatMap h]
        rw [mf_range_const h, ih ss hl' g, ← mf_rep h]
        congr 1
        apply List.map_congr_left
        intro j _
        rw [rep_rep h, Nat.mul_comm]

/-- For an idempotent monoid (max, min, and, or) any positive number of copies folds to the element:
    reducing over variables the argument ignores changes nothing. -/
theorem rep_idem_gen {V : Type} {F : V → V → V} {U : V} (h : CMon F U) (hid : ∀ x, F x x = x) (x : V) :
    ∀ (m : Nat), 0 < m → rep F U x m = x := by
  intro m
  induction m with
  | zero => intro h0; omega
  | succ m ih =>
    intro _
    by_cases hm : m = 0
    · subst hm; simp [rep, h.unit]
    · simp [rep, ih (Nat.pos_of_ne_zero hm), hid]

/-- Boolean named reductions (`Reduce(ops.and_ / ops.or_, …)` = `all` / `any`) over a list of variables
    some of which the argument ignores: the ignored ones drop out (carrier Bool). -/
theorem fold_unrelated_bool (isAnd : Bool) (mask : List Bool) (sizes : List Nat)
    (hl : mask.length = sizes.length) (hpos : (sizes.all fun s => decide (0 < s)) = true) (g : List Nat → Bool) :
    (if isAnd then ((allIdx sizes).map fun asg => g (projMask mask asg)).all id
      else ((allIdx sizes).map fun asg => g (projMask mask asg)).any id) =
    (if isAnd then ((allIdx (projMask mask sizes)).map g).all id
      else ((allIdx (projMask mask sizes)).map g).any id) := by
  have hall : ∀ l : List Bool, l.all id = mf (fun a b : Bool => a && b) true l := by
    intro l; induction l with
    | nil => rfl
    | cons x l ih => rw [mf_cons cmon_band]; simp [ih]
  have hany : ∀ l : List Bool, l.any id = mf (fun a b : Bool => a || b) false l := by
    intro l; induction l with
    | nil => rfl
    | cons x l ih => rw [mf_cons cmon_bor]; simp [ih]
  have hm : 0 < absProd mask sizes := by
    clear hall hany g
    induction mask generalizing sizes with
    | nil => cases sizes <;> simp [absProd]
    | cons b bs ih =>
      cases sizes with
      | nil => cases b <;> simp [absProd]
      | cons s ss =>
        simp only [List.all_cons, Bool.and_eq_true, decide_eq_true_eq] at hpos
        cases b
        · simp only [absProd]; exact Nat.mul_pos hpos.1 (ih ss (by simpa using hl) hpos.2)
        · simp only [absProd]; exact ih ss (by simpa using hl) hpos.2
  cases isAnd
  · simp only [Bool.false_eq_true, if_false, hany]
    rw [fold_unrelated cmon_bor mask sizes hl g]
    congr 1; apply List.map_congr_left; intro j _
    exact rep_idem_gen cmon_bor (by decide) _ _ hm
  · simp only [if_true, hall]
    rw [fold_unrelated cmon_band mask sizes hl g]
    congr 1; apply List.map_congr_left; intro j _
    exact rep_idem_gen cmon_band (by decide) _ _ hm

end FV.Props.C01
