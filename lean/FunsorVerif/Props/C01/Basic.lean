/-
  Props/C01/Basic.lean — index / environment bookkeeping behind every tensor-op lemma of C01:
  the gather lemma (`preOf_gather`): reading the coordinates of an operand's names out of the
  positional index of a larger dictionary = looking the names up in the environment.
-/
import FunsorVerif.Model.C01
namespace FV.Props.C01
open FV FV.C01

theorem toNat_ofNat (i : Nat) : Sem.toNat? (Sem.ofNat i) = some i := by
  simp [Sem.toNat?, Sem.ofNat, Sem.scalar]

/-- Environment binding the names `ks` to the indices `is` (as `assignments` does). -/
def bindEnv : List Name → List Nat → Env
  | k :: ks, i :: is => (k, Sem.ofNat i) :: bindEnv ks is
  | _, _ => []

theorem lookup_bindEnv (env : Env) (n : Name) : ∀ (ks : List Name) (is : List Nat),
    Env.lookup (bindEnv ks is ++ env) n =
      match lookupPos ks is n with
      | some i => some (Sem.ofNat i)
      | none => Env.lookup env n := by
  intro ks
  induction ks with
  | nil => intro is; simp [bindEnv, lookupPos]
  | cons k ks ih =>
    intro is
    cases is with
    | nil => simp [bindEnv, lookupPos]
    | cons i is =>
      simp only [bindEnv, List.cons_append, Env.lookup, lookupPos]
      rw [BEq.comm (a := k) (b := n)]
      by_cases h : n == k
      · simp [h]
      · simp only [h]
        exact ih is

theorem envIdx_bindEnv (env : Env) (n : Name) (s : Nat) (ks : List Name) (is : List Nat) :
    envIdx (bindEnv ks is ++ env) n s =
      match lookupPos ks is n with
      | some i => if i < s then some i else none
      | none => envIdx env n s := by
  unfold envIdx
  rw [lookup_bindEnv]
  cases lookupPos ks is n with
  | none => rfl
  | some i => simp [toNat_ofNat]

theorem lookupPos_append (n : Name) : ∀ (a : List Name) (ia : List Nat) (b : List Name) (ib : List Nat),
    a.length = ia.length →
    lookupPos (a ++ b) (ia ++ ib) n = (lookupPos a ia n).or (lookupPos b ib n) := by
  intro a
  induction a with
  | nil => intro ia b ib h; cases ia <;> simp_all [lookupPos]
  | cons k a ih =>
    intro ia b ib h
    cases ia with
    | nil => simp at h
    | cons i ia =>
      simp only [List.cons_append, lookupPos]
      by_cases hk : n == k
      · simp [hk]
      · simp only [hk]; exact ih ia b ib (by simpa using h)

/-- A name with a size in `vs` gets an in-range coordinate from a valid index. -/
theorem lookupPos_of_lookup (n : Name) (s : Nat) : ∀ (vs : List (Name × Nat)) (asg : List Nat),
    validIdx asg (vs.map (·.2)) = true → vs.lookup n = some s →
    ∃ i, lookupPos (vs.map (·.1)) asg n = some i ∧ i < s := by
  intro vs
  induction vs with
  | nil => intro asg _ h; simp at h
  | cons hd vs ih =>
    intro asg hv hl
    obtain ⟨k, s'⟩ := hd
    cases asg with
    | nil => simp [validIdx] at hv
    | cons i asg =>
      simp only [List.map_cons, validIdx, Bool.and_eq_true, decide_eq_true_eq] at hv
      simp only [List.lookup_cons] at hl
      simp only [List.map_cons, lookupPos]
      by_cases hk : n == k
      · simp only [hk] at hl ⊢
        cases hl; exact ⟨i, rfl, hv.1⟩
      · simp only [hk] at hl ⊢
        exact ih asg hv.2 hl

theorem lookupPos_none_of_lookup (n : Name) : ∀ (vs : List (Name × Nat)) (asg : List Nat),
    vs.lookup n = none → lookupPos (vs.map (·.1)) asg n = none := by
  intro vs
  induction vs with
  | nil => intro asg _; simp [lookupPos]
  | cons hd vs ih =>
    intro asg hl
    obtain ⟨k, s'⟩ := hd
    cases asg with
    | nil => simp [lookupPos]
    | cons i asg =>
      simp only [List.lookup_cons] at hl
      simp only [List.map_cons, lookupPos]
      by_cases hk : n == k
      · simp [hk] at hl
      · simp only [hk] at hl ⊢
        exact ih asg hl

theorem validIdx_length : ∀ (i s : List Nat), validIdx i s = true → i.length = s.length := by
  intro i
  induction i with
  | nil => intro s h; cases s <;> simp_all [validIdx]
  | cons a i ih =>
    intro s h; cases s with
    | nil => simp [validIdx] at h
    | cons b s => simp only [validIdx, Bool.and_eq_true] at h; simp [ih s h.2]

theorem lookupPos_envIdx {env : Env} {n : Name} {s : Nat} :
    ∀ {new : List (Name × Nat)} {p : List Nat}, preOf new env = some p → new.lookup n = some s →
      lookupPos (new.map (·.1)) p n = envIdx env n s := by
  intro new
  induction new with
  | nil => intro p _ h; simp at h
  | cons hd rest ih =>
    intro p hp hl
    obtain ⟨k, s'⟩ := hd
    simp only [preOf] at hp
    split at hp
    · rename_i i is hi his
      cases hp
      simp only [List.lookup_cons] at hl
      simp only [List.map_cons, lookupPos]
      by_cases hk : n == k
      · simp only [hk] at hl ⊢
        cases hl
        have : n = k := by simpa using hk
        subst this; exact hi.symm
      · simp only [hk] at hl ⊢
        exact ih his hl
    · cases hp

theorem preOf_length {env : Env} : ∀ {l : List (Name × Nat)} {p : List Nat}, preOf l env = some p → p.length = l.length := by
  intro l
  induction l with
  | nil => intro p h; simp [preOf] at h; simp [← h]
  | cons hd l ih =>
    intro p h
    simp only [preOf] at h
    split at h
    · rename_i i is hi his; cases h; simp [ih his]
    · cases h

/-- **Gather lemma.**  Reading the coordinates of `x`'s names out of the positional index of a larger
    dictionary (`vs` bound by an assignment, then `new` bound by `env`) is the same as looking `x`'s
    names up in the extended environment. -/
theorem preOf_gather {env : Env} (vs new : List (Name × Nat)) (asg p : List Nat)
    (hv : validIdx asg (vs.map (·.2)) = true) (hp : preOf new env = some p) :
    ∀ (x : List (Name × Nat)), SubDict x (vs ++ new) = true →
      preOf x (bindEnv (vs.map (·.1)) asg ++ env) =
        gather (vs.map (·.1) ++ new.map (·.1)) (asg ++ p) (x.map (·.1)) := by
  intro x
  induction x with
  | nil => intro _; rfl
  | cons hd x ih =>
    intro hs
    obtain ⟨n, s⟩ := hd
    simp only [SubDict, List.all_cons, Bool.and_eq_true, beq_iff_eq] at hs
    have ihx := ih (by simpa [SubDict] using hs.2)
    have hlen : (vs.map (·.1)).length = asg.length := by
      have := validIdx_length _ _ hv; simp_all
    have hhead : envIdx (bindEnv (vs.map (·.1)) asg ++ env) n s =
        lookupPos (vs.map (·.1) ++ new.map (·.1)) (asg ++ p) n := by
      rw [envIdx_bindEnv, lookupPos_append _ _ _ _ _ hlen]
      have hl := hs.1
      rw [List.lookup_append] at hl
      cases hvl : vs.lookup n with
      | some s1 =>
        rw [hvl] at hl; simp at hl; subst hl
        obtain ⟨i, hi, hlt⟩ := lookupPos_of_lookup n s1 vs asg hv hvl
        simp [hi, hlt]
      | none =>
        rw [hvl] at hl; simp at hl
        rw [lookupPos_none_of_lookup n vs asg hvl]
        simp [lookupPos_envIdx hp hl]
    simp only [preOf, List.map_cons, gather, hhead, ihx]

theorem envIdx_some_of_preOf {env : Env} {n : Name} {s : Nat} :
    ∀ {new : List (Name × Nat)} {p : List Nat}, preOf new env = some p → new.lookup n = some s →
      ∃ i, envIdx env n s = some i := by
  intro new
  induction new with
  | nil => intro p _ h; simp at h
  | cons hd rest ih =>
    intro p hp hl
    obtain ⟨k, s'⟩ := hd
    simp only [preOf] at hp
    split at hp
    · rename_i i is hi his
      simp only [List.lookup_cons] at hl
      by_cases hk : n == k
      · simp only [hk] at hl
        cases hl
        have : n = k := by simpa using hk
        subst this; exact ⟨i, hi⟩
      · simp only [hk] at hl
        exact ih his hl
    · cases hp

/-- Gather lemma, existence form: the operand's own batch index exists and is what `gather` reads. -/
theorem preOf_gather_some {env : Env} (vs new : List (Name × Nat)) (asg p : List Nat)
    (hv : validIdx asg (vs.map (·.2)) = true) (hp : preOf new env = some p) :
    ∀ (x : List (Name × Nat)), SubDict x (vs ++ new) = true →
      ∃ g, preOf x (bindEnv (vs.map (·.1)) asg ++ env) = some g ∧
        gather (vs.map (·.1) ++ new.map (·.1)) (asg ++ p) (x.map (·.1)) = some g := by
  intro x hs
  have heq := preOf_gather vs new asg p hv hp x hs
  suffices h : ∃ g, preOf x (bindEnv (vs.map (·.1)) asg ++ env) = some g by
    obtain ⟨g, hg⟩ := h; exact ⟨g, hg, by rw [← heq, hg]⟩
  clear heq
  induction x with
  | nil => exact ⟨[], rfl⟩
  | cons hd x ih =>
    obtain ⟨n, s⟩ := hd
    simp only [SubDict, List.all_cons, Bool.and_eq_true, beq_iff_eq] at hs
    obtain ⟨g, hg⟩ := ih (by simpa [SubDict] using hs.2)
    have hhead : ∃ i, envIdx (bindEnv (vs.map (·.1)) asg ++ env) n s = some i := by
      rw [envIdx_bindEnv]
      have hl := hs.1
      rw [List.lookup_append] at hl
      cases hvl : vs.lookup n with
      | some s1 =>
        rw [hvl] at hl; simp at hl; subst hl
        obtain ⟨i, hi, hlt⟩ := lookupPos_of_lookup n s1 vs asg hv hvl
        exact ⟨i, by simp [hi, hlt]⟩
      | none =>
        rw [hvl] at hl; simp at hl
        rw [lookupPos_none_of_lookup n vs asg hvl]
        exact envIdx_some_of_preOf hp hl
    obtain ⟨i, hi⟩ := hhead
    exact ⟨i :: g, by simp [preOf, hi, hg]⟩

/-- `readAt` through a larger dictionary reads the operand at its own batch index. -/
theorem readAt_eq {env : Env} (x : NT) (vs new : List (Name × Nat)) (asg p : List Nat)
    (hv : validIdx asg (vs.map (·.2)) = true) (hp : preOf new env = some p)
    (hs : SubDict x.inputs (vs ++ new) = true) :
    ∃ g, preOf x.inputs (bindEnv (vs.map (·.1)) asg ++ env) = some g ∧
      ∀ ev, x.readAt (vs.map (·.1) ++ new.map (·.1)) (asg ++ p) ev = x.data (g ++ ev) := by
  obtain ⟨g, hg, hgat⟩ := preOf_gather_some vs new asg p hv hp x.inputs hs
  exact ⟨g, hg, fun ev => by simp [NT.readAt, NT.names, hgat]⟩

theorem readAt_eq0 {env : Env} (x : NT) (new : List (Name × Nat)) (p : List Nat)
    (hp : preOf new env = some p) (hs : SubDict x.inputs new = true) :
    ∃ g, preOf x.inputs env = some g ∧
      ∀ ev, x.readAt (new.map (·.1)) p ev = x.data (g ++ ev) := by
  have := readAt_eq (env := env) x [] new [] p (by simp [validIdx]) hp (by simpa using hs)
  simpa [bindEnv] using this

end FV.Props.C01
