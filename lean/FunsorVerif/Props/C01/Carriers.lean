/-
  Props/C01/Carriers.lean — the reduction algebra of Props/C01/Algebra.lean (`fold_unrelated`: folding
  over variables the argument ignores = the m-fold power) instantiated at the log-space carrier of
  `ops.logaddexp` (C15's `lae` on `WithBot ℝ`): `_reduce_unrelated_vars` adds `log m`.
-/
import FunsorVerif.Props.C01.Algebra
import FunsorVerif.Props.C15.Laws
namespace FV.Props.C01
open FV FV.Props.C15

theorem cmon_lae : CMon lae ⊥ := ⟨lae_assoc, lae_comm, fun x => (lae_unit x).2⟩

/-- `m` copies of a finite log-space value folded with logaddexp: `x + log m`
    (what the fixed `_reduce_unrelated_vars` adds for `ops.logaddexp`). -/
theorem rep_lae (x : ℝ) : ∀ (m : Nat), 0 < m →
    rep lae ⊥ (x : WithBot ℝ) m = ((x + Real.log m : ℝ) : WithBot ℝ) := by
  intro m
  induction m with
  | zero => intro h; omega
  | succ m ih =>
    intro _
    by_cases hm : m = 0
    · subst hm
      simp [rep, (lae_unit (x : WithBot ℝ)).2]
    · have hpos : 0 < m := Nat.pos_of_ne_zero hm
      simp only [rep, ih hpos, lae_coe]
      congr 1
      have hm' : (0 : ℝ) < m := by exact_mod_cast hpos
      rw [Real.exp_add, Real.exp_log hm']
      have : Real.exp x * (m : ℝ) + Real.exp x = Real.exp x * ((m + 1 : ℕ) : ℝ) := by push_cast; ring
      rw [this, Real.log_mul (Real.exp_pos x).ne' (by positivity), Real.log_exp]

/-- logaddexp-reduction over a list of variables some of which the expression ignores:
    the ignored ones contribute `log` of their number of assignments. -/
theorem fold_unrelated_lae (mask : List Bool) (sizes : List Nat) (hl : mask.length = sizes.length)
    (g : List Nat → WithBot ℝ) :
    mf lae ⊥ ((allIdx sizes).map fun asg => g (projMask mask asg)) =
    mf lae ⊥ ((allIdx (projMask mask sizes)).map fun j => rep lae ⊥ (g j) (absProd mask sizes)) :=
  fold_unrelated cmon_lae mask sizes hl g

end FV.Props.C01
