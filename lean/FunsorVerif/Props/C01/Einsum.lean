/-
  Props/C01/Einsum.lean — `einsum_sem`: tensor.eager_einsum's subscript construction (a fresh symbol
  per named input; each operand prefixed by the symbols of ITS inputs in ITS order, the output by the
  union's in union order) makes numpy's einsum compute, at every binding of the named inputs, the
  textbook einsum of the operands' event arrays.  A wrong batch-subscript order (e.g. prefixing an
  operand with the union's order) breaks `mapM_batch_gather`.
-/
import FunsorVerif.Props.C01.Subs
namespace FV.Props.C01
open FV FV.C01

theorem symLookup_letters_batch (n : Name) : ∀ (ls : List Char) (q : List Nat),
    symLookup (ls.map Sym.letter) q (Sym.batch n) = none := by
  intro ls
  induction ls with
  | nil => intro q; simp [symLookup]
  | cons c ls ih => intro q; cases q with
    | nil => simp [symLookup]
    | cons i q => simp [symLookup, ih q]

theorem symLookup_letters (c : Char) : ∀ (ls : List Char) (q : List Nat),
    symLookup (ls.map Sym.letter) q (Sym.letter c) = charLookup ls q c := by
  intro ls
  induction ls with
  | nil => intro q; simp [symLookup, charLookup]
  | cons k ls ih => intro q; cases q with
    | nil => simp [symLookup, charLookup]
    | cons i q =>
      simp only [List.map_cons, symLookup, charLookup, Sym.letter.injEq]
      by_cases h : c = k <;> simp [h, ih q]

/-- Batch symbols come first and are one per name: a batch symbol reads the named coordinate. -/
theorem symLookup_batch (n : Name) (ls : List Char) (q : List Nat) : ∀ (bs : List Name) (p : List Nat),
    bs.length = p.length →
    symLookup (bs.map Sym.batch ++ ls.map Sym.letter) (p ++ q) (Sym.batch n) = lookupPos bs p n := by
  intro bs
  induction bs with
  | nil => intro p h; cases p with
    | nil => simp [symLookup_letters_batch, lookupPos]
    | cons _ _ => simp at h
  | cons k bs ih => intro p h; cases p with
    | nil => simp at h
    | cons i p =>
      simp only [List.map_cons, List.cons_append, symLookup, lookupPos, Sym.batch.injEq]
      by_cases hk : n = k
      · simp [hk]
      · have : (n == k) = false := by simpa using hk
        simp only [hk, if_false, this]
        exact ih p (by simpa using h)

/-- … and a letter skips them. -/
theorem symLookup_letter (c : Char) (ls : List Char) (q : List Nat) : ∀ (bs : List Name) (p : List Nat),
    bs.length = p.length →
    symLookup (bs.map Sym.batch ++ ls.map Sym.letter) (p ++ q) (Sym.letter c) = charLookup ls q c := by
  intro bs
  induction bs with
  | nil => intro p h; cases p with
    | nil => simp [symLookup_letters]
    | cons _ _ => simp at h
  | cons k bs ih => intro p h; cases p with
    | nil => simp at h
    | cons i p =>
      simp only [List.map_cons, List.cons_append, symLookup]
      simp only [reduceCtorEq, if_false]
      exact ih p (by simpa using h)

theorem mapM_append_opt {α β : Type} (f : α → Option β) : ∀ (l1 l2 : List α),
    (l1 ++ l2).mapM f = (match l1.mapM f, l2.mapM f with
      | some a, some b => some (a ++ b)
      | _, _ => none) := by
  intro l1
  induction l1 with
  | nil => intro l2; cases h : l2.mapM f <;> simp [h]
  | cons x l1 ih =>
    intro l2
    simp only [List.cons_append, List.mapM_cons, ih l2]
    cases f x <;> cases l1.mapM f <;> cases l2.mapM f <;> simp

theorem mapM_batch_gather (ls : List Char) (q : List Nat) (bs : List Name) (p : List Nat) (h : bs.length = p.length) :
    ∀ (xs : List Name),
      (xs.map Sym.batch).mapM (symLookup (bs.map Sym.batch ++ ls.map Sym.letter) (p ++ q)) = gather bs p xs := by
  intro xs
  induction xs with
  | nil => rfl
  | cons n xs ih =>
    simp only [List.map_cons, List.mapM_cons, symLookup_batch n ls q bs p h, ih, gather]
    cases lookupPos bs p n <;> cases gather bs p xs <;> simp

theorem mapM_letters (ls : List Char) (q : List Nat) (bs : List Name) (p : List Nat) (h : bs.length = p.length) :
    ∀ (s : List Char),
      (s.map Sym.letter).mapM (symLookup (bs.map Sym.batch ++ ls.map Sym.letter) (p ++ q)) =
        s.mapM (charLookup ls q) := by
  intro s
  induction s with
  | nil => rfl
  | cons c s ih => simp only [List.map_cons, List.mapM_cons, symLookup_letter c ls q bs p h, ih]

theorem unionAll_sub_atEnv {env : Env} (u : List (Name × Nat)) (p : List Nat) (hp : preOf u env = some p) :
    ∀ (xs : List NT), (xs.all fun x => SubDict x.inputs u) = true →
      ∀ (ins : List (List Char)) (ls : List Char) (q : List Nat),
        ∃ vals, xs.mapM (fun x => x.atEnv env) = some vals ∧
          ((((xs.zip ins).map fun xi => xi.1.names.map Sym.batch ++ xi.2.map Sym.letter).zip (xs.map (·.data))).map
            (symRead (u.map (fun p => Sym.batch p.1) ++ ls.map Sym.letter) (p ++ q)))
          = (vals.zip ins).map (charRead ls q) := by
  intro xs
  induction xs with
  | nil => intro _ ins ls q; exact ⟨[], rfl, by simp⟩
  | cons x xs ih =>
    intro hall ins ls q
    simp only [List.all_cons, Bool.and_eq_true] at hall
    cases ins with
    | nil => 
      obtain ⟨vals, hv, _⟩ := ih hall.2 [] ls q
      obtain ⟨g, hg, _⟩ := preOf_gather_some (env := env) [] u [] p (by simp [validIdx]) hp x.inputs (by simpa using hall.1)
      simp only [List.map_nil, bindEnv, List.nil_append] at hg
      have hx : x.atEnv env = some (x.row g) := by simp [NT.atEnv, hg]
      exact ⟨x.row g :: vals, by simp only [List.mapM_cons, hx, hv]; rfl, by simp⟩
    | cons s ins =>
      obtain ⟨vals, hv, heq⟩ := ih hall.2 ins ls q
      obtain ⟨g, hg, hgat⟩ := preOf_gather_some (env := env) [] u [] p (by simp [validIdx]) hp x.inputs (by simpa using hall.1)
      simp only [List.map_nil, bindEnv, List.nil_append] at hg hgat
      have hx : x.atEnv env = some (x.row g) := by simp [NT.atEnv, hg]
      refine ⟨x.row g :: vals, by simp only [List.mapM_cons, hx, hv]; rfl, ?_⟩
      have hlen : (u.map (·.1)).length = p.length := by simp [preOf_length hp]
      have hu : u.map (fun p => Sym.batch p.1) = (u.map (·.1)).map Sym.batch := by simp [List.map_map, Function.comp_def]
      simp only [List.zip_cons_cons, List.map_cons, heq, List.cons.injEq, and_true]
      unfold symRead charRead
      simp only
      rw [hu, mapM_append_opt, mapM_batch_gather ls q _ p hlen, mapM_letters ls q _ p hlen]
      simp only [NT.names, hgat]
      cases s.mapM (charLookup ls q) <;> simp [NT.row]

/-- **einsum.**  `eager_einsum` (fresh batch symbols, each operand prefixed by the symbols of its own
    inputs in its own order, the output by the union's) computes, at every binding of the inputs, the
    textbook einsum of the operands' event arrays. -/
theorem einsum_sem (ins : List (List Char)) (outL contracted : List Char) (csizes outShape : List Nat)
    (xs : List NT) (r : NT) (env : Env)
    (h : einsumNT ins outL contracted csizes outShape xs = some r) (hpre : (preOf r.inputs env).isSome) :
    ∃ vals, xs.mapM (fun x => x.atEnv env) = some vals ∧
      r.atEnv env = some (semEinsum ins outL contracted csizes outShape vals) := by
  unfold einsumNT at h
  generalize unionAll xs = u at h
  simp only [Bool.and_eq_true] at h
  split at h
  · rename_i hc
    cases h
    obtain ⟨p, hp⟩ := Option.isSome_iff_exists.mp hpre
    simp only at hp
    obtain ⟨vals, hv, _⟩ := unionAll_sub_atEnv u p hp xs hc.1 ins [] []
    refine ⟨vals, hv, ?_⟩
    simp only [NT.atEnv, hp, Option.map_some, NT.row, semEinsum, Option.some.injEq, Sem.mk.injEq, true_and]
    funext oi
    unfold npEinsum
    congr 2
    apply List.map_congr_left
    intro asg _
    congr 1
    obtain ⟨vals', hv', heq⟩ := unionAll_sub_atEnv u p hp xs hc.1 ins (outL ++ contracted) (oi ++ asg)
    rw [hv] at hv'; cases hv'
    simpa [List.append_assoc, List.map_append] using heq
  · cases h

/-- non-vacuity: "ab,b->a" with operands whose inputs come in different orders -/
def exE1 : NT := ofTensor [("i", 2), ("j", 2)] [2, 2] #[1, 2, 3, 4, 5, 6, 7, 8, 1, 0, 0, 1, 2, 0, 0, 2]
def exE2 : NT := ofTensor [("j", 2)] [2] #[1, 1, 1, 2]
example : ((einsumNT [['a', 'b'], ['b']] ['a'] ['b'] [2] [2] [exE1, exE2]).map fun r => (r.inputs, r.shape, r.flat)) =
    some ([("i", 2), ("j", 2)], [2], [3, 7, 17, 23, 1, 1, 2, 4]) := by decide +kernel

end FV.Props.C01
