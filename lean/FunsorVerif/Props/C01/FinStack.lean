/-
  Props/C01/FinStack.lean — eager_finitary_stack (funsor/tensor.py; model `finStack`, Model/C01Fin.lean).

  `finStack_sem`: whenever the rule returns, then at every assignment of the result's inputs every part is
  defined, and the result is the textbook `np.stack(values of the parts, axis = d)` — at EVERY index, for any
  number of parts, any inputs (shared, disjoint, in any order) and any event rank.
-/
import FunsorVerif.Props.C01.Ops
import FunsorVerif.Model.C01Fin
namespace FV.Props.C01
open FV FV.C01

/-- A part read through a larger dictionary is its own row at the assignment. -/
theorem part_atEnv {env : Env} (x : NT) (u : List (Name × Nat)) (p : List Nat)
    (hp : preOf u env = some p) (hs : SubDict x.inputs u = true) :
    ∃ g, x.atEnv env = some (x.row g) ∧ ∀ ev, x.readAt (u.map (·.1)) p ev = (x.row g).get ev := by
  obtain ⟨g, hg, hr⟩ := readAt_eq0 x u p hp hs
  exact ⟨g, by simp [NT.atEnv, hg], fun ev => by simp [NT.row, hr]⟩

/-- eager_finitary_stack denotes the textbook stack of the parts' values along event axis `d`. -/
theorem finStack_sem (d : Nat) (parts : List NT) (r : NT) (env : Env)
    (h : finStack d parts = some r) (hpre : (preOf r.inputs env).isSome) :
    ∃ vals : List Sem, parts.map (fun p => p.atEnv env) = vals.map some ∧
      r.atEnv env = some (stackAt d vals) := by
  unfold finStack at h
  split at h
  · cases h
  · rename_i p0 ps
    generalize unionAll (p0 :: ps) = u at h
    simp only at h
    split at h
    · rename_i hall
      cases h
      simp only [Bool.and_eq_true, decide_eq_true_eq] at hall
      obtain ⟨p, hp⟩ := Option.isSome_iff_exists.mp hpre
      simp only at hp
      have hlen := preOf_length hp
      have hparts : ∀ q ∈ (p0 :: ps), q.shape = p0.shape ∧
          ∃ g, q.atEnv env = some (q.row g) ∧ ∀ ev, q.readAt (u.map (·.1)) p ev = (q.row g).get ev := by
        intro q hq
        have hchk := (List.all_eq_true.mp hall.2) q hq
        simp only [Bool.and_eq_true, beq_iff_eq] at hchk
        exact ⟨hchk.1.2, part_atEnv q u p hp hchk.1.1⟩
      let dflt : Sem := ⟨[], fun _ => XR.nan⟩
      refine ⟨(p0 :: ps).map (fun q => (q.atEnv env).getD dflt), ?_, ?_⟩
      · rw [List.map_map]
        apply List.map_congr_left
        intro q hq
        obtain ⟨_, g, hg, _⟩ := hparts q hq
        simp [hg]
      · obtain ⟨_, g0, hg0, _⟩ := hparts p0 List.mem_cons_self
        simp only [NT.atEnv, hp, Option.map_some, NT.row, stackAt, Option.some.injEq, Sem.mk.injEq]
        constructor
        · simp only [List.map_cons, List.length_cons, List.length_map]
          simp only [NT.atEnv] at hg0
          rw [hg0]; rfl
        · funext ev
          simp only [← hlen, List.take_left', List.drop_left']
          cases hi : ev[d]? with
          | none => rfl
          | some i =>
            simp only [List.getElem?_map]
            cases hq : (p0 :: ps)[i]? with
            | none => rfl
            | some q =>
              obtain ⟨_, g, hg, hr⟩ := hparts q (List.mem_of_getElem? hq)
              simp only [NT.atEnv] at hg
              simp only [Option.map_some, hg, Option.getD_some, hr]
    · cases h

/-- Corollary in pointwise form: entry `ev` of the result is entry `ev` minus its `d`-th coordinate of the part
    selected by that coordinate. -/
theorem finStack_get (d : Nat) (parts : List NT) (r : NT) (env : Env)
    (h : finStack d parts = some r) (hpre : (preOf r.inputs env).isSome)
    (ev : List Nat) (i : Nat) (q : NT) (hi : ev[d]? = some i) (hq : parts[i]? = some q) :
    ∃ s v, r.atEnv env = some s ∧ q.atEnv env = some v ∧ s.get ev = v.get (ev.eraseIdx d) := by
  obtain ⟨vals, hv, hr⟩ := finStack_sem d parts r env h hpre
  have h1 : (parts.map (fun p => p.atEnv env))[i]? = some (q.atEnv env) := by simp [hq]
  rw [hv, List.getElem?_map] at h1
  cases hvi : vals[i]? with
  | none => rw [hvi] at h1; cases h1
  | some v =>
    rw [hvi] at h1
    simp only [Option.map_some, Option.some.injEq] at h1
    exact ⟨_, v, hr, h1.symm, by simp [stackAt, hi, hvi]⟩

/-! ### Non-vacuity: parts with the same inputs in different orders (and a size-1 input only one part has),
     stacked at axis 0 and at axis 1 -/
def fsA : NT := ofTensor [("i", 2), ("j", 3)] [2] #[1, 2, 3, 4, 5, 6, 7, 8, 9, 10, 11, 12]
def fsB : NT := ofTensor [("j", 3), ("i", 2)] [2] #[1, 0, 2, 0, 3, 0, 4, 0, 5, 0, 6, 0]
def fsC : NT := ofTensor [("k", 1), ("j", 3), ("i", 2)] [2] #[1, 0, 2, 0, 3, 0, 4, 0, 5, 0, 7, 0]
def fsD : NT := ofTensor [("j", 3), ("k", 2)] [2] #[1, 0, 2, 0, 3, 0, 4, 0, 5, 0, 6, 0]
def fsEnv : Env := [("i", Sem.ofNat 1), ("j", Sem.ofNat 2), ("k", Sem.ofNat 0)]
example : ((finStack 0 [fsA, fsB]).map fun r => (r.inputs, r.shape)) = some ([("i", 2), ("j", 3)], [2, 2]) := by
  decide
example : ((finStack 1 [fsA, fsC, fsB]).map fun r => (r.inputs, r.shape)) =
    some ([("i", 2), ("j", 3), ("k", 1)], [2, 3]) := by decide
example : ((finStack 1 [fsA, fsC, fsB]).bind fun r => preOf r.inputs fsEnv) = some [1, 2, 0] := by decide
example : ((finStack 1 [fsA, fsC, fsB]).bind fun r => (r.atEnv fsEnv).map Sem.table) =
    some [11, 7, 6, 12, 0, 0] := by decide +kernel
example : ((finStack 0 [fsA, fsB]).bind fun r => (r.atEnv fsEnv).map Sem.table) = some [11, 12, 6, 0] := by
  decide +kernel
/-- declines: unequal event shapes, an out-of-range axis, an input of size > 1 that a part lacks (numpy raises:
    `align_tensors` is called without `expand=True`) -/
example : finStack 0 [fsA, ofNumber 1] = none := by decide
example : finStack 2 [fsA, fsB] = none := by decide
example : finStack 0 [fsA, fsD] = none := by decide

end FV.Props.C01
