/-
  Props/C01/Independent.lean — `independent_sem`: Independent(fn, x, i, x_i) with `x` bound to a tensor
  equals Σ_i fn(x_i = x[i]) (diagonal extraction `x[i]` = eager_getitem_tensor_variable, the body evaluated
  with the real variable bound to that tensor, the named input summed out), for binder-free pointwise bodies
  (`pevalR`); `pevalR_sound`.
-/
import FunsorVerif.Props.C01.Phi
namespace FV.Props.C01
open FV FV.C01

/-- Eager evaluation of a binder-free pointwise body with one real variable bound to a tensor. -/
theorem pevalR_sound (dv : Name) (w : NT) : ∀ (t : Term) (r : NT), pevalR dv w t = some r →
    ∀ env, (preOf r.inputs env).isSome →
      ((preOf w.inputs env).isSome → w.atEnv env = env.lookup dv) → r.atEnv env = denote t env
  | Term.var n d, r, h, env, hp, hw => by
    simp only [pevalR] at h
    split at h
    · rename_i hn
      cases h
      have : n = dv := by simpa using hn
      subst this
      simp only [denote]; exact hw hp
    · cases h
  | Term.num v dt, r, h, env, _, _ => by
    simp only [pevalR, Option.some.injEq] at h; subst h
    simp [denote, ofNumber, NT.atEnv, preOf, NT.row, Sem.scalar]
  | Term.tensor inputs dom data, r, h, env, _, _ => by
    simp only [pevalR, Option.some.injEq] at h; subst h
    exact tensor_sem inputs dom data env
  | Term.unary op a, r, h, env, hp, hw => by
    simp only [pevalR] at h
    split at h
    · rename_i ra hra
      have hs := unaryOp_sem op ra r env h hp
      have hsome : (ra.atEnv env).isSome := by
        have : (r.atEnv env).isSome := by rw [atEnv_isSome]; exact hp
        rw [hs] at this
        cases hx : ra.atEnv env with
        | none => rw [hx] at this; simp at this
        | some _ => rfl
      rw [atEnv_isSome] at hsome
      rw [hs, pevalR_sound dv w a ra hra env hsome hw]
      simp only [denote]
    · cases h
  | Term.binary op l rr, r, h, env, hp, hw => by
    simp only [pevalR] at h
    split at h
    · cases h
    · split at h
      · rename_i a b ha hb
        have hs := binary_sem op a b r env h hp
        have hsome : (r.atEnv env).isSome := by rw [atEnv_isSome]; exact hp
        rw [hs] at hsome
        cases hx : a.atEnv env with
        | none => rw [hx] at hsome; simp at hsome
        | some x =>
          cases hy : b.atEnv env with
          | none => rw [hx, hy] at hsome; simp at hsome
          | some y =>
            have hpa : (preOf a.inputs env).isSome := by rw [← atEnv_isSome, hx]; rfl
            have hpb : (preOf b.inputs env).isSome := by rw [← atEnv_isSome, hy]; rfl
            rw [hs, hx, hy]
            simp only [denote, ← pevalR_sound dv w l a ha env hpa hw, ← pevalR_sound dv w rr b hb env hpb hw, hx, hy]
      · cases h
  | Term.reduce _ _ _, r, h, _, _, _ => by simp [pevalR] at h
  | Term.subs _ _, r, h, _, _, _ => by simp [pevalR] at h
  | Term.slice _ _ _ _ _, r, h, _, _, _ => by simp [pevalR] at h
  | Term.stack _ _, r, h, _, _, _ => by simp [pevalR] at h
  | Term.cat _ _ _ _, r, h, _, _, _ => by simp [pevalR] at h
  | Term.lambda _ _ _, r, h, _, _, _ => by simp [pevalR] at h
  | Term.independent _ _ _ _ _, r, h, _, _, _ => by simp [pevalR] at h
  | Term.align _ _, r, h, _, _, _ => by simp [pevalR] at h
  | Term.contraction _ _ _ _, r, h, _, _, _ => by simp [pevalR] at h
  | Term.finitary _ _, r, h, _, _, _ => by simp [pevalR] at h
  | Term.delta _, r, h, _, _, _ => by simp [pevalR] at h

theorem flatMap_single {α β : Type} (f : α → β) : ∀ (l : List α), l.flatMap (fun i => [f i]) = l.map f := by
  intro l; induction l with
  | nil => rfl
  | cons x l ih => simp [List.flatMap_cons, ih]

theorem allIdx_single (n : Nat) : allIdx [n] = (List.range n).map (fun i => [i]) := by
  simp only [allIdx, List.map_cons, List.map_nil]
  exact flatMap_single (fun i => [i]) _

theorem atEnv_cons_notin (a : NT) (k : Name) (v : Sem) (env : Env) (h : a.names.contains k = false) :
    a.atEnv ((k, v) :: env) = a.atEnv env := by
  have hn : ¬ k ∈ a.inputs.map (·.1) := by simpa [NT.names] using h
  simp only [NT.atEnv, preOf_cons_notin k v env a.inputs hn]

/-- **Independent.**  Once `reals_var` is bound to the tensor `v` (value `x` at `env`), the eager result
    — diagonal extraction `v[bint_var]`, the body evaluated with `diag_var` bound to it, the named input
    summed out — is the textbook value `Σ_i fn(diag_var = x[i], bint_var = i)`. -/
theorem independent_sem (fn : Term) (rv bv dv : Name) (size : Nat) (v r : NT) (env : Env) (x : Sem)
    (h : pevalIndependent fn rv bv dv size v = some r) (hpre : (preOf r.inputs env).isSome)
    (hx : v.atEnv env = some x) :
    r.atEnv env = denote (Term.independent fn rv bv dv size) ((rv, x) :: env) := by
  unfold pevalIndependent at h
  split at h
  · cases h
  · rename_i hc
    simp only [Bool.or_eq_true, not_or, Bool.not_eq_true] at hc
    obtain ⟨⟨⟨hdb, hvd⟩, hvb⟩, hvr⟩ := hc
    split at h
    · cases h
    · rename_i w hw
      split at h
      · cases h
      · rename_i f hf
        split at h
        · cases h
        · rename_i hfc
          simp only [Bool.or_eq_true, not_or, Bool.not_eq_true] at hfc
          obtain ⟨hfd, hfr⟩ := hfc
          have hs := eagerReduce_sem "add" [(bv, size)] f r env h hpre
          simp only [List.map_cons, List.map_nil, allIdx_single, List.map_map, Function.comp_def, bindEnv,
            List.cons_append, List.nil_append] at hs
          have hdbne : (dv == bv) = false := hdb
          -- the body at each i
          have hbody : ∀ e', (preOf f.inputs e').isSome → ∀ i, e' = (bv, Sem.ofNat i) :: env →
              f.atEnv e' = denote fn ((dv, ⟨x.shape.drop 1, fun idx => x.get (i :: idx)⟩) ::
                (bv, Sem.ofNat i) :: (rv, x) :: env) := by
            intro e' hpf i he'
            subst he'
            let e2 : Env := (dv, ⟨x.shape.drop 1, fun idx => x.get (i :: idx)⟩) :: (bv, Sem.ofNat i) :: (rv, x) :: env
            have hf12 : f.atEnv ((bv, Sem.ofNat i) :: env) = f.atEnv e2 := by
              have hn1 : ¬ dv ∈ f.inputs.map (·.1) := by simpa [NT.names] using hfd
              have hn2 : ¬ rv ∈ f.inputs.map (·.1) := by simpa [NT.names] using hfr
              simp only [NT.atEnv, e2]
              rw [preOf_cons_notin dv _ _ f.inputs hn1]
              congr 1
              apply preOf_congr
              intro q hq
              have hqr : (rv == q.1) = false := by
                have : rv ≠ q.1 := fun e => hn2 (by rw [e]; exact List.mem_map_of_mem hq)
                simpa using this
              simp only [envIdx, Env.lookup, hqr]
              by_cases hb : (bv == q.1) = true <;> simp [hb]
            rw [hf12]
            have hpf2 : (preOf f.inputs e2).isSome := by rw [← atEnv_isSome, ← hf12, atEnv_isSome]; exact hpf
            apply pevalR_sound dv w fn f hf e2 hpf2
            intro hpw
            -- diagonal extraction: w = v[bv]
            have hsw := getitem_semI 0 v (rangeNT bv 0 1 size) w e2 hw hpw
            have hv2 : v.atEnv e2 = some x := by
              simp only [e2]
              rw [atEnv_cons_notin v dv _ _ hvd, atEnv_cons_notin v bv _ _ hvb, atEnv_cons_notin v rv _ _ hvr]
              exact hx
            have hidx : idxAt (rangeNT bv 0 1 size) e2 = some i := by
              have hsome : (w.atEnv e2).isSome := by rw [atEnv_isSome]; exact hpw
              rw [hsw, hv2] at hsome
              cases hk : idxAt (rangeNT bv 0 1 size) e2 with
              | none => rw [hk] at hsome; simp at hsome
              | some k =>
                have hpr : (preOf (rangeNT bv 0 1 size).inputs e2).isSome := by
                  rw [← atEnv_isSome]
                  unfold idxAt at hk
                  cases hb : (rangeNT bv 0 1 size).atEnv e2 with
                  | none => rw [hb] at hk; simp at hk
                  | some _ => rfl
                have := rangeNT_idx bv 0 1 size e2 hpr
                rw [hk] at this
                simp only [e2, Env.lookup, hdbne, BEq.rfl, if_true, Bool.false_eq_true, if_false,
                  Option.bind_some, toNat_ofNat, Option.map_some, Nat.zero_add, Nat.one_mul] at this
                exact this
            rw [hsw, hv2, hidx]
            have hsome : (w.atEnv e2).isSome := by rw [atEnv_isSome]; exact hpw
            rw [hsw, hv2, hidx] at hsome
            simp only [e2, Env.lookup, BEq.rfl, if_true]
            simp only [Sem.getitem] at hsome ⊢
            cases hd : x.shape[0]? with
            | none => rw [hd] at hsome; simp at hsome
            | some d =>
              rw [hd] at hsome
              by_cases hid : i < d
              · simp [hid]
              · simp [hid] at hsome
          -- assemble
          have hsome : (r.atEnv env).isSome := by rw [atEnv_isSome]; exact hpre
          rw [hs] at hsome
          cases hall : atAll f ((List.range size).map fun i => (bv, Sem.ofNat i) :: env) with
          | none => rw [hall] at hsome; simp at hsome
          | some vals =>
            have hpres := atAll_some_pre f _ _ hall
            have hden : denoteAll fn ((List.range size).map fun i =>
                (dv, ⟨x.shape.drop 1, fun idx => x.get (i :: idx)⟩) :: (bv, Sem.ofNat i) :: (rv, x) :: env) = some vals := by
              clear hs hsome
              have key : ∀ (l : List Nat) (vals : List Sem),
                  atAll f (l.map fun i => (bv, Sem.ofNat i) :: env) = some vals →
                  denoteAll fn (l.map fun i =>
                    (dv, ⟨x.shape.drop 1, fun idx => x.get (i :: idx)⟩) :: (bv, Sem.ofNat i) :: (rv, x) :: env) = some vals := by
                intro l
                induction l with
                | nil => intro vals h; simpa [atAll, denoteAll] using h
                | cons i l ih =>
                  intro vals h
                  have hp0 := atAll_some_pre f _ _ h ((bv, Sem.ofNat i) :: env) (by simp)
                  simp only [List.map_cons, atAll] at h
                  split at h
                  · rename_i v0 vs hv0 hvs
                    cases h
                    simp only [List.map_cons, denoteAll, ← hbody _ hp0 i rfl, hv0, ih vs hvs]
                  · cases h
              exact key _ _ hall
            rw [hs, hall]
            simp only [denote, Env.lookup, BEq.rfl, if_true, hden]
            cases vals with
            | nil => rfl
            | cons v0 vs => rfl

end FV.Props.C01
