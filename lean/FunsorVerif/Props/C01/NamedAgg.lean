/-
  Props/C01/NamedAgg.lean — named reductions with non-associative aggregates (Funsor.reduce with ops.mean / var /
  std, or any aggregate): `reduceNamedWith_sem`; requested variables the argument does not mention REPLICATE the
  block, which replication-invariant aggregates ignore (`ReplInv`: max/min folds `replInv_max/min`; mean and variance
  over ℚ `mean_unrelated`, `var_unrelated`; the model-level statement `reduceNamedWith_absent`) and the sum does not
  (`sum_not_replInv`; its factor is `scale_eq_rep`).
-/
import FunsorVerif.Props.C01.Aggregates
import Mathlib.Tactic.FieldSimp
namespace FV.Props.C01
open FV FV.C01

/-- Named reduction with ANY aggregate: the aggregate, entry by entry, of the argument's values over all
    assignments of the requested variables (present or not). -/
theorem reduceNamedWith_sem (agg : List XR → XR) (vars : List (Name × Nat)) (a r : NT) (env : Env)
    (h : reduceNamedWith agg vars a = some r) (hpre : (preOf r.inputs env).isSome) :
    ∃ vals, atAll a ((allIdx (vars.map (·.2))).map fun asg => bindEnv (vars.map (·.1)) asg ++ env) = some vals ∧
      r.atEnv env = some ⟨a.shape, fun i => agg (vals.map (·.get i))⟩ := by
  unfold reduceNamedWith at h
  generalize a.inputs.filter (fun p => !(vars.map (·.1)).contains p.1) = keep at h
  simp only [Bool.and_eq_true] at h
  split at h
  · rename_i hc
    obtain ⟨hs, hpos⟩ := hc
    cases h
    obtain ⟨p, hp⟩ := Option.isSome_iff_exists.mp hpre
    simp only at hp
    have hlen := preOf_length hp
    have hall : ∀ asg ∈ allIdx (vars.map (·.2)),
        a.atEnv (bindEnv (vars.map (·.1)) asg ++ env) =
          some ⟨a.shape, fun ev => a.readAt (vars.map (·.1) ++ keep.map (·.1)) (asg ++ p) ev⟩ := by
      intro asg hasg
      obtain ⟨g, hg, hr⟩ := readAt_eq (env := env) a vars keep asg p (allIdx_valid _ _ hasg) hp hs
      simp only [NT.atEnv, hg, Option.map_some, NT.row, hr]
    refine ⟨_, atAll_map a _ _ _ hall, ?_⟩
    simp only [NT.atEnv, hp, Option.map_some, NT.row, Option.some.injEq, Sem.mk.injEq, true_and]
    funext ev
    simp only [← hlen, List.take_left', List.drop_left', List.map_map, Function.comp_def]
  · cases h

/-- An aggregate is replication-invariant when repeating every assignment of a block uniformly (the variables a
    mask drops) does not change it. -/
def ReplInv (agg : List XR → XR) : Prop :=
  ∀ (mask : List Bool) (sizes : List Nat), mask.length = sizes.length →
    (sizes.all fun s => decide (0 < s)) = true → ∀ (g : List Nat → XR),
      agg ((allIdx sizes).map fun asg => g (projMask mask asg)) = agg ((allIdx (projMask mask sizes)).map g)

/-- Folds of idempotent commutative monoids (max, min) are replication-invariant … -/
theorem replInv_idem {F : XR → XR → XR} {U : XR} (h : CMon F U) (hid : ∀ x, F x x = x) : ReplInv (mf F U) := by
  intro mask sizes hl hpos g
  rw [fold_unrelated h mask sizes hl g]
  congr 1
  apply List.map_congr_left
  intro j _
  exact rep_idem_gen h hid _ _ (absProd_pos mask sizes hpos)

theorem replInv_max : ReplInv (mf XR.max XR.ninf) := replInv_idem cmon_max XR.max_idem'
theorem replInv_min : ReplInv (mf XR.min XR.pinf) := replInv_idem cmon_min XR.min_idem'

/-- … the sum is NOT: every absent variable multiplies it by its size. -/
theorem sum_not_replInv : ¬ ReplInv (mf XR.add 0) := by
  intro h
  have := h [false] [2] rfl (by decide) (fun _ => 1)
  revert this
  decide +kernel

theorem cmon_ratAdd : CMon (fun a b : Rat => a + b) 0 := ⟨fun a b c => add_assoc a b c, fun a b => add_comm a b, fun a => zero_add a⟩

theorem mf_ratAdd_sum (l : List Rat) : mf (fun a b : Rat => a + b) 0 l = l.sum := by
  induction l with
  | nil => rfl
  | cons x l ih => rw [mf_cons cmon_ratAdd, ih, List.sum_cons]

theorem rep_ratAdd (x : Rat) (m : Nat) : rep (fun a b : Rat => a + b) 0 x m = m * x := by
  induction m with
  | zero => simp [rep]
  | succ m ih => simp only [rep, ih]; push_cast; ring

theorem prodList_split : ∀ (mask : List Bool) (sizes : List Nat), mask.length = sizes.length →
    prodList sizes = absProd mask sizes * prodList (projMask mask sizes) := by
  intro mask
  induction mask with
  | nil => intro sizes h; cases sizes with
    | nil => simp [absProd, projMask, prodList]
    | cons _ _ => simp at h
  | cons b bs ih =>
    intro sizes h
    cases sizes with
    | nil => simp at h
    | cons s ss =>
      have := ih ss (by simpa using h)
      cases b
      · simp only [absProd, projMask, prodList_cons, this]; ring
      · simp only [absProd, projMask, prodList_cons, this]; ring

/-- The mean of a block is unchanged by variables the expression does not mention (carrier ℚ):
    sum and count are both multiplied by the number of their assignments. -/
theorem mean_unrelated (mask : List Bool) (sizes : List Nat) (hl : mask.length = sizes.length)
    (hpos : (sizes.all fun s => decide (0 < s)) = true) (g : List Nat → Rat) :
    ((allIdx sizes).map fun asg => g (projMask mask asg)).sum / ((allIdx sizes).length : Rat) =
    ((allIdx (projMask mask sizes)).map g).sum / ((allIdx (projMask mask sizes)).length : Rat) := by
  have hm : 0 < absProd mask sizes := absProd_pos mask sizes hpos
  have hsum : ((allIdx sizes).map fun asg => g (projMask mask asg)).sum =
      (absProd mask sizes : Rat) * ((allIdx (projMask mask sizes)).map g).sum := by
    rw [← mf_ratAdd_sum, fold_unrelated cmon_ratAdd mask sizes hl g, mf_ratAdd_sum]
    simp only [rep_ratAdd]
    generalize allIdx (projMask mask sizes) = L
    induction L with
    | nil => simp
    | cons j L ih => simp only [List.map_cons, List.sum_cons, ih]; ring
  rw [hsum, allIdx_length, allIdx_length, prodList_split mask sizes hl]
  push_cast
  have hm' : (absProd mask sizes : Rat) ≠ 0 := by exact_mod_cast hm.ne'
  rw [mul_div_mul_left _ _ hm']

/-- … hence so is the variance E[x²] − E[x]² (and std = sqrt of it, for any scalar function sqrt). -/
theorem var_unrelated (mask : List Bool) (sizes : List Nat) (hl : mask.length = sizes.length)
    (hpos : (sizes.all fun s => decide (0 < s)) = true) (g : List Nat → Rat) :
    ((allIdx sizes).map fun asg => g (projMask mask asg) ^ 2).sum / ((allIdx sizes).length : Rat) -
      (((allIdx sizes).map fun asg => g (projMask mask asg)).sum / ((allIdx sizes).length : Rat)) ^ 2 =
    ((allIdx (projMask mask sizes)).map fun j => g j ^ 2).sum / ((allIdx (projMask mask sizes)).length : Rat) -
      (((allIdx (projMask mask sizes)).map g).sum / ((allIdx (projMask mask sizes)).length : Rat)) ^ 2 := by
  rw [mean_unrelated mask sizes hl hpos g, mean_unrelated mask sizes hl hpos (fun j => g j ^ 2)]

theorem projMask_length {α β : Type} : ∀ (mask : List Bool) (l1 : List α) (l2 : List β), l1.length = l2.length →
    (projMask mask l1).length = (projMask mask l2).length := by
  intro mask
  induction mask with
  | nil => intro l1 l2 _; cases l1 <;> cases l2 <;> simp [projMask]
  | cons b bs ih =>
    intro l1 l2 h
    cases l1 with
    | nil => cases l2 with
      | nil => cases b <;> simp [projMask]
      | cons _ _ => simp at h
    | cons x l1 => cases l2 with
      | nil => simp at h
      | cons y l2 =>
        have := ih l1 l2 (by simpa using h)
        cases b <;> simp [projMask, this]

/-- Dropping the coordinates of variables the operand does not mention does not change what is read. -/
theorem gather_projMask (xsAll : List Name) (names K : List Name) (asg p : List Nat) (hlen : names.length = asg.length) :
    ∀ (xs : List Name), (∀ x ∈ xs, xsAll.contains x = true) →
      gather (names ++ K) (asg ++ p) xs =
      gather (projMask (names.map fun n => xsAll.contains n) names ++ K)
        (projMask (names.map fun n => xsAll.contains n) asg ++ p) xs := by
  intro xs
  induction xs with
  | nil => intro _; rfl
  | cons x xs ih =>
    intro hx
    have hx0 := hx x List.mem_cons_self
    have hl2 := projMask_length (names.map fun n => xsAll.contains n) names asg hlen
    have hhead : lookupPos (names ++ K) (asg ++ p) x =
        lookupPos (projMask (names.map fun n => xsAll.contains n) names ++ K)
          (projMask (names.map fun n => xsAll.contains n) asg ++ p) x := by
      rw [lookupPos_append _ _ _ _ _ hlen, lookupPos_append _ _ _ _ _ hl2,
        lookupPos_projMask (fun n => xsAll.contains n) x hx0 names asg]
    simp only [gather, hhead, ih (fun y hy => hx y (List.mem_cons_of_mem _ hy))]

theorem validIdx_len {i s : List Nat} (h : validIdx i s = true) : i.length = s.length := validIdx_length i s h

/-- **Absent variables under a replication-invariant aggregate** (mean, var, std, max, min): requesting, besides
    some of its own inputs, variables the argument does not mention gives the same tensor as requesting only the
    own ones.  (For the sum it does not: `sum_not_replInv`, the factor is `scale_eq_rep`.) -/
theorem reduceNamedWith_absent (agg : List XR → XR) (hinv : ReplInv agg) (vars : List (Name × Nat)) (a r r' : NT)
    (h : reduceNamedWith agg vars a = some r)
    (h' : reduceNamedWith agg (vars.filter fun p => a.names.contains p.1) a = some r') :
    r.inputs = r'.inputs ∧ r.shape = r'.shape ∧ ∀ idx, r.data idx = r'.data idx := by
  have hkeep : a.inputs.filter (fun p => !((vars.filter fun p => a.names.contains p.1).map (·.1)).contains p.1) =
      a.inputs.filter (fun p => !(vars.map (·.1)).contains p.1) := by
    apply List.filter_congr
    intro q hq
    have hqn : a.names.contains q.1 = true := by
      simp only [NT.names, List.contains_eq_mem, List.mem_map, decide_eq_true_eq]; exact ⟨q, hq, rfl⟩
    congr 1
    simp only [List.contains_eq_mem, List.mem_map, List.mem_filter, decide_eq_decide]
    constructor
    · rintro ⟨e, ⟨he, _⟩, heq⟩; exact ⟨e, he, heq⟩
    · rintro ⟨e, he, heq⟩
      refine ⟨e, ⟨he, ?_⟩, heq⟩
      rw [heq]; simpa using hqn
  unfold reduceNamedWith at h h'
  rw [hkeep] at h'
  generalize a.inputs.filter (fun p => !(vars.map (·.1)).contains p.1) = keep at h h'
  simp only [Bool.and_eq_true] at h h'
  split at h
  · rename_i hc
    split at h'
    · cases h; cases h'
      refine ⟨rfl, rfl, ?_⟩
      intro idx
      simp only
      have hN := filter_map_projMask (fun p : Name × Nat => a.names.contains p.1) (·.1) vars
      have hS := filter_map_projMask (fun p : Name × Nat => a.names.contains p.1) (·.2) vars
      have hmask : (vars.map fun p => a.names.contains p.1) = ((vars.map (·.1)).map fun n => a.names.contains n) := by
        simp [List.map_map, Function.comp_def]
      rw [hN, hS, hmask]
      have hl : ((vars.map (·.1)).map fun n => a.names.contains n).length = (vars.map (·.2)).length := by simp
      have hpos : ((vars.map (·.2)).all fun s => decide (0 < s)) = true := by simpa [List.all_map] using hc.2
      rw [← hinv _ _ hl hpos (fun j => a.readAt (projMask ((vars.map (·.1)).map fun n => a.names.contains n) (vars.map (·.1)) ++
          keep.map (·.1)) (j ++ idx.take keep.length) (idx.drop keep.length))]
      congr 1
      apply List.map_congr_left
      intro asg hasg
      have hlen : (vars.map (·.1)).length = asg.length := by
        have := validIdx_len (allIdx_valid _ _ hasg); simp_all
      simp only [NT.readAt]
      rw [gather_projMask a.names (vars.map (·.1)) (keep.map (·.1)) asg (idx.take keep.length) hlen a.names
        (fun x hx => by simpa using hx)]
    · cases h'
  · cases h

end FV.Props.C01
