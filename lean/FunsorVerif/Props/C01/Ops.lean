/-
  Props/C01/Ops.lean — denotation lemmas of the tensor operations of Model/C01.lean:
  `(op a b).atEnv env = op (a.atEnv env) (b.atEnv env)` with the right-hand side computed by the
  specification-level functions of Model/Term.lean (`evalUnary`, `evalBinary`, `Sem.foldList`, …),
  for all ranks / sizes / environments.
-/
import FunsorVerif.Props.C01.Basic
namespace FV.Props.C01
open FV FV.C01

theorem tensor_pre (env : Env) : ∀ (inputs : List (Name × Nat)),
    (match inputs.mapM (fun (p : Name × Nat) => (env.lookup p.1).bind Sem.toNat?) with
     | none => none
     | some pre => if (pre.zip (inputs.map (·.2))).all (fun (i, s) => decide (i < s)) then some pre else none)
    = preOf inputs env := by
  intro inputs
  induction inputs with
  | nil => simp [preOf]
  | cons hd rest ih =>
    obtain ⟨n, s⟩ := hd
    simp only [List.mapM_cons, preOf, envIdx]
    cases h1 : (env.lookup n).bind Sem.toNat? with
    | none => simp
    | some i =>
      simp only [Option.pure_def, Option.bind_eq_bind, Option.bind_some]
      rw [← ih]
      cases h2 : rest.mapM (fun (p : Name × Nat) => (env.lookup p.1).bind Sem.toNat?) with
      | none => simp
      | some pre =>
        simp only [Option.bind_some, List.map_cons, List.zip_cons_cons, List.all_cons]
        cases hall : (pre.zip (List.map (fun x => x.snd) rest)).all (fun (i, s) => decide (i < s)) <;>
          by_cases hi : i < s <;> simp [hi, hall]

/-- A `Tensor` leaf denotes what its positional model denotes. -/
theorem tensor_sem (inputs : List (Name × Nat)) (dom : Dom) (data : Array XR) (env : Env) :
    (ofTensor inputs dom.shape data).atEnv env = denote (Term.tensor inputs dom data) env := by
  simp only [denote, NT.atEnv, ofTensor]
  have h := tensor_pre env inputs
  cases hp : preOf inputs env with
  | none =>
    rw [hp] at h
    split at h
    · simp_all
    · rename_i pre hpre
      simp only [hpre]
      split at h
      · cases h
      · rename_i hall; simp [hall]
  | some p =>
    rw [hp] at h
    split at h
    · cases h
    · rename_i pre hpre
      simp only [hpre]
      split at h
      · rename_i hall; cases h; simp [hall, NT.row]; rfl
      · cases h

theorem mapM_some_of_forall {α β : Type} (f : α → Option β) :
    ∀ (l : List α), (∀ x ∈ l, (f x).isSome) → ∃ r, l.mapM f = some r := by
  intro l
  induction l with
  | nil => intro _; exact ⟨[], rfl⟩
  | cons a l ih =>
    intro h
    obtain ⟨r, hr⟩ := ih (fun x hx => h x (List.mem_cons_of_mem _ hx))
    have ha := h a (List.mem_cons_self)
    obtain ⟨b, hb⟩ := Option.isSome_iff_exists.mp ha
    exact ⟨b :: r, by simp [List.mapM_cons, hb, hr]⟩

theorem map?_total (f : XR → Option XR) (hf : ∀ x, (f x).isSome) (s : Sem) :
    s.map? f = some ⟨s.shape, fun i => (f (s.get i)).getD XR.nan⟩ := by
  unfold Sem.map?
  obtain ⟨r, hr⟩ := mapM_some_of_forall (fun i => f (s.get i)) (allIdx s.shape) (fun x _ => hf _)
  rw [hr]

theorem zip?_total (f : XR → XR → Option XR) (hf : ∀ x y, (f x y).isSome) (a b : Sem) (sh : List Nat)
    (hsh : broadcastShapes a.shape b.shape = some sh) :
    Sem.zip? f a b = some ⟨sh, fun i => (f (a.get (bcastIdx a.shape i)) (b.get (bcastIdx b.shape i))).getD XR.nan⟩ := by
  unfold Sem.zip?
  rw [hsh]
  obtain ⟨r, hr⟩ := mapM_some_of_forall
    (fun i => f (a.get (bcastIdx a.shape i)) (b.get (bcastIdx b.shape i))) (allIdx sh) (fun x _ => hf _ _)
  simp only [hr]

theorem unop_total {op : String} (h : pointwiseUn.contains op = true) (x : XR) : (unop op x).isSome := by
  simp only [pointwiseUn, List.contains_eq_mem, List.mem_cons, List.mem_nil_iff, or_false, decide_eq_true_eq] at h
  rcases h with h | h | h | h <;> subst h <;> simp [unop]

theorem binop_total {op : String} (h : pointwiseBin.contains op = true) (x y : XR) : (binop op x y).isSome := by
  simp only [pointwiseBin, List.contains_eq_mem, List.mem_cons, List.mem_nil_iff, or_false, decide_eq_true_eq] at h
  rcases h with h | h | h | h | h | h | h | h | h | h | h <;> subst h <;> simp [binop]

theorem evalUnary_pointwise (op : Op) (h : pointwiseUn.contains op.name = true) (s : Sem) :
    evalUnary op s = s.map? (unop op.name) := by
  simp only [pointwiseUn, List.contains_eq_mem, List.mem_cons, List.mem_nil_iff, or_false, decide_eq_true_eq] at h
  unfold evalUnary
  rcases h with h | h | h | h <;> rw [h] <;> simp [reductionOps, List.lookup]

theorem evalBinary_pointwise (op : Op) (h : pointwiseBin.contains op.name = true) (a b : Sem) :
    evalBinary op a b = Sem.zip? (binop op.name) a b := by
  simp only [pointwiseBin, List.contains_eq_mem, List.mem_cons, List.mem_nil_iff, or_false, decide_eq_true_eq] at h
  unfold evalBinary
  rcases h with h | h | h | h | h | h | h | h | h | h | h <;> rw [h] <;> rfl

/-- Tensor.eager_unary: pointwise on the data, inputs unchanged. -/
theorem unary_sem (op : Op) (a r : NT) (env : Env) (h : unary op.name a = some r) :
    r.atEnv env = (a.atEnv env).bind (evalUnary op) := by
  unfold unary at h
  split at h
  · rename_i hop
    cases h
    simp only [NT.atEnv]
    cases hp : preOf a.inputs env with
    | none => simp
    | some p =>
      simp only [Option.map_some, Option.bind_some]
      rw [evalUnary_pointwise op hop, map?_total _ (unop_total hop)]
      rfl
  · cases h

/-- eager_binary_tensor_tensor (and the Number variants): the union dictionary, both operands read
    through it, event shapes broadcast. -/
theorem binary_sem (op : Op) (a b r : NT) (env : Env) (h : binary op.name a b = some r)
    (hpre : (preOf r.inputs env).isSome) :
    r.atEnv env = (match a.atEnv env, b.atEnv env with
      | some x, some y => evalBinary op x y
      | _, _ => none) := by
  unfold binary at h
  generalize binInputs a b = u at h
  simp only [Bool.and_eq_true] at h
  split at h
  · rename_i hc
    obtain ⟨⟨hop, hsa⟩, hsb⟩ := hc
    split at h
    · cases h
    · rename_i sh hsh
      cases h
      obtain ⟨p, hp⟩ := Option.isSome_iff_exists.mp hpre
      simp only at hp
      obtain ⟨ga, hga, hra⟩ := readAt_eq0 a _ p hp hsa
      obtain ⟨gb, hgb, hrb⟩ := readAt_eq0 b _ p hp hsb
      have hlen := preOf_length hp
      simp only [NT.atEnv, hp, hga, hgb, Option.map_some]
      rw [evalBinary_pointwise op hop, zip?_total _ (binop_total hop) _ _ sh (by simpa [NT.row] using hsh)]
      simp only [NT.row, Option.some.injEq, Sem.mk.injEq, true_and]
      funext ev
      simp only [← hlen, List.take_left', List.drop_left', hra, hrb]
  · cases h

theorem allIdx_valid : ∀ (shape idx : List Nat), idx ∈ allIdx shape → validIdx idx shape = true := by
  intro shape
  induction shape with
  | nil => intro idx h; simp [allIdx] at h; subst h; rfl
  | cons s ss ih =>
    intro idx h
    simp only [allIdx, List.mem_flatMap, List.mem_range, List.mem_map] at h
    obtain ⟨i, hi, rest, hrest, rfl⟩ := h
    simp [validIdx, hi, ih rest hrest]

theorem allIdx_ne_nil : ∀ (shape : List Nat), (shape.all fun s => decide (0 < s)) = true → allIdx shape ≠ [] := by
  intro shape
  induction shape with
  | nil => intro _; simp [allIdx]
  | cons s ss ih =>
    intro h
    simp only [List.all_cons, Bool.and_eq_true, decide_eq_true_eq] at h
    have := ih h.2
    obtain ⟨x, xs, hx⟩ := List.exists_cons_of_ne_nil this
    intro hnil
    simp only [allIdx, List.flatMap_eq_nil_iff, List.mem_range, List.map_eq_nil_iff] at hnil
    exact this (hnil 0 h.1)

theorem atAll_map {α : Type} (a : NT) (f : α → Env) (g : α → Sem) :
    ∀ (l : List α), (∀ x ∈ l, a.atEnv (f x) = some (g x)) → atAll a (l.map f) = some (l.map g) := by
  intro l
  induction l with
  | nil => intro _; rfl
  | cons x l ih =>
    intro h
    simp only [List.map_cons, atAll, h x List.mem_cons_self,
      ih (fun y hy => h y (List.mem_cons_of_mem _ hy))]

theorem foldlM_binop_total {op : String} (hop : ∀ x y, (binop op x y).isSome) :
    ∀ (l : List XR) (x : XR), (l.foldlM (fun acc y => binop op acc y) x).isSome := by
  intro l
  induction l with
  | nil => intro x; simp [List.foldlM]
  | cons y l ih =>
    intro x
    obtain ⟨z, hz⟩ := Option.isSome_iff_exists.mp (hop x y)
    simp only [List.foldlM_cons, hz, Option.bind_eq_bind, Option.bind_some]
    exact ih z

theorem reduceOps_total {op : String} (h : reduceOps.contains op = true) (x y : XR) : (binop op x y).isSome := by
  simp only [reduceOps, List.contains_eq_mem, List.mem_cons, List.mem_nil_iff, or_false, decide_eq_true_eq] at h
  rcases h with h | h | h | h <;> subst h <;> simp [binop]

theorem foldOp_total {op : String} (h : reduceOps.contains op = true) (l : List XR) : (foldOp op l).isSome := by
  cases l with
  | nil =>
    simp only [reduceOps, List.contains_eq_mem, List.mem_cons, List.mem_nil_iff, or_false, decide_eq_true_eq] at h
    rcases h with h | h | h | h <;> subst h <;> simp [foldOp, unitOf]
  | cons x xs => exact foldlM_binop_total (reduceOps_total h) xs x

theorem foldList_total {op : String} (h : reduceOps.contains op = true) (shape : List Nat) (vals : List Sem) :
    Sem.foldList op shape vals = some ⟨shape, fun i => (foldOp op (vals.map (·.get i))).getD XR.nan⟩ := by
  unfold Sem.foldList
  obtain ⟨r, hr⟩ := mapM_some_of_forall (fun i => foldOp op (vals.map (·.get i))) (allIdx shape)
    (fun x _ => foldOp_total h _)
  simp only [hr]

/-- Tensor.eager_reduce (reduced variables all inputs of the argument): the reduced axes disappear
    and the value is the fold over all their assignments. -/
theorem reduce_sem (op : String) (vars : List (Name × Nat)) (a r : NT) (env : Env)
    (h : reduce op vars a = some r) (hpre : (preOf r.inputs env).isSome) :
    r.atEnv env =
      (match atAll a ((allIdx (vars.map (·.2))).map fun asg => bindEnv (vars.map (·.1)) asg ++ env) with
       | none => none
       | some [] => none
       | some (v :: vs) => Sem.foldList op v.shape (v :: vs)) := by
  unfold reduce at h
  generalize hkeep : a.inputs.filter (fun p => !(vars.map (·.1)).contains p.1) = keep at h
  simp only [Bool.and_eq_true] at h
  split at h
  · rename_i hc
    obtain ⟨⟨hop, hs⟩, hpos⟩ := hc
    cases h
    obtain ⟨p, hp⟩ := Option.isSome_iff_exists.mp hpre
    simp only at hp
    have hlen := preOf_length hp
    -- the argument at each assignment
    have hall : ∀ asg ∈ allIdx (vars.map (·.2)),
        a.atEnv (bindEnv (vars.map (·.1)) asg ++ env) =
          some ⟨a.shape, fun ev => a.readAt (vars.map (·.1) ++ keep.map (·.1)) (asg ++ p) ev⟩ := by
      intro asg hasg
      obtain ⟨g, hg, hr⟩ := readAt_eq (env := env) a vars keep asg p (allIdx_valid _ _ hasg) hp hs
      simp only [NT.atEnv, hg, Option.map_some, NT.row, hr]
    rw [atAll_map a _ _ _ hall]
    have hne : allIdx (vars.map (·.2)) ≠ [] := allIdx_ne_nil _ (by simpa [List.all_map] using hpos)
    obtain ⟨asg0, asgs, hcons⟩ := List.exists_cons_of_ne_nil hne
    rw [hcons]
    simp only [List.map_cons]
    rw [foldList_total hop]
    simp only [NT.atEnv, hp, Option.map_some, NT.row, Option.some.injEq, Sem.mk.injEq, true_and]
    funext ev
    simp only [← hlen, List.take_left', List.drop_left', List.map_cons, List.map_map]
    rfl
  · cases h

theorem preOf_congr (e1 e2 : Env) : ∀ (l : List (Name × Nat)),
    (∀ p ∈ l, envIdx e1 p.1 p.2 = envIdx e2 p.1 p.2) → preOf l e1 = preOf l e2 := by
  intro l
  induction l with
  | nil => intro _; rfl
  | cons hd l ih =>
    intro h
    simp only [preOf, h hd List.mem_cons_self, ih (fun p hp => h p (List.mem_cons_of_mem _ hp))]

theorem lookup_some_of_mem : ∀ (l : List (Name × Nat)) (p : Name × Nat), p ∈ l → ∃ s, l.lookup p.1 = some s := by
  intro l
  induction l with
  | nil => intro p h; cases h
  | cons hd l ih =>
    intro p h
    obtain ⟨k, s'⟩ := hd
    simp only [List.lookup_cons]
    by_cases hk : p.1 == k
    · exact ⟨s', by simp [hk]⟩
    · simp only [hk]
      rcases List.mem_cons.mp h with h | h
      · subst h; simp at hk
      · exact ih p h

/-- `hit` of `subsNum`: positions of the substituted names that are inputs of `a`. -/
theorem lookupPos_hit (inputs : List (Name × Nat)) (n : Name) (hn : ∃ s, inputs.lookup n = some s) :
    ∀ (σ : List (Name × Nat)),
      lookupPos ((σ.filterMap fun p => (inputs.lookup p.1).map fun s => (p.1, p.2, s)).map (·.1))
                ((σ.filterMap fun p => (inputs.lookup p.1).map fun s => (p.1, p.2, s)).map (·.2.1)) n
      = lookupPos (σ.map (·.1)) (σ.map (·.2)) n := by
  intro σ
  induction σ with
  | nil => rfl
  | cons hd σ ih =>
    obtain ⟨k, i⟩ := hd
    simp only [List.filterMap_cons, List.map_cons, lookupPos]
    cases hk : inputs.lookup k with
    | some sk =>
      simp only [Option.map_some, List.map_cons, lookupPos]
      by_cases hnk : n == k
      · simp [hnk]
      · simp only [hnk]; exact ih
    | none =>
      simp only [Option.map_none]
      have hnk : (n == k) = false := by
        obtain ⟨s, hs⟩ := hn
        cases h : n == k with
        | false => rfl
        | true =>
          have : n = k := by simpa using h
          subst this; rw [hs] at hk; cases hk
      simp only [hnk]
      exact ih

/-- Tensor.eager_subs with python-int values: the substituted axes are indexed away. -/
theorem subsNum_sem (σ : List (Name × Nat)) (a r : NT) (env env' : Env)
    (h : subsNum σ a = some r) (hpre : (preOf r.inputs env).isSome)
    (henv : ∀ p ∈ a.inputs, envIdx env' p.1 p.2 =
      envIdx (bindEnv (σ.map (·.1)) (σ.map (·.2)) ++ env) p.1 p.2) :
    r.atEnv env = a.atEnv env' := by
  unfold subsNum at h
  generalize hhit : (σ.filterMap fun p => (a.inputs.lookup p.1).map fun s => (p.1, p.2, s)) = hit at h
  simp only [Bool.and_eq_true] at h
  split at h
  · rename_i hc
    obtain ⟨hs, hv⟩ := hc
    cases h
    obtain ⟨p, hp⟩ := Option.isSome_iff_exists.mp hpre
    simp only at hp
    have hlen := preOf_length hp
    have hv' : validIdx (hit.map (·.2.1)) ((hit.map fun h => (h.1, h.2.2)).map (·.2)) = true := by
      simpa [List.map_map, Function.comp_def] using hv
    obtain ⟨g, hg, hr⟩ := readAt_eq (env := env) a (hit.map fun h => (h.1, h.2.2)) _
      (hit.map (·.2.1)) p hv' hp hs
    have hnames : (hit.map fun h => (h.1, h.2.2)).map (·.1) = hit.map (·.1) := by simp [List.map_map, Function.comp_def]
    rw [hnames] at hg hr
    have hpre' : preOf a.inputs env' = some g := by
      rw [← hg]
      apply preOf_congr
      intro q hq
      rw [henv q hq, envIdx_bindEnv, envIdx_bindEnv, ← hhit,
        lookupPos_hit a.inputs q.1 (lookup_some_of_mem _ q hq) σ]
    simp only [NT.atEnv, hp, hpre', Option.map_some, NT.row, Option.some.injEq, Sem.mk.injEq, true_and]
    funext ev
    simp only [← hlen, List.take_left', List.drop_left', hr]
  · cases h

theorem envIdx_some {env : Env} {n : Name} {s i : Nat} (h : envIdx env n s = some i) :
    (env.lookup n).bind Sem.toNat? = some i ∧ i < s := by
  unfold envIdx at h
  split at h
  · rename_i j hj
    split at h
    · cases h; exact ⟨hj, by assumption⟩
    · cases h
  · cases h

/-- eager_stack_homogeneous: the new leading input selects the part; every part is read through
    the union of the parts' inputs. -/
theorem stack_sem (name : Name) (parts : List NT) (r : NT) (env : Env)
    (h : stack name parts = some r) (hpre : (preOf r.inputs env).isSome) :
    r.atEnv env = (match (env.lookup name).bind Sem.toNat? with
      | none => none
      | some i => match parts[i]? with
        | some p => p.atEnv env
        | none => none) := by
  unfold stack at h
  split at h
  · cases h
  · rename_i p0 ps
    generalize unionAll (p0 :: ps) = u at h
    simp only at h
    split at h
    · rename_i hall
      cases h
      obtain ⟨pp, hpp⟩ := Option.isSome_iff_exists.mp hpre
      simp only [preOf] at hpp
      split at hpp
      · rename_i i p hi hp
        cases hpp
        obtain ⟨hlook, hlt⟩ := envIdx_some hi
        simp only [hlook]
        have hlen := preOf_length hp
        obtain ⟨part, hpart⟩ : ∃ part, (p0 :: ps)[i]? = some part :=
          ⟨(p0 :: ps)[i], List.getElem?_eq_getElem hlt⟩
        have hmem : part ∈ (p0 :: ps) := List.mem_of_getElem? hpart
        have hchk := (List.all_eq_true.mp hall) part hmem
        simp only [Bool.and_eq_true, beq_iff_eq] at hchk
        obtain ⟨g, hg, hr⟩ := readAt_eq0 part _ p hp hchk.1.1
        simp only [hpart, NT.atEnv, preOf, hi, hp, hg, Option.map_some, NT.row, Option.some.injEq, Sem.mk.injEq]
        refine ⟨hchk.1.2.symm, ?_⟩
        funext ev
        simp only [List.cons_append, hpart, ← hlen, List.take_left', List.drop_left', hr]
      · cases hpp
    · cases h

theorem lookupPos_notin (n : Name) : ∀ (ks : List Name) (is : List Nat), ¬ n ∈ ks → lookupPos ks is n = none := by
  intro ks
  induction ks with
  | nil => intro is _; simp [lookupPos]
  | cons k ks ih =>
    intro is h
    cases is with
    | nil => simp [lookupPos]
    | cons i is =>
      simp only [List.mem_cons, not_or] at h
      have : (n == k) = false := by simpa using h.1
      simp only [lookupPos, this]
      exact ih is h.2

/-- Moving a name from the front to the back of the dictionary does not change what `gather` reads,
    provided the name does not occur among the others (eager_lambda pops then re-appends it). -/
theorem gather_swap (name : Name) (keep : List Name) (p : List Nat) (i : Nat)
    (hlen : keep.length = p.length) (hnot : ¬ name ∈ keep) :
    ∀ (xs : List Name), gather (keep ++ [name]) (p ++ [i]) xs = gather ([name] ++ keep) ([i] ++ p) xs := by
  intro xs
  induction xs with
  | nil => rfl
  | cons n xs ih =>
    have hhead : lookupPos (keep ++ [name]) (p ++ [i]) n = lookupPos ([name] ++ keep) ([i] ++ p) n := by
      rw [lookupPos_append _ _ _ _ _ hlen, lookupPos_append _ _ _ _ _ (by simp)]
      by_cases hn : n == name
      · have : n = name := by simpa using hn
        subst this
        simp [lookupPos_notin _ _ _ hnot, lookupPos]
      · simp [lookupPos, hn]
    simp only [gather, hhead, ih]

theorem preOf_cons_notin (name : Name) (v : Sem) (env : Env) : ∀ (l : List (Name × Nat)),
    ¬ name ∈ l.map (·.1) → preOf l ((name, v) :: env) = preOf l env := by
  intro l h
  apply preOf_congr
  intro q hq
  have hne : (name == q.1) = false := by
    have : name ≠ q.1 := fun e => h (by rw [e]; exact List.mem_map_of_mem hq)
    simpa using this
  simp [envIdx, Env.lookup, hne]

theorem mem_of_lookup : ∀ (l : List (Name × Nat)) (k : Name) (s : Nat), l.lookup k = some s → (k, s) ∈ l := by
  intro l
  induction l with
  | nil => intro k s h; simp at h
  | cons hd l ih =>
    intro k s h
    obtain ⟨k', s'⟩ := hd
    simp only [List.lookup_cons] at h
    by_cases hk : k == k'
    · simp only [hk] at h; cases h
      have : k = k' := by simpa using hk
      subst this; exact List.mem_cons_self
    · simp only [hk] at h; exact List.mem_cons_of_mem _ (ih k s h)

theorem mem_odErase_names (d : List (Name × Nat)) (k : Name) : ¬ k ∈ (odErase d k).map (·.1) := by
  simp [odErase, List.mem_map, List.mem_filter]

/-- eager_lambda: the bound input becomes the leading event axis. -/
theorem lambda_sem (name : Name) (size : Nat) (a r : NT) (env : Env)
    (h : lambda name size a = some r) (hpre : (preOf r.inputs env).isSome) :
    r.atEnv env =
      (match atAll a ((List.range size).map fun i => (name, Sem.ofNat i) :: env) with
       | none => none
       | some [] => none
       | some (v :: vs) =>
         some ⟨size :: v.shape, fun idx => match idx with
           | i :: rest => match (v :: vs).toArray[i]? with
             | some s => s.get rest
             | none => XR.nan
           | [] => XR.nan⟩) := by
  unfold lambda at h
  split at h
  · cases h
  · rename_i hsize
    obtain ⟨p, hp⟩ := Option.isSome_iff_exists.mp hpre
    -- common tail: once the argument's value under each binding is known
    have key : ∀ (f : Nat → List Nat → XR),
        (∀ i, i < size → a.atEnv ((name, Sem.ofNat i) :: env) = some ⟨a.shape, f i⟩) →
        (match atAll a ((List.range size).map fun i => (name, Sem.ofNat i) :: env) with
         | none => none
         | some [] => none
         | some (v :: vs) =>
           some ⟨size :: v.shape, fun idx => match idx with
             | i :: rest => match (v :: vs).toArray[i]? with
               | some s => s.get rest
               | none => XR.nan
             | [] => XR.nan⟩) =
        some (⟨size :: a.shape, fun idx => match idx with
             | i :: rest => if i < size then f i rest else XR.nan
             | [] => XR.nan⟩ : Sem) := by
      intro f hf
      rw [atAll_map a _ (fun i => (⟨a.shape, f i⟩ : Sem)) _ (fun i hi => hf i (List.mem_range.mp hi))]
      have hget : ∀ i, ((List.range size).map (fun i => (⟨a.shape, f i⟩ : Sem)))[i]? =
          if i < size then some ⟨a.shape, f i⟩ else none := by
        intro i
        by_cases hi : i < size
        · simp [hi]
        · simp [hi]
      generalize hL : (List.range size).map (fun i => (⟨a.shape, f i⟩ : Sem)) = L at hget
      have hne : L ≠ [] := by
        rw [← hL]; intro hnil
        have := congrArg List.length hnil
        simp at this; exact hsize this
      obtain ⟨v, vs, hvs⟩ := List.exists_cons_of_ne_nil hne
      have hv : v.shape = a.shape := by
        have : v ∈ L := by rw [hvs]; simp
        rw [← hL] at this
        obtain ⟨j, _, hj⟩ := List.mem_map.mp this
        rw [← hj]
      rw [hvs]
      simp only [hv, Option.some.injEq, Sem.mk.injEq, true_and]
      funext idx
      cases idx with
      | nil => rfl
      | cons i rest =>
        simp only [List.getElem?_toArray]
        rw [← hvs, hget i]
        by_cases hi : i < size <;> simp [hi]
    dsimp only at h
    split at h
    · rename_i hmem
      split at h
      · rename_i hs
        cases h
        simp only at hp
        have hlen := preOf_length hp
        have hnot := mem_odErase_names a.inputs name
        rw [key (fun i ev => a.readAt ((odErase a.inputs name).map (·.1) ++ [name]) (p ++ [i]) ev)]
        · simp only [NT.atEnv, hp, Option.map_some, NT.row, Option.some.injEq, Sem.mk.injEq, true_and]
          funext idx
          cases idx with
          | nil => simp [← hlen]
          | cons i rest => simp only [← hlen, List.take_left', List.drop_left']
        · intro i hi
          have hs' : SubDict a.inputs ([(name, size)] ++ odErase a.inputs name) = true := by
            simp only [SubDict, List.all_eq_true, beq_iff_eq] at hs ⊢
            intro q hq
            have := hs q hq
            rw [List.lookup_append] at this ⊢
            simp only [List.lookup_cons, List.lookup_nil] at this ⊢
            by_cases hq1 : q.1 == name
            · have hq1' : q.1 = name := by simpa using hq1
              have hnone : (odErase a.inputs name).lookup q.1 = none := by
                rw [hq1']
                cases hl : (odErase a.inputs name).lookup name with
                | none => rfl
                | some s =>
                  exfalso; apply hnot
                  have := mem_of_lookup _ _ _ hl
                  exact List.mem_map_of_mem (f := (·.1)) this
              simp [hq1, hnone] at this ⊢
              exact this
            · simp only [hq1] at this ⊢
              cases hl : (odErase a.inputs name).lookup q.1 with
              | none => rw [hl] at this; simp at this
              | some s => rw [hl] at this; simpa using this
          obtain ⟨g, hg, hr⟩ := readAt_eq (env := env) a [(name, size)] (odErase a.inputs name) [i] p
            (by simp [validIdx, hi]) hp hs'
          simp only [List.map_cons, List.map_nil, bindEnv, List.cons_append, List.nil_append] at hg hr
          simp only [NT.atEnv, hg, Option.map_some, NT.row, Option.some.injEq, Sem.mk.injEq, true_and]
          funext ev
          rw [← hr ev]
          simp only [NT.readAt]
          rw [gather_swap name _ p i (by simp [hlen]) hnot]
          rfl
      · cases h
    · rename_i hmem
      cases h
      simp only at hp
      have hlen := preOf_length hp
      have hnot : ¬ name ∈ a.inputs.map (·.1) := by simpa [NT.names] using hmem
      rw [key (fun _ ev => a.data (p ++ ev))]
      · simp only [NT.atEnv, hp, Option.map_some, NT.row, Option.some.injEq, Sem.mk.injEq, true_and]
        funext idx
        cases idx with
        | nil => simp [← hlen]
        | cons i rest => simp only [← hlen, List.take_left', List.drop_left']
      · intro i _
        simp only [NT.atEnv, preOf_cons_notin name _ env _ hnot, hp, Option.map_some, NT.row]

theorem valid_mem_allIdx : ∀ (shape idx : List Nat), validIdx idx shape = true → idx ∈ allIdx shape := by
  intro shape
  induction shape with
  | nil => intro idx h; cases idx <;> simp_all [validIdx, allIdx]
  | cons s ss ih =>
    intro idx h
    cases idx with
    | nil => simp [validIdx] at h
    | cons i is =>
      simp only [validIdx, Bool.and_eq_true, decide_eq_true_eq] at h
      simp only [allIdx, List.mem_flatMap, List.mem_range, List.mem_map]
      exact ⟨i, h.1, is, ih is h.2, rfl⟩

theorem preOf_valid {env : Env} : ∀ {l : List (Name × Nat)} {g : List Nat},
    preOf l env = some g → validIdx g (l.map (·.2)) = true := by
  intro l
  induction l with
  | nil => intro g h; simp [preOf] at h; subst h; rfl
  | cons hd l ih =>
    intro g h
    simp only [preOf] at h
    split at h
    · rename_i i is hi his
      cases h
      simp [validIdx, (envIdx_some hi).2, ih his]
    · cases h

theorem evalBinary_getitem (op : Op) (h : op.name = "getitem") (a b : Sem) :
    evalBinary op a b =
      b.toNat?.bind (a.getitem (((paramOf op.params "offset").bind Sexp.asNat?).getD 0)) := by
  unfold evalBinary; rw [h]; rfl

theorem toNat?_eq (s : Sem) (h : s.shape = []) : s.toNat? = xrToNat? (s.get []) := by
  unfold Sem.toNat? xrToNat?
  rw [h]
  cases s.get [] <;> rfl

/-- eager_getitem_tensor_number / _tensor_tensor: indexing event axis `offset` by an integer-valued
    tensor aligned on the union of the inputs. -/
theorem getitem_sem' (offset : Nat) (a b r : NT) (env : Env)
    (h : getitem offset a b = some r) (hpre : (preOf r.inputs env).isSome) :
    r.atEnv env = (match a.atEnv env, b.atEnv env with
      | some x, some y => y.toNat?.bind (x.getitem offset)
      | _, _ => none) := by
  unfold getitem at h
  generalize binInputs a b = u at h
  dsimp only at h
  split at h
  · cases h
  · rename_i d hd
    simp only [Bool.and_eq_true, beq_iff_eq] at h
    split at h
    · rename_i hc
      obtain ⟨⟨⟨hbs, hsa⟩, hsb⟩, hall⟩ := hc
      cases h
      obtain ⟨p, hp⟩ := Option.isSome_iff_exists.mp hpre
      simp only at hp
      obtain ⟨ga, hga, hra⟩ := readAt_eq0 a _ p hp hsa
      obtain ⟨gb, hgb, hrb⟩ := readAt_eq0 b _ p hp hsb
      have hlen := preOf_length hp
      have hmem : gb ∈ allIdx b.sizes := valid_mem_allIdx _ _ (preOf_valid hgb)
      have hk := (List.all_eq_true.mp hall) gb hmem
      simp only [NT.atEnv, hp, hga, hgb, Option.map_some]
      split at hk
      · rename_i k hkk
        have hklt : k < d := by simpa using hk
        have htonat : (⟨b.shape, fun ev => b.data (gb ++ ev)⟩ : Sem).toNat? = some k := by
          rw [toNat?_eq _ (by simp [hbs])]
          simpa using hkk
        simp only [NT.row, htonat, Option.bind_some, Sem.getitem, hd, hklt, if_true,
          Option.some.injEq, Sem.mk.injEq, true_and]
        funext ev
        simp only [← hlen, List.take_left', List.drop_left', hrb, List.append_nil, hkk, hra]
      · cases hk
    · cases h

theorem getitem_sem (op : Op) (a b r : NT) (env : Env) (hname : op.name = "getitem")
    (h : getitem (((paramOf op.params "offset").bind Sexp.asNat?).getD 0) a b = some r)
    (hpre : (preOf r.inputs env).isSome) :
    r.atEnv env = (match a.atEnv env, b.atEnv env with
      | some x, some y => evalBinary op x y
      | _, _ => none) := by
  rw [getitem_sem' _ a b r env h hpre]
  cases a.atEnv env <;> cases b.atEnv env <;> simp [evalBinary_getitem op hname]

end FV.Props.C01
