/-
  Props/C01/Phi.lean — transcendental / uninterpreted unary ops (exp, log, sigmoid, sqrt, tanh, …):
  for ANY scalar function `φ : XR → XR`, eager evaluation applies it entrywise and commutes with all the
  structure around it — named inputs, alignment through a larger dictionary, broadcasting in binary ops,
  reductions over named inputs (present or absent), substitution, typing.  Only numpy's scalar function
  is trusted.
-/
import FunsorVerif.Props.C01.Total
namespace FV.Props.C01
open FV FV.C01

/-- Tensor.eager_unary with an arbitrary scalar function: entrywise, inputs untouched. -/
theorem mapData_sem (φ : XR → XR) (a : NT) (env : Env) :
    (mapData φ a).atEnv env = (a.atEnv env).map (semMap φ) := by
  simp only [NT.atEnv, mapData]
  cases preOf a.inputs env <;> rfl

theorem mapData_ty (φ : XR → XR) (a : NT) : tyOf (mapData φ a) = tyOf a := rfl

/-- Alignment (permute / broadcast through a larger dictionary) commutes with φ. -/
theorem readAt_mapData (φ : XR → XR) (a : NT) (names : List Name) (idx ev g : List Nat)
    (h : gather names idx a.names = some g) :
    (mapData φ a).readAt names idx ev = φ (a.readAt names idx ev) := by
  have h' : gather names idx (mapData φ a).names = some g := h
  simp only [NT.readAt, h, h']
  rfl

/-- A binary op whose left operand is φ of something: the value is the broadcast zip of φ∘A and B. -/
theorem binary_mapData_sem (φ : XR → XR) (op : Op) (a b r : NT) (env : Env)
    (h : binary op.name (mapData φ a) b = some r) (hpre : (preOf r.inputs env).isSome) :
    r.atEnv env = (match (a.atEnv env).map (semMap φ), b.atEnv env with
      | some x, some y => evalBinary op x y
      | _, _ => none) := by
  rw [binary_sem op (mapData φ a) b r env h hpre, mapData_sem]
  cases a.atEnv env <;> cases b.atEnv env <;> rfl

/-- Reducing φ of something over named inputs (some of which it may not mention): the fold of
    φ∘A over all assignments of the reduced variables. -/
theorem eagerReduce_mapData_sem (φ : XR → XR) (op : String) (vars : List (Name × Nat)) (a r : NT) (env : Env)
    (h : C01.eagerReduce op vars (mapData φ a) = some r) (hpre : (preOf r.inputs env).isSome) :
    r.atEnv env =
      (match atAll (mapData φ a) ((allIdx (vars.map (·.2))).map fun asg => bindEnv (vars.map (·.1)) asg ++ env) with
       | none => none
       | some [] => none
       | some (v :: vs) => Sem.foldList op v.shape (v :: vs)) :=
  eagerReduce_sem op vars (mapData φ a) r env h hpre

/-- … where each summand is φ applied to the argument's value at that assignment. -/
theorem atAll_mapData (φ : XR → XR) (a : NT) : ∀ (envs : List Env),
    atAll (mapData φ a) envs = (atAll a envs).map (List.map (semMap φ)) := by
  intro envs
  induction envs with
  | nil => rfl
  | cons e es ih =>
    simp only [atAll, mapData_sem, ih]
    cases a.atEnv e <;> cases atAll a es <;> rfl

/-- Substituting numbers into φ of something: φ of the argument at the extended environment. -/
theorem subsNum_mapData_sem (φ : XR → XR) (σ : List (Name × Nat)) (a r : NT) (env env' : Env)
    (h : subsNum σ (mapData φ a) = some r) (hpre : (preOf r.inputs env).isSome)
    (henv : ∀ p ∈ a.inputs, envIdx env' p.1 p.2 =
      envIdx (bindEnv (σ.map (·.1)) (σ.map (·.2)) ++ env) p.1 p.2) :
    r.atEnv env = (a.atEnv env').map (semMap φ) := by
  rw [subsNum_sem σ (mapData φ a) r env env' h hpre henv, mapData_sem]

/-- Stack / Lambda / getitem of φ-results: the generic lemmas apply verbatim (φ∘A is just another tensor);
    e.g. indexing commutes with φ. -/
theorem getitem_mapData_sem (φ : XR → XR) (offset : Nat) (a b r : NT) (env : Env)
    (h : getitem offset (mapData φ a) b = some r) (hpre : (preOf r.inputs env).isSome) :
    r.atEnv env = (match (a.atEnv env).map (semMap φ), idxAt b env with
      | some x, some k => x.getitem offset k
      | _, _ => none) := by
  rw [getitem_semI offset (mapData φ a) b r env h hpre, mapData_sem]
  cases a.atEnv env <;> cases idxAt b env <;> rfl

end FV.Props.C01
