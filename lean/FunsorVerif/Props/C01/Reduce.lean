/-
  Props/C01/Reduce.lean — terms.eager_reduce incl. `_reduce_unrelated_vars` (as fixed in 58a4113):
  reducing over variables some of which the argument does not mention.
-/
import FunsorVerif.Props.C01.Ops
import FunsorVerif.Props.C01.Algebra
namespace FV.Props.C01
open FV FV.C01

/-- The monoid behind each reducible op. -/
def opF : String → XR → XR → XR
  | "add" => XR.add | "mul" => XR.mul | "max" => XR.max | _ => XR.min
def opU : String → XR
  | "add" => 0 | "mul" => 1 | "max" => XR.ninf | _ => XR.pinf

theorem reduceOps_cases {op : String} (h : reduceOps.contains op = true) :
    op = "add" ∨ op = "mul" ∨ op = "max" ∨ op = "min" := by
  simpa [reduceOps] using h

theorem op_cmon {op : String} (h : reduceOps.contains op = true) : CMon (opF op) (opU op) := by
  rcases reduceOps_cases h with h | h | h | h <;> subst h
  · exact cmon_add
  · exact cmon_mul
  · exact cmon_max
  · exact cmon_min

theorem binop_opF {op : String} (h : reduceOps.contains op = true) (x y : XR) :
    binop op x y = some (opF op x y) := by
  rcases reduceOps_cases h with h | h | h | h <;> subst h <;> rfl

theorem unitOf_opU {op : String} (h : reduceOps.contains op = true) : unitOf op = some (opU op) := by
  rcases reduceOps_cases h with h | h | h | h <;> subst h <;> rfl

theorem foldlM_opF {op : String} (h : reduceOps.contains op = true) :
    ∀ (l : List XR) (x : XR), l.foldlM (fun acc y => binop op acc y) x = some (l.foldl (opF op) x) := by
  intro l
  induction l with
  | nil => intro x; rfl
  | cons y l ih =>
    intro x
    have := ih (opF op x y)
    simpa [List.foldlM_cons, binop_opF h] using this

theorem foldOp_eq_mf {op : String} (h : reduceOps.contains op = true) (l : List XR) :
    foldOp op l = some (mf (opF op) (opU op) l) := by
  cases l with
  | nil => simp [foldOp, unitOf_opU h, mf]
  | cons x xs =>
    simp only [foldOp, foldlM_opF h, mf, List.foldl_cons, (op_cmon h).unit]

theorem fin_nat_pos (m : Nat) (hm : 0 < m) : XR.sgn (XR.fin (m : Rat)) = 1 := by
  have : (0 : Rat) < m := by exact_mod_cast hm
  simp [XR.sgn, this.not_gt, this.ne']

theorem mul_inf_nat (m : Nat) (hm : 0 < m) :
    XR.mul XR.pinf (XR.fin (m : Rat)) = XR.pinf ∧ XR.mul XR.ninf (XR.fin (m : Rat)) = XR.ninf := by
  constructor <;> (rw [mul_eq_sres _ _ (by simp [isFin]), fin_nat_pos m hm]; simp [XR.sgn, sres])

theorem scale_add_rep (x : XR) : ∀ (m : Nat), 0 < m → XR.mul x (XR.fin (m : Rat)) = rep XR.add 0 x m := by
  intro m
  induction m with
  | zero => intro h; omega
  | succ m ih =>
    intro _
    by_cases hm : m = 0
    · subst hm
      simp only [rep, XR.zero_add']
      have := XR.one_mul' x
      rw [XR.mul_comm', XR.one_eq] at this
      simpa using this
    · have hpos : 0 < m := Nat.pos_of_ne_zero hm
      simp only [rep]
      rw [← ih hpos]
      cases x with
      | fin q => simp only [XR.mul, XR.add]; congr 1; push_cast; ring
      | pinf => rw [(mul_inf_nat _ hpos).1, (mul_inf_nat _ (Nat.succ_pos m)).1]; rfl
      | ninf => rw [(mul_inf_nat _ hpos).2, (mul_inf_nat _ (Nat.succ_pos m)).2]; rfl
      | nan => simp [XR.mul, XR.add]

theorem rep_idem {F : XR → XR → XR} {U : XR} (hid : ∀ x, F x x = x) (hu : ∀ x, F U x = x) (x : XR) :
    ∀ (m : Nat), 0 < m → rep F U x m = x := by
  intro m
  induction m with
  | zero => intro h; omega
  | succ m ih =>
    intro _
    by_cases hm : m = 0
    · subst hm; simp [rep, hu]
    · simp [rep, ih (Nat.pos_of_ne_zero hm), hid]

theorem npow_rep (x : XR) (m : Nat) : npow x m = rep XR.mul 1 x m := by
  induction m with
  | zero => rfl
  | succ m ih => simp [npow, rep, ih]

/-- `scale` is the m-fold power of the reduction op (m ≥ 1): n·x for add, xⁿ for mul, x for max/min. -/
theorem scale_eq_rep {op : String} (h : reduceOps.contains op = true) (m : Nat) (hm : 0 < m) (x : XR) :
    scale op m x = rep (opF op) (opU op) x m := by
  rcases reduceOps_cases h with h | h | h | h <;> subst h
  · exact scale_add_rep x m hm
  · exact npow_rep x m
  · exact (rep_idem XR.max_idem' XR.ninf_max' x m hm).symm
  · exact (rep_idem XR.min_idem' XR.pinf_min' x m hm).symm

theorem filter_map_projMask {α β : Type} (f : α → Bool) (g : α → β) : ∀ (l : List α),
    (l.filter f).map g = projMask (l.map f) (l.map g) := by
  intro l
  induction l with
  | nil => rfl
  | cons x l ih =>
    simp only [List.filter_cons, List.map_cons]
    cases hf : f x <;> simp [projMask, ih]

theorem foldl_mul (l : List Nat) : ∀ (a : Nat), l.foldl (· * ·) a = a * l.foldl (· * ·) 1 := by
  induction l with
  | nil => intro a; simp
  | cons x l ih => intro a; simp only [List.foldl_cons]; rw [ih (a * x), ih (1 * x)]; ring

theorem prodList_cons (s : Nat) (l : List Nat) : prodList (s :: l) = s * prodList l := by
  simp only [prodList, List.foldl_cons]; rw [foldl_mul]; ring

theorem prod_absent (f : Name × Nat → Bool) : ∀ (vars : List (Name × Nat)),
    prodList ((vars.filter (fun p => !f p)).map (·.2)) = absProd (vars.map f) (vars.map (·.2)) := by
  intro vars
  induction vars with
  | nil => rfl
  | cons x l ih =>
    simp only [List.filter_cons, List.map_cons]
    cases hf : f x <;> simp [absProd, ih, prodList_cons]

theorem absProd_pos : ∀ (mask : List Bool) (sizes : List Nat),
    (sizes.all fun s => decide (0 < s)) = true → 0 < absProd mask sizes := by
  intro mask
  induction mask with
  | nil => intro sizes _; cases sizes <;> simp [absProd]
  | cons b bs ih =>
    intro sizes h
    cases sizes with
    | nil => cases b <;> simp [absProd]
    | cons s ss =>
      simp only [List.all_cons, Bool.and_eq_true, decide_eq_true_eq] at h
      cases b
      · simp only [absProd]; exact Nat.mul_pos h.1 (ih ss h.2)
      · simp only [absProd]; exact ih ss h.2

theorem validIdx_projMask : ∀ (mask : List Bool) (asg sizes : List Nat),
    validIdx asg sizes = true → validIdx (projMask mask asg) (projMask mask sizes) = true := by
  intro mask
  induction mask with
  | nil => intro asg sizes _; cases asg <;> cases sizes <;> simp [projMask, validIdx]
  | cons b bs ih =>
    intro asg sizes h
    cases asg with
    | nil => cases sizes <;> cases b <;> simp_all [projMask, validIdx]
    | cons i is =>
      cases sizes with
      | nil => simp [validIdx] at h
      | cons s ss =>
        simp only [validIdx, Bool.and_eq_true] at h
        cases b
        · simp only [projMask]; exact ih is ss h.2
        · simp only [projMask, validIdx, Bool.and_eq_true]; exact ⟨h.1, ih is ss h.2⟩

/-- A name the mask keeps is found at the same coordinate before and after projecting. -/
theorem lookupPos_projMask (f : Name → Bool) (n : Name) (hn : f n = true) :
    ∀ (names : List Name) (asg : List Nat),
      lookupPos (projMask (names.map f) names) (projMask (names.map f) asg) n = lookupPos names asg n := by
  intro names
  induction names with
  | nil => intro asg; simp [projMask, lookupPos]
  | cons k ks ih =>
    intro asg
    cases asg with
    | nil => cases hk : f k <;> simp [projMask, lookupPos, hk]
    | cons i is =>
      simp only [List.map_cons]
      cases hk : f k
      · simp only [projMask, lookupPos]
        have : (n == k) = false := by
          cases h : n == k with
          | false => rfl
          | true => have : n = k := by simpa using h
                    subst this; rw [hn] at hk; cases hk
        simp only [this]; exact ih is
      · simp only [projMask, lookupPos]
        by_cases h : n == k
        · simp [h]
        · simp only [h]; exact ih is

/-- What `reduce` returns, spelled out. -/
theorem reduce_core (op : String) (vars : List (Name × Nat)) (a r : NT) (env : Env) (p : List Nat)
    (h : reduce op vars a = some r) (hp : preOf r.inputs env = some p) :
    reduceOps.contains op = true ∧ (vars.all fun q => decide (0 < q.2)) = true ∧
    SubDict a.inputs (vars ++ r.inputs) = true ∧
    r.atEnv env = some ⟨a.shape, fun ev => (foldOp op ((allIdx (vars.map (·.2))).map fun asg =>
        a.readAt (vars.map (·.1) ++ r.inputs.map (·.1)) (asg ++ p) ev)).getD XR.nan⟩ := by
  unfold reduce at h
  simp only [Bool.and_eq_true] at h
  split at h
  · rename_i hc
    obtain ⟨⟨hop, hs⟩, hpos⟩ := hc
    cases h
    simp only at hp
    have hlen := preOf_length hp
    refine ⟨hop, hpos, hs, ?_⟩
    simp only [NT.atEnv, hp, Option.map_some, NT.row, Option.some.injEq, Sem.mk.injEq, true_and]
    funext ev
    simp only [← hlen, List.take_left', List.drop_left']
  · cases h

/-- terms.eager_reduce with `_reduce_unrelated_vars`: reducing over `vars`, some of which the
    argument does not mention, is the fold over ALL assignments of `vars` — the absent variables
    contribute their multiplicity through `scale` (n·x, xⁿ, or x for idempotent ops). -/
theorem eagerReduce_sem (op : String) (vars : List (Name × Nat)) (a r : NT) (env : Env)
    (h : C01.eagerReduce op vars a = some r) (hpre : (preOf r.inputs env).isSome) :
    r.atEnv env =
      (match atAll a ((allIdx (vars.map (·.2))).map fun asg => bindEnv (vars.map (·.1)) asg ++ env) with
       | none => none
       | some [] => none
       | some (v :: vs) => Sem.foldList op v.shape (v :: vs)) := by
  unfold C01.eagerReduce at h
  dsimp only at h
  split at h
  · -- every variable is an input of the argument
    rename_i hemp
    have hall : ∀ q ∈ vars, a.names.contains q.1 = true := by
      intro q hq
      have : q ∉ vars.filter (fun p => !a.names.contains p.1) := by
        rw [List.isEmpty_iff.mp hemp]; simp
      simp only [List.mem_filter, not_and] at this
      have := this hq
      simpa using this
    have hfil : vars.filter (fun p => a.names.contains p.1) = vars := List.filter_eq_self.mpr hall
    rw [hfil] at h
    exact reduce_sem op vars a r env h hpre
  · split at h
    · rename_i hne hpos
      obtain ⟨p, hp⟩ := Option.isSome_iff_exists.mp hpre
      generalize hpres : vars.filter (fun p => a.names.contains p.1) = present at h
      generalize hm : prodList ((vars.filter (fun p => !a.names.contains p.1)).map (·.2)) = m at h
      obtain ⟨hop, hppos, hs, hat⟩ := reduce_core op present _ r env p h hp
      simp only at hs hat
      rw [hat]
      -- the argument at each full assignment
      have hmaskN : present.map (·.1) = projMask (vars.map fun q => a.names.contains q.1) (vars.map (·.1)) := by
        rw [← hpres]; exact filter_map_projMask _ _ vars
      have hmaskS : present.map (·.2) = projMask (vars.map fun q => a.names.contains q.1) (vars.map (·.2)) := by
        rw [← hpres]; exact filter_map_projMask _ _ vars
      have hallv : ∀ asg ∈ allIdx (vars.map (·.2)),
          a.atEnv (bindEnv (vars.map (·.1)) asg ++ env) =
            some ⟨a.shape, fun ev => a.readAt (present.map (·.1) ++ r.inputs.map (·.1))
              (projMask (vars.map fun q => a.names.contains q.1) asg ++ p) ev⟩ := by
        intro asg hasg
        have hv := allIdx_valid _ _ hasg
        have hv' : validIdx (projMask (vars.map fun q => a.names.contains q.1) asg) (present.map (·.2)) = true := by
          rw [hmaskS]; exact validIdx_projMask _ _ _ hv
        obtain ⟨g, hg, hr⟩ := readAt_eq (env := env) a present r.inputs _ p hv' hp hs
        have hcongr : preOf a.inputs (bindEnv (vars.map (·.1)) asg ++ env) =
            preOf a.inputs (bindEnv (present.map (·.1)) (projMask (vars.map fun q => a.names.contains q.1) asg) ++ env) := by
          apply preOf_congr
          intro q hq
          rw [envIdx_bindEnv, envIdx_bindEnv, hmaskN]
          have hqn : a.names.contains q.1 = true := by
            simp only [NT.names, List.contains_eq_mem, List.mem_map, decide_eq_true_eq]
            exact ⟨q, hq, rfl⟩
          have := lookupPos_projMask (fun n => a.names.contains n) q.1 hqn (vars.map (·.1)) asg
          simp only [List.map_map, Function.comp_def] at this
          rw [this]
        simp only [NT.atEnv, hcongr, hg, Option.map_some, NT.row, hr]
      rw [atAll_map a _ _ _ hallv]
      have hne' : allIdx (vars.map (·.2)) ≠ [] := allIdx_ne_nil _ (by simpa [List.all_map] using hpos)
      obtain ⟨asg0, asgs, hcons⟩ := List.exists_cons_of_ne_nil hne'
      rw [hcons]
      simp only [List.map_cons]
      rw [foldList_total hop]
      simp only [Option.some.injEq, Sem.mk.injEq, true_and]
      funext ev
      rw [← List.map_cons (f := fun asg => (⟨a.shape, fun ev => a.readAt (present.map (·.1) ++ r.inputs.map (·.1))
              (projMask (vars.map fun q => a.names.contains q.1) asg ++ p) ev⟩ : Sem)), ← hcons]
      simp only [List.map_map, Function.comp_def]
      congr 1
      rw [foldOp_eq_mf hop, foldOp_eq_mf hop]
      congr 1
      have hlenm : (vars.map fun q => a.names.contains q.1).length = (vars.map (·.2)).length := by simp
      have hfu := fold_unrelated (op_cmon hop) _ _ hlenm
        (fun j => a.readAt (present.map (·.1) ++ r.inputs.map (·.1)) (j ++ p) ev)
      rw [hfu, ← hmaskS]
      congr 1
      apply List.map_congr_left
      intro j hj
      have hmpos : 0 < m := by
        rw [← hm, prod_absent]; exact absProd_pos _ _ (by simpa [List.all_map] using hpos)
      rw [← prod_absent (fun q => a.names.contains q.1), hm, ← scale_eq_rep hop m hmpos]
      -- readAt of the scaled tensor
      obtain ⟨g, _, hgat⟩ := preOf_gather_some (env := env) present r.inputs j p (allIdx_valid _ _ hj) hp a.inputs hs
      simp [NT.readAt, NT.names, hgat]
    · cases h

end FV.Props.C01
