/-
  Props/C01/Reshape.lean — the `arg.shape == shape` shortcut of eager_reshape_tensor: row-major enumeration and
  `ravel` are inverse (`allIdx_ravel`), so reshaping to the own shape is the identity on the entries.
-/
import FunsorVerif.Props.C01.Independent
namespace FV.Props.C01
open FV FV.C01

theorem flatMap_getElem_uniform {α β : Type} (f : α → List β) (L : Nat) :
    ∀ (l : List α), (∀ x ∈ l, (f x).length = L) → ∀ (j r : Nat) (x : α), r < L → l[j]? = some x →
      (l.flatMap f)[j * L + r]? = (f x)[r]? := by
  intro l
  induction l with
  | nil => intro _ j r x _ h; simp at h
  | cons y l ih =>
    intro hl j r x hr hj
    have hy : (f y).length = L := hl y List.mem_cons_self
    cases j with
    | zero =>
      simp only [List.getElem?_cons_zero, Option.some.injEq] at hj; subst hj
      simp only [List.flatMap_cons, Nat.zero_mul, Nat.zero_add]
      exact List.getElem?_append_left (by omega)
    | succ j =>
      simp only [List.getElem?_cons_succ] at hj
      simp only [List.flatMap_cons]
      rw [List.getElem?_append_right (by rw [hy, Nat.succ_mul]; omega)]
      have : (j + 1) * L + r - (f y).length = j * L + r := by rw [hy, Nat.succ_mul]; omega
      rw [this]
      exact ih (fun z hz => hl z (List.mem_cons_of_mem _ hz)) j r x hr hj

theorem allIdx_length : ∀ (shape : List Nat), (allIdx shape).length = prodList shape := by
  intro shape
  induction shape with
  | nil => rfl
  | cons s ss ih =>
    rw [prodList_cons]
    simp only [allIdx, List.length_flatMap, List.length_map, ih]
    have : ∀ (n c : Nat), ((List.range n).map (fun _ => c)).sum = n * c := by
      intro n c
      induction n with
      | zero => simp
      | succ n ihn => rw [List.range_succ, List.map_append, List.sum_append, ihn]; simp [Nat.succ_mul]
    exact this s _

/-- Row-major enumeration and `ravel` are inverse on valid indices. -/
theorem allIdx_ravel : ∀ (shape i : List Nat), validIdx i shape = true →
    ∃ k, ravel shape i = some k ∧ (allIdx shape)[k]? = some i := by
  intro shape
  induction shape with
  | nil => intro i h; cases i with
    | nil => exact ⟨0, rfl, rfl⟩
    | cons _ _ => simp [validIdx] at h
  | cons s ss ih =>
    intro i h
    cases i with
    | nil => simp [validIdx] at h
    | cons i0 is =>
      simp only [validIdx, Bool.and_eq_true, decide_eq_true_eq] at h
      obtain ⟨r, hr, hg⟩ := ih is h.2
      refine ⟨i0 * prodList ss + r, by simp [ravel, h.1, hr], ?_⟩
      have hrl : r < prodList ss := by
        rw [← allIdx_length]
        exact (List.getElem?_eq_some_iff.mp hg).1
      simp only [allIdx]
      rw [flatMap_getElem_uniform (fun j => (allIdx ss).map (j :: ·)) (prodList ss) (List.range s)
        (fun x _ => by simp [allIdx_length]) i0 r i0 hrl (by simp [h.1])]
      simp [hg]

/-- Reshaping an array to its own shape returns the same entries (at every index inside the shape). -/
theorem reshape_self (s : Sem) :
    ∃ s', s.reshape s.shape = some s' ∧ s'.shape = s.shape ∧ ∀ i, validIdx i s.shape = true → s'.get i = s.get i := by
  have hdef : ∃ s', s.reshape s.shape = some s' := by simp [Sem.reshape]
  obtain ⟨s', hs'⟩ := hdef
  have hs2 := hs'
  simp only [Sem.reshape, ne_eq, not_true_eq_false, if_false, Option.some.injEq] at hs2
  subst hs2
  refine ⟨_, hs', rfl, ?_⟩
  intro i hi
  obtain ⟨k, hk, hg⟩ := allIdx_ravel s.shape i hi
  simp only [hk, Sem.table, Array.getD_eq_getD_getElem?, List.getElem?_toArray, List.getElem?_map, hg,
    Option.map_some, Option.getD_some]

/-- eager_reshape_tensor including the `arg.shape == shape` shortcut.  `_partial`: the shortcut returns the
    argument itself, which agrees with the specification `Sem.reshape` at every index INSIDE the shape (outside
    it the two total functions differ: the specification pads with NaN); the non-shortcut branch is the exact
    `reshape_sem`. -/
theorem reshapeS_sem_partial (newShape : List Nat) (a r : NT) (env : Env)
    (h : reshapeS newShape a = some r) (hpre : (preOf r.inputs env).isSome) :
    ∃ s s', r.atEnv env = some s ∧ (a.atEnv env).bind (fun x => x.reshape newShape) = some s' ∧
      s.shape = s'.shape ∧ ∀ i, validIdx i s.shape = true → s.get i = s'.get i := by
  unfold reshapeS at h
  split at h
  · rename_i hsh
    cases h
    have hsh' : a.shape = newShape := by simpa using hsh
    obtain ⟨p, hp⟩ := Option.isSome_iff_exists.mp hpre
    obtain ⟨s', hs', hshape, hget⟩ := reshape_self (a.row p)
    refine ⟨a.row p, s', by simp [NT.atEnv, hp], ?_, hshape.symm, fun i hi => (hget i hi).symm⟩
    simp only [NT.atEnv, hp, Option.map_some, Option.bind_some]
    rw [← hsh']; exact hs'
  · have hs := reshape_sem newShape a r env h hpre
    have hsome : (r.atEnv env).isSome := by rw [atEnv_isSome]; exact hpre
    obtain ⟨s, hs0⟩ := Option.isSome_iff_exists.mp hsome
    exact ⟨s, s, hs0, by rw [← hs, hs0], rfl, fun _ _ => rfl⟩

end FV.Props.C01
