/-
  Props/C01/ReshapeFull.lean — strengthening of `reshapeS_sem_partial` (Reshape.lean).

  The `arg.shape == shape` shortcut of eager_reshape_tensor returns the argument itself.  As total index
  functions the argument and the specification `Sem.reshape` can differ only OUTSIDE the shape, where the
  specification is NaN by construction.  Here:
    * `reshapeS_sem_full`   — the specification value is characterised at EVERY index (inside the shape it is the
                              shortcut's value, outside it is NaN), and the observable tables coincide;
    * `reshapeS_sem`        — the exact equation `r.atEnv env = (a.atEnv env).bind (·.reshape newShape)` whenever
                              the rows of the argument are in canonical form (NaN outside the shape), which is an
                              invariant of every tensor built by `ofTensor` (`ofTensor_canon`).
-/
import FunsorVerif.Props.C01.Reshape
namespace FV.Props.C01
open FV FV.C01

theorem ravel_none_of_invalid : ∀ (shape i : List Nat), validIdx i shape = false → ravel shape i = none := by
  intro shape
  induction shape with
  | nil => intro i h; cases i with
    | nil => simp [validIdx] at h
    | cons _ _ => rfl
  | cons s ss ih =>
    intro i h
    cases i with
    | nil => rfl
    | cons i0 is =>
      simp only [validIdx, Bool.and_eq_false_iff, decide_eq_false_iff_not] at h
      simp only [ravel]
      by_cases hlt : i0 < s
      · simp only [hlt, if_true]
        rcases h with h | h
        · exact absurd hlt h
        · rw [ih is h]; rfl
      · simp only [hlt, if_false]

/-- A value in canonical form: NaN outside its shape (what every constructor of the specification produces). -/
def Canon (s : Sem) : Prop := ∀ i, validIdx i s.shape = false → s.get i = XR.nan

/-- The result of the specification's reshape is canonical. -/
theorem reshape_canon (s s' : Sem) (sh : List Nat) (h : s.reshape sh = some s') : Canon s' := by
  unfold Sem.reshape at h
  split at h
  · cases h
  · cases h
    intro i hi
    simp only at hi
    simp only [ravel_none_of_invalid sh i hi]

/-- Reshaping to the own shape, at EVERY index: the entry inside the shape, NaN outside. -/
theorem reshape_self_full (s : Sem) :
    ∃ s', s.reshape s.shape = some s' ∧ s'.shape = s.shape ∧
      ∀ i, s'.get i = if validIdx i s.shape = true then s.get i else XR.nan := by
  obtain ⟨s', hs', hshape, hget⟩ := reshape_self s
  refine ⟨s', hs', hshape, fun i => ?_⟩
  by_cases hv : validIdx i s.shape = true
  · simp only [hv, if_true]; exact hget i hv
  · simp only [hv]
    have hc := reshape_canon s s' s.shape hs' i
    rw [hshape] at hc
    simpa using hc (by simpa using hv)

/-- On canonical values reshaping to the own shape is the identity. -/
theorem reshape_self_canon (s : Sem) (hc : Canon s) : s.reshape s.shape = some s := by
  obtain ⟨s', hs', hshape, hget⟩ := reshape_self_full s
  rw [hs']
  cases s with
  | mk sh g =>
    cases s' with
    | mk sh' g' =>
      simp only at hshape hget
      subst hshape
      congr 2
      funext i
      rw [hget i]
      by_cases hv : validIdx i sh' = true
      · simp [hv]
      · simp only [hv]
        exact (hc i (by simpa using hv)).symm

theorem table_congr (s s' : Sem) (hsh : s.shape = s'.shape)
    (hget : ∀ i, validIdx i s.shape = true → s.get i = s'.get i) : s.table = s'.table := by
  simp only [Sem.table, ← hsh]
  exact List.map_congr_left fun i hi => hget i (allIdx_valid _ _ hi)

/-- eager_reshape_tensor including the `arg.shape == shape` shortcut, full version: the evaluator's value `s` and
    the specification's value `s'` have the same shape, the same row-major table, and `s'` is determined by `s` at
    EVERY index (equal inside the shape, NaN outside). -/
theorem reshapeS_sem_full (newShape : List Nat) (a r : NT) (env : Env)
    (h : reshapeS newShape a = some r) (hpre : (preOf r.inputs env).isSome) :
    ∃ s s', r.atEnv env = some s ∧ (a.atEnv env).bind (fun x => x.reshape newShape) = some s' ∧
      s.shape = s'.shape ∧ s.table = s'.table ∧
      ∀ i, s'.get i = if validIdx i s.shape = true then s.get i else XR.nan := by
  obtain ⟨s, s', hs, hs', hsh, hget⟩ := reshapeS_sem_partial newShape a r env h hpre
  refine ⟨s, s', hs, hs', hsh, table_congr s s' hsh hget, fun i => ?_⟩
  by_cases hv : validIdx i s.shape = true
  · simp only [hv, if_true]; exact (hget i hv).symm
  · simp only [hv]
    cases hx : a.atEnv env with
    | none => rw [hx] at hs'; cases hs'
    | some x =>
      rw [hx] at hs'
      have hc := reshape_canon x s' newShape hs' i
      rw [← hsh] at hc
      simpa using hc (by simpa using hv)

/-- The exact equation, under the representation invariant that the argument's rows are canonical. -/
theorem reshapeS_sem (newShape : List Nat) (a r : NT) (env : Env)
    (h : reshapeS newShape a = some r) (hpre : (preOf r.inputs env).isSome)
    (hc : ∀ p, preOf a.inputs env = some p → Canon (a.row p)) :
    r.atEnv env = (a.atEnv env).bind (fun x => x.reshape newShape) := by
  unfold reshapeS at h
  split at h
  · rename_i hsh
    cases h
    have hsh' : a.shape = newShape := by simpa using hsh
    obtain ⟨p, hp⟩ := Option.isSome_iff_exists.mp hpre
    simp only [NT.atEnv, hp, Option.map_some, Option.bind_some]
    have := reshape_self_canon (a.row p) (hc p hp)
    rw [← hsh']; exact this.symm
  · exact reshape_sem newShape a r env h hpre

theorem validIdx_append_false : ∀ (p sz ev sh : List Nat), p.length = sz.length → validIdx ev sh = false →
    validIdx (p ++ ev) (sz ++ sh) = false := by
  intro p
  induction p with
  | nil => intro sz ev sh hl h; cases sz with
    | nil => simpa using h
    | cons _ _ => simp at hl
  | cons p0 ps ih =>
    intro sz ev sh hl h
    cases sz with
    | nil => simp at hl
    | cons s0 ss =>
      simp only [List.cons_append, validIdx, Bool.and_eq_false_iff]
      exact Or.inr (ih ss ev sh (by simpa using hl) h)

/-- Tensors built from row-major data are canonical at every batch index of the right length. -/
theorem ofTensor_canon (inputs : List (Name × Nat)) (shape : List Nat) (data : Array XR) (p : List Nat)
    (hp : p.length = inputs.length) : Canon ((ofTensor inputs shape data).row p) := by
  intro i hi
  simp only [NT.row, ofTensor] at hi ⊢
  rw [ravel_none_of_invalid _ _ (validIdx_append_false p _ i shape (by simpa using hp) hi)]

/-- Non-vacuity: the shortcut fires on a canonical tensor and the hypotheses hold. -/
example : ((reshapeS [2] (ofTensor [("j", 3)] [2] #[1, 0, 2, 0, 3, 0])).map fun r => (r.inputs, r.shape)) =
    some ([("j", 3)], [2]) := by decide
example : Canon ((ofTensor [("j", 3)] [2] #[1, 0, 2, 0, 3, 0]).row [1]) := ofTensor_canon _ _ _ _ rfl
example : (preOf [("j", 3)] [("j", Sem.ofNat 1)]).isSome = true := by decide

end FV.Props.C01
