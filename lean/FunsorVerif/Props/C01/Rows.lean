/-
  Props/C01/Rows.lean — operations on the output (event) axes: reshape, getslice, reductions with
  axis/keepdims act row by row (`mapRows_sem`), and addressing the event axes by negative positions
  (`axis % ndims - ndims`, eager_reduction_tensor) selects the same axes (`negAxis_norm`).
-/
import FunsorVerif.Props.C01.Reduce
namespace FV.Props.C01
open FV FV.C01

/-- The success and the result shape of `f` depend only on the shape of its argument. -/
def ShapeOnly (f : Sem → Option Sem) : Prop :=
  ∀ s s' : Sem, s.shape = s'.shape → ∀ r, f s = some r → ∃ r', f s' = some r' ∧ r'.shape = r.shape

/-- Row-wise operations (reshape, getslice, reductions of output axes) leave the inputs alone and
    transform the event part by the specification-level function. -/
theorem mapRows_sem (f : Sem → Option Sem) (hf : ShapeOnly f) (a r : NT) (env : Env)
    (h : mapRows f a = some r) (hpre : (preOf r.inputs env).isSome) :
    r.atEnv env = (a.atEnv env).bind f := by
  unfold mapRows at h
  split at h
  · cases h
  · rename_i probe hprobe
    cases h
    obtain ⟨p, hp⟩ := Option.isSome_iff_exists.mp hpre
    simp only at hp
    have hlen := preOf_length hp
    obtain ⟨r', hr', hsh⟩ := hf (a.row (a.inputs.map fun _ => 0)) (a.row p) rfl probe hprobe
    simp only [NT.atEnv, hp, Option.map_some, Option.bind_some, hr']
    cases r' with
    | mk sh g =>
      simp only at hsh
      have hfr : f ⟨a.shape, fun ev => a.data (p ++ ev)⟩ = some ⟨sh, g⟩ := hr'
      simp only [NT.row, ← hsh, Option.some.injEq, Sem.mk.injEq, true_and]
      funext ev
      simp only [← hlen, List.take_left', List.drop_left', hfr]

theorem shapeOnly_reshape (newShape : List Nat) : ShapeOnly (fun s => s.reshape newShape) := by
  intro s s' hs r hr
  simp only [Sem.reshape] at hr ⊢
  rw [← hs]
  split at hr
  · cases hr
  · rename_i hc
    cases hr
    rw [if_neg hc]
    exact ⟨_, rfl, rfl⟩

theorem shapeOnly_getslice (items : List IdxItem) : ShapeOnly (fun s => s.getslice items) := by
  intro s s' hs r hr
  simp only [Sem.getslice] at hr ⊢
  rw [← hs]
  split at hr
  · cases hr
  · rename_i hc
    split at hr
    · cases hr
    · rename_i hok
      cases hr
      rw [if_neg hc, if_neg hok]
      exact ⟨_, rfl, rfl⟩

/-- eager_reshape_tensor. -/
theorem reshape_sem (newShape : List Nat) (a r : NT) (env : Env)
    (h : C01.reshape newShape a = some r) (hpre : (preOf r.inputs env).isSome) :
    r.atEnv env = (a.atEnv env).bind (fun s => s.reshape newShape) :=
  mapRows_sem _ (shapeOnly_reshape newShape) a r env h hpre

/-- eager_getslice_tensor. -/
theorem getslice_sem (items : List IdxItem) (a r : NT) (env : Env)
    (h : C01.getslice items a = some r) (hpre : (preOf r.inputs env).isSome) :
    r.atEnv env = (a.atEnv env).bind (fun s => s.getslice items) :=
  mapRows_sem _ (shapeOnly_getslice items) a r env h hpre

theorem outReduce_binop_total {op : String} (h : outReduceOps.contains op = true) (x y : XR) :
    (binop op x y).isSome := by
  simp only [outReduceOps, List.contains_eq_mem, List.mem_cons, List.mem_nil_iff, or_false, decide_eq_true_eq] at h
  rcases h with h | h | h | h <;> subst h <;> simp [binop]

theorem outReduce_foldOp_total {op : String} (h : outReduceOps.contains op = true) (l : List XR) :
    (foldOp op l).isSome := by
  cases l with
  | nil =>
    simp only [outReduceOps, List.contains_eq_mem, List.mem_cons, List.mem_nil_iff, or_false, decide_eq_true_eq] at h
    rcases h with h | h | h | h <;> subst h <;> simp [foldOp, unitOf]
  | cons x xs => exact foldlM_binop_total (outReduce_binop_total h) xs x

theorem shapeOnly_reduceAxes (base : String) (hb : outReduceOps.contains base = true)
    (axes : Option (List Int)) (keep : Bool) : ShapeOnly (fun s => s.reduceAxes base axes keep) := by
  intro s s' hs r hr
  simp only at hr ⊢
  unfold Sem.reduceAxes at hr ⊢
  rw [← hs]
  dsimp only at hr ⊢
  split at hr
  · cases hr
  · rename_i axs haxs
    split at hr
    · cases hr
    · cases hr
      dsimp only
      obtain ⟨v, hv⟩ := mapM_some_of_forall
        (fun oi =>
              foldOp base
                (List.map
                  (fun ri =>
                    s'.get
                      (Sem.reduceAxes.go (List.map (fun d => !axs.contains d) (List.range s.shape.length))
                        (if keep = true then
                          List.filterMap (fun x => if x.2 = true then some x.1 else none)
                            (oi.zip (List.map (fun d => !axs.contains d) (List.range s.shape.length)))
                        else oi)
                        ri))
                  (allIdx
                    (List.filterMap (fun x => if x.2 = true then none else some x.1)
                      (s.shape.zip (List.map (fun d => !axs.contains d) (List.range s.shape.length)))))))
        (allIdx
              (List.filterMap (fun x => if x.2 = true then some x.1 else if keep = true then some 1 else none)
                (s.shape.zip (List.map (fun d => !axs.contains d) (List.range s.shape.length)))))
        (fun x _ => outReduce_foldOp_total hb _)
      rw [hv]
      exact ⟨_, rfl, rfl⟩

theorem normAxis_negAxis (rank : Nat) (d : Int) (h : axisValid rank d = true) :
    normAxis rank (negAxis rank d) = normAxis rank d := by
  simp only [axisValid, decide_eq_true_eq] at h
  obtain ⟨h1, h2⟩ := h
  have hr : (0 : Int) < rank := by omega
  unfold negAxis
  by_cases hd : 0 ≤ d
  · have hm : d % (rank : Int) = d := Int.emod_eq_of_lt hd h2
    rw [hm]
    unfold normAxis
    have c1 : ¬ (0 ≤ d - (rank : Int) ∧ d - (rank : Int) < rank) := by omega
    have c2 : d - (rank : Int) < 0 ∧ -(d - (rank : Int)) ≤ rank := by omega
    have c3 : 0 ≤ d ∧ d < rank := ⟨hd, h2⟩
    rw [if_neg c1, if_pos c2, if_pos c3]
    congr 1
    omega
  · have hm : d % (rank : Int) = d + rank := by
      rw [← Int.add_emod_right]
      exact Int.emod_eq_of_lt (by omega) (by omega)
    rw [hm]
    unfold normAxis
    have c1 : ¬ (0 ≤ d + (rank : Int) - rank ∧ d + (rank : Int) - rank < rank) := by omega
    have c2 : d + (rank : Int) - rank < 0 ∧ -(d + (rank : Int) - rank) ≤ rank := by omega
    have c3 : ¬ (0 ≤ d ∧ d < rank) := by omega
    have c4 : d < 0 ∧ -d ≤ rank := by omega
    rw [if_neg c1, if_pos c2, if_neg c3, if_pos c4]
    congr 2
    omega

theorem mapM_negAxis (rank : Nat) : ∀ (l : List Int), l.all (axisValid rank) = true →
    (l.map (negAxis rank)).mapM (normAxis rank) = l.mapM (normAxis rank) := by
  intro l
  induction l with
  | nil => intro _; rfl
  | cons d l ih =>
    intro h
    simp only [List.all_cons, Bool.and_eq_true] at h
    simp only [List.map_cons, List.mapM_cons, normAxis_negAxis rank d h.1, ih h.2]

/-- Addressing the event axes by negative positions selects the same axes. -/
theorem reduceAxes_negAxis (base : String) (s : Sem) (l : List Int) (keep : Bool)
    (h : l.all (axisValid s.shape.length) = true) :
    s.reduceAxes base (some (l.map (negAxis s.shape.length))) keep = s.reduceAxes base (some l) keep := by
  unfold Sem.reduceAxes
  simp only [mapM_negAxis _ l h]

/-- eager_reduction_tensor: sum/prod/amax/amin/all/any over output axes with axis / keepdims. -/
theorem reduction_axis_sem (base : String) (axes : Option (List Int)) (keep : Bool) (a r : NT) (env : Env)
    (h : reductionAxis base axes keep a = some r) (hpre : (preOf r.inputs env).isSome) :
    r.atEnv env = (a.atEnv env).bind (fun s => s.reduceAxes base axes keep) := by
  unfold reductionAxis at h
  split at h
  · cases h
  · rename_i hb
    have hb' : outReduceOps.contains base = true := by simpa using hb
    split at h
    · split at h
      · exact mapRows_sem _ (shapeOnly_reduceAxes base hb' none keep) a r env h hpre
      · cases h
    · split at h
      · exact mapRows_sem _ (shapeOnly_reduceAxes base hb' axes keep) a r env h hpre
      · split at h
        · exact mapRows_sem _ (shapeOnly_reduceAxes base hb' none keep) a r env h hpre
        · rename_i l
          split at h
          · rename_i hv
            rw [mapRows_sem _ (shapeOnly_reduceAxes base hb' _ keep) a r env h hpre]
            cases hx : a.atEnv env with
            | none => rfl
            | some s =>
              simp only [Option.bind_some]
              have hsh : s.shape = a.shape := by
                simp only [NT.atEnv] at hx
                cases hp : preOf a.inputs env with
                | none => rw [hp] at hx; cases hx
                | some p => rw [hp] at hx; cases hx; rfl
              rw [← hsh] at hv ⊢
              exact reduceAxes_negAxis base s l keep hv
          · cases h

theorem evalUnary_red (op : Op) (base : String) (hl : reductionOps.lookup op.name = some base) (s : Sem) :
    evalUnary op s = (match redArgs op with
      | some (axes, keep) => s.reduceAxes base axes keep
      | none => none) := by
  unfold evalUnary redArgs
  rw [hl]
  dsimp only
  cases hp : paramOf op.params "axis" with
  | none => rfl
  | some x =>
    cases x with
    | atom a =>
      by_cases ha : a = "none"
      · subst ha; rfl
      · cases hi : a.toInt? with
        | none => simp only [hi, Option.map_none]; split <;> simp_all
        | some i => simp only [hi, Option.map_some]; split <;> first | rfl | simp_all
    | str a =>
      cases hi : sexpInts? (Sexp.str a) with
      | none => simp only [hi, Option.map_none]
      | some l => simp only [hi, Option.map_some]; rfl
    | list xs =>
      cases hi : sexpInts? (Sexp.list xs) with
      | none => simp only [hi, Option.map_none]
      | some l => simp only [hi, Option.map_some]; rfl

theorem evalUnary_reshape (op : Op) (hn : op.name = "reshape") (s : Sem) :
    evalUnary op s = ((paramOf op.params "shape").bind Sexp.asNats?).bind s.reshape := by
  unfold evalUnary
  rw [hn]
  simp [reductionOps, List.lookup]

theorem evalUnary_getslice (op : Op) (hn : op.name = "getslice") (s : Sem) :
    evalUnary op s = ((paramOf op.params "index").bind parseIdxItems).bind s.getslice := by
  unfold evalUnary
  rw [hn]
  simp [reductionOps, List.lookup]

/-- Unary dispatch (output-axis reductions, reshape, getslice, pointwise) agrees with `evalUnary`. -/
theorem unaryOp_sem (op : Op) (a r : NT) (env : Env) (h : unaryOp op a = some r)
    (hpre : (preOf r.inputs env).isSome) :
    r.atEnv env = (a.atEnv env).bind (evalUnary op) := by
  unfold unaryOp at h
  split at h
  · rename_i base hl
    split at h
    · rename_i axes keep hra
      rw [reduction_axis_sem base axes keep a r env h hpre]
      congr 1; funext s; rw [evalUnary_red op base hl s, hra]
    · cases h
  · rename_i hl
    split at h
    · rename_i hn
      have hn' : op.name = "reshape" := by simpa using hn
      split at h
      · rename_i sh hsh
        rw [reshape_sem sh a r env h hpre]
        congr 1; funext s; rw [evalUnary_reshape op hn' s, hsh]; rfl
      · cases h
    · split at h
      · rename_i hn
        have hn' : op.name = "getslice" := by simpa using hn
        split at h
        · rename_i items hit
          rw [getslice_sem items a r env h hpre]
          congr 1; funext s; rw [evalUnary_getslice op hn' s, hit]; rfl
        · cases h
      · exact unary_sem op a r env h

theorem foldl_add (l : List Nat) : ∀ (a : Nat), l.foldl (· + ·) a = a + l.foldl (· + ·) 0 := by
  induction l with
  | nil => intro a; simp
  | cons x l ih => intro a; simp only [List.foldl_cons]; rw [ih (a + x), ih (0 + x)]; omega

/-- A global position below the total size lies in exactly one part, at a local position inside it. -/
theorem locate_some : ∀ (sizes : List Nat) (g k0 : Nat), g < sizes.foldl (· + ·) 0 →
    ∃ j loc sz, locate sizes g k0 = some (k0 + j, loc) ∧ sizes[j]? = some sz ∧ loc < sz := by
  intro sizes
  induction sizes with
  | nil => intro g k0 h; simp at h
  | cons s ss ih =>
    intro g k0 h
    simp only [List.foldl_cons] at h
    rw [foldl_add] at h
    simp only [locate]
    by_cases hg : g < s
    · exact ⟨0, g, s, by simp [hg], by simp, hg⟩
    · obtain ⟨j, loc, sz, hl, hs, hlt⟩ := ih (g - s) (k0 + 1) (by omega)
      refine ⟨j + 1, loc, sz, ?_, by simpa using hs, hlt⟩
      simp only [hg, if_false, hl]
      congr 2; omega

theorem zip_getElem? {α β : Type} : ∀ (l1 : List α) (l2 : List β) (k : Nat) (a : α) (b : β),
    l1[k]? = some a → l2[k]? = some b → (a, b) ∈ l1.zip l2 := by
  intro l1 l2 k a b h1 h2
  have : (l1.zip l2)[k]? = some (a, b) := by simp [List.getElem?_zip_eq_some, h1, h2]
  exact List.mem_of_getElem? this

theorem mapM_getElem? {α β : Type} (f : α → Option β) : ∀ (l : List α) (r : List β), l.mapM f = some r →
    ∀ (k : Nat) (b : β), r[k]? = some b → ∃ a, l[k]? = some a ∧ f a = some b := by
  intro l
  induction l with
  | nil => intro r h k b hk; simp at h; subst h; simp at hk
  | cons x l ih =>
    intro r h k b hk
    simp only [List.mapM_cons] at h
    cases hx : f x with
    | none => simp [hx] at h
    | some y =>
      cases hr : l.mapM f with
      | none => simp [hx, hr] at h
      | some r' =>
        simp [hx, hr] at h
        subst h
        cases k with
        | zero => simp at hk; subst hk; exact ⟨x, by simp, hx⟩
        | succ k =>
          simp only [List.getElem?_cons_succ] at hk ⊢
          exact ih r' hr k b hk

/-- eager_cat_homogeneous: the new leading input locates the part and the position inside it. -/
theorem cat_sem (name partName : Name) (parts : List NT) (sizes : List Nat) (r : NT) (env : Env)
    (hsz : catSizes partName parts = some sizes)
    (h : cat name partName parts = some r) (hpre : (preOf r.inputs env).isSome) :
    r.atEnv env = (match (env.lookup name).bind Sem.toNat? with
      | none => none
      | some g => match locate sizes g 0 with
        | none => none
        | some (k, loc) => match parts[k]? with
          | some p => p.atEnv ((partName, Sem.ofNat loc) :: env)
          | none => none) := by
  unfold cat at h
  split at h
  · cases h
  · rename_i p0 ps
    generalize odErase ((p0 :: ps).foldl (fun acc p => odUpdate acc p.inputs) [(partName, 0)]) partName = rest at h
    unfold catSizes at hsz
    simp only [hsz] at h
    simp only [Bool.and_eq_true] at h
    split at h
    · rename_i hc
      obtain ⟨⟨hshape, hsub⟩, hname⟩ := hc
      cases h
      obtain ⟨pp, hpp⟩ := Option.isSome_iff_exists.mp hpre
      simp only [preOf] at hpp
      split at hpp
      · rename_i g p hg hp
        cases hpp
        obtain ⟨hlook, hlt⟩ := envIdx_some hg
        simp only [hlook]
        have hlen := preOf_length hp
        obtain ⟨j, loc, sz, hloc, hsj, hlocsz⟩ := locate_some sizes g 0 hlt
        simp only [Nat.zero_add] at hloc
        simp only [hloc]
        obtain ⟨part, hpart, hlk⟩ := mapM_getElem? _ _ _ hsz j sz hsj
        have hmem : (part, sz) ∈ (p0 :: ps).zip sizes := zip_getElem? _ _ j part sz hpart hsj
        have hsd := (List.all_eq_true.mp hsub) (part, sz) hmem
        simp only at hsd
        obtain ⟨g', hg', hr⟩ := readAt_eq (env := env) part [(partName, sz)] rest [loc] p
          (by simp [validIdx, hlocsz]) hp (by simpa using hsd)
        simp only [List.map_cons, List.map_nil, bindEnv, List.cons_append, List.nil_append] at hg' hr
        have hsh : part.shape = p0.shape := by
          have := (List.all_eq_true.mp hshape) part (List.mem_of_getElem? hpart)
          simpa using this
        simp only [hpart, NT.atEnv, preOf, hg, hp, hg', Option.map_some, NT.row, Option.some.injEq, Sem.mk.injEq]
        refine ⟨hsh.symm, ?_⟩
        funext ev
        simp only [List.cons_append, hloc, hpart, ← hlen, List.take_left', List.drop_left', hr]
      · cases hpp
    · cases h

end FV.Props.C01
