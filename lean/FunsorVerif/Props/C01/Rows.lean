/-
  Props/C01/Rows.lean — operations on the output (event) axes: reshape, getslice, reductions with
  axis/keepdims act row by row (`mapRows_sem`), and addressing the event axes by negative positions
  (`axis % ndims - ndims`, eager_reduction_tensor) selects the same axes (`negAxis_norm`).
-/
import FunsorVerif.Props.C01.Reduce
namespace FV.Props.C01
open FV FV.C01

/-- The success and the result shape of `f` depend only on the shape of its argument. -/
def ShapeOnly (f : Sem → Option Sem) : Prop :=
  ∀ s s' : Sem, s.shape = s'.shape → ∀ r, f s = some r → ∃ r', f s' = some r' ∧ r'.shape = r.shape

/-- Row-wise operations (reshape, getslice, reductions of output axes) leave the inputs alone and
    transform the event part by the specification-level function. -/
theorem mapRows_sem (f : Sem → Option Sem) (hf : ShapeOnly f) (a r : NT) (env : Env)
    (h : mapRows f a = some r) (hpre : (preOf r.inputs env).isSome) :
    r.atEnv env = (a.atEnv env).bind f := by
  unfold mapRows at h
  split at h
  · cases h
  · rename_i probe hprobe
    cases h
    obtain ⟨p, hp⟩ := Option.isSome_iff_exists.mp hpre
    simp only at hp
    have hlen := preOf_length hp
    obtain ⟨r', hr', hsh⟩ := hf (a.row (a.inputs.map fun _ => 0)) (a.row p) rfl probe hprobe
    simp only [NT.atEnv, hp, Option.map_some, Option.bind_some, hr']
    cases r' with
    | mk sh g =>
      simp only at hsh
      have hfr : f ⟨a.shape, fun ev => a.data (p ++ ev)⟩ = some ⟨sh, g⟩ := hr'
      simp only [NT.row, ← hsh, Option.some.injEq, Sem.mk.injEq, true_and]
      funext ev
      simp only [← hlen, List.take_left', List.drop_left', hfr]

theorem shapeOnly_reshape (newShape : List Nat) : ShapeOnly (fun s => s.reshape newShape) := by
  intro s s' hs r hr
  simp only [Sem.reshape] at hr ⊢
  rw [← hs]
  split at hr
  · cases hr
  · rename_i hc
    cases hr
    rw [if_neg hc]
    exact ⟨_, rfl, rfl⟩

theorem shapeOnly_getslice (items : List IdxItem) : ShapeOnly (fun s => s.getslice items) := by
  intro s s' hs r hr
  simp only [Sem.getslice] at hr ⊢
  rw [← hs]
  split at hr
  · cases hr
  · rename_i hc
    split at hr
    · cases hr
    · rename_i hok
      cases hr
      rw [if_neg hc, if_neg hok]
      exact ⟨_, rfl, rfl⟩

/-- eager_reshape_tensor. -/
theorem reshape_sem (newShape : List Nat) (a r : NT) (env : Env)
    (h : C01.reshape newShape a = some r) (hpre : (preOf r.inputs env).isSome) :
    r.atEnv env = (a.atEnv env).bind (fun s => s.reshape newShape) :=
  mapRows_sem _ (shapeOnly_reshape newShape) a r env h hpre

/-- eager_getslice_tensor. -/
theorem getslice_sem (items : List IdxItem) (a r : NT) (env : Env)
    (h : C01.getslice items a = some r) (hpre : (preOf r.inputs env).isSome) :
    r.atEnv env = (a.atEnv env).bind (fun s => s.getslice items) :=
  mapRows_sem _ (shapeOnly_getslice items) a r env h hpre

theorem outReduce_binop_total {op : String} (h : outReduceOps.contains op = true) (x y : XR) :
    (binop op x y).isSome := by
  simp only [outReduceOps, List.contains_eq_mem, List.mem_cons, List.mem_nil_iff, or_false, decide_eq_true_eq] at h
  rcases h with h | h | h | h | h | h <;> subst h <;> simp [binop]

theorem outReduce_foldOp_total {op : String} (h : outReduceOps.contains op = true) (l : List XR) :
    (foldOp op l).isSome := by
  cases l with
  | nil =>
    simp only [outReduceOps, List.contains_eq_mem, List.mem_cons, List.mem_nil_iff, or_false, decide_eq_true_eq] at h
    rcases h with h | h | h | h | h | h <;> subst h <;> simp [foldOp, unitOf]
  | cons x xs => exact foldlM_binop_total (outReduce_binop_total h) xs x

theorem shapeOnly_reduceAxes (base : String) (hb : outReduceOps.contains base = true)
    (axes : Option (List Int)) (keep : Bool) : ShapeOnly (fun s => s.reduceAxes base axes keep) := by
  intro s s' hs r hr
  simp only at hr ⊢
  unfold Sem.reduceAxes at hr ⊢
  rw [← hs]
  dsimp only at hr ⊢
  split at hr
  · cases hr
  · rename_i axs haxs
    split at hr
    · cases hr
    · cases hr
      dsimp only
      obtain ⟨v, hv⟩ := mapM_some_of_forall
        (fun oi =>
              foldOp base
                (List.map
                  (fun ri =>
                    s'.get
                      (Sem.reduceAxes.go (List.map (fun d => !axs.contains d) (List.range s.shape.length))
                        (if keep = true then
                          List.filterMap (fun x => if x.2 = true then some x.1 else none)
                            (oi.zip (List.map (fun d => !axs.contains d) (List.range s.shape.length)))
                        else oi)
                        ri))
                  (allIdx
                    (List.filterMap (fun x => if x.2 = true then none else some x.1)
                      (s.shape.zip (List.map (fun d => !axs.contains d) (List.range s.shape.length)))))))
        (allIdx
              (List.filterMap (fun x => if x.2 = true then some x.1 else if keep = true then some 1 else none)
                (s.shape.zip (List.map (fun d => !axs.contains d) (List.range s.shape.length)))))
        (fun x _ => outReduce_foldOp_total hb _)
      rw [hv]
      exact ⟨_, rfl, rfl⟩

end FV.Props.C01
