/-
  Props/C01/Slice.lean — a slice that keeps the whole extent of an axis need not be the identity.
  `x[::-1]` reads the positions n-1, …, 0 (`slicePositions_full_rev`), so the result has the SAME shape
  (`slicePositions_full_rev_length`) but never the same positions once n ≥ 2 (`slicePositions_full_rev_ne_full`).  Hence "result shape = operand shape" does not license returning the
  operand (`same_shape_not_identity_witness`); the positive full slice reads 0, …, n-1 (`slicePositions_full`).
-/
import FunsorVerif.Model.C01Slice
namespace FV.Props.C01
open FV FV.C01

theorem slicePositions_full_rev (n : Nat) :
    slicePositions n none none (-1) = some ((List.range n).map fun k => n - 1 - k) := by
  have hc : sliceCount ((n : Int) - 1) (-1) (-1) = n := by
    unfold sliceCount
    by_cases h : n = 0
    · subst h; decide
    · have h1 : ¬ ((-1 : Int) > 0) := by omega
      have h2 : (-1 : Int) < 0 := by omega
      have h3 : (-1 : Int) < (n : Int) - 1 := by omega
      simp only [h1, h2, h3, if_true, if_false, Int.neg_neg, Int.ediv_one]
      omega
  simp only [slicePositions, sliceBounds, show ((-1 : Int) = 0) = False from by simp, if_false,
    show decide ((-1 : Int) < 0) = true from by decide, if_true, hc]
  congr 1
  apply List.map_congr_left
  intro k hk
  have := List.mem_range.mp hk
  omega

theorem slicePositions_full_rev_length (n : Nat) :
    (slicePositions n none none (-1)).map List.length = some n := by
  rw [slicePositions_full_rev]; simp

theorem slicePositions_full (n : Nat) : slicePositions n none none 1 = some (List.range n) := by
  have hc : sliceCount 0 (n : Int) 1 = n := by
    unfold sliceCount
    by_cases h : n = 0
    · subst h; decide
    · have h1 : ((1 : Int) > 0) := by omega
      have h3 : (0 : Int) < (n : Int) := by omega
      simp only [h1, h3, if_true, Int.ediv_one]
      omega
  simp only [slicePositions, sliceBounds, show ((1 : Int) = 0) = False from by simp, if_false,
    show decide ((1 : Int) < 0) = false from by decide, Bool.false_eq_true, if_false, hc]
  congr 1
  conv => rhs; rw [← List.map_id (List.range n)]
  apply List.map_congr_left
  intro k _
  simp only [id]
  omega

/-- For an axis of size ≥ 2 the full-extent reversal reads different positions than the identity slice although
    both read `n` of them: equal result shape never implies equal contents. -/
theorem slicePositions_full_rev_ne_full (n : Nat) (h : 2 ≤ n) :
    slicePositions n none none (-1) ≠ slicePositions n none none 1 := by
  rw [slicePositions_full_rev, slicePositions_full]
  intro he
  have h0 := congrArg (fun o => o.bind (·[0]?)) he
  simp only [Option.bind_some, List.getElem?_map, List.getElem?_range (show 0 < n by omega), Option.map_some] at h0
  simp only [Option.some.injEq] at h0
  omega

theorem same_shape_not_identity_witness :
    (slicePositions 3 none none (-1)).map List.length = (slicePositions 3 none none 1).map List.length ∧
    takeSlice [1, 2, 3] none none (-1) = some [3, 2, 1] ∧ takeSlice [1, 2, 3] none none 1 = some [1, 2, 3] ∧
    takeSlice [1, 2, 3, 4] (some 2) none (-1) = some [3, 2, 1] ∧ takeSlice [1, 2, 3, 4] none none (-2) = some [4, 2] ∧
    takeSlice [1, 2, 3, 4] (some (-1)) (some (-5)) (-1) = some [4, 3, 2, 1] ∧ takeSlice [1, 2, 3] none none 0 = none := by
  decide

end FV.Props.C01
