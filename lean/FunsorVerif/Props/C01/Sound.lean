/-
  Props/C01/Sound.lean — `peval_sound`: the eager result of a ground expression, once its remaining
  inputs are bound, is the textbook value (`denote`) of the expression.
-/
import FunsorVerif.Props.C01.Subs
namespace FV.Props.C01
open FV FV.C01

theorem atEnv_isSome (t : NT) (env : Env) : (t.atEnv env).isSome = (preOf t.inputs env).isSome := by
  simp [NT.atEnv]

theorem atAll_some_pre (a : NT) : ∀ (envs : List Env) (vs : List Sem), atAll a envs = some vs →
    ∀ e ∈ envs, (preOf a.inputs e).isSome := by
  intro envs
  induction envs with
  | nil => intro _ _ e he; cases he
  | cons e0 envs ih =>
    intro vs h e he
    simp only [atAll] at h
    split at h
    · rename_i v vs' hv hvs
      rcases List.mem_cons.mp he with rfl | he
      · rw [← atEnv_isSome, hv]; rfl
      · exact ih vs' hvs e he
    · cases h

theorem denoteAll_eq_atAll (arg : Term) (ra : NT)
    (ih : ∀ e, (preOf ra.inputs e).isSome → ra.atEnv e = denote arg e) :
    ∀ (envs : List Env) (vs : List Sem), atAll ra envs = some vs → denoteAll arg envs = some vs := by
  intro envs
  induction envs with
  | nil => intro vs h; simpa [atAll, denoteAll] using h
  | cons e envs ihl =>
    intro vs h
    have hpre := atAll_some_pre ra _ _ h e List.mem_cons_self
    simp only [atAll] at h
    split at h
    · rename_i v vs' hv hvs
      cases h
      simp only [denoteAll, ← ih e hpre, hv, ihl vs' hvs]
    · cases h

theorem assignments_eq : ∀ (vars : List (Name × Dom)) (vs : List (Name × Nat)), varsSizes vars = some vs →
    assignments vars = some ((allIdx (vs.map (·.2))).map (bindEnv (vs.map (·.1)))) := by
  intro vars
  induction vars with
  | nil => intro vs h; simp [varsSizes] at h; subst h; simp [assignments, allIdx, bindEnv]
  | cons hd rest ih =>
    intro vs h
    obtain ⟨n, d⟩ := hd
    simp only [varsSizes, List.mapM_cons] at h
    cases hv : varSize (n, d) with
    | none => simp [hv] at h
    | some nk =>
      cases hr : List.mapM varSize rest with
      | none => simp [hv, hr] at h
      | some vs' =>
        simp [hv, hr] at h
        subst h
        obtain ⟨dt, sh⟩ := d
        cases dt with
        | real => simp [varSize] at hv
        | bint k =>
          cases sh with
          | cons _ _ => simp [varSize] at hv
          | nil =>
            simp only [varSize, Option.some.injEq] at hv
            subst hv
            simp only [assignments, ih vs' hr, List.map_cons, allIdx, List.map_flatMap, List.map_map,
              Function.comp_def, bindEnv]

theorem denoteSubs_nums (env : Env) : ∀ (σ : List (Name × Term)) (σn : List (Name × Nat)),
    subsNums σ = some σn →
    ∃ bound, denoteSubs σ env = some bound ∧
      ∀ n, ((bound ++ env).lookup n).bind Sem.toNat? =
           ((bindEnv (σn.map (·.1)) (σn.map (·.2)) ++ env).lookup n).bind Sem.toNat? := by
  intro σ
  induction σ with
  | nil => intro σn h; simp [subsNums] at h; subst h; exact ⟨[], by simp [denoteSubs], fun n => by simp [bindEnv]⟩
  | cons hd rest ih =>
    intro σn h
    obtain ⟨k, t⟩ := hd
    simp only [subsNums, List.mapM_cons] at h
    cases hv : subNum (k, t) with
    | none => simp [hv] at h
    | some ki =>
      cases hr : List.mapM subNum rest with
      | none => simp [hv, hr] at h
      | some σn' =>
        simp [hv, hr] at h
        subst h
        obtain ⟨b', hb', hl'⟩ := ih σn' hr
        cases t with
        | num v dt =>
          simp only [subNum] at hv
          cases hx : xrToNat? v with
          | none => simp [hx] at hv
          | some i =>
            simp [hx] at hv
            subst hv
            refine ⟨(k, Sem.scalar v) :: b', by simp [denoteSubs, denote, hb'], ?_⟩
            intro n
            simp only [List.map_cons, bindEnv, List.cons_append, Env.lookup]
            by_cases hk : k == n
            · simp only [hk, if_true, Option.bind_some, toNat_ofNat]
              rw [toNat?_eq _ rfl]; simpa [Sem.scalar] using hx
            · simp only [hk]; exact hl' n
        | _ => simp [subNum] at hv

theorem envIdx_congr (e1 e2 : Env) (n : Name) (s : Nat)
    (h : (e1.lookup n).bind Sem.toNat? = (e2.lookup n).bind Sem.toNat?) : envIdx e1 n s = envIdx e2 n s := by
  simp only [envIdx, h]

theorem xrToNat_nat (n : Nat) : xrToNat? (XR.fin (n : Rat)) = some n := by
  simp [xrToNat?]

theorem rangeNT_idx (m : Name) (start step len : Nat) (env : Env)
    (hp : (preOf (rangeNT m start step len).inputs env).isSome) :
    idxAt (rangeNT m start step len) env =
      ((env.lookup m).bind Sem.toNat?).map (fun i => start + step * i) := by
  obtain ⟨p, hp⟩ := Option.isSome_iff_exists.mp hp
  simp only [rangeNT, preOf] at hp
  split at hp
  · rename_i i is hi his
    cases his; cases hp
    obtain ⟨hl, _⟩ := envIdx_some hi
    simp only [idxAt, NT.atEnv, rangeNT, preOf, hi, Option.map_some, Option.bind_some, hl]
    rw [toNat?_eq _ rfl]
    show xrToNat? (XR.fin ((start + step * i : Nat) : Rat)) = _
    rw [xrToNat_nat]
  · cases hp

/-- `Slice(m, start, stop, step)` used as a substitution value / index is the arange tensor over its own
    input: at every environment it denotes `start + step·m`, the textbook value of the Slice term. -/
theorem slice_sem (m : Name) (start stop step dt : Nat) (env : Env)
    (hp : (preOf (rangeNT m start step (sliceLen start stop step)).inputs env).isSome) :
    idxAt (rangeNT m start step (sliceLen start stop step)) env =
      (denote (Term.slice m start stop step dt) env).bind Sem.toNat? := by
  rw [rangeNT_idx m start step _ env hp]
  simp only [denote]
  cases (env.lookup m).bind Sem.toNat? with
  | none => rfl
  | some i => simp [toNat_ofNat]

mutual
  /-- **C01 (soundness).**  Whenever the partial evaluator (= eager interpretation on ground
      operands) returns a tensor `r` for the expression `t`, then under every environment binding
      `r`'s remaining inputs, `r` evaluates to the textbook value of `t`. -/
  theorem peval_sound : ∀ (t : Term) (r : NT), peval t = some r →
      ∀ env, (preOf r.inputs env).isSome → r.atEnv env = denote t env
    | Term.num v dt, r, h, env, _ => by
      simp only [peval, Option.some.injEq] at h; subst h
      simp [denote, ofNumber, NT.atEnv, preOf, NT.row, Sem.scalar]
    | Term.tensor inputs dom data, r, h, env, _ => by
      simp only [peval, Option.some.injEq] at h; subst h
      exact tensor_sem inputs dom data env
    | Term.unary op a, r, h, env, hp => by
      simp only [peval] at h
      split at h
      · rename_i ra hra
        have hs := unaryOp_sem op ra r env h hp
        have hsome : (ra.atEnv env).isSome := by
          have : (r.atEnv env).isSome := by rw [atEnv_isSome]; exact hp
          rw [hs] at this
          cases hx : ra.atEnv env with
          | none => rw [hx] at this; simp at this
          | some _ => rfl
        rw [atEnv_isSome] at hsome
        rw [hs, peval_sound a ra hra env hsome]
        simp only [denote]
      · cases h
    | Term.binary op l rr, r, h, env, hp => by
      simp only [peval] at h
      split at h
      · -- getitem: the index may be a Variable / Slice (arange) — only the index it denotes matters
        rename_i hname
        have hname' : op.name = "getitem" := by simpa using hname
        split at h
        · rename_i a b ha hb
          have hs := getitem_semI (getitemOffset op) a b r env h hp
          have hsome : (r.atEnv env).isSome := by rw [atEnv_isSome]; exact hp
          rw [hs] at hsome
          cases hx : a.atEnv env with
          | none => rw [hx] at hsome; simp at hsome
          | some x =>
            cases hy : idxAt b env with
            | none => rw [hx, hy] at hsome; simp at hsome
            | some k =>
              have hpa : (preOf a.inputs env).isSome := by rw [← atEnv_isSome, hx]; rfl
              have hpb : (preOf b.inputs env).isSome := by
                rw [← atEnv_isSome]
                unfold idxAt at hy
                cases hb' : b.atEnv env with
                | none => rw [hb'] at hy; simp at hy
                | some _ => rfl
              have hidx := pevalIdx_sound rr b hb env hpb
              rw [hy] at hidx
              rw [hs, hx, hy]
              simp only [denote, ← peval_sound l a ha env hpa, hx]
              cases hd : denote rr env with
              | none => rw [hd] at hidx; simp at hidx
              | some y =>
                rw [hd] at hidx
                simp only [Option.bind_some] at hidx
                simp only [evalBinary_getitem op hname', ← hidx, Option.bind_some, getitemOffset]
        · cases h
      · split at h
        · rename_i a b ha hb
          have hs := binary_sem op a b r env h hp
          have hsome : (r.atEnv env).isSome := by rw [atEnv_isSome]; exact hp
          rw [hs] at hsome
          cases hx : a.atEnv env with
          | none => rw [hx] at hsome; simp at hsome
          | some x =>
            cases hy : b.atEnv env with
            | none => rw [hx, hy] at hsome; simp at hsome
            | some y =>
              have hpa : (preOf a.inputs env).isSome := by rw [← atEnv_isSome, hx]; rfl
              have hpb : (preOf b.inputs env).isSome := by rw [← atEnv_isSome, hy]; rfl
              rw [hs, hx, hy]
              simp only [denote, ← peval_sound l a ha env hpa, ← peval_sound rr b hb env hpb, hx, hy]
        · cases h
    | Term.reduce op arg vars, r, h, env, hp => by
      simp only [peval] at h
      split at h
      · rename_i ra vs hra hvs
        have hs := eagerReduce_sem op vs ra r env h hp
        have hsome : (r.atEnv env).isSome := by rw [atEnv_isSome]; exact hp
        rw [hs] at hsome
        cases hall : atAll ra ((allIdx (vs.map (·.2))).map fun asg => bindEnv (vs.map (·.1)) asg ++ env) with
        | none => rw [hall] at hsome; simp at hsome
        | some vals =>
          have hden := denoteAll_eq_atAll arg ra (fun e he => peval_sound arg ra hra e he) _ _ hall
          rw [hs, hall]
          simp only [denote, assignments_eq vars vs hvs, List.map_map, Function.comp_def, hden]
          cases vals with
          | nil => rfl
          | cons v vs' => rfl
      · cases h
    | Term.subs arg σ, r, h, env, hp => by
      simp only [peval] at h
      split at h
      · cases h
      · rename_i ra hra
        split at h
        · rename_i σn hσ
          obtain ⟨bound, hb, hl⟩ := denoteSubs_nums env σ σn hσ
          have hs := subsNum_sem σn ra r env (bound ++ env) h hp
            (fun p _ => envIdx_congr _ _ _ _ (hl p.1))
          have hsome : (ra.atEnv (bound ++ env)).isSome := by
            rw [← hs, atEnv_isSome]; exact hp
          rw [atEnv_isSome] at hsome
          rw [hs, peval_sound arg ra hra _ hsome]
          simp only [denote, hb]
        · split at h
          · rename_i σv hσv
            have hidx := subsGen_idx_some σv ra r env h hp
            obtain ⟨bound, hb, hl⟩ := pevalSubs_sound σ σv hσv env hidx
            have hs := subsGen_sem σv ra r env (bound ++ env) h hp (by
              intro q _
              have := hl q.1
              unfold envIdx
              rw [this]
              cases σv.lookup q.1 with
              | none => rfl
              | some v => simp only; cases idxAt v env <;> rfl)
            have hsome : (ra.atEnv (bound ++ env)).isSome := by
              rw [← hs, atEnv_isSome]; exact hp
            rw [atEnv_isSome] at hsome
            rw [hs, peval_sound arg ra hra _ hsome]
            simp only [denote, hb]
          · cases h
    | Term.stack n parts, r, h, env, hp => by
      simp only [peval] at h
      split at h
      · rename_i rs hrs
        have hs := stack_sem n rs r env h hp
        have hsome : (r.atEnv env).isSome := by rw [atEnv_isSome]; exact hp
        rw [hs] at hsome ⊢
        simp only [denote]
        cases hl : (env.lookup n).bind Sem.toNat? with
        | none => rfl
        | some i =>
          rw [hl] at hsome
          simp only at hsome ⊢
          cases hpi : rs[i]? with
          | none => rw [hpi] at hsome; simp at hsome
          | some p =>
            rw [hpi] at hsome
            simp only at hsome ⊢
            rw [atEnv_isSome] at hsome
            exact pevalList_sound parts rs hrs i p hpi env hsome
      · cases h
    | Term.lambda n size body, r, h, env, hp => by
      simp only [peval] at h
      split at h
      · rename_i rb hrb
        have hs := lambda_sem n size rb r env h hp
        have hsome : (r.atEnv env).isSome := by rw [atEnv_isSome]; exact hp
        rw [hs] at hsome
        cases hall : atAll rb ((List.range size).map fun i => (n, Sem.ofNat i) :: env) with
        | none => rw [hall] at hsome; simp at hsome
        | some vals =>
          have hden := denoteAll_eq_atAll body rb (fun e he => peval_sound body rb hrb e he) _ _ hall
          rw [hs, hall]
          simp only [denote, hden]
          cases vals with
          | nil => rfl
          | cons v vs' => rfl
      · cases h
    | Term.var _ _, r, h, _, _ => by simp [peval] at h
    | Term.slice _ _ _ _ _, r, h, _, _ => by simp [peval] at h
    | Term.cat n pn sizes parts, r, h, env, hp => by
      simp only [peval] at h
      split at h
      · rename_i rs hrs
        split at h
        · rename_i hsz
          have hsz' : catSizes pn rs = some sizes := by simpa using hsz
          have hs := cat_sem n pn rs sizes r env hsz' h hp
          have hsome : (r.atEnv env).isSome := by rw [atEnv_isSome]; exact hp
          rw [hs] at hsome ⊢
          simp only [denote]
          cases hl : (env.lookup n).bind Sem.toNat? with
          | none => rfl
          | some g =>
            rw [hl] at hsome
            simp only at hsome ⊢
            cases hloc : locate sizes g 0 with
            | none => rfl
            | some kl =>
              obtain ⟨k, loc⟩ := kl
              rw [hloc] at hsome
              simp only at hsome ⊢
              cases hpi : rs[k]? with
              | none => rw [hpi] at hsome; simp at hsome
              | some p =>
                rw [hpi] at hsome
                simp only at hsome ⊢
                rw [atEnv_isSome] at hsome
                exact pevalList_sound parts rs hrs k p hpi _ hsome
        · cases h
      · cases h
    | Term.independent _ _ _ _ _, r, h, _, _ => by simp [peval] at h
    | Term.align _ _, r, h, _, _ => by simp [peval] at h
    | Term.contraction _ _ _ _, r, h, _, _ => by simp [peval] at h
    | Term.finitary _ _, r, h, _, _ => by simp [peval] at h
    | Term.delta _, r, h, _, _ => by simp [peval] at h
  theorem pevalList_sound : ∀ (ts : List Term) (rs : List NT), pevalList ts = some rs →
      ∀ (i : Nat) (r : NT), rs[i]? = some r →
      ∀ env, (preOf r.inputs env).isSome → r.atEnv env = denoteNth ts i env
    | [], rs, h, i, r, hi, _, _ => by
      simp only [pevalList, Option.some.injEq] at h; subst h; simp at hi
    | t :: ts, rs, h, i, r, hi, env, hp => by
      simp only [pevalList] at h
      split at h
      · rename_i r0 rs' hr0 hrs'
        cases h
        cases i with
        | zero =>
          simp only [List.getElem?_cons_zero, Option.some.injEq] at hi; subst hi
          simp only [denoteNth]
          exact peval_sound t r0 hr0 env hp
        | succ i =>
          simp only [List.getElem?_cons_succ] at hi
          simp only [denoteNth]
          exact pevalList_sound ts rs' hrs' i r hi env hp
      · cases h
  /-- An index value (Variable / Slice as arange, or an evaluated tensor) denotes the same index. -/
  theorem pevalIdx_sound : ∀ (t : Term) (v : NT), pevalIdx t = some v →
      ∀ env, (preOf v.inputs env).isSome → idxAt v env = (denote t env).bind Sem.toNat?
    | Term.var m d, v, h, env, hp => by
      obtain ⟨dt, sh⟩ := d
      cases dt with
      | real => simp [pevalIdx] at h
      | bint s =>
        cases sh with
        | cons _ _ => simp [pevalIdx] at h
        | nil =>
          simp only [pevalIdx, Option.some.injEq] at h; subst h
          exact rangeNT_idx m 0 1 s env hp |>.trans (by simp [denote, Nat.zero_add, Nat.one_mul])
    | Term.slice m start stop step dt, v, h, env, hp => by
      simp only [pevalIdx, Option.some.injEq] at h; subst h
      rw [rangeNT_idx m start step _ env hp]
      simp only [denote]
      cases (env.lookup m).bind Sem.toNat? with
      | none => rfl
      | some i => simp [toNat_ofNat]
    | Term.num x dt, v, h, env, hp => by
      simp only [pevalIdx] at h
      rw [idxAt, peval_sound (Term.num x dt) v (by simpa [peval] using h) env hp]
    | Term.tensor i d x, v, h, env, hp => by
      simp only [pevalIdx] at h
      rw [idxAt, peval_sound (Term.tensor i d x) v (by simpa [peval] using h) env hp]
    | Term.stack n parts, v, h, env, hp => by
      simp only [pevalIdx] at h
      rw [idxAt, peval_sound (Term.stack n parts) v (by simpa [peval] using h) env hp]
    | Term.subs _ _, v, h, _, _ => by simp [pevalIdx] at h
    | Term.unary _ _, v, h, _, _ => by simp [pevalIdx] at h
    | Term.binary _ _ _, v, h, _, _ => by simp [pevalIdx] at h
    | Term.reduce _ _ _, v, h, _, _ => by simp [pevalIdx] at h
    | Term.cat _ _ _ _, v, h, _, _ => by simp [pevalIdx] at h
    | Term.lambda _ _ _, v, h, _, _ => by simp [pevalIdx] at h
    | Term.independent _ _ _ _ _, v, h, _, _ => by simp [pevalIdx] at h
    | Term.align _ _, v, h, _, _ => by simp [pevalIdx] at h
    | Term.contraction _ _ _ _, v, h, _, _ => by simp [pevalIdx] at h
    | Term.finitary _ _, v, h, _, _ => by simp [pevalIdx] at h
    | Term.delta _, v, h, _, _ => by simp [pevalIdx] at h
  /-- The substitution values, evaluated in the caller's environment, bind each key to the index its
      model value denotes. -/
  theorem pevalSubs_sound : ∀ (σ : List (Name × Term)) (σv : List (Name × NT)), pevalSubs σ = some σv →
      ∀ env, (∀ q ∈ σv, (idxAt q.2 env).isSome) →
      ∃ bound, denoteSubs σ env = some bound ∧
        ∀ n, ((bound ++ env).lookup n).bind Sem.toNat? =
          (match σv.lookup n with
           | some v => idxAt v env
           | none => (env.lookup n).bind Sem.toNat?)
    | [], σv, h, env, _ => by
      simp only [pevalSubs, Option.some.injEq] at h; subst h
      exact ⟨[], by simp [denoteSubs], fun n => by simp⟩
    | (k, t) :: rest, σv, h, env, hall => by
      simp only [pevalSubs] at h
      split at h
      · rename_i v vs hv hvs
        cases h
        obtain ⟨b', hb', hl'⟩ := pevalSubs_sound rest vs hvs env
          (fun q hq => hall q (List.mem_cons_of_mem _ hq))
        have hsome := hall (k, v) List.mem_cons_self
        obtain ⟨i, hi⟩ := Option.isSome_iff_exists.mp hsome
        simp only at hi
        have hpv : (preOf v.inputs env).isSome := by
          rw [← atEnv_isSome]
          unfold idxAt at hi
          cases hb : v.atEnv env with
          | none => rw [hb] at hi; simp at hi
          | some _ => rfl
        have hidx := pevalIdx_sound t v hv env hpv
        rw [hi] at hidx
        cases hd : denote t env with
        | none => rw [hd] at hidx; simp at hidx
        | some sv =>
          rw [hd] at hidx
          simp only [Option.bind_some] at hidx
          refine ⟨(k, sv) :: b', by simp [denoteSubs, hd, hb'], ?_⟩
          intro n
          simp only [List.cons_append, Env.lookup, List.lookup_cons]
          rw [BEq.comm (a := k) (b := n)]
          by_cases hk : n == k
          · simp only [hk, if_true, Option.bind_some, ← hidx, hi]
          · simp only [hk]; exact hl' n
      · cases h
end

end FV.Props.C01
