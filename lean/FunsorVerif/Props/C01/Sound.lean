/-
  Props/C01/Sound.lean — `peval_sound`: the eager result of a ground expression, once its remaining
  inputs are bound, is the textbook value (`denote`) of the expression.
-/
import FunsorVerif.Props.C01.Rows
namespace FV.Props.C01
open FV FV.C01

theorem atEnv_isSome (t : NT) (env : Env) : (t.atEnv env).isSome = (preOf t.inputs env).isSome := by
  simp [NT.atEnv]

theorem atAll_some_pre (a : NT) : ∀ (envs : List Env) (vs : List Sem), atAll a envs = some vs →
    ∀ e ∈ envs, (preOf a.inputs e).isSome := by
  intro envs
  induction envs with
  | nil => intro _ _ e he; cases he
  | cons e0 envs ih =>
    intro vs h e he
    simp only [atAll] at h
    split at h
    · rename_i v vs' hv hvs
      rcases List.mem_cons.mp he with rfl | he
      · rw [← atEnv_isSome, hv]; rfl
      · exact ih vs' hvs e he
    · cases h

theorem denoteAll_eq_atAll (arg : Term) (ra : NT)
    (ih : ∀ e, (preOf ra.inputs e).isSome → ra.atEnv e = denote arg e) :
    ∀ (envs : List Env) (vs : List Sem), atAll ra envs = some vs → denoteAll arg envs = some vs := by
  intro envs
  induction envs with
  | nil => intro vs h; simpa [atAll, denoteAll] using h
  | cons e envs ihl =>
    intro vs h
    have hpre := atAll_some_pre ra _ _ h e List.mem_cons_self
    simp only [atAll] at h
    split at h
    · rename_i v vs' hv hvs
      cases h
      simp only [denoteAll, ← ih e hpre, hv, ihl vs' hvs]
    · cases h

theorem assignments_eq : ∀ (vars : List (Name × Dom)) (vs : List (Name × Nat)), varsSizes vars = some vs →
    assignments vars = some ((allIdx (vs.map (·.2))).map (bindEnv (vs.map (·.1)))) := by
  intro vars
  induction vars with
  | nil => intro vs h; simp [varsSizes] at h; subst h; simp [assignments, allIdx, bindEnv]
  | cons hd rest ih =>
    intro vs h
    obtain ⟨n, d⟩ := hd
    simp only [varsSizes, List.mapM_cons] at h
    cases hv : varSize (n, d) with
    | none => simp [hv] at h
    | some nk =>
      cases hr : List.mapM varSize rest with
      | none => simp [hv, hr] at h
      | some vs' =>
        simp [hv, hr] at h
        subst h
        obtain ⟨dt, sh⟩ := d
        cases dt with
        | real => simp [varSize] at hv
        | bint k =>
          cases sh with
          | cons _ _ => simp [varSize] at hv
          | nil =>
            simp only [varSize, Option.some.injEq] at hv
            subst hv
            simp only [assignments, ih vs' hr, List.map_cons, allIdx, List.map_flatMap, List.map_map,
              Function.comp_def, bindEnv]

theorem denoteSubs_nums (env : Env) : ∀ (σ : List (Name × Term)) (σn : List (Name × Nat)),
    subsNums σ = some σn →
    ∃ bound, denoteSubs σ env = some bound ∧
      ∀ n, ((bound ++ env).lookup n).bind Sem.toNat? =
           ((bindEnv (σn.map (·.1)) (σn.map (·.2)) ++ env).lookup n).bind Sem.toNat? := by
  intro σ
  induction σ with
  | nil => intro σn h; simp [subsNums] at h; subst h; exact ⟨[], by simp [denoteSubs], fun n => by simp [bindEnv]⟩
  | cons hd rest ih =>
    intro σn h
    obtain ⟨k, t⟩ := hd
    simp only [subsNums, List.mapM_cons] at h
    cases hv : subNum (k, t) with
    | none => simp [hv] at h
    | some ki =>
      cases hr : List.mapM subNum rest with
      | none => simp [hv, hr] at h
      | some σn' =>
        simp [hv, hr] at h
        subst h
        obtain ⟨b', hb', hl'⟩ := ih σn' hr
        cases t with
        | num v dt =>
          simp only [subNum] at hv
          cases hx : xrToNat? v with
          | none => simp [hx] at hv
          | some i =>
            simp [hx] at hv
            subst hv
            refine ⟨(k, Sem.scalar v) :: b', by simp [denoteSubs, denote, hb'], ?_⟩
            intro n
            simp only [List.map_cons, bindEnv, List.cons_append, Env.lookup]
            by_cases hk : k == n
            · simp only [hk, if_true, Option.bind_some, toNat_ofNat]
              rw [toNat?_eq _ rfl]; simpa [Sem.scalar] using hx
            · simp only [hk]; exact hl' n
        | _ => simp [subNum] at hv

theorem envIdx_congr (e1 e2 : Env) (n : Name) (s : Nat)
    (h : (e1.lookup n).bind Sem.toNat? = (e2.lookup n).bind Sem.toNat?) : envIdx e1 n s = envIdx e2 n s := by
  simp only [envIdx, h]

mutual
  /-- **C01 (soundness).**  Whenever the partial evaluator (= eager interpretation on ground
      operands) returns a tensor `r` for the expression `t`, then under every environment binding
      `r`'s remaining inputs, `r` evaluates to the textbook value of `t`. -/
  theorem peval_sound : ∀ (t : Term) (r : NT), peval t = some r →
      ∀ env, (preOf r.inputs env).isSome → r.atEnv env = denote t env
    | Term.num v dt, r, h, env, _ => by
      simp only [peval, Option.some.injEq] at h; subst h
      simp [denote, ofNumber, NT.atEnv, preOf, NT.row, Sem.scalar]
    | Term.tensor inputs dom data, r, h, env, _ => by
      simp only [peval, Option.some.injEq] at h; subst h
      exact tensor_sem inputs dom data env
    | Term.unary op a, r, h, env, hp => by
      simp only [peval] at h
      split at h
      · rename_i ra hra
        have hs := unaryOp_sem op ra r env h hp
        have hsome : (ra.atEnv env).isSome := by
          have : (r.atEnv env).isSome := by rw [atEnv_isSome]; exact hp
          rw [hs] at this
          cases hx : ra.atEnv env with
          | none => rw [hx] at this; simp at this
          | some _ => rfl
        rw [atEnv_isSome] at hsome
        rw [hs, peval_sound a ra hra env hsome]
        simp only [denote]
      · cases h
    | Term.binary op l rr, r, h, env, hp => by
      simp only [peval] at h
      split at h
      · rename_i a b ha hb
        have hs : r.atEnv env = (match a.atEnv env, b.atEnv env with
            | some x, some y => evalBinary op x y
            | _, _ => none) := by
          unfold binaryOp at h
          split at h
          · rename_i hname
            exact getitem_sem op a b r env (by simpa using hname) h hp
          · exact binary_sem op a b r env h hp
        have hsome : (r.atEnv env).isSome := by rw [atEnv_isSome]; exact hp
        rw [hs] at hsome
        cases hx : a.atEnv env with
        | none => rw [hx] at hsome; simp at hsome
        | some x =>
          cases hy : b.atEnv env with
          | none => rw [hx, hy] at hsome; simp at hsome
          | some y =>
            have hpa : (preOf a.inputs env).isSome := by rw [← atEnv_isSome, hx]; rfl
            have hpb : (preOf b.inputs env).isSome := by rw [← atEnv_isSome, hy]; rfl
            rw [hs, hx, hy]
            simp only [denote, ← peval_sound l a ha env hpa, ← peval_sound rr b hb env hpb, hx, hy]
      · cases h
    | Term.reduce op arg vars, r, h, env, hp => by
      simp only [peval] at h
      split at h
      · rename_i ra vs hra hvs
        have hs := eagerReduce_sem op vs ra r env h hp
        have hsome : (r.atEnv env).isSome := by rw [atEnv_isSome]; exact hp
        rw [hs] at hsome
        cases hall : atAll ra ((allIdx (vs.map (·.2))).map fun asg => bindEnv (vs.map (·.1)) asg ++ env) with
        | none => rw [hall] at hsome; simp at hsome
        | some vals =>
          have hden := denoteAll_eq_atAll arg ra (fun e he => peval_sound arg ra hra e he) _ _ hall
          rw [hs, hall]
          simp only [denote, assignments_eq vars vs hvs, List.map_map, Function.comp_def, hden]
          cases vals with
          | nil => rfl
          | cons v vs' => rfl
      · cases h
    | Term.subs arg σ, r, h, env, hp => by
      simp only [peval] at h
      split at h
      · rename_i ra σn hra hσ
        obtain ⟨bound, hb, hl⟩ := denoteSubs_nums env σ σn hσ
        have hs := subsNum_sem σn ra r env (bound ++ env) h hp
          (fun p _ => envIdx_congr _ _ _ _ (hl p.1))
        have hsome : (ra.atEnv (bound ++ env)).isSome := by
          rw [← hs, atEnv_isSome]; exact hp
        rw [atEnv_isSome] at hsome
        rw [hs, peval_sound arg ra hra _ hsome]
        simp only [denote, hb]
      · cases h
    | Term.stack n parts, r, h, env, hp => by
      simp only [peval] at h
      split at h
      · rename_i rs hrs
        have hs := stack_sem n rs r env h hp
        have hsome : (r.atEnv env).isSome := by rw [atEnv_isSome]; exact hp
        rw [hs] at hsome ⊢
        simp only [denote]
        cases hl : (env.lookup n).bind Sem.toNat? with
        | none => rfl
        | some i =>
          rw [hl] at hsome
          simp only at hsome ⊢
          cases hpi : rs[i]? with
          | none => rw [hpi] at hsome; simp at hsome
          | some p =>
            rw [hpi] at hsome
            simp only at hsome ⊢
            rw [atEnv_isSome] at hsome
            exact pevalList_sound parts rs hrs i p hpi env hsome
      · cases h
    | Term.lambda n size body, r, h, env, hp => by
      simp only [peval] at h
      split at h
      · rename_i rb hrb
        have hs := lambda_sem n size rb r env h hp
        have hsome : (r.atEnv env).isSome := by rw [atEnv_isSome]; exact hp
        rw [hs] at hsome
        cases hall : atAll rb ((List.range size).map fun i => (n, Sem.ofNat i) :: env) with
        | none => rw [hall] at hsome; simp at hsome
        | some vals =>
          have hden := denoteAll_eq_atAll body rb (fun e he => peval_sound body rb hrb e he) _ _ hall
          rw [hs, hall]
          simp only [denote, hden]
          cases vals with
          | nil => rfl
          | cons v vs' => rfl
      · cases h
    | Term.var _ _, r, h, _, _ => by simp [peval] at h
    | Term.slice _ _ _ _ _, r, h, _, _ => by simp [peval] at h
    | Term.cat n pn sizes parts, r, h, env, hp => by
      simp only [peval] at h
      split at h
      · rename_i rs hrs
        split at h
        · rename_i hsz
          have hsz' : catSizes pn rs = some sizes := by simpa using hsz
          have hs := cat_sem n pn rs sizes r env hsz' h hp
          have hsome : (r.atEnv env).isSome := by rw [atEnv_isSome]; exact hp
          rw [hs] at hsome ⊢
          simp only [denote]
          cases hl : (env.lookup n).bind Sem.toNat? with
          | none => rfl
          | some g =>
            rw [hl] at hsome
            simp only at hsome ⊢
            cases hloc : locate sizes g 0 with
            | none => rfl
            | some kl =>
              obtain ⟨k, loc⟩ := kl
              rw [hloc] at hsome
              simp only at hsome ⊢
              cases hpi : rs[k]? with
              | none => rw [hpi] at hsome; simp at hsome
              | some p =>
                rw [hpi] at hsome
                simp only at hsome ⊢
                rw [atEnv_isSome] at hsome
                exact pevalList_sound parts rs hrs k p hpi _ hsome
        · cases h
      · cases h
    | Term.independent _ _ _ _ _, r, h, _, _ => by simp [peval] at h
    | Term.align _ _, r, h, _, _ => by simp [peval] at h
    | Term.contraction _ _ _ _, r, h, _, _ => by simp [peval] at h
    | Term.finitary _ _, r, h, _, _ => by simp [peval] at h
    | Term.delta _, r, h, _, _ => by simp [peval] at h
  theorem pevalList_sound : ∀ (ts : List Term) (rs : List NT), pevalList ts = some rs →
      ∀ (i : Nat) (r : NT), rs[i]? = some r →
      ∀ env, (preOf r.inputs env).isSome → r.atEnv env = denoteNth ts i env
    | [], rs, h, i, r, hi, _, _ => by
      simp only [pevalList, Option.some.injEq] at h; subst h; simp at hi
    | t :: ts, rs, h, i, r, hi, env, hp => by
      simp only [pevalList] at h
      split at h
      · rename_i r0 rs' hr0 hrs'
        cases h
        cases i with
        | zero =>
          simp only [List.getElem?_cons_zero, Option.some.injEq] at hi; subst hi
          simp only [denoteNth]
          exact peval_sound t r0 hr0 env hp
        | succ i =>
          simp only [List.getElem?_cons_succ] at hi
          simp only [denoteNth]
          exact pevalList_sound ts rs' hrs' i r hi env hp
      · cases h
end

end FV.Props.C01
