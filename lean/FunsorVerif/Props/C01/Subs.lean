/-
  Props/C01/Subs.lean — Tensor.eager_subs at the value level (`subsGen_sem`): substituting numbers,
  variables, slices and index tensors is advanced indexing by the aligned values; and getitem stated
  on the index its index tensor denotes.
-/
import FunsorVerif.Props.C01.Rows
namespace FV.Props.C01
open FV FV.C01

theorem mem_of_lookup' {β : Type} : ∀ (l : List (Name × β)) (k : Name) (s : β), l.lookup k = some s → (k, s) ∈ l := by
  intro l
  induction l with
  | nil => intro k s h; simp at h
  | cons hd l ih =>
    intro k s h
    obtain ⟨k', s'⟩ := hd
    simp only [List.lookup_cons] at h
    by_cases hk : k == k'
    · simp only [hk] at h; cases h
      have : k = k' := by simpa using hk
      subst this; exact List.mem_cons_self
    · simp only [hk] at h; exact List.mem_cons_of_mem _ (ih k s h)

/-- The index an index-valued tensor denotes at an environment. -/
def idxAt (v : NT) (env : Env) : Option Nat := (v.atEnv env).bind Sem.toNat?

theorem idxAt_of_check {env : Env} (v : NT) (u : List (Name × Nat)) (p : List Nat) (d : Nat)
    (hp : preOf u env = some p) (hs : SubDict v.inputs u = true) (hc : idxCheck v d = true) :
    ∃ k, idxAt v env = some k ∧ k < d ∧ xrToNat? (v.readAt (u.map (·.1)) p []) = some k := by
  obtain ⟨g, hg, hr⟩ := readAt_eq0 v u p hp hs
  simp only [idxCheck, Bool.and_eq_true, beq_iff_eq] at hc
  have hmem : g ∈ allIdx v.sizes := valid_mem_allIdx _ _ (preOf_valid hg)
  have hk := (List.all_eq_true.mp hc.2) g hmem
  split at hk
  · rename_i k hkk
    refine ⟨k, ?_, by simpa using hk, by rw [hr, List.append_nil]; exact hkk⟩
    simp only [idxAt, NT.atEnv, hg, Option.map_some, Option.bind_some]
    rw [toNat?_eq _ (by simp [NT.row, hc.1])]
    simpa [NT.row] using hkk
  · cases hk

/-- Tensor.eager_subs, value level: the substituted inputs are indexed by the aligned values. -/
theorem subsGen_sem (σ : List (Name × NT)) (a r : NT) (env env' : Env)
    (h : subsGen σ a = some r) (hpre : (preOf r.inputs env).isSome)
    (henv : ∀ q ∈ a.inputs, envIdx env' q.1 q.2 =
      (match σ.lookup q.1 with
       | some v => (idxAt v env).bind fun i => if i < q.2 then some i else none
       | none => envIdx env q.1 q.2)) :
    r.atEnv env = a.atEnv env' := by
  unfold subsGen at h
  generalize subsInputs a.inputs σ = u at h
  simp only [Bool.and_eq_true] at h
  split at h
  · rename_i hc
    obtain ⟨⟨hnd, hσ⟩, hall⟩ := hc
    cases h
    obtain ⟨p, hp⟩ := Option.isSome_iff_exists.mp hpre
    simp only at hp
    have hlen := preOf_length hp
    -- the coordinates computed by the model are the argument's own batch index under env'
    have hcoords : ∀ (l : List (Name × Nat)), (∀ q ∈ l, q ∈ a.inputs) →
        subsCoords σ (u.map (·.1)) p l = preOf l env' ∧ (preOf l env').isSome := by
      intro l
      induction l with
      | nil => intro _; exact ⟨rfl, rfl⟩
      | cons q l ih =>
        intro hl
        have hq := hl q List.mem_cons_self
        obtain ⟨ih1, ih2⟩ := ih (fun x hx => hl x (List.mem_cons_of_mem _ hx))
        have hchk := (List.all_eq_true.mp hall) q hq
        have hhead : ∃ c, subsCoord σ (u.map (·.1)) p q.1 = some c ∧ envIdx env' q.1 q.2 = some c := by
          rw [henv q hq]
          unfold subsCoord
          cases hlk : σ.lookup q.1 with
          | some v =>
            rw [hlk] at hchk
            have hvm : (q.1, v) ∈ σ := mem_of_lookup' σ q.1 v hlk
            have hsv := (List.all_eq_true.mp hσ) (q.1, v) hvm
            simp only [Bool.and_eq_true] at hsv
            obtain ⟨k, hk1, hk2, hk3⟩ := idxAt_of_check v u p q.2 hp hsv.2 hchk
            exact ⟨k, hk3, by simp [hk1, hk2]⟩
          | none =>
            rw [hlk] at hchk
            have hl' : u.lookup q.1 = some q.2 := by simpa using hchk
            obtain ⟨i, hi⟩ := envIdx_some_of_preOf hp hl'
            exact ⟨i, by rw [lookupPos_envIdx hp hl', hi], hi⟩
        obtain ⟨c, hc1, hc2⟩ := hhead
        obtain ⟨cs, hcs⟩ := Option.isSome_iff_exists.mp ih2
        refine ⟨?_, ?_⟩
        · simp only [subsCoords, preOf]
          rw [hc1, hc2, ih1, hcs]
        · simp only [preOf, hc2, hcs]; rfl
    obtain ⟨h1, h2⟩ := hcoords a.inputs (fun q hq => hq)
    obtain ⟨g, hg⟩ := Option.isSome_iff_exists.mp h2
    simp only [NT.atEnv, hp, hg, Option.map_some, NT.row, Option.some.injEq, Sem.mk.injEq, true_and]
    funext ev
    simp only [← hlen, List.take_left', List.drop_left', h1, hg]
  · cases h

theorem lookup_of_mem_nodup {β : Type} : ∀ (l : List (Name × β)) (k : Name) (s : β),
    (l.map (·.1)).Nodup → (k, s) ∈ l → l.lookup k = some s := by
  intro l
  induction l with
  | nil => intro k s _ h; cases h
  | cons hd l ih =>
    intro k s hnd h
    obtain ⟨k', s'⟩ := hd
    simp only [List.map_cons, List.nodup_cons] at hnd
    simp only [List.lookup_cons]
    rcases List.mem_cons.mp h with h | h
    · cases h; simp
    · have hne : (k == k') = false := by
        have : k ≠ k' := fun e => hnd.1 (by rw [← e]; exact List.mem_map_of_mem (f := (·.1)) h)
        simpa using this
      simp only [hne]
      exact ih k s hnd.2 h

/-- Every substitution value of a successful `subsGen` denotes an index wherever the result is defined. -/
theorem subsGen_idx_some (σ : List (Name × NT)) (a r : NT) (env : Env)
    (h : subsGen σ a = some r) (hpre : (preOf r.inputs env).isSome) :
    ∀ q ∈ σ, (idxAt q.2 env).isSome := by
  unfold subsGen at h
  generalize subsInputs a.inputs σ = u at h
  simp only [Bool.and_eq_true] at h
  split at h
  · rename_i hc
    obtain ⟨⟨hnd, hσ⟩, hall⟩ := hc
    cases h
    obtain ⟨p, hp⟩ := Option.isSome_iff_exists.mp hpre
    simp only at hp
    intro q hq
    have hsv := (List.all_eq_true.mp hσ) q hq
    simp only [Bool.and_eq_true] at hsv
    have hmem : q.1 ∈ a.inputs.map (·.1) := by simpa [NT.names] using hsv.1
    obtain ⟨e, he, heq⟩ := List.mem_map.mp hmem
    have hlk : σ.lookup e.1 = some q.2 := by
      rw [heq]; exact lookup_of_mem_nodup σ q.1 q.2 (by simpa using hnd) hq
    have hchk := (List.all_eq_true.mp hall) e he
    rw [hlk] at hchk
    obtain ⟨k, hk, _, _⟩ := idxAt_of_check q.2 u p e.2 hp hsv.2 hchk
    rw [hk]; rfl
  · cases h

/-- getitem, stated on the index the index tensor denotes (only `toNat?` of it matters). -/
theorem getitem_semI (offset : Nat) (a b r : NT) (env : Env)
    (h : getitem offset a b = some r) (hpre : (preOf r.inputs env).isSome) :
    r.atEnv env = (match a.atEnv env, idxAt b env with
      | some x, some k => x.getitem offset k
      | _, _ => none) := by
  rw [getitem_sem' offset a b r env h hpre]
  unfold idxAt
  cases a.atEnv env <;> cases hb : b.atEnv env <;> simp
  rename_i x y
  cases y.toNat? <;> simp

end FV.Props.C01
