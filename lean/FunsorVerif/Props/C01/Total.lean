/-
  Props/C01/Total.lean — `peval_total_core`: on the core fragment (data-independent typing `typeOf`,
  Model/C01.lean) eager evaluation always completes, with exactly the predicted ordered inputs and
  event shape.  Per op: typing commutes with evaluation (`*_ty`).
-/
import FunsorVerif.Props.C01.Sound
namespace FV.Props.C01
open FV FV.C01

/-- The "type" of a tensor: its ordered inputs and event shape. -/
def tyOf (r : NT) : Ty := (r.inputs, r.shape)

/-! ### Typing commutes with evaluation, op by op -/

/-- Row-wise operations: the result type is the one read off a zero array. -/
theorem mapRows_ty (f : Sem → Option Sem) (hf : ShapeOnly f) (a : NT) :
    (mapRows f a).map tyOf = tyMapRows f (a.inputs, a.shape) := by
  unfold mapRows tyMapRows
  cases hp : f (a.row (a.inputs.map fun _ => 0)) with
  | none =>
    cases hz : f ⟨a.shape, fun _ => 0⟩ with
    | none => rfl
    | some z =>
      obtain ⟨r', hr', _⟩ := hf ⟨a.shape, fun _ => 0⟩ (a.row (a.inputs.map fun _ => 0)) rfl z hz
      rw [hp] at hr'; cases hr'
  | some pr =>
    obtain ⟨z, hz, hsh⟩ := hf (a.row (a.inputs.map fun _ => 0)) ⟨a.shape, fun _ => 0⟩ rfl pr hp
    simp only [hz, Option.map_some, tyOf, hsh]

theorem reductionAxis_ty (base : String) (axes : Option (List Int)) (keep : Bool) (a : NT) :
    (reductionAxis base axes keep a).map tyOf = tyReductionAxis base axes keep (a.inputs, a.shape) := by
  unfold reductionAxis tyReductionAxis
  cases hb : outReduceOps.contains base
  · simp
  · simp only [Bool.not_true, Bool.false_eq_true, if_false]
    generalize a.shape.isEmpty = B2
    generalize a.inputs.isEmpty = B3
    cases B2
    · cases B3
      · simp only [Bool.false_eq_true, if_false]
        cases axes with
        | none => exact mapRows_ty _ (shapeOnly_reduceAxes base hb none keep) a
        | some l =>
          simp only
          generalize l.all (axisValid a.shape.length) = B4
          cases B4
          · simp
          · simp only [if_true]
            exact mapRows_ty _ (shapeOnly_reduceAxes base hb _ keep) a
      · simp only [Bool.false_eq_true, if_false, if_true]
        exact mapRows_ty _ (shapeOnly_reduceAxes base hb axes keep) a
    · simp only [if_true]
      cases axes with
      | none => exact mapRows_ty _ (shapeOnly_reduceAxes base hb none keep) a
      | some l => simp

theorem unary_ty (op : Op) (a : NT) : (unaryOp op a).map tyOf = tyUnary op (a.inputs, a.shape) := by
  unfold unaryOp tyUnary
  cases reductionOps.lookup op.name with
  | some base =>
    simp only
    cases redArgs op with
    | none => rfl
    | some ak => obtain ⟨axes, keep⟩ := ak; exact reductionAxis_ty base axes keep a
  | none =>
    simp only
    generalize (op.name == "reshape") = B1
    generalize (op.name == "getslice") = B2
    cases B1
    · cases B2
      · simp only [Bool.false_eq_true, if_false]
        unfold unary
        generalize pointwiseUn.contains op.name = B
        cases B <;> simp [tyOf]
      · simp only [Bool.false_eq_true, if_false, if_true]
        cases (paramOf op.params "index").bind parseIdxItems with
        | none => rfl
        | some items => exact mapRows_ty _ (shapeOnly_getslice items) a
    · simp only [if_true]
      cases (paramOf op.params "shape").bind Sexp.asNats? with
      | none => rfl
      | some sh => exact mapRows_ty _ (shapeOnly_reshape sh) a

theorem reduce1_ty (op : String) (vars : List (Name × Nat)) (a : NT) :
    (reduce op vars a).map tyOf = tyReduce1 op vars (a.inputs, a.shape) := by
  unfold reduce tyReduce1
  generalize (reduceOps.contains op && SubDict a.inputs (vars ++ a.inputs.filter (fun p => !(vars.map (·.1)).contains p.1)) && vars.all (fun p => decide (0 < p.2))) = B
  cases B <;> simp [tyOf]

theorem binary_ty (op : Op) (a b : NT) (h : (op.name == "getitem") = false) :
    (binaryOp op a b).map tyOf = tyBinary op (a.inputs, a.shape) (b.inputs, b.shape) := by
  unfold binaryOp binary tyBinary binInputs
  simp only [h, bne, Bool.not_false, Bool.true_and, Bool.false_eq_true, if_false]
  generalize (pointwiseBin.contains op.name && SubDict a.inputs (unionIns a.inputs b.inputs) &&
    SubDict b.inputs (unionIns a.inputs b.inputs)) = B
  cases B
  · simp
  · cases broadcastShapes a.shape b.shape <;> simp [tyOf]

theorem binary_ty_getitem (op : Op) (a b : Ty) (h : (op.name == "getitem") = true) : tyBinary op a b = none := by
  unfold tyBinary
  simp [bne, h]

theorem subsNum_ty (σ : List (Name × Nat)) (a : NT) :
    (subsNum σ a).map tyOf = tySubsNum σ (a.inputs, a.shape) := by
  unfold subsNum tySubsNum
  generalize (σ.filterMap fun p => (a.inputs.lookup p.1).map fun s => (p.1, p.2, s)) = hit
  generalize (SubDict a.inputs ((hit.map fun h => (h.1, h.2.2)) ++ a.inputs.filter (fun p => !(hit.map (·.1)).contains p.1)) &&
    validIdx (hit.map (·.2.1)) (hit.map (·.2.2))) = B
  cases B <;> simp [tyOf]

theorem lambda_ty (n : Name) (size : Nat) (a : NT) :
    (lambda n size a).map tyOf = tyLambda n size (a.inputs, a.shape) := by
  unfold lambda tyLambda
  by_cases hs : size = 0
  · simp [hs]
  · simp only [hs, if_false]
    unfold NT.names
    generalize (a.inputs.map (·.1)).contains n = B1
    generalize SubDict a.inputs (odErase a.inputs n ++ [(n, size)]) = B2
    cases B1 <;> cases B2 <;> simp [tyOf]

theorem eagerReduce_ty (op : String) (vars : List (Name × Nat)) (a : NT) :
    (C01.eagerReduce op vars a).map tyOf = tyReduce op vars (a.inputs, a.shape) := by
  have key : ∀ (B1 B2 : Bool) (P : List (Name × Nat)) (m : Nat),
      (if B1 = true then reduce op P a
        else if B2 = true then reduce op P ⟨a.inputs, a.shape, fun idx => scale op m (a.data idx)⟩ else none).map tyOf =
      (if B1 = true then tyReduce1 op P (a.inputs, a.shape)
        else if B2 = true then tyReduce1 op P (a.inputs, a.shape) else none) := by
    intro B1 B2 P m
    cases B1 <;> cases B2 <;> simp only [Bool.false_eq_true, if_false, if_true, Option.map_none]
    · exact reduce1_ty op P ⟨a.inputs, a.shape, _⟩
    · exact reduce1_ty op P a
    · exact reduce1_ty op P a
  exact key _ _ _ _

theorem binary_ty' (op : Op) (a b : NT) (h : (op.name == "getitem") = false) :
    (binary op.name a b).map tyOf = tyBinary op (a.inputs, a.shape) (b.inputs, b.shape) := by
  have := binary_ty op a b h
  unfold binaryOp at this
  simpa [h] using this

theorem getitem_ty (offset : Nat) (a b : NT) :
    (getitem offset a b).map tyOf = tyGetitem offset (a.inputs, a.shape) b := by
  unfold getitem tyGetitem binInputs
  cases hd : a.shape[offset]? with
  | none => simp [hd]
  | some d =>
    simp only [hd]
    generalize (b.shape == [] && SubDict a.inputs (unionIns a.inputs b.inputs) &&
      SubDict b.inputs (unionIns a.inputs b.inputs) &&
      (allIdx b.sizes).all (fun i => match xrToNat? (b.data i) with
          | some k => decide (k < d)
          | none => false)) = B
    cases B <;> simp [tyOf]

theorem subsGen_ty (σ : List (Name × NT)) (a : NT) :
    (subsGen σ a).map tyOf = tySubsGen σ (a.inputs, a.shape) := by
  unfold subsGen tySubsGen
  unfold NT.names
  generalize (decide ((σ.map (·.1)).Nodup) &&
     σ.all (fun q => (a.inputs.map (·.1)).contains q.1 && SubDict q.2.inputs (subsInputs a.inputs σ)) &&
     a.inputs.all (fun p => match σ.lookup p.1 with
        | some v => idxCheck v p.2
        | none => (subsInputs a.inputs σ).lookup p.1 == some p.2)) = B
  cases B <;> simp [tyOf]

theorem idxLeaf_pevalIdx : ∀ (t : Term) (v : NT), idxLeaf t = some v → pevalIdx t = some v
  | Term.var m d, v, h => by
    obtain ⟨dt, sh⟩ := d
    cases dt with
    | real => simp [idxLeaf] at h
    | bint s =>
      cases sh with
      | nil => simpa [idxLeaf, pevalIdx] using h
      | cons _ _ => simp [idxLeaf] at h
  | Term.slice _ _ _ _ _, v, h => by simpa [idxLeaf, pevalIdx] using h
  | Term.num _ _, v, h => by simpa [idxLeaf, pevalIdx] using h
  | Term.tensor _ _ _, v, h => by simpa [idxLeaf, pevalIdx] using h
  | Term.unary _ _, v, h => by simp [idxLeaf] at h
  | Term.binary _ _ _, v, h => by simp [idxLeaf] at h
  | Term.reduce _ _ _, v, h => by simp [idxLeaf] at h
  | Term.subs _ _, v, h => by simp [idxLeaf] at h
  | Term.stack _ _, v, h => by simp [idxLeaf] at h
  | Term.cat _ _ _ _, v, h => by simp [idxLeaf] at h
  | Term.lambda _ _ _, v, h => by simp [idxLeaf] at h
  | Term.independent _ _ _ _ _, v, h => by simp [idxLeaf] at h
  | Term.align _ _, v, h => by simp [idxLeaf] at h
  | Term.contraction _ _ _ _, v, h => by simp [idxLeaf] at h
  | Term.finitary _ _, v, h => by simp [idxLeaf] at h
  | Term.delta _, v, h => by simp [idxLeaf] at h

theorem idxLeaves_pevalSubs : ∀ (σ : List (Name × Term)) (σv : List (Name × NT)),
    idxLeaves σ = some σv → pevalSubs σ = some σv := by
  intro σ
  induction σ with
  | nil => intro σv h; simpa [idxLeaves, pevalSubs] using h
  | cons hd rest ih =>
    intro σv h
    obtain ⟨k, t⟩ := hd
    simp only [idxLeaves] at h
    split at h
    · rename_i v vs hv hvs
      cases h
      simp only [pevalSubs, idxLeaf_pevalIdx t v hv, ih vs hvs]
    · cases h

theorem foldl_ty (rs : List NT) : ∀ (acc : List (Name × Nat)),
    (rs.map tyOf).foldl (fun acc p => odUpdate acc p.1) acc = rs.foldl (fun acc p => odUpdate acc p.inputs) acc := by
  induction rs with
  | nil => intro acc; rfl
  | cons r rs ih => intro acc; simp only [List.map_cons, List.foldl_cons, tyOf]; exact ih _

theorem mapM_ty (pn : Name) (rs : List NT) :
    (rs.map tyOf).mapM (fun p => p.1.lookup pn) = rs.mapM (fun p => p.inputs.lookup pn) := by
  induction rs with
  | nil => rfl
  | cons r rs ih => simp only [List.map_cons, List.mapM_cons, ih, tyOf]

theorem zip_ty_all (P : List (Name × Nat) → Nat → Bool) : ∀ (l : List NT) (sizes : List Nat),
    ((l.map tyOf).zip sizes).all (fun ps => P ps.1.1 ps.2) = (l.zip sizes).all (fun ps => P ps.1.inputs ps.2) := by
  intro l
  induction l with
  | nil => intro sizes; rfl
  | cons r l ih =>
    intro sizes
    cases sizes with
    | nil => rfl
    | cons k ks => simp only [List.map_cons, List.zip_cons_cons, List.all_cons, ih ks, tyOf]

theorem catSizes_ty (pn : Name) (rs : List NT) : tyCatSizes pn (rs.map tyOf) = catSizes pn rs := by
  unfold tyCatSizes catSizes; exact mapM_ty pn rs

theorem cat_ty (n pn : Name) (rs : List NT) : (cat n pn rs).map tyOf = tyCat n pn (rs.map tyOf) := by
  cases rs with
  | nil => simp [cat, tyCat]
  | cons r0 rs' =>
    unfold cat tyCat
    simp only [List.map_cons]
    rw [← List.map_cons (f := tyOf), foldl_ty, mapM_ty]
    generalize odErase ((r0 :: rs').foldl (fun acc p => odUpdate acc p.inputs) [(pn, 0)]) pn = rest
    cases hs : (r0 :: rs').mapM (fun p => p.inputs.lookup pn) with
    | none => simp
    | some sizes =>
      simp only
      have h1 : ((r0 :: rs').map tyOf).all (fun p => p.2 == (tyOf r0).2) =
          (r0 :: rs').all (fun p => p.shape == r0.shape) := by
        rw [List.all_map]; rfl
      have h2 : (((r0 :: rs').map tyOf).zip sizes).all (fun ps => SubDict ps.1.1 ((pn, ps.2) :: rest)) =
          ((r0 :: rs').zip sizes).all (fun ps => SubDict ps.1.inputs ((pn, ps.2) :: rest)) := by
        exact zip_ty_all (fun i k => SubDict i ((pn, k) :: rest)) (r0 :: rs') sizes
      rw [h1, h2]
      generalize ((r0 :: rs').all (fun p => p.shape == r0.shape) &&
          ((r0 :: rs').zip sizes).all (fun ps => SubDict ps.1.inputs ((pn, ps.2) :: rest)) &&
          !(rest.map (·.1)).contains n) = B
      cases B <;> simp [tyOf]

theorem unionAll_ty (rs : List NT) : ∀ (acc : List (Name × Nat)),
    (rs.map tyOf).foldl (fun acc p => odUpdate acc p.1) acc = rs.foldl (fun acc p => odUpdate acc p.inputs) acc := by
  induction rs with
  | nil => intro acc; rfl
  | cons r rs ih => intro acc; simp only [List.map_cons, List.foldl_cons, tyOf]; exact ih _

theorem stack_ty (n : Name) (rs : List NT) : (stack n rs).map tyOf = tyStack n (rs.map tyOf) := by
  cases rs with
  | nil => simp [stack, tyStack]
  | cons r0 rs' =>
    unfold stack tyStack
    simp only [List.map_cons]
    have hu : tyUnionAll (tyOf r0 :: rs'.map tyOf) = unionAll (r0 :: rs') := by
      simp only [tyUnionAll, unionAll]
      exact unionAll_ty (r0 :: rs') []
    rw [hu]
    have hcond : ((tyOf r0 :: rs'.map tyOf).all fun p => SubDict p.1 (unionAll (r0 :: rs')) && p.2 == (tyOf r0).2 &&
          !(p.1.map (·.1)).contains n) =
        ((r0 :: rs').all fun p => SubDict p.inputs (unionAll (r0 :: rs')) && p.shape == r0.shape &&
          !p.names.contains n) := by
      rw [← List.map_cons (f := tyOf), List.all_map]
      rfl
    rw [hcond]
    generalize ((r0 :: rs').all fun p => SubDict p.inputs (unionAll (r0 :: rs')) && p.shape == r0.shape &&
          !p.names.contains n) = B
    cases B <;> simp [tyOf]

theorem map_tyOf_some {o : Option NT} {τ : Ty} (h : o.map tyOf = some τ) : ∃ r, o = some r ∧ tyOf r = τ := by
  cases o with
  | none => simp at h
  | some r => exact ⟨r, rfl, by simpa using h⟩

mutual
  /-- **C01 (completeness on the core fragment).**  If the data-independent typing `typeOf` accepts
      `t` (ground tensors, numbers, pointwise ops, reductions over present or absent variables,
      integer substitution, Stack, Lambda — with consistent input sizes and broadcastable shapes),
      eager evaluation completes: `peval t` is a concrete tensor with exactly the predicted ordered
      inputs and event shape, whatever the data. -/
  theorem peval_total_core : ∀ (t : Term) (τ : Ty), typeOf t = some τ → ∃ r, peval t = some r ∧ tyOf r = τ
    | Term.num v dt, τ, h => by
      simp only [typeOf, Option.some.injEq] at h; subst h
      exact ⟨ofNumber v, by simp [peval], rfl⟩
    | Term.tensor inputs dom data, τ, h => by
      simp only [typeOf, Option.some.injEq] at h; subst h
      exact ⟨ofTensor inputs dom.shape data, by simp [peval], rfl⟩
    | Term.unary op a, τ, h => by
      simp only [typeOf] at h
      split at h
      · rename_i ta hta
        obtain ⟨ra, hra, hty⟩ := peval_total_core a ta hta
        subst hty
        obtain ⟨r, hr, hrt⟩ := map_tyOf_some ((unary_ty op ra).trans h)
        exact ⟨r, by simp only [peval, hra, hr], hrt⟩
      · cases h
    | Term.binary op l rr, τ, h => by
      simp only [typeOf] at h
      split at h
      · rename_i hg
        split at h
        · rename_i ta vb hta hvb
          obtain ⟨ra, hra, hty⟩ := peval_total_core l ta hta
          subst hty
          obtain ⟨r, hr, hrt⟩ := map_tyOf_some ((getitem_ty (getitemOffset op) ra vb).trans h)
          exact ⟨r, by simp only [peval, hg, if_true, hra, idxLeaf_pevalIdx rr vb hvb, hr], hrt⟩
        · cases h
      · rename_i hg
        have hg' : (op.name == "getitem") = false := by simpa using hg
        split at h
        · rename_i ta tb hta htb
          obtain ⟨ra, hra, hty⟩ := peval_total_core l ta hta
          obtain ⟨rb, hrb, hty'⟩ := peval_total_core rr tb htb
          subst hty; subst hty'
          obtain ⟨r, hr, hrt⟩ := map_tyOf_some ((binary_ty' op ra rb hg').trans h)
          exact ⟨r, by simp only [peval, hg', Bool.false_eq_true, if_false, hra, hrb, hr], hrt⟩
        · cases h
    | Term.reduce op arg vars, τ, h => by
      simp only [typeOf] at h
      split at h
      · rename_i ta vs hta hvs
        obtain ⟨ra, hra, hty⟩ := peval_total_core arg ta hta
        subst hty
        obtain ⟨r, hr, hrt⟩ := map_tyOf_some ((eagerReduce_ty op vs ra).trans h)
        exact ⟨r, by simp only [peval, hra, hvs, hr], hrt⟩
      · cases h
    | Term.subs arg σ, τ, h => by
      simp only [typeOf] at h
      split at h
      · cases h
      · rename_i ta hta
        obtain ⟨ra, hra, hty⟩ := peval_total_core arg ta hta
        subst hty
        split at h
        · rename_i σn hσ
          obtain ⟨r, hr, hrt⟩ := map_tyOf_some ((subsNum_ty σn ra).trans h)
          exact ⟨r, by simp only [peval, hra, hσ, hr], hrt⟩
        · rename_i hσ
          split at h
          · rename_i σv hσv
            obtain ⟨r, hr, hrt⟩ := map_tyOf_some ((subsGen_ty σv ra).trans h)
            exact ⟨r, by simp only [peval, hra, hσ, idxLeaves_pevalSubs σ σv hσv, hr], hrt⟩
          · cases h
    | Term.stack n parts, τ, h => by
      simp only [typeOf] at h
      split at h
      · rename_i ts hts
        obtain ⟨rs, hrs, hty⟩ := pevalList_total parts ts hts
        subst hty
        obtain ⟨r, hr, hrt⟩ := map_tyOf_some ((stack_ty n rs).trans h)
        exact ⟨r, by simp only [peval, hrs, hr], hrt⟩
      · cases h
    | Term.lambda n size body, τ, h => by
      simp only [typeOf] at h
      split at h
      · rename_i tb htb
        obtain ⟨rb, hrb, hty⟩ := peval_total_core body tb htb
        subst hty
        obtain ⟨r, hr, hrt⟩ := map_tyOf_some ((lambda_ty n size rb).trans h)
        exact ⟨r, by simp only [peval, hrb, hr], hrt⟩
      · cases h
    | Term.var _ _, τ, h => by simp [typeOf] at h
    | Term.slice _ _ _ _ _, τ, h => by simp [typeOf] at h
    | Term.cat n pn sizes parts, τ, h => by
      simp only [typeOf] at h
      split at h
      · rename_i ts hts
        obtain ⟨rs, hrs, hty⟩ := pevalList_total parts ts hts
        subst hty
        split at h
        · rename_i hsz
          rw [catSizes_ty] at hsz
          obtain ⟨r, hr, hrt⟩ := map_tyOf_some ((cat_ty n pn rs).trans h)
          exact ⟨r, by simp only [peval, hrs, hsz, if_true, hr], hrt⟩
        · cases h
      · cases h
    | Term.independent _ _ _ _ _, τ, h => by simp [typeOf] at h
    | Term.align _ _, τ, h => by simp [typeOf] at h
    | Term.contraction _ _ _ _, τ, h => by simp [typeOf] at h
    | Term.finitary _ _, τ, h => by simp [typeOf] at h
    | Term.delta _, τ, h => by simp [typeOf] at h
  theorem pevalList_total : ∀ (ts : List Term) (τs : List Ty), typeOfList ts = some τs →
      ∃ rs, pevalList ts = some rs ∧ rs.map tyOf = τs
    | [], τs, h => by
      simp only [typeOfList, Option.some.injEq] at h; subst h
      exact ⟨[], by simp [pevalList], rfl⟩
    | t :: ts, τs, h => by
      simp only [typeOfList] at h
      split at h
      · rename_i τ τs' hτ hτs'
        cases h
        obtain ⟨r, hr, hty⟩ := peval_total_core t τ hτ
        obtain ⟨rs, hrs, htys⟩ := pevalList_total ts τs' hτs'
        exact ⟨r :: rs, by simp only [pevalList, hr, hrs], by simp [hty, htys]⟩
      · cases h
end

/-- On the core fragment the eager result is complete AND sound: a concrete tensor whose value under
    every binding of its inputs is the textbook value. -/
theorem core_complete_and_sound (t : Term) (h : isCore [] t = true) :
    ∃ r, peval t = some r ∧ ∀ env, (preOf r.inputs env).isSome → r.atEnv env = denote t env := by
  unfold isCore at h
  obtain ⟨τ, hτ⟩ := Option.isSome_iff_exists.mp h
  obtain ⟨r, hr, _⟩ := peval_total_core t τ hτ
  exact ⟨r, hr, peval_sound t r hr⟩

end FV.Props.C01
