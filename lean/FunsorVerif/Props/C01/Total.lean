/-
  Props/C01/Total.lean — `peval_total_core`: on the core fragment (data-independent typing `typeOf`,
  Model/C01.lean) eager evaluation always completes, with exactly the predicted ordered inputs and
  event shape.  Per op: typing commutes with evaluation (`*_ty`).
-/
import FunsorVerif.Props.C01.Sound
namespace FV.Props.C01
open FV FV.C01

/-- The "type" of a tensor: its ordered inputs and event shape. -/
def tyOf (r : NT) : Ty := (r.inputs, r.shape)

/-! ### Typing commutes with evaluation, op by op -/

theorem unaryOp_pointwise (op : Op) (a : NT) (h : pointwiseUn.contains op.name = true) :
    unaryOp op a = unary op.name a := by
  simp only [pointwiseUn, List.contains_eq_mem, List.mem_cons, List.mem_nil_iff, or_false, decide_eq_true_eq] at h
  unfold unaryOp
  rcases h with h | h | h | h | h <;> rw [h] <;> simp [reductionOps, List.lookup]

theorem unary_ty (op : Op) (a : NT) : (unaryOp op a).map tyOf = tyUnary op (a.inputs, a.shape) ∨
    tyUnary op (a.inputs, a.shape) = none := by
  unfold tyUnary
  cases hB : pointwiseUn.contains op.name
  · right; simp
  · left
    rw [unaryOp_pointwise op a hB]
    unfold unary
    rw [if_pos hB]
    rfl

theorem reduce1_ty (op : String) (vars : List (Name × Nat)) (a : NT) :
    (reduce op vars a).map tyOf = tyReduce1 op vars (a.inputs, a.shape) := by
  unfold reduce tyReduce1
  generalize (reduceOps.contains op && SubDict a.inputs (vars ++ a.inputs.filter (fun p => !(vars.map (·.1)).contains p.1)) && vars.all (fun p => decide (0 < p.2))) = B
  cases B <;> simp [tyOf]

theorem binary_ty (op : Op) (a b : NT) (h : (op.name == "getitem") = false) :
    (binaryOp op a b).map tyOf = tyBinary op (a.inputs, a.shape) (b.inputs, b.shape) := by
  unfold binaryOp binary tyBinary binInputs
  simp only [h, bne, Bool.not_false, Bool.true_and, Bool.false_eq_true, if_false]
  generalize (pointwiseBin.contains op.name && SubDict a.inputs (unionIns a.inputs b.inputs) &&
    SubDict b.inputs (unionIns a.inputs b.inputs)) = B
  cases B
  · simp
  · cases broadcastShapes a.shape b.shape <;> simp [tyOf]

theorem binary_ty_getitem (op : Op) (a b : Ty) (h : (op.name == "getitem") = true) : tyBinary op a b = none := by
  unfold tyBinary
  simp [bne, h]

theorem subsNum_ty (σ : List (Name × Nat)) (a : NT) :
    (subsNum σ a).map tyOf = tySubsNum σ (a.inputs, a.shape) := by
  unfold subsNum tySubsNum
  generalize (σ.filterMap fun p => (a.inputs.lookup p.1).map fun s => (p.1, p.2, s)) = hit
  generalize (SubDict a.inputs ((hit.map fun h => (h.1, h.2.2)) ++ a.inputs.filter (fun p => !(hit.map (·.1)).contains p.1)) &&
    validIdx (hit.map (·.2.1)) (hit.map (·.2.2))) = B
  cases B <;> simp [tyOf]

theorem lambda_ty (n : Name) (size : Nat) (a : NT) :
    (lambda n size a).map tyOf = tyLambda n size (a.inputs, a.shape) := by
  unfold lambda tyLambda
  by_cases hs : size = 0
  · simp [hs]
  · simp only [hs, if_false]
    unfold NT.names
    generalize (a.inputs.map (·.1)).contains n = B1
    generalize SubDict a.inputs (odErase a.inputs n ++ [(n, size)]) = B2
    cases B1 <;> cases B2 <;> simp [tyOf]

theorem eagerReduce_ty (op : String) (vars : List (Name × Nat)) (a : NT) :
    (C01.eagerReduce op vars a).map tyOf = tyReduce op vars (a.inputs, a.shape) := by
  have key : ∀ (B1 B2 : Bool) (P : List (Name × Nat)) (m : Nat),
      (if B1 = true then reduce op P a
        else if B2 = true then reduce op P ⟨a.inputs, a.shape, fun idx => scale op m (a.data idx)⟩ else none).map tyOf =
      (if B1 = true then tyReduce1 op P (a.inputs, a.shape)
        else if B2 = true then tyReduce1 op P (a.inputs, a.shape) else none) := by
    intro B1 B2 P m
    cases B1 <;> cases B2 <;> simp only [Bool.false_eq_true, if_false, if_true, Option.map_none]
    · exact reduce1_ty op P ⟨a.inputs, a.shape, _⟩
    · exact reduce1_ty op P a
    · exact reduce1_ty op P a
  exact key _ _ _ _

theorem unionAll_ty (rs : List NT) : ∀ (acc : List (Name × Nat)),
    (rs.map tyOf).foldl (fun acc p => odUpdate acc p.1) acc = rs.foldl (fun acc p => odUpdate acc p.inputs) acc := by
  induction rs with
  | nil => intro acc; rfl
  | cons r rs ih => intro acc; simp only [List.map_cons, List.foldl_cons, tyOf]; exact ih _

theorem stack_ty (n : Name) (rs : List NT) : (stack n rs).map tyOf = tyStack n (rs.map tyOf) := by
  cases rs with
  | nil => simp [stack, tyStack]
  | cons r0 rs' =>
    unfold stack tyStack
    simp only [List.map_cons]
    have hu : tyUnionAll (tyOf r0 :: rs'.map tyOf) = unionAll (r0 :: rs') := by
      simp only [tyUnionAll, unionAll]
      exact unionAll_ty (r0 :: rs') []
    rw [hu]
    have hcond : ((tyOf r0 :: rs'.map tyOf).all fun p => SubDict p.1 (unionAll (r0 :: rs')) && p.2 == (tyOf r0).2 &&
          !(p.1.map (·.1)).contains n) =
        ((r0 :: rs').all fun p => SubDict p.inputs (unionAll (r0 :: rs')) && p.shape == r0.shape &&
          !p.names.contains n) := by
      rw [← List.map_cons (f := tyOf), List.all_map]
      rfl
    rw [hcond]
    generalize ((r0 :: rs').all fun p => SubDict p.inputs (unionAll (r0 :: rs')) && p.shape == r0.shape &&
          !p.names.contains n) = B
    cases B <;> simp [tyOf]

theorem map_tyOf_some {o : Option NT} {τ : Ty} (h : o.map tyOf = some τ) : ∃ r, o = some r ∧ tyOf r = τ := by
  cases o with
  | none => simp at h
  | some r => exact ⟨r, rfl, by simpa using h⟩

mutual
  /-- **C01 (completeness on the core fragment).**  If the data-independent typing `typeOf` accepts
      `t` (ground tensors, numbers, pointwise ops, reductions over present or absent variables,
      integer substitution, Stack, Lambda — with consistent input sizes and broadcastable shapes),
      eager evaluation completes: `peval t` is a concrete tensor with exactly the predicted ordered
      inputs and event shape, whatever the data. -/
  theorem peval_total_core : ∀ (t : Term) (τ : Ty), typeOf t = some τ → ∃ r, peval t = some r ∧ tyOf r = τ
    | Term.num v dt, τ, h => by
      simp only [typeOf, Option.some.injEq] at h; subst h
      exact ⟨ofNumber v, by simp [peval], rfl⟩
    | Term.tensor inputs dom data, τ, h => by
      simp only [typeOf, Option.some.injEq] at h; subst h
      exact ⟨ofTensor inputs dom.shape data, by simp [peval], rfl⟩
    | Term.unary op a, τ, h => by
      simp only [typeOf] at h
      split at h
      · rename_i ta hta
        obtain ⟨ra, hra, hty⟩ := peval_total_core a ta hta
        subst hty
        obtain ⟨r, hr, hrt⟩ := map_tyOf_some ((unary_ty op ra).elim (fun e => e.trans h) (fun e => by have h' : tyUnary op (ra.inputs, ra.shape) = some τ := h; rw [e] at h'; cases h'))
        exact ⟨r, by simp only [peval, hra, hr], hrt⟩
      · cases h
    | Term.binary op l rr, τ, h => by
      simp only [typeOf] at h
      split at h
      · rename_i ta tb hta htb
        obtain ⟨ra, hra, hty⟩ := peval_total_core l ta hta
        obtain ⟨rb, hrb, hty'⟩ := peval_total_core rr tb htb
        subst hty; subst hty'
        cases hg : op.name == "getitem" with
        | true => rw [binary_ty_getitem op _ _ hg] at h; cases h
        | false =>
          obtain ⟨r, hr, hrt⟩ := map_tyOf_some ((binary_ty op ra rb hg).trans h)
          exact ⟨r, by simp only [peval, hra, hrb, hr], hrt⟩
      · cases h
    | Term.reduce op arg vars, τ, h => by
      simp only [typeOf] at h
      split at h
      · rename_i ta vs hta hvs
        obtain ⟨ra, hra, hty⟩ := peval_total_core arg ta hta
        subst hty
        obtain ⟨r, hr, hrt⟩ := map_tyOf_some ((eagerReduce_ty op vs ra).trans h)
        exact ⟨r, by simp only [peval, hra, hvs, hr], hrt⟩
      · cases h
    | Term.subs arg σ, τ, h => by
      simp only [typeOf] at h
      split at h
      · rename_i ta σn hta hσ
        obtain ⟨ra, hra, hty⟩ := peval_total_core arg ta hta
        subst hty
        obtain ⟨r, hr, hrt⟩ := map_tyOf_some ((subsNum_ty σn ra).trans h)
        exact ⟨r, by simp only [peval, hra, hσ, hr], hrt⟩
      · cases h
    | Term.stack n parts, τ, h => by
      simp only [typeOf] at h
      split at h
      · rename_i ts hts
        obtain ⟨rs, hrs, hty⟩ := pevalList_total parts ts hts
        subst hty
        obtain ⟨r, hr, hrt⟩ := map_tyOf_some ((stack_ty n rs).trans h)
        exact ⟨r, by simp only [peval, hrs, hr], hrt⟩
      · cases h
    | Term.lambda n size body, τ, h => by
      simp only [typeOf] at h
      split at h
      · rename_i tb htb
        obtain ⟨rb, hrb, hty⟩ := peval_total_core body tb htb
        subst hty
        obtain ⟨r, hr, hrt⟩ := map_tyOf_some ((lambda_ty n size rb).trans h)
        exact ⟨r, by simp only [peval, hrb, hr], hrt⟩
      · cases h
    | Term.var _ _, τ, h => by simp [typeOf] at h
    | Term.slice _ _ _ _ _, τ, h => by simp [typeOf] at h
    | Term.cat _ _ _ _, τ, h => by simp [typeOf] at h
    | Term.independent _ _ _ _ _, τ, h => by simp [typeOf] at h
    | Term.align _ _, τ, h => by simp [typeOf] at h
    | Term.contraction _ _ _ _, τ, h => by simp [typeOf] at h
    | Term.finitary _ _, τ, h => by simp [typeOf] at h
    | Term.delta _, τ, h => by simp [typeOf] at h
  theorem pevalList_total : ∀ (ts : List Term) (τs : List Ty), typeOfList ts = some τs →
      ∃ rs, pevalList ts = some rs ∧ rs.map tyOf = τs
    | [], τs, h => by
      simp only [typeOfList, Option.some.injEq] at h; subst h
      exact ⟨[], by simp [pevalList], rfl⟩
    | t :: ts, τs, h => by
      simp only [typeOfList] at h
      split at h
      · rename_i τ τs' hτ hτs'
        cases h
        obtain ⟨r, hr, hty⟩ := peval_total_core t τ hτ
        obtain ⟨rs, hrs, htys⟩ := pevalList_total ts τs' hτs'
        exact ⟨r :: rs, by simp only [pevalList, hr, hrs], by simp [hty, htys]⟩
      · cases h
end

/-- On the core fragment the eager result is complete AND sound: a concrete tensor whose value under
    every binding of its inputs is the textbook value. -/
theorem core_complete_and_sound (t : Term) (h : isCore [] t = true) :
    ∃ r, peval t = some r ∧ ∀ env, (preOf r.inputs env).isSome → r.atEnv env = denote t env := by
  unfold isCore at h
  obtain ⟨τ, hτ⟩ := Option.isSome_iff_exists.mp h
  obtain ⟨r, hr, _⟩ := peval_total_core t τ hτ
  exact ⟨r, hr, peval_sound t r hr⟩

end FV.Props.C01
