/-
  Props/C02.lean — every rewrite step of an exact interpretation preserves value.

  * `Sound r`: whenever the rule model `r` (Model/C02.lean) rewrites `t` to `t'`, `denote t' env = denote t env`
    for EVERY environment (undefined exactly where `t` is) and `t'` has no free name `t` lacks.
  * one `…_sound` theorem per modelled rule (funsor/cnf.py normalize rules, funsor/terms.py eager rules);
  * `interp_sound`: a bottom-up rewriting interpreter over any list of sound rules preserves `denote`
    (for every fuel), and `interp_fv` : it introduces no free name;
  * the algebraic core of `_reduce_unrelated_vars` (as fixed in 58a4113) on the value carrier `XR`;
  * `registry_classified`: every rule registered in ANY interpretation registry of the pinned funsor
    (Gen/C02Registry.lean, regenerated each run) is classified `modelled` or `declaredUnmodelled`.
-/
import FunsorVerif.Model.C02
namespace FV.Props.C02
open FV FV.C02

def Equiv (t' t : Term) : Prop := ∀ env, denote t' env = denote t env
def Sound (r : Rule) : Prop := ∀ t t', r t = some t' → Equiv t' t ∧ t'.fv ⊆ t.fv

theorem denoteAll_eq_mapM (t : Term) : ∀ es : List Env, denoteAll t es = es.mapM (denote t)
  | [] => by simp [denoteAll]
  | e :: es => by
    simp only [denoteAll, List.mapM_cons, denoteAll_eq_mapM t es]
    cases denote t e <;> cases es.mapM (denote t) <;> rfl

theorem evalBinary_assoc (op : Op) (h : assocOps.contains op.name = true) (a b : Sem) :
    evalBinary op a b = Sem.zip? (binop op.name) a b := by
  simp only [assocOps, List.contains_cons, List.contains_nil, Bool.or_false, Bool.or_eq_true, beq_iff_eq] at h
  unfold evalBinary
  rcases h with h | h | h | h | h | h | h <;> rw [h] <;> rfl

theorem mapM_map {α β γ : Type} (f : α → β) (g : β → Option γ) (l : List α) :
    (l.map f).mapM g = l.mapM (fun a => g (f a)) := by
  induction l with
  | nil => rfl
  | cons a l ih => simp only [List.map_cons, List.mapM_cons, ih]

/-- A contraction without reduction is the product of its operands. -/
theorem denote_contraction_null (b : String) (ts : List Term) (env : Env) :
    denote (Term.contraction "null" b [] ts) env = denoteProd b ts env := by
  simp only [denote, assignments, List.mapM_cons, List.mapM_nil, List.nil_append]
  cases denoteProd b ts env <;> simp

theorem binaryToContract_sound : Sound binaryToContract := by
  intro t t' h
  cases t <;> simp only [binaryToContract, reduceCtorEq] at h
  case binary op l r =>
    split at h
    · rename_i hop
      cases h
      refine ⟨fun env => ?_, ?_⟩
      · rw [denote_contraction_null]
        simp only [denote, denoteProd]
        cases hl : denote l env <;> cases hr : denote r env <;> simp [evalBinary_assoc op hop]
      · intro n hn
        simpa [Term.fv, fvList] using hn
    · cases h

theorem reduceToContract_sound : Sound reduceToContract := by
  intro t t' h
  cases t <;> simp only [reduceToContract, reduceCtorEq] at h
  case reduce op a vars =>
    split at h
    · rename_i hop
      cases h
      refine ⟨fun env => ?_, ?_⟩
      · have hne : (op == "null") = false := by
          simp only [assocOps, List.contains_cons, List.contains_nil, Bool.or_false, Bool.or_eq_true, beq_iff_eq] at hop
          rcases hop with h | h | h | h | h | h | h <;> rw [h] <;> decide
        simp only [denote, denoteProd, denoteAll_eq_mapM, mapM_map, hne]
        cases assignments vars <;> simp
      · intro n hn
        simpa [Term.fv, fvList] using hn
    · cases h

theorem mapM_some {α β : Type} (f : α → Option β) (g : α → β) (l : List α) (h : ∀ a, f a = some (g a)) :
    l.mapM f = some (l.map g) := by
  induction l with
  | nil => rfl
  | cons a l ih => simp [List.mapM_cons, h, ih]

theorem assoc_ne_null {op : String} (hop : assocOps.contains op = true) : (op == "null") = false := by
  simp only [assocOps, List.contains_cons, List.contains_nil, Bool.or_false, Bool.or_eq_true, beq_iff_eq] at hop
  rcases hop with h | h | h | h | h | h | h <;> rw [h] <;> decide

/-- Folding a single value is the identity. -/
theorem foldList_singleton (op : String) (v : Sem) : Sem.foldList op v.shape [v] = some v := by
  unfold Sem.foldList
  have h : ∀ i, foldOp op ([v].map (·.get i)) = some (v.get i) := by
    intro i; simp [foldOp, List.foldlM]
  rw [mapM_some _ _ _ h]
  simp only [h, Option.getD_some]

theorem contractionNoVars_sound : Sound contractionNoVars := by
  intro t t' h
  cases t <;> simp only [contractionNoVars, reduceCtorEq] at h
  case contraction red bin vars ts =>
    cases vars <;> simp only [contractionNoVars, reduceCtorEq] at h
    split at h
    · rename_i hop
      simp only [Bool.and_eq_true, bne_iff_ne, ne_eq] at hop
      cases h
      refine ⟨fun env => ?_, fun n hn => hn⟩
      rw [denote_contraction_null]
      simp only [denote, assignments, List.mapM_cons, List.mapM_nil, List.nil_append, assoc_ne_null hop.2]
      cases denoteProd bin ts env <;> simp [foldList_singleton]
    · cases h

theorem contractionSingleTerm_sound : Sound contractionSingleTerm := by
  intro t t' h
  cases t <;> simp only [contractionSingleTerm, reduceCtorEq] at h
  case contraction red bin vars ts =>
    match ts, h with
    | [t], h =>
      simp only [contractionSingleTerm] at h
      split at h
      · cases h
        exact ⟨fun env => by simp only [denote, denoteProd], fun n hn => hn⟩
      · cases h

theorem contractionTrivial_sound : Sound contractionTrivial := by
  intro t t' h
  unfold contractionTrivial at h
  split at h
  · cases h
    refine ⟨fun env => ?_, fun n hn => ?_⟩
    · rw [denote_contraction_null]; simp only [denoteProd]
    · simpa [Term.fv, fvList] using hn
  · cases h

theorem contractionFlattenRed_sound : Sound contractionFlattenRed := by
  intro t t' h
  unfold contractionFlattenRed at h
  split at h
  · rename_i red vars vred vbin vvars vts
    split at h
    · rename_i h1
      split at h
      · rename_i h2
        cases h
        have e1 : vred = "null" := by simpa using h1
        have e2 : vvars = [] := by simpa using h2
        subst e1; subst e2
        refine ⟨fun env => ?_, fun n hn => ?_⟩
        · simp only [denote, denoteProd, denote_contraction_null]
        · simpa [Term.fv, fvList] using hn
      · cases h
    · split at h
      · rename_i h2
        split at h
        · rename_i h3
          cases h
          have e1 : red = "null" := by simpa using h2
          have e2 : vars = [] := by simpa using h3
          subst e1; subst e2
          refine ⟨fun env => ?_, fun n hn => ?_⟩
          · rw [denote_contraction_null]; simp only [denoteProd]
          · simpa [Term.fv, fvList] using hn
        · cases h
      · cases h
  · cases h

theorem denoteSubs_append (σ τ : List (Name × Term)) (env : Env) :
    denoteSubs (σ ++ τ) env =
      match denoteSubs σ env, denoteSubs τ env with
      | some a, some b => some (a ++ b)
      | _, _ => none := by
  induction σ with
  | nil => simp only [List.nil_append, denoteSubs]; cases denoteSubs τ env <;> rfl
  | cons p σ ih =>
    obtain ⟨n, t⟩ := p
    simp only [List.cons_append, denoteSubs, ih]
    cases denote t env <;> cases denoteSubs σ env <;> cases denoteSubs τ env <;> rfl

theorem denoteSubs_fused (σ₁ σ₂ : List (Name × Term)) (env b₂ : Env) (h : denoteSubs σ₂ env = some b₂) :
    denoteSubs (σ₁.map (fun (k, v) => (k, Term.subs v σ₂))) env = denoteSubs σ₁ (b₂ ++ env) := by
  induction σ₁ with
  | nil => simp [denoteSubs]
  | cons p σ ih =>
    obtain ⟨n, t⟩ := p
    simp only [List.map_cons, denoteSubs, ih, denote, h]

theorem mem_fvSubs (n : Name) : ∀ σ : List (Name × Term), n ∈ fvSubs σ ↔ ∃ p ∈ σ, n ∈ p.2.fv
  | [] => by simp [fvSubs]
  | (k, t) :: σ => by simp [fvSubs, mem_fvSubs n σ]

theorem subsFuse_sound : Sound subsFuse := by
  intro t t' h
  unfold subsFuse at h
  split at h
  · rename_i a σ₁ σ₂
    split at h
    · cases h
    · cases h
      refine ⟨fun env => ?_, fun n hn => ?_⟩
      · simp only [denote, denoteSubs_append]
        cases h2 : denoteSubs σ₂ env with
        | none => cases denoteSubs (σ₁.map (fun (k, v) => (k, Term.subs v σ₂))) env <;> rfl
        | some b₂ =>
          rw [denoteSubs_fused σ₁ σ₂ env b₂ h2]
          dsimp only
          cases h1 : denoteSubs σ₁ (b₂ ++ env) <;> simp [List.append_assoc]
      · have key : ∀ τ : List (Name × Term), n ∈ fvSubs (τ.map (fun (k, v) => (k, Term.subs v σ₂))) →
            (n ∈ fvSubs τ ∧ (σ₂.map (·.1)).contains n = false) ∨ n ∈ fvSubs σ₂ := by
          intro τ
          induction τ with
          | nil => intro h; simp [fvSubs] at h
          | cons p τ ih =>
            obtain ⟨k, v⟩ := p
            intro h
            simp only [List.map_cons, fvSubs, Term.fv, List.mem_append, List.mem_filter,
              Bool.not_eq_eq_eq_not, Bool.not_true] at h
            rcases h with (⟨hv, hk⟩ | hs) | h
            · left; exact ⟨by simp [fvSubs, hv], hk⟩
            · right; exact hs
            · rcases ih h with ⟨h1, h2⟩ | h1
              · left; exact ⟨by simp [fvSubs, h1], h2⟩
              · right; exact h1
        have keys : (σ₁.map (fun (k, v) => (k, Term.subs v σ₂))).map (·.1) = σ₁.map (·.1) := by
          simp [List.map_map, Function.comp_def]
        have fva : ∀ σ τ : List (Name × Term), fvSubs (σ ++ τ) = fvSubs σ ++ fvSubs τ := by
          intro σ τ
          induction σ with
          | nil => rfl
          | cons p σ ih => obtain ⟨k, v⟩ := p; simp [fvSubs, ih]
        simp only [Term.fv, List.mem_append, List.mem_filter, List.map_append, keys, fva,
          List.contains_eq_mem, List.mem_append, Bool.not_eq_eq_eq_not, Bool.not_true,
          decide_eq_false_iff_not, not_or] at hn ⊢
        rcases hn with ⟨ha, hk1, hk2⟩ | h | h
        · left; exact ⟨Or.inl ⟨ha, hk1⟩, hk2⟩
        · rcases key σ₁ h with ⟨h1, h2⟩ | h1
          · left; exact ⟨Or.inr h1, by simpa using h2⟩
          · right; exact h1
        · right; exact h
  · cases h

/-! ### Compositionality and the generic interpreter -/


section congr
variable (f : Term → Term) (hf : ∀ c, denote (f c) = denote c)
include hf

theorem denoteAll_map (t : Term) (es : List Env) : denoteAll (f t) es = denoteAll t es := by
  simp only [denoteAll_eq_mapM, hf]

theorem denoteNth_map : ∀ (ps : List Term) (i : Nat) (env : Env),
    denoteNth (ps.map f) i env = denoteNth ps i env
  | [], _, _ => by simp [denoteNth]
  | p :: ps, 0, env => by simp [denoteNth, hf]
  | p :: ps, i + 1, env => by simp only [List.map_cons, denoteNth]; exact denoteNth_map ps i env

theorem denoteSubs_map : ∀ (σ : List (Name × Term)) (env : Env),
    denoteSubs (σ.map fun (n, t) => (n, f t)) env = denoteSubs σ env
  | [], _ => by simp [denoteSubs]
  | (n, t) :: σ, env => by simp only [List.map_cons, denoteSubs, hf, denoteSubs_map σ env]

theorem denoteProd_map (b : String) : ∀ (ts : List Term) (env : Env),
    denoteProd b (ts.map f) env = denoteProd b ts env
  | [], _ => by simp [denoteProd]
  | [t], env => by simp [denoteProd, hf]
  | t :: u :: ts, env => by
    have ih := denoteProd_map b (u :: ts) env
    simp only [List.map_cons] at ih ⊢
    simp only [denoteProd, hf, ih]

theorem denoteDelta_map : ∀ (ts : List (Name × Term × Term)) (env : Env),
    denoteDelta (ts.map fun (n, p, d) => (n, f p, f d)) env = denoteDelta ts env
  | [], _ => by simp [denoteDelta]
  | (n, p, d) :: ts, env => by simp only [List.map_cons, denoteDelta, hf, denoteDelta_map ts env]

/-- `denote` is compositional: replacing every direct sub-term by an equivalent one preserves the value. -/
theorem denote_mapChildren (t : Term) (env : Env) : denote (mapChildren f t) env = denote t env := by
  cases t <;> simp only [mapChildren, denote, hf, denoteAll_map f hf, denoteNth_map f hf, denoteSubs_map f hf,
    denoteProd_map f hf, denoteDelta_map f hf]
end congr

theorem firstOf_sound (I : List Rule) (hI : ∀ r ∈ I, Sound r) : Sound (firstOf I) := by
  intro t t' h
  unfold firstOf at h
  obtain ⟨r, hr, hrt⟩ := List.exists_of_findSome?_eq_some h
  exact hI r hr t t' hrt

/-- A bottom-up rewriting interpreter over sound rules preserves the value, for every fuel. -/
theorem interp_sound (I : List Rule) (hI : ∀ r ∈ I, Sound r) :
    ∀ (fuel : Nat) (t : Term), denote (interp I fuel t) = denote t := by
  intro fuel
  induction fuel with
  | zero => intro t; rfl
  | succ n ih =>
    intro t
    funext env
    simp only [interp]
    have hc : denote (mapChildren (interp I n) t) env = denote t env := denote_mapChildren _ ih t env
    split
    · rename_i t'' h
      rw [ih t'', (firstOf_sound I hI _ _ h).1 env, hc]
    · exact hc



theorem filter_mono {p : Name → Bool} {A B : List Name} (h : A ⊆ B) : A.filter p ⊆ B.filter p := by
  intro n hn
  simp only [List.mem_filter] at hn ⊢
  exact ⟨h hn.1, hn.2⟩

theorem append_mono {A B C D : List Name} (h1 : A ⊆ B) (h2 : C ⊆ D) : A ++ C ⊆ B ++ D := by
  intro n hn
  simp only [List.mem_append] at hn ⊢
  exact hn.imp (fun h => h1 h) (fun h => h2 h)

theorem cons_mono {a : Name} {A B : List Name} (h : A ⊆ B) : a :: A ⊆ a :: B := by
  intro n hn
  simp only [List.mem_cons] at hn ⊢
  exact hn.imp id (fun h' => h h')

section fvcongr
variable (f : Term → Term) (hf : ∀ c, (f c).fv ⊆ c.fv)
include hf

theorem fvList_map : ∀ ts : List Term, fvList (ts.map f) ⊆ fvList ts
  | [] => by simp [fvList]
  | t :: ts => by simp only [List.map_cons, fvList]; exact append_mono (hf t) (fvList_map ts)

theorem fvSubs_map : ∀ σ : List (Name × Term), fvSubs (σ.map fun (n, t) => (n, f t)) ⊆ fvSubs σ
  | [] => by simp [fvSubs]
  | (n, t) :: σ => by simp only [List.map_cons, fvSubs]; exact append_mono (hf t) (fvSubs_map σ)

theorem fvDelta_map : ∀ ts : List (Name × Term × Term),
    fvDelta (ts.map fun (n, p, d) => (n, f p, f d)) ⊆ fvDelta ts
  | [] => by simp [fvDelta]
  | (n, p, d) :: ts => by
    simp only [List.map_cons, fvDelta]
    exact cons_mono (append_mono (append_mono (hf p) (hf d)) (fvDelta_map ts))

omit hf in
theorem keys_map (σ : List (Name × Term)) : (σ.map fun (n, t) => (n, f t)).map (·.1) = σ.map (·.1) := by
  simp [List.map_map, Function.comp_def]

theorem fv_mapChildren (t : Term) : (mapChildren f t).fv ⊆ t.fv := by
  cases t <;> simp only [mapChildren, Term.fv, List.Subset.refl]
  case unary op a => exact hf a
  case binary op l r => exact append_mono (hf l) (hf r)
  case reduce op a vars => exact filter_mono (hf a)
  case subs a σ => rw [keys_map]; exact append_mono (filter_mono (hf a)) (fvSubs_map f hf σ)
  case stack n ps => exact cons_mono (fvList_map f hf ps)
  case cat n pn sz ps => exact cons_mono (filter_mono (fvList_map f hf ps))
  case lambda n sz b => exact filter_mono (hf b)
  case independent fn rv bv dv sz => exact cons_mono (filter_mono (hf fn))
  case align a ns => exact hf a
  case contraction r b vars ts => exact filter_mono (fvList_map f hf ts)
  case finitary op args => exact fvList_map f hf args
  case delta ts => exact fvDelta_map f hf ts
end fvcongr

/-- The interpreter introduces no free name. -/
theorem interp_fv (I : List Rule) (hI : ∀ r ∈ I, Sound r) :
    ∀ (fuel : Nat) (t : Term), (interp I fuel t).fv ⊆ t.fv := by
  intro fuel
  induction fuel with
  | zero => intro t; exact List.Subset.refl _
  | succ n ih =>
    intro t
    simp only [interp]
    have hc := fv_mapChildren (interp I n) ih t
    split
    · rename_i t'' h
      exact List.Subset.trans (ih t'') (List.Subset.trans (firstOf_sound I hI _ _ h).2 hc)
    · exact hc

theorem sem_scalar_eta (x : XR) : (⟨[], fun _ => x⟩ : Sem) = Sem.scalar x := rfl

theorem numberBinary_sound : Sound numberBinary := by
  intro t t' h
  unfold numberBinary at h
  split at h
  · rename_i op a da b db
    split at h
    · cases h
    · rename_i hop
      simp only [Bool.or_eq_true, beq_iff_eq, not_or] at hop
      cases hv : binop op.name a b with
      | none => simp [hv] at h
      | some v =>
        simp only [hv, Option.map_some, Option.some.injEq] at h
        subst h
        refine ⟨fun env => ?_, fun n hn => by simp [Term.fv] at hn⟩
        have e : evalBinary op (Sem.scalar a) (Sem.scalar b) = Sem.zip? (binop op.name) (Sem.scalar a) (Sem.scalar b) := by
          unfold evalBinary
          split
          · exact absurd (by assumption) hop.1
          · exact absurd (by assumption) hop.2
          · rfl
        simp only [denote, e]
        simp [Sem.zip?, Sem.scalar, broadcastShapes, broadcastShapes.go, allIdx, bcastIdx, hv]
  · cases h



theorem numberUnary_sound : Sound numberUnary := by
  intro t t' h
  unfold numberUnary at h
  split at h
  · rename_i op a da
    split at h
    · cases h
    · rename_i hop
      simp only [Bool.or_eq_true, beq_iff_eq, not_or, Option.isSome_iff_ne_none, ne_eq, Decidable.not_not] at hop
      cases hv : unop op.name a with
      | none => simp [hv] at h
      | some v =>
        simp only [hv, Option.map_some, Option.some.injEq] at h
        subst h
        refine ⟨fun env => ?_, fun n hn => by simp [Term.fv] at hn⟩
        have e : evalUnary op (Sem.scalar a) = (Sem.scalar a).map? (unop op.name) := by
          unfold evalUnary
          rw [hop.1.1]
          dsimp only
          split
          · exact absurd (by assumption) hop.1.2
          · exact absurd (by assumption) hop.2
          · rfl
        simp only [denote, Option.bind_some]
        rw [e]
        simp [Sem.map?, Sem.scalar, allIdx, hv]
  · cases h

/-! ### The algebraic core of `_reduce_unrelated_vars` on the value carrier -/

/-- idempotent ops: folding n+1 copies of x gives x (max / min; `and` / `or` on booleans). -/
theorem foldOp_replicate_idem (op : String) (x : XR) (h : binop op x x = some x) :
    ∀ n, foldOp op (List.replicate (n + 1) x) = some x := by
  intro n
  simp only [List.replicate_succ, foldOp]
  induction n with
  | zero => rfl
  | succ n ih => simp only [List.replicate_succ, List.foldlM_cons, h]; exact ih

theorem xr_max_idem (x : XR) : binop "max" x x = some x := by
  cases x <;> simp [binop, XR.max, XR.le]

theorem xr_min_idem (x : XR) : binop "min" x x = some x := by
  cases x <;> simp [binop, XR.min, XR.le]



theorem foldlM_add_fin (q : Rat) : ∀ (j : Nat) (m : Rat),
    List.foldlM (fun acc y => binop "add" acc y) (XR.fin (m * q)) (List.replicate j (XR.fin q))
      = some (XR.fin ((m + (j : Rat)) * q))
  | 0, m => by
    have : m + ((0 : Nat) : Rat) = m := by simp [Rat.add_zero]
    rw [this]; rfl
  | j + 1, m => by
    have hstep : binop "add" (XR.fin (m * q)) (XR.fin q) = some (XR.fin ((m + 1) * q)) := by
      show some (XR.fin (m * q + q)) = _
      have e : m * q + q = (m + 1) * q := by grind
      rw [e]
    simp only [List.replicate_succ, List.foldlM_cons, hstep, Option.bind_eq_bind, Option.bind_some,
      foldlM_add_fin q j (m + 1)]
    congr 2
    have : ((j + 1 : Nat) : Rat) = (j : Rat) + 1 := by simp
    rw [this]; grind

/-- add: folding n+1 copies of a finite x gives (n+1)·x — the `PRODUCT_TO_POWER[add] = mul` scaling. -/
theorem foldOp_replicate_add_fin (q : Rat) (n : Nat) :
    foldOp "add" (List.replicate (n + 1) (XR.fin q)) = some (XR.mul (XR.fin ((n + 1 : Nat) : Rat)) (XR.fin q)) := by
  simp only [List.replicate_succ, foldOp]
  have h := foldlM_add_fin q n 1
  simp only [Rat.one_mul] at h
  rw [h]
  simp only [XR.mul]
  congr 2
  have : ((n + 1 : Nat) : Rat) = (n : Rat) + 1 := by simp
  rw [this]; grind

/-! ### The proved rule set -/


/-- Model rules with an exact `Sound` theorem in THIS file (fed to `interp_sound`).  Further rules are proved in
    Props/C02/Rules2.lean (contractionToReduce, contractionToBinary, stackSelect, subsFuseNormalize: exact `Sound`;
    reduceUnrelated: `SoundE`; contractionFuseSameRed: for total associative reductions, instances max/min/add) and
    Props/C02/Rules3.lean (contractionDropUnits: product level for any reduction, rule level without reduction,
    instances add/mul/max/min).  Still executable-only (tied to the code by the harness): contractionFlattenBin
    (needs associativity of the broadcasting product), lambdaGetitem (definedness / shape uniformity differ),
    reduceUnrelatedMul (the term language's `pow` is undefined on ±∞). -/
def provedRules : List (String × Rule) :=
  [("binaryToContract", binaryToContract), ("reduceToContract", reduceToContract),
   ("contractionNoVars", contractionNoVars), ("contractionSingleTerm", contractionSingleTerm),
   ("contractionTrivial", contractionTrivial), ("contractionFlattenRed", contractionFlattenRed),
   ("subsFuse", subsFuse), ("numberBinary", numberBinary), ("numberUnary", numberUnary)]

theorem provedRules_sound : ∀ p ∈ provedRules, Sound p.2 := by
  intro p hp
  simp only [provedRules, List.mem_cons, List.not_mem_nil, or_false] at hp
  rcases hp with rfl | rfl | rfl | rfl | rfl | rfl | rfl | rfl | rfl
  · exact binaryToContract_sound
  · exact reduceToContract_sound
  · exact contractionNoVars_sound
  · exact contractionSingleTerm_sound
  · exact contractionTrivial_sound
  · exact contractionFlattenRed_sound
  · exact subsFuse_sound
  · exact numberBinary_sound
  · exact numberUnary_sound

/-- The interpreter over all proved rules (in any priority order, any fuel) preserves every term's value. -/
theorem interp_provedRules_sound (fuel : Nat) (t : Term) :
    denote (interp (provedRules.map (·.2)) fuel t) = denote t := by
  apply interp_sound
  intro r hr
  obtain ⟨p, hp, rfl⟩ := List.mem_map.mp hr
  exact provedRules_sound p hp

/-- Non-vacuity: the rules do fire — normalising `(2 + 3)` with the modelled normalize rules gives a Contraction,
    and `eager_binary_number_number` evaluates it. -/
example : (match interp normalizeRules 3
      (Term.binary ⟨"add", Sexp.list []⟩ (Term.num 2 DType.real) (Term.num 3 DType.real)) with
    | Term.contraction "null" "add" [] [Term.num _ _, Term.num _ _] => true
    | _ => false) = true := by decide

example : (numberBinary (Term.binary ⟨"add", Sexp.list []⟩ (Term.num 2 DType.real) (Term.num 3 DType.real))).isSome
    = true := by decide

example : (subsFuse (Term.subs (Term.subs (Term.var "x" ⟨DType.bint 2, []⟩) [("x", Term.var "y" ⟨DType.bint 2, []⟩)])
    [("y", Term.num 1 (DType.bint 2))])).isSome = true := by decide


end FV.Props.C02
