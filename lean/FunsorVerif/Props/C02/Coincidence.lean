/-
  Props/C02/Coincidence.lean (copied from Props/C05/Coincidence.lean by permission; not imported across properties) — the value of a term depends only on its free names.

  `denote_coincidence` (with its list companions) by mutual structural induction over `Term`:
  two environments that agree on `t.fv` give the same `denote t`.  Everything else in C05
  (bound names are not free, renaming invariance, no capture) is derived from it.
-/
import FunsorVerif.Model.C02
namespace FV.Props.C02
open FV FV.C02

/-! ## Environments -/

def AgreeOn (ns : List Name) (e1 e2 : Env) : Prop := ∀ n ∈ ns, e1.lookup n = e2.lookup n

theorem AgreeOn.left {a b : List Name} {e1 e2 : Env} (h : AgreeOn (a ++ b) e1 e2) : AgreeOn a e1 e2 :=
  fun n hn => h n (List.mem_append_left _ hn)
theorem AgreeOn.right {a b : List Name} {e1 e2 : Env} (h : AgreeOn (a ++ b) e1 e2) : AgreeOn b e1 e2 :=
  fun n hn => h n (List.mem_append_right _ hn)
theorem AgreeOn.refl (ns : List Name) (e : Env) : AgreeOn ns e e := fun _ _ => rfl
theorem AgreeOn.symm {ns : List Name} {e1 e2 : Env} (h : AgreeOn ns e1 e2) : AgreeOn ns e2 e1 :=
  fun n hn => (h n hn).symm

theorem lookup_cons (k : Name) (v : Sem) (e : Env) (n : Name) :
    Env.lookup ((k, v) :: e) n = if k = n then some v else e.lookup n := by
  simp [Env.lookup]

theorem lookup_append (a e : Env) (n : Name) :
    Env.lookup (a ++ e) n = match a.lookup n with | some v => some v | none => e.lookup n := by
  induction a with
  | nil => simp [Env.lookup]
  | cons kv a ih =>
    obtain ⟨k, v⟩ := kv
    simp only [List.cons_append, lookup_cons]
    by_cases hk : k = n <;> simp [hk, ih]

theorem lookup_none_not_mem (a : Env) (n : Name) (h : a.lookup n = none) : n ∉ a.map (·.1) := by
  induction a with
  | nil => simp
  | cons kv a ih =>
    obtain ⟨k, v⟩ := kv
    rw [lookup_cons] at h
    by_cases hk : k = n
    · simp [hk] at h
    · simp [hk] at h
      simp only [List.map_cons, List.mem_cons, not_or]
      exact ⟨fun e => hk e.symm, ih h⟩

/-- Prefixing both environments with the same bindings: agreement is only needed on the names the
    prefix does not bind. -/
theorem agree_append (a : Env) {ns : List Name} {e1 e2 : Env}
    (h : ∀ n ∈ ns, n ∉ a.map (·.1) → e1.lookup n = e2.lookup n) : AgreeOn ns (a ++ e1) (a ++ e2) := by
  intro n hn
  rw [lookup_append, lookup_append]
  cases hl : a.lookup n with
  | some v => rfl
  | none => exact h n hn (lookup_none_not_mem a n hl)

theorem agree_cons (k : Name) (v : Sem) {ns : List Name} {e1 e2 : Env}
    (h : ∀ n ∈ ns, n ≠ k → e1.lookup n = e2.lookup n) : AgreeOn ns ((k, v) :: e1) ((k, v) :: e2) := by
  intro n hn
  rw [lookup_cons, lookup_cons]
  by_cases hk : k = n
  · simp [hk]
  · simp [hk]; exact h n hn (fun e => hk e.symm)

/-- Every assignment produced by `assignments vars` binds exactly the names of `vars`. -/
theorem assignments_keys : ∀ (vars : List (Name × Dom)) (asgs : List Env), assignments vars = some asgs →
    ∀ a ∈ asgs, a.map (·.1) = vars.map (·.1)
  | [], asgs, h, a, ha => by
    simp [assignments] at h; subst h; simp at ha; subst ha; rfl
  | (n, d) :: rest, asgs, h, a, ha => by
    unfold assignments at h
    split at h
    · rename_i k tails hd hs hr
      simp at h; subst h
      simp only [List.mem_flatMap, List.mem_range, List.mem_map] at ha
      obtain ⟨i, _, t, ht, rfl⟩ := ha
      simp [assignments_keys rest tails hr t ht]
    · simp at h

theorem denoteAll_map_congr {α : Type} (t : Term) (f1 f2 : α → Env) :
    ∀ (l : List α), (∀ x ∈ l, denote t (f1 x) = denote t (f2 x)) →
      denoteAll t (l.map f1) = denoteAll t (l.map f2)
  | [], _ => by simp [denoteAll]
  | x :: xs, h => by
    simp only [List.map_cons, denoteAll]
    rw [h x (List.mem_cons_self ..), denoteAll_map_congr t f1 f2 xs (fun y hy => h y (List.mem_cons_of_mem _ hy))]

theorem mapM_congr_opt {α β : Type} (f g : α → Option β) :
    ∀ (l : List α), (∀ x ∈ l, f x = g x) → l.mapM f = l.mapM g
  | [], _ => rfl
  | x :: xs, h => by
    simp only [List.mapM_cons]
    rw [h x (List.mem_cons_self ..), mapM_congr_opt f g xs (fun y hy => h y (List.mem_cons_of_mem _ hy))]

theorem denoteSubs_keys : ∀ (σ : List (Name × Term)) (env b : Env), denoteSubs σ env = some b →
    b.map (·.1) = σ.map (·.1)
  | [], env, b, h => by simp [denoteSubs] at h; subst h; rfl
  | (n, t) :: rest, env, b, h => by
    simp only [denoteSubs] at h
    split at h
    · rename_i v vs hv hvs
      simp at h; subst h
      simp [denoteSubs_keys rest env vs hvs]
    · simp at h

theorem mem_filter_not_contains {n : Name} {l ks : List Name} (h1 : n ∈ l) (h2 : n ∉ ks) :
    n ∈ l.filter (fun m => !ks.contains m) := by
  simp [List.mem_filter, h1, h2]

/-! ## Coincidence: the value depends only on the free names -/
mutual
  theorem denote_coincidence : ∀ (t : Term) (e1 e2 : Env), AgreeOn t.fv e1 e2 → denote t e1 = denote t e2
    | Term.var n d, e1, e2, h => by
      simp only [denote]; exact h n (by simp [Term.fv])
    | Term.num v d, e1, e2, h => by simp only [denote]
    | Term.tensor inputs dom data, e1, e2, h => by
      simp only [denote]
      rw [mapM_congr_opt (fun (x : Name × Nat) => (e1.lookup x.1).bind Sem.toNat?)
            (fun (x : Name × Nat) => (e2.lookup x.1).bind Sem.toNat?) inputs
            (fun x hx => by
              have : e1.lookup x.1 = e2.lookup x.1 := h x.1 (by simp [Term.fv]; exact ⟨x.2, hx⟩)
              simp [this])]
    | Term.unary op a, e1, e2, h => by
      simp only [denote]; rw [denote_coincidence a e1 e2 (by simpa [Term.fv] using h)]
    | Term.binary op l r, e1, e2, h => by
      have h' : AgreeOn (l.fv ++ r.fv) e1 e2 := by simpa [Term.fv] using h
      simp only [denote]
      rw [denote_coincidence l e1 e2 h'.left, denote_coincidence r e1 e2 h'.right]
    | Term.reduce op a vars, e1, e2, h => by
      simp only [denote]
      cases ha : assignments vars with
      | none => rfl
      | some asgs =>
        simp only []
        rw [denoteAll_map_congr a (fun x => x ++ e1) (fun x => x ++ e2) asgs (fun x hx => by
          apply denote_coincidence a
          apply agree_append
          intro n hn hnot
          rw [assignments_keys vars asgs ha x hx] at hnot
          exact h n (by simp only [Term.fv]; exact mem_filter_not_contains hn hnot))]
    | Term.subs a σ, e1, e2, h => by
      have h' : AgreeOn ((a.fv.filter (fun n => !(σ.map (·.1)).contains n)) ++ fvSubs σ) e1 e2 := by
        simpa [Term.fv] using h
      simp only [denote]
      rw [denoteSubs_coincidence σ e1 e2 h'.right]
      cases hb : denoteSubs σ e2 with
      | none => rfl
      | some b =>
        simp only []
        apply denote_coincidence a
        apply agree_append
        intro n hn hnot
        rw [denoteSubs_keys σ e2 b hb] at hnot
        exact h'.left n (mem_filter_not_contains hn hnot)
    | Term.slice n a b c d, e1, e2, h => by
      simp only [denote]; rw [h n (by simp [Term.fv])]
    | Term.stack n ps, e1, e2, h => by
      simp only [denote]; rw [h n (by simp [Term.fv])]
      cases (e2.lookup n).bind Sem.toNat? with
      | none => rfl
      | some i =>
        simp only []
        exact denoteNth_coincidence ps i e1 e2 (fun m hm => h m (by simp [Term.fv, hm]))
    | Term.cat n pn sizes ps, e1, e2, h => by
      simp only [denote]; rw [h n (by simp [Term.fv])]
      cases (e2.lookup n).bind Sem.toNat? with
      | none => rfl
      | some g =>
        simp only []
        cases locate sizes g 0 with
        | none => rfl
        | some kl =>
          simp only []
          apply denoteNth_coincidence ps kl.1
          apply agree_cons
          intro m hm hne
          exact h m (by simp [Term.fv, List.mem_filter, hm, hne])
    | Term.lambda n size b, e1, e2, h => by
      simp only [denote]
      rw [denoteAll_map_congr b (fun i => (n, Sem.ofNat i) :: e1) (fun i => (n, Sem.ofNat i) :: e2)
        (List.range size) (fun i _ => by
          apply denote_coincidence b
          apply agree_cons
          intro m hm hne
          exact h m (by simp [Term.fv, List.mem_filter, hm, hne]))]
    | Term.independent fn rv bv dv size, e1, e2, h => by
      simp only [denote]; rw [h rv (by simp [Term.fv])]
      cases e2.lookup rv with
      | none => rfl
      | some x =>
        simp only []
        rw [denoteAll_map_congr fn
          (fun i => (dv, (⟨x.shape.drop 1, fun idx => x.get (i :: idx)⟩ : Sem)) :: (bv, Sem.ofNat i) :: e1)
          (fun i => (dv, (⟨x.shape.drop 1, fun idx => x.get (i :: idx)⟩ : Sem)) :: (bv, Sem.ofNat i) :: e2)
          (List.range size) (fun i _ => by
            apply denote_coincidence fn
            apply agree_cons
            intro m hm hne
            apply agree_cons (ns := [m]) bv _ _ m (List.mem_singleton_self m)
            intro m' hm' hne'
            simp at hm'; subst hm'
            exact h m' (by simp [Term.fv, List.mem_filter, hm, hne, hne']))]
    | Term.align a names, e1, e2, h => by
      simp only [denote]; exact denote_coincidence a e1 e2 (by simpa [Term.fv] using h)
    | Term.contraction r b vars ts, e1, e2, h => by
      simp only [denote]
      cases ha : assignments vars with
      | none => rfl
      | some asgs =>
        simp only []
        rw [mapM_congr_opt (fun x => denoteProd b ts (x ++ e1)) (fun x => denoteProd b ts (x ++ e2)) asgs
          (fun x hx => by
            apply denoteProd_coincidence b ts
            apply agree_append
            intro n hn hnot
            rw [assignments_keys vars asgs ha x hx] at hnot
            exact h n (by simp only [Term.fv]; exact mem_filter_not_contains hn hnot))]
    | Term.finitary op args, e1, e2, h => by simp only [denote]
    | Term.delta ts, e1, e2, h => by
      simp only [denote]; exact denoteDelta_coincidence ts e1 e2 (by simpa [Term.fv] using h)

  theorem denoteNth_coincidence : ∀ (ts : List Term) (i : Nat) (e1 e2 : Env),
      AgreeOn (fvList ts) e1 e2 → denoteNth ts i e1 = denoteNth ts i e2
    | [], i, e1, e2, h => by simp only [denoteNth]
    | t :: ts, 0, e1, e2, h => by
      have h' : AgreeOn (t.fv ++ fvList ts) e1 e2 := by simpa [fvList] using h
      simp only [denoteNth]; exact denote_coincidence t e1 e2 h'.left
    | t :: ts, i + 1, e1, e2, h => by
      have h' : AgreeOn (t.fv ++ fvList ts) e1 e2 := by simpa [fvList] using h
      simp only [denoteNth]; exact denoteNth_coincidence ts i e1 e2 h'.right

  theorem denoteSubs_coincidence : ∀ (σ : List (Name × Term)) (e1 e2 : Env),
      AgreeOn (fvSubs σ) e1 e2 → denoteSubs σ e1 = denoteSubs σ e2
    | [], e1, e2, h => by simp only [denoteSubs]
    | (n, t) :: rest, e1, e2, h => by
      have h' : AgreeOn (t.fv ++ fvSubs rest) e1 e2 := by simpa [fvSubs] using h
      simp only [denoteSubs]
      rw [denote_coincidence t e1 e2 h'.left, denoteSubs_coincidence rest e1 e2 h'.right]

  theorem denoteProd_coincidence : ∀ (b : String) (ts : List Term) (e1 e2 : Env),
      AgreeOn (fvList ts) e1 e2 → denoteProd b ts e1 = denoteProd b ts e2
    | b, [], e1, e2, h => by simp only [denoteProd]
    | b, [t], e1, e2, h => by
      have h' : AgreeOn (t.fv ++ fvList []) e1 e2 := by simpa [fvList] using h
      simp only [denoteProd]; exact denote_coincidence t e1 e2 h'.left
    | b, t :: t' :: ts, e1, e2, h => by
      have h' : AgreeOn (t.fv ++ fvList (t' :: ts)) e1 e2 := by simpa [fvList] using h
      simp only [denoteProd]
      rw [denote_coincidence t e1 e2 h'.left, denoteProd_coincidence b (t' :: ts) e1 e2 h'.right]

  theorem denoteDelta_coincidence : ∀ (ts : List (Name × Term × Term)) (e1 e2 : Env),
      AgreeOn (fvDelta ts) e1 e2 → denoteDelta ts e1 = denoteDelta ts e2
    | [], e1, e2, h => by simp only [denoteDelta]
    | (n, p, d) :: rest, e1, e2, h => by
      have h' : AgreeOn (n :: (p.fv ++ (d.fv ++ fvDelta rest))) e1 e2 := by simpa [fvDelta] using h
      have h2 : AgreeOn (p.fv ++ (d.fv ++ fvDelta rest)) e1 e2 := fun m hm => h' m (List.mem_cons_of_mem _ hm)
      simp only [denoteDelta]
      rw [h' n (List.mem_cons_self ..), denote_coincidence p e1 e2 h2.left,
        denote_coincidence d e1 e2 h2.right.left, denoteDelta_coincidence rest e1 e2 h2.right.right]
end

end FV.Props.C02
