/-
  Props/C02/Constant.lean — soundness of the three binary rules of funsor/constant.py on the desugared model
  (Model/C02Constant.lean): the result has the value of `Binary(op, lhs, rhs)` with the operands IN THE SAME
  ORDER (what a swapped-operand implementation violates for every non-commutative op), and declares no input the
  reflected term lacks.
-/
import FunsorVerif.Model.C02Constant
namespace FV.Props.C02
open FV FV.C02

/-- Soundness of a binary Constant rule: same value as the reflected Binary at every environment, and the declared
    inputs of the result are among those of the two operands. -/
def CSound (rule : Op → CTerm → CTerm → Option CTerm) : Prop :=
  ∀ op l r res, rule op l r = some res →
    (∀ env, cdenote res env = cbinaryDenote op l r env) ∧ res.inputs ⊆ l.inputs ++ r.inputs

theorem cdenote_mkConst (cins : List (Name × Dom)) (t : Term) (env : Env) :
    cdenote (mkConst cins t) env = denote t env := by
  unfold mkConst; split <;> rfl

theorem mkConst_inputs (cins : List (Name × Dom)) (t : Term) :
    (mkConst cins t).inputs ⊆ cins.map (·.1) ++ t.fv := by
  unfold mkConst
  split
  · intro n hn; simp only [CTerm.inputs, CTerm.cins, CTerm.arg, List.map_nil, List.nil_append] at hn
    exact List.mem_append_right _ hn
  · intro n hn; exact hn

theorem filter_names_subset (p : Name × Dom → Bool) (cins : List (Name × Dom)) :
    (cins.filter p).map (·.1) ⊆ cins.map (·.1) := by
  intro n hn
  obtain ⟨c, hc, rfl⟩ := List.mem_map.mp hn
  exact List.mem_map.mpr ⟨c, (List.mem_filter.mp hc).1, rfl⟩

theorem binaryConstTensor_sound : CSound binaryConstTensor := by
  intro op l r res h
  cases l <;> cases r <;> simp only [binaryConstTensor, reduceCtorEq, Option.some.injEq] at h
  case const.plain cins a t =>
    subst h
    refine ⟨fun env => ?_, fun n hn => ?_⟩
    · rw [cdenote_mkConst]
      simp only [cbinaryDenote, cdenote, CTerm.arg, denote]
      split <;> split <;> simp_all
    · have := mkConst_inputs _ _ hn
      simp only [Term.fv, List.mem_append, CTerm.inputs, CTerm.cins, CTerm.arg, List.map_nil,
        List.nil_append] at this ⊢
      rcases this with h1 | h1 | h1
      · exact Or.inl (Or.inl (filter_names_subset _ _ h1))
      · exact Or.inl (Or.inr h1)
      · exact Or.inr h1

theorem binaryTensorConst_sound : CSound binaryTensorConst := by
  intro op l r res h
  cases l <;> cases r <;> simp only [binaryTensorConst, reduceCtorEq, Option.some.injEq] at h
  case plain.const t cins a =>
    subst h
    refine ⟨fun env => ?_, fun n hn => ?_⟩
    · rw [cdenote_mkConst]
      simp only [cbinaryDenote, cdenote, CTerm.arg, denote]
      split <;> split <;> simp_all
    · have := mkConst_inputs _ _ hn
      simp only [Term.fv, List.mem_append, CTerm.inputs, CTerm.cins, CTerm.arg, List.map_nil,
        List.nil_append] at this ⊢
      rcases this with h1 | h1 | h1
      · exact Or.inr (Or.inl (filter_names_subset _ _ h1))
      · exact Or.inl h1
      · exact Or.inr (Or.inr h1)

theorem binaryConstConst_sound : CSound binaryConstConst := by
  intro op l r res h
  cases l <;> cases r <;> simp only [binaryConstConst, reduceCtorEq, Option.some.injEq] at h
  case const.const c1 a c2 b =>
    subst h
    refine ⟨fun env => ?_, fun n hn => ?_⟩
    · rw [cdenote_mkConst]
      simp only [cbinaryDenote, cdenote, CTerm.arg, denote]
      split <;> split <;> simp_all
    · have := mkConst_inputs _ _ hn
      simp only [Term.fv, List.mem_append, CTerm.inputs, CTerm.cins, CTerm.arg] at this ⊢
      rcases this with h1 | h1 | h1
      · have h2 := filter_names_subset _ _ h1
        simp only [List.map_append, List.mem_append] at h2
        rcases h2 with h3 | h3
        · exact Or.inl (Or.inl h3)
        · exact Or.inr (Or.inl (filter_names_subset _ _ h3))
      · exact Or.inl (Or.inr h1)
      · exact Or.inr (Or.inr h1)

/-- The operand order matters: a rule returning `op(rhs.arg, lhs)` is NOT sound for a non-commutative op —
    statement of what the swapped-operand mutant violates (value clause of `CSound` at `sub`, operands 3 and 1). -/
theorem swapped_operands_witness :
    binop "sub" (XR.fin 3) (XR.fin 1) ≠ binop "sub" (XR.fin 1) (XR.fin 3) := by decide +kernel

end FV.Props.C02
