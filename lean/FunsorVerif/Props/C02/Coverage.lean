/-
  Props/C02/Coverage.lean — coverage obligation over the generated registry (Gen/C02Registry.lean):
  every rule registered in ANY interpretation registry of the pinned funsor is classified `modelled`
  (has a Lean rule model in Model/C02.lean) or `declaredUnmodelled` (explicit committed list).
  A NEWLY REGISTERED RULE breaks `registry_classified` until it is classified.
-/
import FunsorVerif.Model.C02
import FunsorVerif.Gen.C02Registry
namespace FV.Props.C02
open FV FV.C02

/-- Registered rule functions with a Lean rule model (Model/C02.lean): name ↦ model rules. -/
def modelled : List (String × List String) :=
  [("funsor.cnf.binary_to_contract", ["binaryToContract"]),
   ("funsor.cnf.reduce_funsor", ["reduceToContract"]),
   ("funsor.cnf.normalize_trivial", ["contractionTrivial"]),
   ("funsor.cnf.normalize_contraction_generic_tuple",
      ["contractionNoVars", "contractionSingleTerm", "contractionTrivial", "contractionDropUnits",
       "contractionFlattenBin", "contractionFlattenRed", "contractionFuseSameRed"]),
   ("funsor.terms.eager_subs_subs", ["subsFuse"]),
   ("funsor.terms.eager_binary_number_number", ["numberBinary"]),
   ("funsor.terms.eager_unary", ["numberUnary"]),
   ("funsor.terms.eager_getitem_lambda", ["lambdaGetitem"]),
   ("funsor.terms.eager_subs_funsor", ["stackSelect"]),
   ("funsor.terms.eager_reduce", ["reduceUnrelated", "reduceUnrelatedMul"]),
   ("funsor.terms.lazy_reduce", ["reduceUnrelated", "reduceUnrelatedMul"]),
   ("funsor.terms.sequential_reduce", ["reduceUnrelated", "reduceUnrelatedMul"]),
   ("funsor.terms.moment_matching_reduce", ["reduceUnrelated", "reduceUnrelatedMul"]),
   ("funsor.cnf.eager_contraction_to_reduce", ["contractionToReduce"]),
   ("funsor.cnf.eager_contraction_to_binary", ["contractionToBinary"]),
   ("funsor.cnf.normalize_fuse_subs", ["subsFuseNormalize"])]

/-- Registered rule functions explicitly declared to have NO Lean model yet: they are covered by the
    per-firing correspondence only (fv/harness/c02.py) when the battery drives them. -/
def declaredUnmodelled : List String :=
  [ -- variadic/tuple re-dispatch shims and the rest of cnf.py
    "funsor.cnf.normalize_contraction_generic_args", "funsor.cnf.eager_contraction_generic_to_tuple",
    "funsor.cnf.eager_contraction_generic_recursive", "funsor.cnf.eager_contraction_tensor",
    "funsor.cnf.eager_contraction_gaussian", "funsor.cnf.normalize_contraction_commutative_canonical_order",
    "funsor.cnf.normalize_contraction_commute_joint", "funsor.cnf.unary_neg_variable",
    "funsor.cnf.do_fresh_subs", "funsor.cnf.distribute_subs_contraction",
    "funsor.cnf.binary_subtract", "funsor.cnf.binary_divide", "funsor.cnf.unary_log_exp",
    "funsor.cnf.unary_contract",
    -- optimizer
    "funsor.optimizer.unfold_contraction_generic_tuple", "funsor.optimizer.unfold_contraction_variadic",
    "funsor.optimizer.optimize_contraction_variadic", "funsor.optimizer.eager_contract_base",
    "funsor.optimizer.optimize_contract_finitary_funsor",
    -- terms.py
    "funsor.terms.die_binary", "funsor.terms.die_reduce", "funsor.terms.die_subs", "funsor.terms.die_unary",
    "funsor.terms.eager_align", "funsor.terms.eager_approximate", "funsor.terms.eager_binary_align_align",
    "funsor.terms.eager_binary_align_funsor", "funsor.terms.eager_binary_funsor_align",
    "funsor.terms.eager_cat", "funsor.terms.eager_stack", "funsor.terms.eager_getitem_tuple",
    "funsor.terms.eager_getslice_lambda", "funsor.terms.eager_getslice_tuple",
    "funsor.terms.eager_independent_trivial",
    -- tensor.py (numeric kernels: tied by C01's eager-vs-denote correspondence and by the per-firing check)
    "funsor.tensor.eager_binary_number_tensor", "funsor.tensor.eager_binary_tensor_number",
    "funsor.tensor.eager_binary_tensor_tensor", "funsor.tensor.eager_einsum", "funsor.tensor.eager_finitary_cat",
    "funsor.tensor.eager_finitary_generic_tensors", "funsor.tensor.eager_finitary_stack",
    "funsor.tensor.eager_function", "funsor.tensor.eager_getitem_tensor_number",
    "funsor.tensor.eager_getitem_tensor_tensor", "funsor.tensor.eager_getitem_tensor_variable",
    "funsor.tensor.eager_getslice_tensor", "funsor.tensor.eager_lambda", "funsor.tensor.eager_reduction_tensor",
    "funsor.tensor.eager_reshape_tensor", "funsor.tensor.eager_scatter_number", "funsor.tensor.eager_scatter_tensor",
    -- second wave: constants, deltas, Gaussians, joint, integrate, approximations, markov
    "funsor.constant.eager_reduce_add", "funsor.constant.eager_unary",
    "funsor.delta.eager_add_delta_funsor", "funsor.delta.eager_add_funsor_delta", "funsor.delta.eager_add_multidelta",
    "funsor.delta.eager_independent_delta",
    "funsor.gaussian._compress_gaussians", "funsor.gaussian.eager_add_gaussian_gaussian", "funsor.gaussian.eager_sub",
    "funsor.integrate.eager_contraction_binary_to_integrate", "funsor.integrate.eager_distribute_integrate",
    "funsor.integrate.eager_integrate", "funsor.integrate.eager_integrate_gaussian_gaussian",
    "funsor.integrate.eager_integrate_gaussian_variable", "funsor.integrate.eager_integrate_gaussianmixture",
    "funsor.integrate.eager_integrate_neg_gaussian", "funsor.integrate.normalize_integrate",
    "funsor.integrate.normalize_integrate_contraction",
    "funsor.joint.eager_independent_joint", "funsor.joint.eager_reduce_exp",
    "funsor.joint.moment_matching_contract_default", "funsor.joint.moment_matching_contract_joint",
    "funsor.approximations.argmax_approximate_logaddexp", "funsor.approximations.laplace_approximate_logaddexp",
    "funsor.approximations.mean_approximate_logaddexp",
    "funsor.sum_product.eager_markov_product" ]

/-- Rule functions modelled on a desugared wrapper rather than on `Term` (Model/C02Constant.lean, soundness in
    Props/C02/Constant.lean): name ↦ model rule. -/
def modelledDesugared : List (String × String) :=
  [("funsor.constant.eager_binary_constant_constant", "binaryConstConst"),
   ("funsor.constant.eager_binary_constant_tensor", "binaryConstTensor"),
   ("funsor.constant.eager_binary_tensor_constant", "binaryTensorConst")]

def classified (e : FV.Gen.C02.Entry) : Bool :=
  (modelled.lookup e.rule).isSome || (modelledDesugared.lookup e.rule).isSome || declaredUnmodelled.contains e.rule

/-- Every registered rule is classified: a NEWLY REGISTERED RULE breaks this until it is given a model or
    listed in `declaredUnmodelled`. -/
theorem registry_classified : FV.Gen.C02.registry.all classified = true := by decide +kernel

/-- Every model-rule name used in the classification exists in the executable rule table. -/
theorem modelled_rules_exist :
    (modelled.all fun p => p.2.all fun n => (ruleByName n).isSome) = true := by decide

/-- No rule is both modelled and declared unmodelled. -/
theorem classification_disjoint :
    (modelled.all fun p => !declaredUnmodelled.contains p.1) = true := by decide

end FV.Props.C02
