/-
  Props/C02/Eqv.lean — observational equivalence of values and soundness up to it.

  `denote t' env = denote t env` as *structural* equality of `Sem` is false for rewrites that go through
  a broadcasting product with a scalar (`n·x`, unit removal): the two `get` functions differ outside the
  index range of the shape.  `SemEqv` compares what is observable: the shape and the entries at the
  in-range indices.  `SoundE` is `Sound` up to it (and still: undefined exactly where the original is).
  (Definition as in Model/C03 `Sem.Eqv`; copied, not imported across properties.)
-/
import FunsorVerif.Props.C02
import FunsorVerif.Props.C02.Coincidence
namespace FV.Props.C02
open FV FV.C02

def SemEqv (a b : Sem) : Prop := a.shape = b.shape ∧ ∀ i ∈ allIdx a.shape, a.get i = b.get i

theorem SemEqv.refl (a : Sem) : SemEqv a a := ⟨rfl, fun _ _ => rfl⟩
theorem SemEqv.symm {a b : Sem} (h : SemEqv a b) : SemEqv b a :=
  ⟨h.1.symm, fun i hi => (h.2 i (h.1 ▸ hi)).symm⟩
theorem SemEqv.trans {a b c : Sem} (h1 : SemEqv a b) (h2 : SemEqv b c) : SemEqv a c :=
  ⟨h1.1.trans h2.1, fun i hi => (h1.2 i hi).trans (h2.2 i (h1.1 ▸ hi))⟩

def OEqv : Option Sem → Option Sem → Prop
  | none, none => True
  | some a, some b => SemEqv a b
  | _, _ => False

theorem OEqv.refl : ∀ a : Option Sem, OEqv a a
  | none => trivial
  | some a => SemEqv.refl a

theorem OEqv.of_eq {a b : Option Sem} (h : a = b) : OEqv a b := h ▸ OEqv.refl a

def EquivE (t' t : Term) : Prop := ∀ env, OEqv (denote t' env) (denote t env)

/-- Soundness up to observational equivalence. -/
def SoundE (r : Rule) : Prop := ∀ t t', r t = some t' → EquivE t' t ∧ t'.fv ⊆ t.fv

theorem Sound.toE {r : Rule} (h : Sound r) : SoundE r :=
  fun t t' hr => ⟨fun env => OEqv.of_eq ((h t t' hr).1 env), (h t t' hr).2⟩

end FV.Props.C02
