/-
  Props/C02/Getslice.lean — plain-Python indexing `x[index]` (Unary(GetsliceOp(index), Tensor)) along one event dim,
  modelled as the selection of a list of positions.  Two facts back the `getslice` generator family of the harness:
  * `sameLength_not_identity` : an index that keeps the whole extent need not be the identity (x[::-1]): a rule
    may not return its operand just because the selected data has the operand's shape;
  * `select_eq_self_iff` : on data whose entries are pairwise distinct (what the family generates) the selection
    equals the operand iff the positions are exactly 0,1,…,n-1 — so every wrong selection of the same extent is
    visible in the value, none is masked by equal entries.
-/
namespace FV.Props.C02.Getslice

/-- value of `l[idx]` for a list of in-range positions (numpy basic slicing of one dim selects such a list) -/
def select {α} (l : List α) (idx : List Nat) : List (Option α) := idx.map (fun i => l[i]?)

/-- positions selected by the full negative-step slice `[::-1]` on extent n -/
def revIdx (n : Nat) : List Nat := (List.range n).reverse

theorem select_range {α} (l : List α) : select l (List.range l.length) = l.map some := by
  apply List.ext_getElem <;> simp [select]

theorem revIdx_length (n : Nat) : (revIdx n).length = n := by simp [revIdx]

/-- the seeded fast path's guard (equal extent) does not imply an identity selection -/
theorem sameLength_not_identity :
    ∃ (l : List Int) (idx : List Nat), (select l idx).length = l.length ∧ (∀ i ∈ idx, i < l.length) ∧
      select l idx ≠ l.map some :=
  ⟨[1, 2, 3], revIdx 3, by decide, by decide, by decide⟩

theorem select_eq_self_iff {α} (l : List α) (hl : l.Nodup) (idx : List Nat) (hin : ∀ i ∈ idx, i < l.length) :
    select l idx = l.map some ↔ idx = List.range l.length := by
  constructor
  · intro h
    have hlen : idx.length = l.length := by
      have := congrArg List.length h
      simpa [select] using this
    apply List.ext_getElem
    · simp [hlen]
    · intro k h1 h2
      have hk : k < l.length := by simpa using h2
      have hik : idx[k] < l.length := hin _ (List.getElem_mem h1)
      have e := congrArg (fun m => m[k]?) h
      simp only [select, List.getElem?_map, List.getElem?_eq_getElem h1, List.getElem?_eq_getElem hk,
        List.getElem?_eq_getElem hik, Option.map_some] at e
      have e' : l[idx[k]] = l[k] := by simpa using e
      have := (List.getElem_inj hl).mp e'
      simpa using this
  · intro h
    subst h
    exact select_range l

end FV.Props.C02.Getslice
