/-
  Props/C02/Rules2.lean — second wave of rule soundness theorems: rules whose soundness needs the coincidence
  lemma (`denote` depends only on free names) and/or holds only up to observational equivalence (`SoundE`).
-/
import FunsorVerif.Props.C02.Eqv
namespace FV.Props.C02
open FV FV.C02


theorem contractionToReduce_sound : Sound contractionToReduce := by
  intro t t' h
  unfold contractionToReduce at h
  split at h
  · rename_i red bin vars t0
    split at h
    · rename_i hop
      cases h
      refine ⟨fun env => ?_, fun n hn => ?_⟩
      · simp only [denote, denoteProd, denoteAll_eq_mapM, mapM_map, assoc_ne_null hop]
        cases assignments vars <;> simp
      · simpa [Term.fv, fvList] using hn
    · cases h
  · cases h

theorem evalBinary_mk (bin : String) (h : assocOps.contains bin = true) (a b : Sem) :
    evalBinary ⟨bin, Sexp.list []⟩ a b = Sem.zip? (binop bin) a b :=
  evalBinary_assoc ⟨bin, Sexp.list []⟩ h a b

theorem contractionToBinary_sound : Sound contractionToBinary := by
  intro t t' h
  unfold contractionToBinary at h
  split at h
  · rename_i red bin vars l r
    split at h
    · cases h
    · rename_i hbin
      simp only [Bool.not_eq_true, Bool.not_eq_false'] at hbin
      have hb : assocOps.contains bin = true := by simpa using hbin
      split at h
      · rename_i hv
        have ev : vars = [] := by simpa using hv
        subst ev
        split at h
        · rename_i hred
          cases h
          refine ⟨fun env => ?_, fun n hn => ?_⟩
          · simp only [denote, denoteProd, assignments, List.mapM_cons, List.mapM_nil, List.nil_append,
              evalBinary_mk bin hb]
            cases hl : denote l env <;> cases hr : denote r env <;> simp
            rename_i a b
            cases hz : Sem.zip? (binop bin) a b <;> simp
            rename_i v
            simp only [Bool.or_eq_true, beq_iff_eq] at hred
            rcases hred with hn | hn
            · simp [hn]
            · simp [assoc_ne_null hn, foldList_singleton]
          · simpa [Term.fv, fvList] using hn
        · cases h
      · split at h
        · rename_i hred
          cases h
          refine ⟨fun env => ?_, fun n hn => ?_⟩
          · simp only [denote, denoteProd, denoteAll_eq_mapM, mapM_map, assoc_ne_null hred, evalBinary_mk bin hb]
            cases assignments vars <;> simp
          · simpa [Term.fv, fvList] using hn
        · cases h
  · cases h


theorem denoteNth_getElem : ∀ (ps : List Term) (k : Nat) (p : Term) (env : Env), ps[k]? = some p →
    denoteNth ps k env = denote p env
  | [], k, p, env, h => by simp at h
  | q :: ps, 0, p, env, h => by simp at h; subst h; simp [denoteNth]
  | q :: ps, k + 1, p, env, h => by
    simp only [List.getElem?_cons_succ] at h
    simp only [denoteNth]; exact denoteNth_getElem ps k p env h

theorem mem_fvList_of_mem : ∀ (ps : List Term) (p : Term) (n : Name), p ∈ ps → n ∈ p.fv → n ∈ fvList ps
  | q :: ps, p, n, hp, hn => by
    simp only [List.mem_cons] at hp
    simp only [fvList, List.mem_append]
    rcases hp with rfl | hp
    · exact Or.inl hn
    · exact Or.inr (mem_fvList_of_mem ps p n hp hn)

theorem toNat_scalar_fin (q : Rat) (h1 : q.den = 1) (h2 : 0 ≤ q.num) :
    (Sem.scalar (XR.fin q)).toNat? = some q.num.toNat := by
  simp [Sem.toNat?, Sem.scalar, h1, h2]

theorem stackSelect_sound : Sound stackSelect := by
  intro t t' h
  unfold stackSelect at h
  split at h
  · rename_i n parts m q dt
    split at h
    · rename_i hc
      simp only [Bool.and_eq_true, beq_iff_eq, decide_eq_true_eq] at hc
      obtain ⟨⟨hnm, hden⟩, hnum⟩ := hc
      subst hnm
      split at h
      · rename_i p hp
        split at h
        · cases h
        · rename_i hfv
          cases h
          have hnot : n ∉ fvList parts := by simpa using hfv
          refine ⟨fun env => ?_, fun x hx => ?_⟩
          · simp only [denote, denoteSubs, List.cons_append, List.nil_append, lookup_cons, if_true,
              Option.bind_some, toNat_scalar_fin q hden hnum]
            rw [denoteNth_getElem parts _ t' _ hp]
            apply denote_coincidence
            intro x hx
            rw [lookup_cons]
            have : n ≠ x := fun e => hnot (e ▸ mem_fvList_of_mem parts t' x (List.mem_of_getElem? hp) hx)
            simp [this]
          · have hmem := mem_fvList_of_mem parts t' x (List.mem_of_getElem? hp) hx
            have : x ≠ n := fun e => hnot (e ▸ hmem)
            simp [Term.fv, fvSubs, hmem, this]
      · cases h
    · cases h
  · cases h


theorem lookup_none_of_not_mem : ∀ (a : Env) (n : Name), n ∉ a.map (·.1) → a.lookup n = none
  | [], n, _ => rfl
  | (k, v) :: a, n, h => by
    simp only [List.map_cons, List.mem_cons, not_or] at h
    rw [lookup_cons]
    have : k ≠ n := fun e => h.1 e.symm
    simp [this, lookup_none_of_not_mem a n h.2]

theorem fvSubs_fused (σ₂ : List (Name × Term)) (n : Name) : ∀ τ : List (Name × Term),
    n ∈ fvSubs (τ.map (fun (k, v) => (k, Term.subs v σ₂))) →
      (n ∈ fvSubs τ ∧ (σ₂.map (·.1)).contains n = false) ∨ n ∈ fvSubs σ₂ := by
  intro τ
  induction τ with
  | nil => intro h; simp [fvSubs] at h
  | cons p τ ih =>
    obtain ⟨k, v⟩ := p
    intro h
    simp only [List.map_cons, fvSubs, Term.fv, List.mem_append, List.mem_filter,
      Bool.not_eq_eq_eq_not, Bool.not_true] at h
    rcases h with (⟨hv, hk⟩ | hs) | h
    · left; exact ⟨by simp [fvSubs, hv], hk⟩
    · right; exact hs
    · rcases ih h with ⟨h1, h2⟩ | h1
      · left; exact ⟨by simp [fvSubs, h1], h2⟩
      · right; exact h1

theorem fvSubs_append (σ τ : List (Name × Term)) : fvSubs (σ ++ τ) = fvSubs σ ++ fvSubs τ := by
  induction σ with
  | nil => rfl
  | cons p σ ih => obtain ⟨k, v⟩ := p; simp [fvSubs, ih]

theorem keys_fused (σ₁ σ₂ : List (Name × Term)) :
    (σ₁.map (fun (k, v) => (k, Term.subs v σ₂))).map (·.1) = σ₁.map (·.1) := by
  simp [List.map_map, Function.comp_def]

theorem subsFuseNormalize_sound : Sound subsFuseNormalize := by
  intro t t' h
  unfold subsFuseNormalize at h
  split at h
  · rename_i a σ₁ σ₂
    split at h
    · cases h
    · rename_i hdis
      cases h
      have hd : ∀ p ∈ σ₂, p.1 ∉ σ₁.map (·.1) := by
        intro p hp hc
        apply hdis
        simp only [List.any_eq_true]
        exact ⟨p, hp, by simpa using hc⟩
      refine ⟨fun env => ?_, fun n hn => ?_⟩
      · simp only [denote, denoteSubs_append]
        cases h2 : denoteSubs σ₂ env with
        | none => rfl
        | some b₂ =>
          rw [denoteSubs_fused σ₁ σ₂ env b₂ h2]
          dsimp only
          cases h1 : denoteSubs σ₁ (b₂ ++ env) with
          | none => rfl
          | some b₁ =>
            dsimp only
            apply denote_coincidence
            intro x _
            have k1 := denoteSubs_keys σ₁ _ b₁ h1
            have k2 := denoteSubs_keys σ₂ _ b₂ h2
            simp only [List.append_assoc, lookup_append]
            cases e2 : b₂.lookup x with
            | none => rfl
            | some v2 =>
              have hx2 : x ∈ σ₂.map (·.1) := by
                rw [← k2]
                exact Classical.byContradiction fun hc => by
                  rw [lookup_none_of_not_mem b₂ x hc] at e2; cases e2
              obtain ⟨p, hp, rfl⟩ := List.mem_map.mp hx2
              have : b₁.lookup p.1 = none := lookup_none_of_not_mem b₁ p.1 (k1 ▸ hd p hp)
              simp [this]
      · simp only [Term.fv, List.mem_append, List.mem_filter, List.map_append, keys_fused, fvSubs_append,
          List.contains_eq_mem, Bool.not_eq_eq_eq_not, Bool.not_true,
          decide_eq_false_iff_not, not_or] at hn ⊢
        rcases hn with ⟨ha, hk2, hk1⟩ | h | h
        · left; exact ⟨Or.inl ⟨ha, hk1⟩, hk2⟩
        · right; exact h
        · rcases fvSubs_fused σ₂ n σ₁ h with ⟨h1, h2⟩ | h1
          · left; exact ⟨Or.inr h1, by simpa using h2⟩
          · right; exact h1
  · cases h


theorem multiplicity_assignments : ∀ (vars : List (Name × Dom)) (m : Nat), multiplicity vars = some m →
    ∃ asgs, assignments vars = some asgs ∧ asgs.length = m
  | [], m, h => by simp [multiplicity] at h; subst h; exact ⟨[[]], rfl, rfl⟩
  | (n, ⟨DType.bint k, []⟩) :: rest, m, h => by
    simp only [multiplicity, Option.map_eq_some_iff] at h
    obtain ⟨m', hm', rfl⟩ := h
    obtain ⟨tails, ht, hl⟩ := multiplicity_assignments rest m' hm'
    refine ⟨(List.range k).flatMap fun i => tails.map fun t => (n, Sem.ofNat i) :: t,
      by simp only [assignments, ht], ?_⟩
    simp only [List.length_flatMap, List.length_map, hl]
    induction k with
    | zero => simp
    | succ k ih => simp [List.range_succ, ih, Nat.succ_mul]
  | (n, ⟨DType.real, _⟩) :: rest, m, h => by simp [multiplicity] at h
  | (n, ⟨DType.bint k, _ :: _⟩) :: rest, m, h => by simp [multiplicity] at h

theorem mapM_const {α β : Type} (x : Option β) : ∀ (l : List α) (a : α),
    (a :: l).mapM (fun _ => x) = x.bind (fun v => some (List.replicate (l.length + 1) v))
  | [], a => by cases x <;> simp [List.mapM_cons]
  | b :: l, a => by
    rw [List.mapM_cons, mapM_const x l b]
    cases x <;> simp [List.replicate_succ]

theorem bcastIdx_self : ∀ (s idx : List Nat), idx ∈ allIdx s → bcastIdx s idx = idx := by
  have key : ∀ (s idx : List Nat), idx ∈ allIdx s →
      idx.length = s.length ∧ List.zipWith (fun d i => if d = 1 then 0 else i) s idx = idx := by
    intro s
    induction s with
    | nil => intro idx h; simp [allIdx] at h; subst h; simp
    | cons d s ih =>
      intro idx h
      simp only [allIdx, List.mem_flatMap, List.mem_range, List.mem_map] at h
      obtain ⟨i, hi, r, hr, rfl⟩ := h
      obtain ⟨h1, h2⟩ := ih r hr
      refine ⟨by simp [h1], ?_⟩
      simp only [List.zipWith_cons_cons, h2, List.cons.injEq, and_true]
      split
      · omega
      · rfl
  intro s idx h
  obtain ⟨h1, h2⟩ := key s idx h
  simp only [bcastIdx, h1, Nat.sub_self, List.drop_zero, h2]

theorem broadcastShapes_nil_right (s : List Nat) : broadcastShapes s [] = some s := by
  unfold broadcastShapes
  simp only [List.reverse_nil]
  cases h : s.reverse with
  | nil => simp [broadcastShapes.go, List.reverse_eq_nil_iff.mp h]
  | cons x xs =>
    simp only [broadcastShapes.go, Option.map_some]
    rw [← h, List.reverse_reverse]

/-- Reducing over variables the argument does not mention folds `m+1` identical copies of its value. -/
theorem denote_reduce_absent (op : String) (a : Term) (vars : List (Name × Dom)) (m : Nat)
    (hm : multiplicity vars = some (m + 1)) (habs : ∀ v ∈ vars, v.1 ∉ a.fv) (env : Env) :
    denote (Term.reduce op a vars) env =
      (denote a env).bind fun v => Sem.foldList op v.shape (List.replicate (m + 1) v) := by
  obtain ⟨asgs, hasgs, hlen⟩ := multiplicity_assignments vars (m + 1) hm
  have hconst : asgs.mapM (fun x => denote a (x ++ env)) = asgs.mapM (fun _ => denote a env) := by
    apply mapM_congr_opt
    intro x hx
    apply denote_coincidence
    intro n hn
    rw [lookup_append, lookup_none_of_not_mem x n]
    rw [assignments_keys vars asgs hasgs x hx]
    intro hc
    obtain ⟨v, hv, rfl⟩ := List.mem_map.mp hc
    exact habs v hv hn
  simp only [denote, hasgs, denoteAll_eq_mapM, mapM_map, hconst]
  match asgs, hlen with
  | a0 :: rest, hlen =>
    rw [mapM_const]
    have hl : rest.length = m := by simpa using hlen
    cases denote a env with
    | none => rfl
    | some v => simp [hl, List.replicate_succ]

theorem foldList_replicate (op : String) (m : Nat) (g : XR → XR)
    (hg : ∀ x, foldOp op (List.replicate (m + 1) x) = some (g x)) (v : Sem) :
    Sem.foldList op v.shape (List.replicate (m + 1) v) = some ⟨v.shape, fun i => g (v.get i)⟩ := by
  unfold Sem.foldList
  have h : ∀ i, foldOp op ((List.replicate (m + 1) v).map (·.get i)) = some (g (v.get i)) := by
    intro i; rw [List.map_replicate]; exact hg _
  rw [mapM_some _ _ _ h]
  simp only [h, Option.getD_some]


theorem natCast_succ_pos (n : Nat) : (0 : Rat) < ((n + 1 : Nat) : Rat) := by
  have : ((n + 1 : Nat) : Rat) = (n : Rat) + 1 := by simp
  rw [this]
  have h0 : (0 : Rat) ≤ (n : Rat) := by
    induction n with
    | zero => simp
    | succ k ih =>
      have : ((k + 1 : Nat) : Rat) = (k : Rat) + 1 := by simp
      rw [this]; grind
  grind

/-- add: folding n+1 copies of ANY value x gives x·(n+1) (numpy conventions for ±∞, NaN included). -/
theorem foldOp_replicate_add (x : XR) (n : Nat) :
    foldOp "add" (List.replicate (n + 1) x) = some (XR.mul x (XR.fin ((n + 1 : Nat) : Rat))) := by
  have hp := natCast_succ_pos n
  cases x with
  | fin q =>
    rw [foldOp_replicate_add_fin]
    simp only [XR.mul, Rat.mul_comm]
  | pinf =>
    rw [foldOp_replicate_idem "add" XR.pinf rfl]
    have e : ((n + 1 : Nat) : Rat) = (n : Rat) + 1 := by simp
    rw [e] at hp
    have h1 : ¬ (n : Rat) + 1 < 0 := by grind
    have h2 : ¬ (n : Rat) + 1 = 0 := by grind
    simp [XR.mul, XR.sgn, h1, h2]
  | ninf =>
    rw [foldOp_replicate_idem "add" XR.ninf rfl]
    have e : ((n + 1 : Nat) : Rat) = (n : Rat) + 1 := by simp
    rw [e] at hp
    have h1 : ¬ (n : Rat) + 1 < 0 := by grind
    have h2 : ¬ (n : Rat) + 1 = 0 := by grind
    simp [XR.mul, XR.sgn, h1, h2]
  | nan =>
    rw [foldOp_replicate_idem "add" XR.nan rfl]
    simp [XR.mul]

theorem zip_scalar_right (f : XR → XR → Option XR) (g : XR → XR) (c : XR) (hf : ∀ x, f x c = some (g x)) (v : Sem) :
    ∃ w, Sem.zip? f v (Sem.scalar c) = some w ∧ SemEqv w ⟨v.shape, fun i => g (v.get i)⟩ := by
  unfold Sem.zip?
  simp only [Sem.scalar, broadcastShapes_nil_right]
  have h : ∀ i, f (v.get (bcastIdx v.shape i)) c = some (g (v.get (bcastIdx v.shape i))) := fun i => hf _
  rw [mapM_some _ _ _ h]
  refine ⟨_, rfl, rfl, ?_⟩
  intro i hi
  simp only [bcastIdx_self v.shape i hi, hf, Option.getD_some]

theorem reduceUnrelated_sound : SoundE reduceUnrelated := by
  intro t t' h
  unfold reduceUnrelated at h
  split at h
  · rename_i op a vars
    split at h
    · cases h
    · rename_i hc
      simp only [Bool.or_eq_true, List.any_eq_true, not_or, not_exists, not_and] at hc
      have habs : ∀ v ∈ vars, v.1 ∉ a.fv := fun v hv hm => hc.2 v hv (by simpa using hm)
      split at h
      · cases h
      · cases h
      · rename_i m hm0 hm
        obtain ⟨k, rfl⟩ : ∃ k, m = k + 1 := by
          cases m with
          | zero => exact (hm0 rfl).elim
          | succ k => exact ⟨k, rfl⟩
        have hred := denote_reduce_absent op a vars k hm habs
        have hfv : a.fv ⊆ (Term.reduce op a vars).fv := by
          intro n hn
          simp only [Term.fv, List.mem_filter, hn, true_and, Bool.not_eq_eq_eq_not, Bool.not_true]
          simp only [List.contains_eq_mem, decide_eq_false_iff_not]
          intro hc2
          obtain ⟨v, hv, rfl⟩ := List.mem_map.mp hc2
          exact habs v hv hn
        split at h
        · -- add
          cases h
          refine ⟨fun env => ?_, fun n hn => ?_⟩
          · rw [hred env]
            simp only [denote]
            cases hv : denote a env with
            | none => trivial
            | some v =>
              have hz := zip_scalar_right (binop "mul") (fun x => XR.mul x (XR.fin ((k + 1 : Nat) : Rat)))
                (XR.fin ((k + 1 : Nat) : Rat)) (fun x => rfl) v
              obtain ⟨w, hw, he⟩ := hz
              have hb : evalBinary ⟨"mul", Sexp.list []⟩ v (Sem.scalar (XR.fin ((k + 1 : Nat) : Rat))) = some w := hw
              simp only [Option.bind_some, hb,
                foldList_replicate "add" k (fun x => XR.mul x (XR.fin ((k + 1 : Nat) : Rat))) (fun x => foldOp_replicate_add x k) v]
              exact he
          · simp only [Term.fv, List.append_nil] at hn
            exact hfv hn
        · -- max
          cases h
          refine ⟨fun env => ?_, hfv⟩
          rw [hred env]
          cases hv : denote t' env with
          | none => trivial
          | some v =>
            simp only [Option.bind_some,
              foldList_replicate "max" k id (fun x => foldOp_replicate_idem "max" x (xr_max_idem x) k) v]
            exact SemEqv.refl v
        · -- min
          cases h
          refine ⟨fun env => ?_, hfv⟩
          rw [hred env]
          cases hv : denote t' env with
          | none => trivial
          | some v =>
            simp only [Option.bind_some,
              foldList_replicate "min" k id (fun x => foldOp_replicate_idem "min" x (xr_min_idem x) k) v]
            exact SemEqv.refl v
        · cases h
  · cases h

/-- `assignments` of a concatenation: the row-major product of the two assignment lists. -/
theorem assignments_append : ∀ (vs ws : List (Name × Dom)),
    assignments (vs ++ ws) =
      match assignments vs, assignments ws with
      | some A, some B => some (A.flatMap fun a => B.map fun b => a ++ b)
      | _, _ => none
  | [], ws => by
    simp only [List.nil_append, assignments]
    cases assignments ws <;> simp
  | (n, d) :: vs, ws => by
    have ih := assignments_append vs ws
    simp only [List.cons_append, assignments]
    rw [ih]
    cases hd : d.dtype with
    | real => simp
    | bint k =>
      cases hs : d.shape with
      | cons x xs => simp
      | nil =>
        cases hA : assignments vs with
        | none => simp
        | some A =>
          cases hB : assignments ws with
          | none => simp
          | some B =>
            simp only [Option.some.injEq]
            simp only [List.flatMap_assoc, List.flatMap_map, List.map_flatMap, List.map_map,
              Function.comp_def, List.cons_append]

section assoc
variable (f : XR → XR → XR) (hassoc : ∀ x y z, f (f x y) z = f x (f y z))

/-- fold of a non-empty list with its head as seed -/
def fold1 (x : XR) (xs : List XR) : XR := xs.foldl f x

include hassoc in
theorem foldl_assoc' (a b : XR) (l : List XR) : l.foldl f (f a b) = f a (l.foldl f b) := by
  induction l generalizing b with
  | nil => rfl
  | cons c l ih => simp only [List.foldl_cons]; rw [hassoc a b c]; exact ih (f b c)

include hassoc in
/-- folding the concatenation of non-empty blocks = folding the folds of the blocks -/
theorem fold_join (x : XR) (xs : List XR) : ∀ (blocks : List (XR × List XR)),
    (blocks.flatMap fun b => b.1 :: b.2).foldl f (xs.foldl f x) =
      (blocks.map fun b => b.2.foldl f b.1).foldl f (xs.foldl f x) := by
  intro blocks
  induction blocks generalizing x xs with
  | nil => rfl
  | cons b bs ih =>
    obtain ⟨y, ys⟩ := b
    simp only [List.flatMap_cons, List.map_cons, List.foldl_cons, List.foldl_append]
    have h1 : ys.foldl f (f (xs.foldl f x) y) = f (xs.foldl f x) (ys.foldl f y) :=
      foldl_assoc' f hassoc _ _ _
    rw [h1]
    have := ih (f (xs.foldl f x) (ys.foldl f y)) []
    simpa using this
end assoc

/-- The reduction op is total and associative on the value carrier (holds for add/mul/max/min on XR and for
    and/or; the hypothesis under which nested reductions may be fused or re-associated). -/
structure TotalAssoc (red : String) where
  f : XR → XR → XR
  tot : ∀ x y, binop red x y = some (f x y)
  assoc : ∀ x y z, f (f x y) z = f x (f y z)

theorem foldOp_total {red : String} (h : TotalAssoc red) (x : XR) (xs : List XR) :
    foldOp red (x :: xs) = some (xs.foldl h.f x) := by
  simp only [foldOp]
  have e : (fun acc y => binop red acc y) = fun acc y => some (h.f acc y) := by
    funext a b; exact h.tot a b
  rw [e]
  induction xs generalizing x with
  | nil => rfl
  | cons y ys ih => simp only [List.foldlM_cons, List.foldl_cons, Option.bind_eq_bind, Option.bind_some]; exact ih _

theorem foldList_total {red : String} (h : TotalAssoc red) (s : List Nat) (v : Sem) (vs : List Sem) :
    Sem.foldList red s (v :: vs) = some ⟨s, fun i => (vs.map (·.get i)).foldl h.f (v.get i)⟩ := by
  unfold Sem.foldList
  have hh : ∀ i, foldOp red ((v :: vs).map (·.get i)) = some ((vs.map (·.get i)).foldl h.f (v.get i)) := by
    intro i; simp only [List.map_cons]; exact foldOp_total h _ _
  rw [mapM_some _ _ _ hh]
  simp only [hh, Option.getD_some]

/-- fold a non-empty list of values pointwise (the `some (v :: vs)` branch of `denote` for reductions) -/
def topFold (red : String) : List Sem → Option Sem
  | [] => none
  | v :: vs => Sem.foldList red v.shape (v :: vs)

theorem mapM_append' {α β : Type} (k : α → Option β) (l1 l2 : List α) :
    (l1 ++ l2).mapM k = (match l1.mapM k, l2.mapM k with
      | some a, some b => some (a ++ b)
      | _, _ => none) := by
  induction l1 with
  | nil => simp only [List.nil_append, List.mapM_nil]; cases l2.mapM k <;> rfl
  | cons x l1 ih =>
    simp only [List.cons_append, List.mapM_cons, ih]
    cases k x <;> cases l1.mapM k <;> cases l2.mapM k <;> rfl

theorem mapM_flatMap' {α β γ : Type} (A : List α) (row : α → List β) (k : β → Option γ) :
    (A.flatMap row).mapM k = (A.mapM fun a => (row a).mapM k).map List.flatten := by
  induction A with
  | nil => rfl
  | cons a A ih =>
    simp only [List.flatMap_cons, mapM_append', ih, List.mapM_cons]
    cases (row a).mapM k <;> cases (A.mapM fun a => (row a).mapM k) <;> rfl

def rowVal (f : XR → XR → XR) (p : Sem × List Sem) : Sem :=
  ⟨p.1.shape, fun i => (p.2.map (·.get i)).foldl f (p.1.get i)⟩

theorem topFold_pairs {red : String} (h : TotalAssoc red) : ∀ (pairs : List (Sem × List Sem)),
    topFold red (pairs.map (rowVal h.f)) = topFold red (pairs.flatMap fun p => p.1 :: p.2)
  | [] => rfl
  | (w, ws) :: rest => by
    simp only [List.map_cons, List.flatMap_cons, List.cons_append, topFold, foldList_total h]
    congr 1
    show Sem.mk w.shape _ = Sem.mk w.shape _
    congr 1
    funext i
    have := fold_join h.f h.assoc (w.get i) (ws.map (·.get i)) (rest.map fun r => (r.1.get i, r.2.map (·.get i)))
    simp only [rowVal, List.map_append, List.foldl_append, List.map_map, List.map_flatMap, List.flatMap_map,
      Function.comp_def, List.map_cons] at this ⊢
    exact this.symm

theorem mapM_bind' {α β γ : Type} (r : α → Option β) (k : β → Option γ) : ∀ A : List α,
    A.mapM (fun a => (r a).bind k) = (A.mapM r).bind (·.mapM k)
  | [] => rfl
  | a :: A => by
    simp only [List.mapM_cons, mapM_bind' r k A]
    cases r a <;> cases A.mapM r <;> simp

theorem mapM_length {α β : Type} (g : α → Option β) : ∀ (l : List α) (r : List β), l.mapM g = some r → r.length = l.length
  | [], r, h => by simp at h; subst h; rfl
  | a :: l, r, h => by
    simp only [List.mapM_cons] at h
    cases ha : g a with
    | none => simp [ha] at h
    | some b =>
      cases hl : l.mapM g with
      | none => simp [ha, hl] at h
      | some bs =>
        simp [ha, hl] at h; subst h
        simp [mapM_length g l bs hl]

/-- Fusing the rows: folding each non-empty row and then the row results = folding everything. -/
theorem fuse_rows {red : String} (h : TotalAssoc red) (rows : List (List Sem)) (hne : ∀ r ∈ rows, r ≠ []) :
    (rows.mapM (topFold red)).bind (topFold red) = topFold red rows.flatten := by
  have hp : ∃ pairs : List (Sem × List Sem), rows = pairs.map fun p => p.1 :: p.2 := by
    induction rows with
    | nil => exact ⟨[], rfl⟩
    | cons r rows ih =>
      obtain ⟨ps, hps⟩ := ih (fun r' hr' => hne r' (List.mem_cons_of_mem _ hr'))
      cases r with
      | nil => exact absurd rfl (hne [] (List.mem_cons_self ..))
      | cons w ws => exact ⟨(w, ws) :: ps, by simp [hps]⟩
  obtain ⟨pairs, rfl⟩ := hp
  have h1 : (pairs.map fun p => p.1 :: p.2).mapM (topFold red) = some (pairs.map (rowVal h.f)) := by
    rw [mapM_map]
    apply mapM_some
    intro p
    simp only [topFold, foldList_total h, rowVal]
  rw [h1, Option.bind_some, topFold_pairs h]
  congr 1

theorem denote_contraction_eq (red b : String) (hn : (red == "null") = false) (vars : List (Name × Dom))
    (ts : List Term) (env : Env) :
    denote (Term.contraction red b vars ts) env =
      (assignments vars).bind fun asgs => (asgs.mapM fun a => denoteProd b ts (a ++ env)).bind (topFold red) := by
  simp only [denote]
  cases assignments vars with
  | none => rfl
  | some asgs =>
    simp only [Option.bind_some]
    cases asgs.mapM (fun a => denoteProd b ts (a ++ env)) with
    | none => rfl
    | some l => cases l <;> simp [topFold, hn]

theorem mapM_mem {α β : Type} (g : α → Option β) : ∀ (l : List α) (rs : List β), l.mapM g = some rs →
    ∀ r ∈ rs, ∃ a ∈ l, g a = some r
  | [], rs, h, r, hr => by simp at h; subst h; simp at hr
  | a :: l, rs, h, r, hr => by
    simp only [List.mapM_cons] at h
    cases ha : g a with
    | none => simp [ha] at h
    | some b =>
      cases hl : l.mapM g with
      | none => simp [ha, hl] at h
      | some bs =>
        simp [ha, hl] at h; subst h
        simp only [List.mem_cons] at hr
        rcases hr with rfl | hr
        · exact ⟨a, List.mem_cons_self .., ha⟩
        · obtain ⟨a', ha', hg⟩ := mapM_mem g l bs hl r hr
          exact ⟨a', List.mem_cons_of_mem _ ha', hg⟩

/-- `Contraction(red, null, vars, Contraction(red, bin, vvars, ts)) = Contraction(red, bin, vars ++ vvars, ts)`
    when the two binder lists are disjoint and `red` is total and associative (Fubini for finite folds). -/
theorem fuseSameRed_equiv {red : String} (h : TotalAssoc red) (hn : (red == "null") = false)
    (vbin : String) (vars vvars : List (Name × Dom)) (vts : List Term)
    (hdis : disjointNames vars vvars = true) (env : Env) :
    denote (Term.contraction red vbin (vars ++ vvars) vts) env =
      denote (Term.contraction red "null" vars [Term.contraction red vbin vvars vts]) env := by
  simp only [denote_contraction_eq _ _ hn, denoteProd, assignments_append]
  cases hA : assignments vars with
  | none => rfl
  | some A =>
    cases hB : assignments vvars with
    | none =>
      simp only [Option.bind_some, Option.bind_none]
      cases A with
      | nil => rfl
      | cons a A => simp [List.mapM_cons]
    | some B =>
      simp only [Option.bind_some]
      -- the two environment orders agree because the binders are disjoint
      have hG : ∀ a ∈ A, ∀ b ∈ B, denoteProd vbin vts ((a ++ b) ++ env) = denoteProd vbin vts (b ++ (a ++ env)) := by
        intro a ha b hb
        apply denoteProd_coincidence
        intro x _
        have ka := assignments_keys vars A hA a ha
        have kb := assignments_keys vvars B hB b hb
        simp only [List.append_assoc, lookup_append]
        cases ea : a.lookup x with
        | none => rfl
        | some va =>
          have hxa : x ∈ vars.map (·.1) := by
            rw [← ka]
            exact Classical.byContradiction fun hc => by rw [lookup_none_of_not_mem a x hc] at ea; cases ea
          obtain ⟨v, hv, rfl⟩ := List.mem_map.mp hxa
          have hnb : v.1 ∉ vvars.map (·.1) := by
            have := List.all_eq_true.mp hdis v hv
            simpa using this
          rw [lookup_none_of_not_mem b v.1 (kb ▸ hnb)]
      rw [mapM_flatMap']
      have hrows : (A.mapM fun a => (B.map fun b => a ++ b).mapM fun ab => denoteProd vbin vts (ab ++ env)) =
          A.mapM fun a => B.mapM fun b => denoteProd vbin vts (b ++ (a ++ env)) := by
        apply mapM_congr_opt
        intro a ha
        rw [mapM_map]
        apply mapM_congr_opt
        intro b hb
        exact hG a ha b hb
      rw [hrows, mapM_bind']
      cases hR : (A.mapM fun a => B.mapM fun b => denoteProd vbin vts (b ++ (a ++ env))) with
      | none => rfl
      | some rows =>
        simp only [Option.map_some, Option.bind_some]
        have hlen : ∀ r ∈ rows, r.length = B.length := by
          intro r hr
          obtain ⟨a, _, hg⟩ := mapM_mem _ A rows hR r hr
          exact mapM_length _ B r hg
        cases B with
        | nil =>
          have hnil : ∀ r ∈ rows, r = [] := fun r hr => List.length_eq_zero_iff.mp (hlen r hr)
          have hf : rows.flatten = [] := by
            simp only [List.flatten_eq_nil_iff]; exact hnil
          rw [hf]
          cases rows with
          | nil => rfl
          | cons r rows =>
            have : r = [] := hnil r (List.mem_cons_self ..)
            subst this
            simp [List.mapM_cons, topFold]
        | cons b0 B =>
          have hne : ∀ r ∈ rows, r ≠ [] := by
            intro r hr e
            have := hlen r hr
            simp [e] at this
          exact (fuse_rows h rows hne).symm

/-- `normalize_contraction_generic_tuple` branch 6b / `unfold` branch 3 with the same reduction twice, for a
    reduction op that is total and associative: sound under the model's freshness check. -/
theorem contractionFuseSameRed_sound_op (red : String) (h : TotalAssoc red) (vbin : String)
    (vars vvars : List (Name × Dom)) (vts : List Term) (t' : Term)
    (hr : contractionFuseSameRed (Term.contraction red "null" vars [Term.contraction red vbin vvars vts]) = some t') :
    Equiv t' (Term.contraction red "null" vars [Term.contraction red vbin vvars vts]) ∧
      t'.fv ⊆ (Term.contraction red "null" vars [Term.contraction red vbin vvars vts]).fv := by
  simp only [contractionFuseSameRed] at hr
  split at hr
  · rename_i hc
    simp only [Bool.and_eq_true, bne_iff_ne, ne_eq, beq_iff_eq] at hc
    cases hr
    have hn : (red == "null") = false := by simpa using hc.1.1.1
    refine ⟨fun env => fuseSameRed_equiv h hn vbin vars vvars vts hc.2 env, fun n hn' => ?_⟩
    simp only [Term.fv, fvList, List.append_nil, List.mem_filter, List.map_append, List.contains_eq_mem,
      List.mem_append, Bool.not_eq_eq_eq_not, Bool.not_true, decide_eq_false_iff_not, not_or] at hn' ⊢
    exact ⟨⟨hn'.1, hn'.2.2⟩, hn'.2.1⟩
  · cases hr

theorem xr_max_assoc (x y z : XR) : XR.max (XR.max x y) z = XR.max x (XR.max y z) := by
  cases x <;> cases y <;> cases z <;> simp [XR.max, XR.le] <;> grind

theorem xr_min_assoc (x y z : XR) : XR.min (XR.min x y) z = XR.min x (XR.min y z) := by
  cases x <;> cases y <;> cases z <;> simp [XR.min, XR.le] <;> grind

theorem xr_add_assoc (x y z : XR) : XR.add (XR.add x y) z = XR.add x (XR.add y z) := by
  cases x <;> cases y <;> cases z <;> simp [XR.add] <;> grind

/-- The hypothesis of `contractionFuseSameRed_sound_op` holds for max, min and add on ALL of XR (numpy
    conventions for ±∞ and NaN included).  (`and`/`or`/`xor` are bitwise and defined on integer values only, so
    they are not total on XR; `mul` is not proved here.) -/
def totalAssocMax : TotalAssoc "max" := ⟨XR.max, fun _ _ => rfl, xr_max_assoc⟩
def totalAssocMin : TotalAssoc "min" := ⟨XR.min, fun _ _ => rfl, xr_min_assoc⟩
def totalAssocAdd : TotalAssoc "add" := ⟨XR.add, fun _ _ => rfl, xr_add_assoc⟩

/-- Fusing nested `max` / `min` / `add` reductions over distinct binders is sound, unconditionally. -/
theorem contractionFuseSameRed_sound_max_min_add (red : String) (hred : red = "max" ∨ red = "min" ∨ red = "add")
    (vbin : String) (vars vvars : List (Name × Dom)) (vts : List Term) (t' : Term)
    (hr : contractionFuseSameRed (Term.contraction red "null" vars [Term.contraction red vbin vvars vts]) = some t') :
    Equiv t' (Term.contraction red "null" vars [Term.contraction red vbin vvars vts]) ∧
      t'.fv ⊆ (Term.contraction red "null" vars [Term.contraction red vbin vvars vts]).fv := by
  rcases hred with rfl | rfl | rfl
  · exact contractionFuseSameRed_sound_op "max" totalAssocMax vbin vars vvars vts t' hr
  · exact contractionFuseSameRed_sound_op "min" totalAssocMin vbin vars vvars vts t' hr
  · exact contractionFuseSameRed_sound_op "add" totalAssocAdd vbin vars vvars vts t' hr

end FV.Props.C02
