/-
  Props/C02/Rules3.lean — third wave: unit removal in a product (`normalize_contraction_generic_tuple`, branch 5).

  `NEq`: equality of values as seen through broadcasting.  `Sem.zip?` reads its operands only through
  `bcastIdx`, so it is EXACTLY invariant under `NEq`; multiplying by a literal unit is the identity up to
  `NEq`; `NEq` implies the observational `SemEqv`.
-/
import FunsorVerif.Props.C02.Rules2
namespace FV.Props.C02
open FV FV.C02


/-- Equality of two values *as seen through broadcasting*: same shape and the same entry at every
    normalised index.  `Sem.zip?` reads its operands only through `bcastIdx`, so it is exactly invariant
    under `NEq` (no in-range side condition needed), and `NEq` implies `SemEqv`. -/
def NEq (w v : Sem) : Prop := w.shape = v.shape ∧ ∀ i, w.get (bcastIdx w.shape i) = v.get (bcastIdx v.shape i)

theorem NEq.refl (v : Sem) : NEq v v := ⟨rfl, fun _ => rfl⟩
theorem NEq.symm {w v : Sem} (h : NEq w v) : NEq v w := ⟨h.1.symm, fun i => (h.2 i).symm⟩
theorem NEq.trans {a b c : Sem} (h1 : NEq a b) (h2 : NEq b c) : NEq a c :=
  ⟨h1.1.trans h2.1, fun i => (h1.2 i).trans (h2.2 i)⟩

theorem NEq.toSemEqv {w v : Sem} (h : NEq w v) : SemEqv w v := by
  refine ⟨h.1, fun i hi => ?_⟩
  have := h.2 i
  rw [bcastIdx_self w.shape i hi, bcastIdx_self v.shape i (h.1 ▸ hi)] at this
  exact this

def ONEq : Option Sem → Option Sem → Prop
  | none, none => True
  | some a, some b => NEq a b
  | _, _ => False

theorem ONEq.refl : ∀ a : Option Sem, ONEq a a
  | none => trivial
  | some a => NEq.refl a

theorem ONEq.trans {a b c : Option Sem} (h1 : ONEq a b) (h2 : ONEq b c) : ONEq a c := by
  cases a <;> cases b <;> cases c <;> simp only [ONEq] at h1 h2 ⊢
  exact NEq.trans h1 h2

theorem ONEq.toOEqv {a b : Option Sem} (h : ONEq a b) : OEqv a b := by
  cases a <;> cases b <;> simp only [ONEq] at h <;> simp only [OEqv]
  exact h.toSemEqv

theorem zipWith_idem (s : List Nat) : ∀ l : List Nat,
    List.zipWith (fun d i => if d = 1 then 0 else i) s (List.zipWith (fun d i => if d = 1 then 0 else i) s l)
      = List.zipWith (fun d i => if d = 1 then 0 else i) s l := by
  induction s with
  | nil => intro l; simp
  | cons d s ih =>
    intro l
    cases l with
    | nil => simp
    | cons x l =>
      simp only [List.zipWith_cons_cons, ih l, List.cons.injEq, and_true]
      split <;> simp_all

theorem bcastIdx_idem (s i : List Nat) : bcastIdx s (bcastIdx s i) = bcastIdx s i := by
  simp only [bcastIdx]
  have hl : (List.zipWith (fun d i => if d = 1 then 0 else i) s (List.drop (i.length - s.length) i)).length
      - s.length = 0 := by
    simp only [List.length_zipWith]; omega
  rw [hl, List.drop_zero, zipWith_idem]

theorem zip_congr_left (f : XR → XR → Option XR) {a a' : Sem} (b : Sem) (h : NEq a a') :
    Sem.zip? f a b = Sem.zip? f a' b := by
  obtain ⟨hs, hg⟩ := h
  have hg' : ∀ i, a.get (bcastIdx a'.shape i) = a'.get (bcastIdx a'.shape i) := fun i => by
    have := hg i; rwa [hs] at this
  unfold Sem.zip?
  simp only [hs, hg']

theorem zip_congr_right (f : XR → XR → Option XR) (a : Sem) {b b' : Sem} (h : NEq b b') :
    Sem.zip? f a b = Sem.zip? f a b' := by
  obtain ⟨hs, hg⟩ := h
  have hg' : ∀ i, b.get (bcastIdx b'.shape i) = b'.get (bcastIdx b'.shape i) := fun i => by
    have := hg i; rwa [hs] at this
  unfold Sem.zip?
  simp only [hs, hg']

theorem broadcastShapes_nil_left (s : List Nat) : broadcastShapes [] s = some s := by
  simp [broadcastShapes, broadcastShapes.go]

theorem zip_unit_left (f : XR → XR → Option XR) (u : XR) (hu : ∀ x, f u x = some x) (b : Sem) :
    ∃ w, Sem.zip? f (Sem.scalar u) b = some w ∧ NEq w b := by
  unfold Sem.zip?
  simp only [Sem.scalar, broadcastShapes_nil_left]
  have h : ∀ i, f u (b.get (bcastIdx b.shape i)) = some (b.get (bcastIdx b.shape i)) := fun i => hu _
  rw [mapM_some _ _ _ h]
  refine ⟨_, rfl, rfl, fun i => ?_⟩
  simp only [h, Option.getD_some, bcastIdx_idem]

theorem zip_unit_right (f : XR → XR → Option XR) (u : XR) (hu : ∀ x, f x u = some x) (a : Sem) :
    ∃ w, Sem.zip? f a (Sem.scalar u) = some w ∧ NEq w a := by
  unfold Sem.zip?
  simp only [Sem.scalar, broadcastShapes_nil_right]
  have h : ∀ i, f (a.get (bcastIdx a.shape i)) u = some (a.get (bcastIdx a.shape i)) := fun i => hu _
  rw [mapM_some _ _ _ h]
  refine ⟨_, rfl, rfl, fun i => ?_⟩
  simp only [h, Option.getD_some, bcastIdx_idem]

/-- `u` is a two-sided unit of `bin` on the whole value carrier. -/
structure UnitLaw (bin : String) (u : XR) : Prop where
  left : ∀ x, binop bin u x = some x
  right : ∀ x, binop bin x u = some x

theorem denote_isUnit {bin : String} {u : XR} (hu : unitOf bin = some u) {t : Term} (ht : isUnitOf bin t = true)
    (e : Env) : denote t e = some (Sem.scalar u) := by
  cases t <;> simp only [isUnitOf, Bool.false_eq_true] at ht
  case num v dt =>
    have : unitOf bin = some v := by simpa using ht
    rw [hu] at this
    cases this
    simp only [denote]

section drop
variable (bin : String) (u : XR) (hu : unitOf bin = some u) (law : UnitLaw bin u) (e : Env)

/-- the value of the product after dropping the literal units (the unit itself if nothing is left) -/
def dropVal (ts : List Term) : Option Sem :=
  match ts.filter (fun t => !isUnitOf bin t) with
  | [] => some (Sem.scalar u)
  | new => denoteProd bin new e

include hu law in
theorem prod_dropUnits : ∀ ts : List Term, ts ≠ [] → ONEq (dropVal bin u e ts) (denoteProd bin ts e)
  | [], h => absurd rfl h
  | [t], _ => by
    simp only [dropVal, List.filter_cons, List.filter_nil, denoteProd]
    cases ht : isUnitOf bin t with
    | true => simp only [Bool.not_true, Bool.false_eq_true, if_false, denote_isUnit hu ht e]; exact ONEq.refl _
    | false => simp only [Bool.not_false, if_true, denoteProd]; exact ONEq.refl _
  | t :: t2 :: rest, _ => by
    have ih := prod_dropUnits (t2 :: rest) (by simp)
    simp only [denoteProd]
    cases ht : isUnitOf bin t with
    | true =>
      have hd : dropVal bin u e (t :: t2 :: rest) = dropVal bin u e (t2 :: rest) := by
        simp only [dropVal, List.filter_cons, ht, Bool.not_true, Bool.false_eq_true, if_false]
      rw [hd, denote_isUnit hu ht e]
      cases hP : denoteProd bin (t2 :: rest) e with
      | none => rw [hP] at ih; exact ih
      | some b =>
        rw [hP] at ih
        obtain ⟨w, hw, hwb⟩ := zip_unit_left (binop bin) u law.left b
        simp only [hw]
        exact ONEq.trans ih (show ONEq (some b) (some w) from hwb.symm)
    | false =>
      have hf : (t :: t2 :: rest).filter (fun t => !isUnitOf bin t)
          = t :: (t2 :: rest).filter (fun t => !isUnitOf bin t) :=
        List.filter_cons_of_pos (by simp [ht])
      cases hF : (t2 :: rest).filter (fun t => !isUnitOf bin t) with
      | nil =>
        have hd : dropVal bin u e (t :: t2 :: rest) = denote t e := by
          simp only [dropVal, hf, hF, denoteProd]
        have hr : dropVal bin u e (t2 :: rest) = some (Sem.scalar u) := by simp only [dropVal, hF]
        rw [hr] at ih
        rw [hd]
        cases hP : denoteProd bin (t2 :: rest) e with
        | none => rw [hP] at ih; exact absurd ih (by simp [ONEq])
        | some b =>
          rw [hP] at ih
          have hub : NEq (Sem.scalar u) b := ih
          cases ha : denote t e with
          | none => trivial
          | some a =>
            simp only []
            rw [← zip_congr_right (binop bin) a hub]
            obtain ⟨w, hw, hwa⟩ := zip_unit_right (binop bin) u law.right a
            rw [hw]
            exact (show ONEq (some a) (some w) from hwa.symm)
      | cons x xs =>
        have hd : dropVal bin u e (t :: t2 :: rest) = denoteProd bin (t :: x :: xs) e := by
          simp only [dropVal, hf, hF]
        have hr : dropVal bin u e (t2 :: rest) = denoteProd bin (x :: xs) e := by simp only [dropVal, hF]
        rw [hr] at ih
        rw [hd]
        simp only [denoteProd]
        cases ha : denote t e with
        | none => trivial
        | some a =>
          cases hx : denoteProd bin (x :: xs) e with
          | none =>
            rw [hx] at ih
            cases hP : denoteProd bin (t2 :: rest) e with
            | none => trivial
            | some b => rw [hP] at ih; exact absurd ih (by simp [ONEq])
          | some b' =>
            rw [hx] at ih
            cases hP : denoteProd bin (t2 :: rest) e with
            | none => rw [hP] at ih; exact absurd ih (by simp [ONEq])
            | some b =>
              rw [hP] at ih
              simp only []
              rw [zip_congr_right (binop bin) a (show NEq b' b from ih)]
              exact ONEq.refl _
end drop

theorem fvList_filter (p : Term → Bool) : ∀ ts : List Term, fvList (ts.filter p) ⊆ fvList ts
  | [] => by simp [fvList]
  | t :: ts => by
    intro n hn
    by_cases hp : p t = true
    · rw [List.filter_cons_of_pos hp] at hn
      simp only [fvList, List.mem_append] at hn ⊢
      exact hn.imp id (fun h => fvList_filter p ts h)
    · rw [List.filter_cons_of_neg hp] at hn
      simp only [fvList, List.mem_append]
      exact Or.inr (fvList_filter p ts hn)

/-- `normalize_contraction_generic_tuple`, unit removal, for a product without reduction
    (`Contraction(null, bin, {}, terms)`): sound up to observational equivalence whenever `UNITS[bin]` really is a
    two-sided unit of `bin` on the carrier.

    Full statement (open): the same for any `red` and `vars`.  The proof below gives, for every assignment of `vars`,
    that the two products are equal as seen through broadcasting (`NEq`); lifting this through the pointwise fold of
    the reduction needs all assignments to yield one output shape (a typing invariant `denote` does not carry). -/
theorem contractionDropUnits_sound_partial (bin : String) (u : XR) (hu : unitOf bin = some u) (law : UnitLaw bin u)
    (ts : List Term) (t' : Term)
    (hr : contractionDropUnits (Term.contraction "null" bin [] ts) = some t') :
    EquivE t' (Term.contraction "null" bin [] ts) ∧ t'.fv ⊆ (Term.contraction "null" bin [] ts).fv := by
  simp only [contractionDropUnits] at hr
  split at hr
  · have key := fun e (hne : ts ≠ []) => prod_dropUnits bin u hu law e ts hne
    split at hr
    · -- everything was a unit: keep the first term
      rename_i _ _ t0 rest hcond hF
      cases hr
      have h0 : isUnitOf bin t0 = true := by
        have : t0 ∉ (t0 :: rest).filter (fun t => !isUnitOf bin t) := by rw [hF]; simp
        simp only [List.mem_filter, List.mem_cons, true_or, true_and, Bool.not_eq_eq_eq_not, Bool.not_true,
          Bool.not_eq_false] at this
        exact this
      refine ⟨fun e => ?_, fun n hn => ?_⟩
      · have := key e (by simp)
        simp only [dropVal, hF] at this
        rw [denote_contraction_null, denote_contraction_null]
        simp only [denoteProd, denote_isUnit hu h0 e]
        exact this.toOEqv
      · simp only [Term.fv, fvList, List.map_nil, List.contains_nil, Bool.not_false, List.append_nil,
          List.mem_filter, List.mem_append, and_true] at hn ⊢
        exact Or.inl hn
    · cases hr
    · rename_i ts0 _ _ hcond hne1 hne2
      cases hr
      have hfne : ts0.filter (fun t => !isUnitOf bin t) ≠ [] := by
        intro hf
        cases ts0 with
        | nil => exact hne2 hf rfl
        | cons a as => exact hne1 a as hf rfl
      have hts : ts0 ≠ [] := by intro h; subst h; exact hfne rfl
      refine ⟨fun e => ?_, fun n hn => ?_⟩
      · rw [denote_contraction_null, denote_contraction_null]
        have := key e hts
        have hd : dropVal bin u e ts0 = denoteProd bin (ts0.filter (fun t => !isUnitOf bin t)) e := by
          cases hF : ts0.filter (fun t => !isUnitOf bin t) with
          | nil => exact absurd hF hfne
          | cons x xs => simp only [dropVal, hF]
        rw [hd] at this
        exact this.toOEqv
      · simp only [Term.fv, List.map_nil, List.contains_nil, Bool.not_false, List.mem_filter, and_true] at hn ⊢
        exact fvList_filter _ ts0 hn
  · cases hr

theorem natCast0 : ((0 : Nat) : Rat) = 0 := by simp
theorem natCast1 : ((1 : Nat) : Rat) = 1 := by simp

theorem unitLaw_add : UnitLaw "add" 0 := by
  constructor <;> intro x <;> cases x <;> try rfl
  · show some (XR.fin (((0 : Nat) : Rat) + _)) = _
    rw [natCast0, Rat.zero_add]
  · show some (XR.fin (_ + ((0 : Nat) : Rat))) = _
    rw [natCast0, Rat.add_zero]

theorem unitLaw_max : UnitLaw "max" XR.ninf := by
  constructor <;> intro x <;> cases x <;> simp [binop, XR.max, XR.le]

theorem unitLaw_min : UnitLaw "min" XR.pinf := by
  constructor <;> intro x <;> cases x <;> simp [binop, XR.min, XR.le]

theorem sgn_one : XR.sgn (XR.fin ((1 : Nat) : Rat)) = 1 := by
  rw [natCast1]; simp [XR.sgn]; grind

theorem unitLaw_mul : UnitLaw "mul" 1 := by
  constructor <;> intro x <;> cases x <;> try rfl
  · show some (XR.fin (((1 : Nat) : Rat) * _)) = _
    rw [natCast1, Rat.one_mul]
  · show some (XR.fin (_ * ((1 : Nat) : Rat))) = _
    rw [natCast1, Rat.mul_one]

/-- Unit removal is sound for add (unit 0), mul (1), max (−∞), min (+∞) — the entries of funsor's UNITS table
    that are units on the whole carrier.  (`and`/`or` with units True/False are units on {0,1} only, the ops
    being bitwise on integers.) -/
theorem contractionDropUnits_sound_add_mul_max_min (bin : String)
    (hb : bin = "add" ∨ bin = "mul" ∨ bin = "max" ∨ bin = "min") (ts : List Term) (t' : Term)
    (hr : contractionDropUnits (Term.contraction "null" bin [] ts) = some t') :
    EquivE t' (Term.contraction "null" bin [] ts) ∧ t'.fv ⊆ (Term.contraction "null" bin [] ts).fv := by
  rcases hb with rfl | rfl | rfl | rfl
  · exact contractionDropUnits_sound_partial "add" 0 rfl unitLaw_add ts t' hr
  · exact contractionDropUnits_sound_partial "mul" 1 rfl unitLaw_mul ts t' hr
  · exact contractionDropUnits_sound_partial "max" XR.ninf rfl unitLaw_max ts t' hr
  · exact contractionDropUnits_sound_partial "min" XR.pinf rfl unitLaw_min ts t' hr

/-- What unit removal does to the operand list, for ANY reduction `red` over ANY `vars`: under every environment
    (hence under every assignment of the reduced variables) the product of the remaining operands equals the
    product of all operands as seen through broadcasting.  (Lifting this through the pointwise fold of a non-null
    reduction additionally needs one output shape for all assignments — open, see `contractionDropUnits_sound_partial`.) -/
theorem dropUnits_operands (red bin : String) (u : XR) (hu : unitOf bin = some u) (law : UnitLaw bin u)
    (vars : List (Name × Dom)) (ts : List Term) (t' : Term)
    (hr : contractionDropUnits (Term.contraction red bin vars ts) = some t') :
    ∃ ts', t' = Term.contraction red bin vars ts' ∧
      (∀ e, ONEq (denoteProd bin ts' e) (denoteProd bin ts e)) ∧ fvList ts' ⊆ fvList ts := by
  simp only [contractionDropUnits] at hr
  split at hr
  · have key := fun e (hne : ts ≠ []) => prod_dropUnits bin u hu law e ts hne
    split at hr
    · rename_i _ _ t0 rest hcond hF
      cases hr
      have h0 : isUnitOf bin t0 = true := by
        have : t0 ∉ (t0 :: rest).filter (fun t => !isUnitOf bin t) := by rw [hF]; simp
        simp only [List.mem_filter, List.mem_cons, true_or, true_and, Bool.not_eq_eq_eq_not, Bool.not_true,
          Bool.not_eq_false] at this
        exact this
      refine ⟨[t0], rfl, fun e => ?_, fun n hn => ?_⟩
      · have := key e (by simp)
        simp only [dropVal, hF] at this
        simp only [denoteProd, denote_isUnit hu h0 e]
        exact this
      · simp only [fvList, List.append_nil, List.mem_append] at hn ⊢
        exact Or.inl hn
    · cases hr
    · rename_i ts0 _ _ hcond hne1 hne2
      cases hr
      have hfne : ts0.filter (fun t => !isUnitOf bin t) ≠ [] := by
        intro hf
        cases ts0 with
        | nil => exact hne2 hf rfl
        | cons a as => exact hne1 a as hf rfl
      have hts : ts0 ≠ [] := by intro h; subst h; exact hfne rfl
      refine ⟨_, rfl, fun e => ?_, fvList_filter _ ts0⟩
      have := key e hts
      have hd : dropVal bin u e ts0 = denoteProd bin (ts0.filter (fun t => !isUnitOf bin t)) e := by
        cases hF : ts0.filter (fun t => !isUnitOf bin t) with
        | nil => exact absurd hF hfne
        | cons x xs => simp only [dropVal, hF]
      rw [hd] at this
      exact this
  · cases hr


/-! ### The model is name-based: documented gap to an axis-position implementation

  `eager_contraction_tensor` is implemented by positional einsum / tensordot calls; the model's contraction is a
  sum over NAMED assignments.  The two statements below make explicit that nothing in the model depends on the
  axis order in which an operand stores its inputs — so an implementation that pairs axes by position (and gets a
  permutation wrong, cf. seeded defect C02_6) can only be caught by the per-firing correspondence, which therefore
  drives every relative order of 3-4 shared inputs (fv/harness/c02_extra.py, family `tensordot`). -/

/-- A tensor leaf's value depends on the environment only through the values of its input NAMES. -/
theorem tensor_value_name_based (inputs : List (Name × Nat)) (dom : Dom) (data : Array XR) (e1 e2 : Env)
    (h : AgreeOn (inputs.map (·.1)) e1 e2) :
    denote (Term.tensor inputs dom data) e1 = denote (Term.tensor inputs dom data) e2 :=
  denote_coincidence (Term.tensor inputs dom data) e1 e2 (by simpa [Term.fv] using h)

/-- Re-laying-out the operands (any map `f` on operands that preserves each operand's named value, e.g. storing a
    tensor with its input axes permuted) does not change the value of a contraction. -/
theorem contraction_layout_invariant (f : Term → Term) (hf : ∀ c, denote (f c) = denote c)
    (red bin : String) (vars : List (Name × Dom)) (ts : List Term) :
    denote (Term.contraction red bin vars (ts.map f)) = denote (Term.contraction red bin vars ts) := by
  funext env
  exact denote_mapChildren f hf (Term.contraction red bin vars ts) env

end FV.Props.C02
