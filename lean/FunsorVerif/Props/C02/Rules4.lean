/-
  Props/C02/Rules4.lean — fourth wave, scalar-valued products (every operand of event shape ()):
    * lifting a product-level equivalence through a non-null reduction (`lift_scalar`);
    * unit removal under a non-null reduction (`contractionDropUnits_sound_scalar_partial`);
    * splicing a nested product into its parent (`flatten_prod`, `contractionFlattenBin_equiv_*`), for a total
      associative product op.
-/
import FunsorVerif.Props.C02.Rules3
namespace FV.Props.C02
open FV FV.C02


/-- pointwise `NEq` of two lists of values -/
def PW : List Sem → List Sem → Prop
  | [], [] => True
  | a :: as, b :: bs => NEq a b ∧ PW as bs
  | _, _ => False

theorem mapM_PW {α : Type} (f g : α → Option Sem) : ∀ (l : List α), (∀ a ∈ l, ONEq (f a) (g a)) →
    (match l.mapM f, l.mapM g with
      | none, none => True
      | some l', some l'' => PW l' l''
      | _, _ => False)
  | [], _ => by simp [PW]
  | a :: l, h => by
    have h1 := h a (List.mem_cons_self ..)
    have ih := mapM_PW f g l (fun x hx => h x (List.mem_cons_of_mem _ hx))
    simp only [List.mapM_cons]
    cases hf : f a <;> cases hg : g a <;> rw [hf, hg] at h1 <;> simp only [ONEq] at h1
    · simp
    · cases hlf : l.mapM f <;> cases hlg : l.mapM g <;> rw [hlf, hlg] at ih <;> simp at ih ⊢
      exact ⟨h1, ih⟩

theorem PW_get_nil : ∀ (l' l : List Sem), PW l' l → (∀ v ∈ l, v.shape = []) →
    l'.map (·.get []) = l.map (·.get [])
  | [], [], _, _ => rfl
  | a :: as, b :: bs, h, hs => by
    obtain ⟨hab, hrest⟩ := h
    have hb : b.shape = [] := hs b (List.mem_cons_self ..)
    have ha : a.shape = [] := hab.1.trans hb
    have := hab.2 []
    simp only [ha, hb, bcastIdx, List.length_nil, Nat.sub_self, List.drop_zero, List.zipWith_nil_left] at this
    simp only [List.map_cons, this, PW_get_nil as bs hrest (fun v hv => hs v (List.mem_cons_of_mem _ hv))]

/-- The pointwise fold respects `NEq` when all values are scalars. -/
theorem topFold_scalar_rel (red : String) (l' l : List Sem) (h : PW l' l) (hs : ∀ v ∈ l, v.shape = []) :
    OEqv (topFold red l') (topFold red l) := by
  cases l' <;> cases l <;> simp only [PW] at h
  · trivial
  · rename_i a as b bs
    have hb : b.shape = [] := hs b (List.mem_cons_self ..)
    have ha : a.shape = [] := h.1.1.trans hb
    have hg := PW_get_nil (a :: as) (b :: bs) h hs
    simp only [topFold, Sem.foldList, ha, hb, allIdx, List.mapM_cons, List.mapM_nil, hg]
    cases hf : foldOp red ((b :: bs).map (·.get [])) with
    | none => simp [OEqv]
    | some x =>
      simp only [Option.bind_eq_bind, Option.bind_some, Option.pure_def, OEqv, SemEqv, true_and]
      intro i hi
      have hi' : i = [] := by simpa [allIdx] using hi
      subst hi'
      show (foldOp red ((a :: as).map (·.get []))).getD XR.nan = (foldOp red ((b :: bs).map (·.get []))).getD XR.nan
      rw [hg]

/-- Lifting a product-level equivalence through a (non-null) reduction when the product is scalar-valued. -/
theorem lift_scalar (red bin : String) (hn : (red == "null") = false) (vars : List (Name × Dom)) (ts ts' : List Term)
    (hrel : ∀ e, ONEq (denoteProd bin ts' e) (denoteProd bin ts e))
    (hsc : ∀ e v, denoteProd bin ts e = some v → v.shape = []) :
    EquivE (Term.contraction red bin vars ts') (Term.contraction red bin vars ts) := by
  intro env
  rw [denote_contraction_eq _ _ hn, denote_contraction_eq _ _ hn]
  cases assignments vars with
  | none => trivial
  | some asgs =>
    simp only [Option.bind_some]
    have h := mapM_PW (fun a => denoteProd bin ts' (a ++ env)) (fun a => denoteProd bin ts (a ++ env)) asgs
      (fun a _ => hrel _)
    cases h1 : asgs.mapM (fun a => denoteProd bin ts' (a ++ env)) <;>
      cases h2 : asgs.mapM (fun a => denoteProd bin ts (a ++ env)) <;> rw [h1, h2] at h <;> simp only at h
    · trivial
    · rename_i l' l
      simp only [Option.bind_some]
      refine topFold_scalar_rel red l' l h (fun v hv => ?_)
      obtain ⟨a, _, ha⟩ := mapM_mem _ asgs l h2 v hv
      exact hsc _ v ha

/-- Unit removal under a NON-NULL reduction, for scalar-valued products (every firing on Bint-indexed real-valued
    factors): sound up to observational equivalence under the unit law.
    Full statement (open): without the scalar hypothesis `hsc` — needs one output shape across assignments. -/
theorem contractionDropUnits_sound_scalar_partial (red bin : String) (hn : (red == "null") = false) (u : XR)
    (hu : unitOf bin = some u) (law : UnitLaw bin u) (vars : List (Name × Dom)) (ts : List Term) (t' : Term)
    (hsc : ∀ e v, denoteProd bin ts e = some v → v.shape = [])
    (hr : contractionDropUnits (Term.contraction red bin vars ts) = some t') :
    EquivE t' (Term.contraction red bin vars ts) ∧ t'.fv ⊆ (Term.contraction red bin vars ts).fv := by
  obtain ⟨ts', rfl, hrel, hfv⟩ := dropUnits_operands red bin u hu law vars ts t' hr
  refine ⟨lift_scalar red bin hn vars ts ts' hrel hsc, ?_⟩
  simp only [Term.fv]
  exact filter_mono hfv


section flat
variable (f : XR → XR → XR)

/-- right-nested fold of a non-empty list (the shape of `denoteProd`) -/
def fr : List XR → XR
  | [] => XR.nan
  | [x] => x
  | x :: y :: ys => f x (fr (y :: ys))

theorem fr_cons_ne (a : XR) : ∀ l : List XR, l ≠ [] → fr f (a :: l) = f a (fr f l)
  | [], h => absurd rfl h
  | _ :: _, _ => rfl

variable (hassoc : ∀ x y z, f (f x y) z = f x (f y z))
include hassoc

theorem fr_head_flat : ∀ (V : List XR), V ≠ [] → ∀ B : List XR, fr f (fr f V :: B) = fr f (V ++ B)
  | [], h, _ => absurd rfl h
  | [x], _, B => rfl
  | x :: y :: ys, _, B => by
    have ih := fr_head_flat (y :: ys) (by simp) B
    cases B with
    | nil => simp [fr]
    | cons b bs =>
      have h1 : fr f (fr f (x :: y :: ys) :: b :: bs) = f (f x (fr f (y :: ys))) (fr f (b :: bs)) := rfl
      rw [h1, hassoc]
      have h2 : fr f (fr f (y :: ys) :: b :: bs) = f (fr f (y :: ys)) (fr f (b :: bs)) := rfl
      rw [← h2, ih]
      rfl

theorem fr_flat (V : List XR) (hV : V ≠ []) : ∀ (A B : List XR), fr f (A ++ [fr f V] ++ B) = fr f (A ++ V ++ B)
  | [], B => by simpa using fr_head_flat f hassoc V hV B
  | a :: A, B => by
    have ih := fr_flat V hV A B
    have n1 : A ++ [fr f V] ++ B ≠ [] := by simp
    have n2 : A ++ V ++ B ≠ [] := by
      intro h; apply hV; simp at h; exact h.2.1
    simp only [List.cons_append]
    rw [fr_cons_ne f a _ n1, fr_cons_ne f a _ n2, ih]
end flat

/-- the scalar readings of the operands under one environment -/
def reading (e : Env) (ts : List Term) : Option (List XR) := ts.mapM (fun t => (denote t e).map (·.get []))

theorem bcastIdx_nil (i : List Nat) : bcastIdx [] i = [] := by simp [bcastIdx]

theorem zip_scalars {bin : String} (h : TotalAssoc bin) (a b : Sem) (ha : a.shape = []) (hb : b.shape = []) :
    Sem.zip? (binop bin) a b = some (Sem.scalar (h.f (a.get []) (b.get []))) := by
  unfold Sem.zip?
  simp only [ha, hb, broadcastShapes_nil_left, allIdx, bcastIdx_nil, h.tot, List.mapM_cons, List.mapM_nil,
    Option.getD_some]
  rfl

theorem NEq_scalar_of (v : Sem) (hv : v.shape = []) : NEq v (Sem.scalar (v.get [])) := by
  refine ⟨hv, fun i => ?_⟩
  simp only [hv, bcastIdx_nil, Sem.scalar]

theorem get_of_NEq_scalar {v : Sem} {x : XR} (h : NEq v (Sem.scalar x)) : v.shape = [] ∧ v.get [] = x := by
  have hs : v.shape = [] := h.1
  refine ⟨hs, ?_⟩
  have := h.2 []
  simpa only [hs, bcastIdx_nil, Sem.scalar] using this

theorem prod_reading {bin : String} (h : TotalAssoc bin) (e : Env) : ∀ ts : List Term, ts ≠ [] →
    (∀ t ∈ ts, ∀ v, denote t e = some v → v.shape = []) →
    ONEq (denoteProd bin ts e) ((reading e ts).map fun xs => Sem.scalar (fr h.f xs))
  | [], hne, _ => absurd rfl hne
  | [t], _, hsc => by
    simp only [denoteProd, reading, List.mapM_cons, List.mapM_nil]
    cases hd : denote t e with
    | none => trivial
    | some v =>
      have hv := hsc t (List.mem_cons_self ..) v hd
      simp only [Option.map_some, Option.bind_eq_bind, Option.bind_some, Option.pure_def, fr]
      exact NEq_scalar_of v hv
  | t :: t2 :: rest, _, hsc => by
    have ih := prod_reading h e (t2 :: rest) (by simp) (fun t' ht' => hsc t' (List.mem_cons_of_mem _ ht'))
    have hrd : reading e (t :: t2 :: rest) =
        ((denote t e).map (·.get [])).bind fun x => (reading e (t2 :: rest)).map (x :: ·) := by
      simp only [reading, List.mapM_cons]
      cases (denote t e).map (·.get []) <;> simp
      cases ((denote t2 e).map (·.get [])) <;> simp
      cases (rest.mapM fun t => (denote t e).map (·.get [])) <;> simp
    rw [hrd]
    simp only [denoteProd]
    cases hd : denote t e with
    | none => trivial
    | some a =>
      have ha := hsc t (List.mem_cons_self ..) a hd
      simp only [Option.map_some, Option.bind_some]
      cases hP : denoteProd bin (t2 :: rest) e with
      | none =>
        rw [hP] at ih
        cases hr : reading e (t2 :: rest) with
        | none => trivial
        | some xs => rw [hr] at ih; exact absurd ih (by simp [ONEq])
      | some b =>
        rw [hP] at ih
        cases hr : reading e (t2 :: rest) with
        | none => rw [hr] at ih; exact absurd ih (by simp [ONEq])
        | some xs =>
          rw [hr] at ih
          obtain ⟨hb, hbx⟩ := get_of_NEq_scalar (show NEq b (Sem.scalar (fr h.f xs)) from ih)
          have hxs : xs ≠ [] := by
            intro hx
            have := mapM_length _ (t2 :: rest) xs hr
            simp [hx] at this
          simp only [Option.map_some, zip_scalars h a b ha hb, hbx, fr_cons_ne h.f (a.get []) xs hxs]
          exact NEq.refl _

theorem ONEq.symm {a b : Option Sem} (h : ONEq a b) : ONEq b a := by
  cases a <;> cases b <;> simp only [ONEq] at h ⊢
  exact NEq.symm h

theorem reading_append (e : Env) (l1 l2 : List Term) :
    reading e (l1 ++ l2) = (match reading e l1, reading e l2 with
      | some a, some b => some (a ++ b)
      | _, _ => none) := by
  unfold reading
  rw [mapM_append']
  cases (List.mapM (fun t => (denote t e).map (·.get [])) l1) <;>
    cases (List.mapM (fun t => (denote t e).map (·.get [])) l2) <;> rfl

/-- Splicing a nested product `Contraction(null, bin, {}, vts)` into its parent product: same value, for scalar
    operands and a total associative `bin`. -/
theorem flatten_prod {bin : String} (h : TotalAssoc bin) (pre vts post : List Term) (hV : vts ≠ []) (e : Env)
    (hsc : ∀ t ∈ pre ++ vts ++ post, ∀ v, denote t e = some v → v.shape = []) :
    ONEq (denoteProd bin (pre ++ vts ++ post) e)
         (denoteProd bin (pre ++ [Term.contraction "null" bin [] vts] ++ post) e) := by
  have hvts := prod_reading h e vts hV (fun t ht => hsc t (by simp [ht]))
  have hC : ∀ v, denote (Term.contraction "null" bin [] vts) e = some v → v.shape = [] := by
    intro v hv
    rw [denote_contraction_null] at hv
    rw [hv] at hvts
    cases hr : reading e vts with
    | none => rw [hr] at hvts; exact absurd hvts (by simp [ONEq])
    | some xs => rw [hr] at hvts; exact (get_of_NEq_scalar (show NEq v _ from hvts)).1
  have h1 := prod_reading h e (pre ++ vts ++ post) (by intro hh; apply hV; simp at hh; exact hh.2.1) hsc
  have h2 := prod_reading h e (pre ++ [Term.contraction "null" bin [] vts] ++ post) (by simp) (by
    intro t ht v hv
    simp only [List.mem_append, List.mem_singleton] at ht
    rcases ht with (ht | rfl) | ht
    · exact hsc t (by simp [ht]) v hv
    · exact hC v hv
    · exact hsc t (by simp [ht]) v hv)
  -- the reading of the nested product is the fold of the readings of its operands
  have hCr : (denote (Term.contraction "null" bin [] vts) e).map (·.get []) = (reading e vts).map (fr h.f) := by
    rw [denote_contraction_null]
    cases hP : denoteProd bin vts e with
    | none =>
      cases hr : reading e vts with
      | none => rfl
      | some xs => rw [hP, hr] at hvts; exact absurd hvts (by simp [ONEq])
    | some v =>
      cases hr : reading e vts with
      | none => rw [hP, hr] at hvts; exact absurd hvts (by simp [ONEq])
      | some xs =>
        rw [hP, hr] at hvts
        simp only [Option.map_some]
        rw [(get_of_NEq_scalar (show NEq v (Sem.scalar (fr h.f xs)) from hvts)).2]
  have hread : (reading e (pre ++ [Term.contraction "null" bin [] vts] ++ post)).map (fun xs => Sem.scalar (fr h.f xs))
      = (reading e (pre ++ vts ++ post)).map (fun xs => Sem.scalar (fr h.f xs)) := by
    simp only [reading_append]
    have hs : reading e [Term.contraction "null" bin [] vts] = ((reading e vts).map (fr h.f)).map (fun x => [x]) := by
      simp only [reading, List.mapM_cons, List.mapM_nil, hCr]
      generalize (List.mapM (fun t => Option.map (fun x => x.get []) (denote t e)) vts) = o
      cases o <;> rfl
    rw [hs]
    cases hA : reading e pre <;> cases hVr : reading e vts <;> cases hB : reading e post <;> simp
    rename_i A V B
    have hVne : V ≠ [] := by
      intro hx
      have := mapM_length _ vts V hVr
      rw [hx] at this
      exact hV (List.length_eq_zero_iff.mp this.symm)
    have := fr_flat h.f h.assoc V hVne A B
    simp only [List.append_assoc, List.singleton_append] at this ⊢
    rw [this]
  rw [hread] at h2
  exact ONEq.trans h1 h2.symm


/-- `normalize_contraction_generic_tuple`, branch 6a, without reduction: value preserved (scalar operands). -/
theorem contractionFlattenBin_equiv_null {bin : String} (h : TotalAssoc bin) (pre vts post : List Term) (hV : vts ≠ [])
    (hsc : ∀ e, ∀ t ∈ pre ++ vts ++ post, ∀ v, denote t e = some v → v.shape = []) :
    EquivE (Term.contraction "null" bin [] (pre ++ vts ++ post))
           (Term.contraction "null" bin [] (pre ++ [Term.contraction "null" bin [] vts] ++ post)) := by
  intro e
  rw [denote_contraction_null, denote_contraction_null]
  exact (flatten_prod h pre vts post hV e (hsc e)).toOEqv

/-- … and under a non-null reduction over any `vars`. -/
theorem contractionFlattenBin_equiv_red {bin : String} (h : TotalAssoc bin) (red : String) (hn : (red == "null") = false)
    (vars : List (Name × Dom)) (pre vts post : List Term) (hV : vts ≠ [])
    (hsc : ∀ e, ∀ t ∈ pre ++ vts ++ post, ∀ v, denote t e = some v → v.shape = []) :
    EquivE (Term.contraction red bin vars (pre ++ vts ++ post))
           (Term.contraction red bin vars (pre ++ [Term.contraction "null" bin [] vts] ++ post)) := by
  refine lift_scalar red bin hn vars _ _ (fun e => flatten_prod h pre vts post hV e (hsc e)) ?_
  intro e v hv
  -- the parent product is scalar-valued: read it off `prod_reading`
  have hC : ∀ w, denote (Term.contraction "null" bin [] vts) e = some w → w.shape = [] := by
    intro w hw
    have hvts := prod_reading h e vts hV (fun t ht => hsc e t (by simp [ht]))
    rw [denote_contraction_null] at hw
    rw [hw] at hvts
    cases hr : reading e vts with
    | none => rw [hr] at hvts; exact absurd hvts (by simp [ONEq])
    | some xs => rw [hr] at hvts; exact (get_of_NEq_scalar (show NEq w _ from hvts)).1
  have h2 := prod_reading h e (pre ++ [Term.contraction "null" bin [] vts] ++ post) (by simp) (by
    intro t ht w hw
    simp only [List.mem_append, List.mem_singleton] at ht
    rcases ht with (ht | rfl) | ht
    · exact hsc e t (by simp [ht]) w hw
    · exact hC w hw
    · exact hsc e t (by simp [ht]) w hw)
  rw [hv] at h2
  cases hr : reading e (pre ++ [Term.contraction "null" bin [] vts] ++ post) with
  | none => rw [hr] at h2; exact absurd h2 (by simp [ONEq])
  | some xs => rw [hr] at h2; exact (get_of_NEq_scalar (show NEq v _ from h2)).1

/-- What `splitAtContraction` returns: the position of the first nested contraction satisfying `p`. -/
theorem splitAt_spec (p : String → String → List (Name × Dom) → Bool) : ∀ (ts pre : List Term) (r b : String)
    (vs : List (Name × Dom)) (vts post : List Term),
    splitAtContraction p ts = some (pre, (r, b, vs, vts), post) →
      ts = pre ++ [Term.contraction r b vs vts] ++ post ∧ p r b vs = true := by
  intro ts
  induction ts with
  | nil => intro pre r b vs vts post h; simp [splitAtContraction] at h
  | cons t ts ih =>
    intro pre r b vs vts post h
    cases t <;> simp only [splitAtContraction, Option.map_eq_some_iff, Prod.mk.injEq, Prod.exists] at h
    case contraction r0 b0 vs0 ts0 =>
      split at h
      · rename_i hp
        simp only [Option.some.injEq, Prod.mk.injEq] at h
        obtain ⟨rfl, ⟨rfl, rfl, rfl, rfl⟩, rfl⟩ := h
        exact ⟨by simp, hp⟩
      · simp only [Option.map_eq_some_iff, Prod.mk.injEq, Prod.exists] at h
        obtain ⟨pre', r', b', vs', vts', post', hs, rfl, ⟨rfl, rfl, rfl, rfl⟩, rfl⟩ := h
        obtain ⟨e1, e2⟩ := ih _ _ _ _ _ _ hs
        exact ⟨by simp [e1], e2⟩
    all_goals
      obtain ⟨pre', r', b', vs', vts', post', hs, rfl, ⟨rfl, rfl, rfl, rfl⟩, rfl⟩ := h
      obtain ⟨e1, e2⟩ := ih _ _ _ _ _ _ hs
      exact ⟨by simp [e1], e2⟩

end FV.Props.C02
