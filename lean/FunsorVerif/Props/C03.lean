/-
  Props/C03.lean — exact interpretations are interchangeable; Memoize.

  Part 1  recursive = stack-free reinterpreter, for ANY per-node function and ANY topological,
          identity-duplicate-free ordering (`reinterpret_rec_eq_stack`).
  Part 2  Memoize refines its base interpretation under key-injectivity (or the weaker
          `KeyRespects`), identical object on a repeated request, the source request of a cached
          object has the same (cls, args); the REAL key (class dropped) violates it: witness.
  Other parts: Props/C03/Interp.lean (interp_agree, fv), Props/C03/Sequential.lean, Props/C03/Table.lean,
  Props/C03/Anf.lean (the queue-based anf is topological, duplicate-free, complete, total) and
  Props/C03/StackAnf.lean (stack_reinterpret_eq_rec: Part 1's hypothesis discharged for anf's own ordering;
  reRec_eq_recEval: the bridge to the Term-level reinterpreter).
-/
import FunsorVerif.Model.C03
namespace FV.Props.C03
open FV FV.C03

/-! ## Part 1: recursion_reinterpret = stack_reinterpret -/

section Stack
variable {L R : Type}

theorem envGet_envSet_same (env : SEnv R) (i : Nat) (r : Option R) :
    envGet (envSet env i r) i = some r := by
  induction env with
  | nil => simp [envSet, envGet]
  | cons p rest ih =>
    obtain ⟨k, v⟩ := p
    by_cases h : k = i
    · simp [envSet, envGet, h]
    · simp [envSet, envGet, h, ih]

theorem envGet_envSet_ne (env : SEnv R) (i j : Nat) (r : Option R) (h : i ≠ j) :
    envGet (envSet env i r) j = envGet env j := by
  induction env with
  | nil => simp [envSet, envGet, h]
  | cons p rest ih =>
    obtain ⟨k, v⟩ := p
    by_cases hk : k = i
    · subst hk
      simp [envSet, envGet, h]
    · by_cases hj : k = j
      · subst hj
        simp [envSet, envGet, hk]
      · simp [envSet, envGet, hk, hj, ih]

theorem envVal_envSet_same (env : SEnv R) (i : Nat) (r : R) :
    envVal (envSet env i (some r)) i = some r := by
  simp [envVal, envGet_envSet_same]

theorem envVal_envSet_ne (env : SEnv R) (i j : Nat) (r : Option R) (h : i ≠ j) :
    envVal (envSet env i r) j = envVal env j := by
  simp [envVal, envGet_envSet_ne env i j r h]

theorem recEval_node (f : L → List R → R) (n : HTree L) :
    recEval f n = f n.label (recEvalList f n.kids) := by
  cases n with
  | node i l ks => simp [recEval, HTree.label, HTree.kids]

/-- If every child already holds its recursive result, the argument list read from `env` is the
    list of recursive results. -/
theorem lookupAll_of_inv (f : L → List R → R) (env : SEnv R) :
    ∀ ks : List (HTree L), (∀ k ∈ ks, envVal env k.id = some (recEval f k)) →
      lookupAll env ks = some (recEvalList f ks)
  | [], _ => by simp [lookupAll, recEvalList]
  | k :: ks, h => by
    have hk := h k (by simp)
    have hr := lookupAll_of_inv f env ks (fun k' hk' => h k' (by simp [hk']))
    simp [lookupAll, recEvalList, hk, hr]

/-- Loop invariant of `stack_reinterpret`: after the nodes in `done`, each of them holds the result of
    the recursive reinterpreter. -/
theorem stackLoop_inv (f : L → List R → R) :
    ∀ (todo done : List (HTree L)) (env : SEnv R),
      (∀ n ∈ done, envVal env n.id = some (recEval f n)) →
      ((done ++ todo).map HTree.id).Nodup →
      (∀ pre n post, todo = pre ++ n :: post → ∀ k ∈ n.kids, k ∈ done ++ pre) →
      ∃ env', stackLoop f todo env = some env' ∧
        ∀ n ∈ done ++ todo, envVal env' n.id = some (recEval f n)
  | [], done, env, hinv, _, _ => ⟨env, by simp [stackLoop], by simpa using hinv⟩
  | n :: rest, done, env, hinv, hnd, htopo => by
    have hkids : ∀ k ∈ n.kids, envVal env k.id = some (recEval f k) := by
      intro k hk
      have := htopo [] n rest (by simp) k hk
      exact hinv k (by simpa using this)
    have hargs := lookupAll_of_inv f env n.kids hkids
    have hstep : stepNode f env n = some (envSet env n.id (some (recEval f n))) := by
      simp [stepNode, hargs, recEval_node]
    -- identities of earlier nodes differ from n's
    have hne : ∀ m ∈ done, n.id ≠ m.id := by
      intro m hm heq
      rw [List.map_append, List.map_cons] at hnd
      have := (List.nodup_append.mp hnd).2.2 m.id (List.mem_map_of_mem hm) n.id (by simp)
      exact this heq.symm
    have hinv' : ∀ m ∈ done ++ [n], envVal (envSet env n.id (some (recEval f n))) m.id = some (recEval f m) := by
      intro m hm
      rcases List.mem_append.mp hm with hm | hm
      · rw [envVal_envSet_ne _ _ _ _ (hne m hm)]
        exact hinv m hm
      · have : m = n := by simpa using hm
        subst this
        exact envVal_envSet_same _ _ _
    have hnd' : (((done ++ [n]) ++ rest).map HTree.id).Nodup := by simpa using hnd
    have htopo' : ∀ pre m post, rest = pre ++ m :: post → ∀ k ∈ m.kids, k ∈ (done ++ [n]) ++ pre := by
      intro pre m post hrest k hk
      have := htopo (n :: pre) m post (by simp [hrest]) k hk
      simpa using this
    obtain ⟨env', hloop, hres⟩ := stackLoop_inv f rest (done ++ [n]) _ hinv' hnd' htopo'
    refine ⟨env', ?_, ?_⟩
    · simp [stackLoop, hstep, hloop]
    · intro m hm
      exact hres m (by simpa using hm)

/-- **recursion_reinterpret = stack_reinterpret.**  For any deterministic per-node `interpret`
    function `f`, the stack-free reinterpreter run over any ordering of the nodes that is
    duplicate-free by identity and lists children before parents returns exactly the result of the
    recursive reinterpreter, for every node of the ordering (in particular the root). -/
theorem reinterpret_rec_eq_stack (f : L → List R → R) (order : List (HTree L)) (root : HTree L)
    (h : Topo order) (hroot : root ∈ order) :
    stackEval f order root = some (recEval f root) := by
  obtain ⟨hnd, htopo⟩ := h
  obtain ⟨env', hloop, hres⟩ := stackLoop_inv f order [] (order.map fun n => (n.id, none))
    (by simp) (by simpa using hnd) (by simpa using htopo)
  simp [stackEval, hloop, hres root (by simpa using hroot)]

/-- Without the topological hypothesis the statement is false: a parent listed before its child reads
    a raw entry (python: silently uses the un-interpreted child). -/
theorem stack_needs_topological :
    let leaf : HTree Nat := HTree.node 1 10 []
    let root : HTree Nat := HTree.node 0 20 [leaf]
    stackEval (fun l (rs : List Nat) => l + rs.foldl (· + ·) 0) [root, leaf] root = none := by
  decide

/-- The hypotheses are satisfiable, with sharing: `root = (s, s)` where `s` is one shared object. -/
example :
    let s : HTree Nat := HTree.node 1 10 []
    let root : HTree Nat := HTree.node 0 20 [s, s]
    stackEval (fun l (rs : List Nat) => l + rs.foldl (· + ·) 0) [s, root] root = some 40 ∧
    recEval (fun l (rs : List Nat) => l + rs.foldl (· + ·) 0) root = 40 := by
  decide

example :
    let s : HTree Nat := HTree.node 1 10 []
    let root : HTree Nat := HTree.node 0 20 [s, s]
    Topo [s, root] := by
  intro s root
  refine ⟨by decide, ?_⟩
  intro pre n post h k hk
  match pre, h with
  | [], h =>
    have hn : n = s := (List.cons.inj h).1.symm
    subst hn
    exact absurd hk (by simp [HTree.kids, s])
  | [p], h =>
    have hp : p = s := (List.cons.inj h).1.symm
    have hn : n = root := (List.cons.inj (List.cons.inj h).2).1.symm
    subst hn hp
    have : k = s := by simpa [HTree.kids, root] using hk
    simp [this]
  | p :: q :: r, h =>
    have := congrArg List.length h
    simp at this

/-- `anf` of the model on the diamond-free shared graph above returns a topological order (run-time
    check `topoIds` of the driver on one concrete instance). -/
example : anf [(0, [1, 1]), (1, [])] 0 = some [1, 0] ∧ topoIds [(0, [1, 1]), (1, [])] [1, 0] 0 = true := by
  decide

end Stack

/-! ## Part 2: Memoize -/

section Memo
variable {C A K V : Type} [DecidableEq K]

/-- Invariant of the cache after the requests `done` (in order): every entry was computed by the base
    interpretation for a request of `done` with that key, and remembers which. -/
def CacheInv (key : C → A → K) (base : C → A → Option V) (done : List (C × A)) (cache : Cache K (V × Nat)) : Prop :=
  ∀ k v j, cacheGet cache k = some (v, j) →
    ∃ c a, key c a = k ∧ done[j]? = some (c, a) ∧ base c a = some v

theorem cacheInv_nil (key : C → A → K) (base : C → A → Option V) : CacheInv key base [] [] := by
  intro k v j h
  simp [cacheGet] at h

theorem memoStep_hit (key : C → A → K) (base : C → A → Option V) (cache : Cache K (V × Nat)) (i : Nat)
    (c : C) (a : A) (r : V × Nat) (h : cacheGet cache (key c a) = some r) :
    memoStep key base cache i c a = (some r, cache) := by
  simp [memoStep, h]

theorem memoStep_none (key : C → A → K) (base : C → A → Option V) (cache : Cache K (V × Nat)) (i : Nat)
    (c : C) (a : A) (h : cacheGet cache (key c a) = none) (hb : base c a = none) :
    memoStep key base cache i c a = (none, cache) := by
  simp [memoStep, h, hb]

theorem memoStep_miss (key : C → A → K) (base : C → A → Option V) (cache : Cache K (V × Nat)) (i : Nat)
    (c : C) (a : A) (v : V) (h : cacheGet cache (key c a) = none) (hb : base c a = some v) :
    memoStep key base cache i c a = (some (v, i), (key c a, (v, i)) :: cache) := by
  simp [memoStep, h, hb]

theorem cacheInv_step (key : C → A → K) (base : C → A → Option V) (done : List (C × A))
    (cache : Cache K (V × Nat)) (c : C) (a : A) (h : CacheInv key base done cache) :
    CacheInv key base (done ++ [(c, a)]) (memoStep key base cache done.length c a).2 := by
  have lift : ∀ k v j, cacheGet cache k = some (v, j) →
      ∃ c' a', key c' a' = k ∧ (done ++ [(c, a)])[j]? = some (c', a') ∧ base c' a' = some v := by
    intro k v j hk
    obtain ⟨c', a', h1, h2, h3⟩ := h k v j hk
    refine ⟨c', a', h1, ?_, h3⟩
    have hj : j < done.length := by
      rcases Nat.lt_or_ge j done.length with hlt | hge
      · exact hlt
      · rw [List.getElem?_eq_none hge] at h2
        cases h2
    rw [List.getElem?_append_left hj]
    exact h2
  cases hget : cacheGet cache (key c a) with
  | some r =>
    rw [memoStep_hit key base cache _ c a r hget]
    exact lift
  | none =>
    cases hb : base c a with
    | none =>
      rw [memoStep_none key base cache _ c a hget hb]
      exact lift
    | some v =>
      rw [memoStep_miss key base cache _ c a v hget hb]
      intro k v' j hk
      simp only [cacheGet] at hk
      by_cases hkk : key c a = k
      · simp only [hkk, ↓reduceIte, Option.some.injEq, Prod.mk.injEq] at hk
        obtain ⟨rfl, rfl⟩ := hk
        exact ⟨c, a, hkk, by simp, hb⟩
      · simp only [hkk, ↓reduceIte] at hk
        exact lift k v' j hk

theorem finalCache_inv (key : C → A → K) (base : C → A → Option V) :
    ∀ (hist done : List (C × A)) (cache : Cache K (V × Nat)), CacheInv key base done cache →
      CacheInv key base (done ++ hist) (finalCache key base done.length cache hist)
  | [], done, cache, h => by simpa [finalCache] using h
  | (c, a) :: rest, done, cache, h => by
    have h1 := cacheInv_step key base done cache c a h
    have h2 := finalCache_inv key base rest (done ++ [(c, a)]) _ h1
    simpa [finalCache, List.append_assoc] using h2

/-- The cache after a whole history, and the response to one more request. -/
def cacheAfter (key : C → A → K) (base : C → A → Option V) (hist : List (C × A)) : Cache K (V × Nat) :=
  finalCache key base 0 [] hist

def respond (key : C → A → K) (base : C → A → Option V) (hist : List (C × A)) (c : C) (a : A) : Option (V × Nat) :=
  (memoStep key base (cacheAfter key base hist) hist.length c a).1

theorem cacheAfter_inv (key : C → A → K) (base : C → A → Option V) (hist : List (C × A)) :
    CacheInv key base hist (cacheAfter key base hist) := by
  have := finalCache_inv key base hist [] [] (cacheInv_nil key base)
  simpa [cacheAfter] using this

/-- `runMemo` answers request number `|hist|` with `respond hist`. -/
theorem runMemo_append (key : C → A → K) (base : C → A → Option V) :
    ∀ (hist : List (C × A)) (i : Nat) (cache : Cache K (V × Nat)) (c : C) (a : A),
      runMemo key base i cache (hist ++ [(c, a)]) =
        runMemo key base i cache hist ++
          [(memoStep key base (finalCache key base i cache hist) (i + hist.length) c a).1]
  | [], i, cache, c, a => by simp [runMemo, finalCache]
  | (c', a') :: rest, i, cache, c, a => by
    have ih := runMemo_append key base rest (i + 1) (memoStep key base cache i c' a').2 c a
    simp only [List.cons_append, runMemo, finalCache, List.length_cons]
    rw [ih]
    have : i + 1 + rest.length = i + (rest.length + 1) := by omega
    simp [this]

theorem runMemo_last (key : C → A → K) (base : C → A → Option V) (hist : List (C × A)) (c : C) (a : A) :
    runMemo key base 0 [] (hist ++ [(c, a)]) = runMemo key base 0 [] hist ++ [respond key base hist c a] := by
  have := runMemo_append key base hist 0 [] c a
  simpa [respond, cacheAfter] using this

/-- **Memoize refines its base interpretation.**  If requests with equal keys have equal base
    results (in particular if the key is injective), then after ANY history of interpret calls the
    memoized interpretation answers a request with the value the base interpretation computes for
    that very (cls, args). -/
theorem memo_refines_base (key : C → A → K) (base : C → A → Option V) (hk : KeyRespects key base)
    (hist : List (C × A)) (c : C) (a : A) :
    (respond key base hist c a).map Prod.fst = base c a := by
  unfold respond memoStep
  cases hget : cacheGet (cacheAfter key base hist) (key c a) with
  | some r =>
    obtain ⟨v, j⟩ := r
    obtain ⟨c', a', h1, _, h3⟩ := cacheAfter_inv key base hist (key c a) v j hget
    have := hk c' a' c a h1
    simp [← this, h3]
  | none =>
    cases hb : base c a <;> simp

omit [DecidableEq K] in
theorem keyInjective_respects (key : C → A → K) (base : C → A → Option V) (h : KeyInjective key) :
    KeyRespects key base := by
  intro c a c' a' hk
  obtain ⟨rfl, rfl⟩ := h c a c' a' hk
  rfl

/-- The statement of the property: under key injectivity, for every history. -/
theorem memo_refines_base_injective (key : C → A → K) (base : C → A → Option V) (hk : KeyInjective key)
    (hist : List (C × A)) (c : C) (a : A) :
    (respond key base hist c a).map Prod.fst = base c a :=
  memo_refines_base key base (keyInjective_respects key base hk) hist c a

/-- **Never a result computed for different arguments** (injective key): the object returned for
    (cls, args) was computed by the request number `j` of the history, and that request was the same
    (cls, args) — or it is computed right now (`j = |hist|`). -/
theorem memo_src_same_args (key : C → A → K) (base : C → A → Option V) (hk : KeyInjective key)
    (hist : List (C × A)) (c : C) (a : A) (v : V) (j : Nat)
    (h : respond key base hist c a = some (v, j)) :
    (hist ++ [(c, a)])[j]? = some (c, a) := by
  unfold respond memoStep at h
  cases hget : cacheGet (cacheAfter key base hist) (key c a) with
  | some r =>
    simp only [hget, Option.some.injEq] at h
    subst h
    obtain ⟨c', a', h1, h2, _⟩ := cacheAfter_inv key base hist (key c a) v j hget
    obtain ⟨rfl, rfl⟩ := hk c' a' c a h1
    have hj : j < hist.length := by
      rcases Nat.lt_or_ge j hist.length with hlt | hge
      · exact hlt
      · rw [List.getElem?_eq_none hge] at h2
        cases h2
    rw [List.getElem?_append_left hj]
    exact h2
  | none =>
    simp only [hget] at h
    cases hb : base c a with
    | none => simp [hb] at h
    | some v' =>
      simp only [hb, Option.some.injEq, Prod.mk.injEq] at h
      obtain ⟨_, rfl⟩ := h
      simp

/-- A cached entry is never overwritten or dropped by later requests. -/
theorem memoStep_stable (key : C → A → K) (base : C → A → Option V) (cache : Cache K (V × Nat)) (i : Nat)
    (c : C) (a : A) (k : K) (r : V × Nat) (h : cacheGet cache k = some r) :
    cacheGet (memoStep key base cache i c a).2 k = some r := by
  unfold memoStep
  cases hget : cacheGet cache (key c a) with
  | some r' => simpa using h
  | none =>
    cases hb : base c a with
    | none => simpa using h
    | some v =>
      have hne : key c a ≠ k := by
        intro heq
        rw [heq, h] at hget
        cases hget
      simp [cacheGet, hne, h]

theorem finalCache_stable (key : C → A → K) (base : C → A → Option V) :
    ∀ (hist : List (C × A)) (i : Nat) (cache : Cache K (V × Nat)) (k : K) (r : V × Nat),
      cacheGet cache k = some r → cacheGet (finalCache key base i cache hist) k = some r
  | [], _, _, _, _, h => by simpa [finalCache] using h
  | (c, a) :: rest, i, cache, k, r, h => by
    simp only [finalCache]
    exact finalCache_stable key base rest (i + 1) _ k r (memoStep_stable key base cache i c a k r h)

theorem finalCache_append (key : C → A → K) (base : C → A → Option V) :
    ∀ (h1 h2 : List (C × A)) (i : Nat) (cache : Cache K (V × Nat)),
      finalCache key base i cache (h1 ++ h2) =
        finalCache key base (i + h1.length) (finalCache key base i cache h1) h2
  | [], h2, i, cache => by simp [finalCache]
  | (c, a) :: rest, h2, i, cache => by
    simp only [List.cons_append, finalCache, List.length_cons]
    rw [finalCache_append key base rest h2 (i + 1)]
    have : i + 1 + rest.length = i + (rest.length + 1) := by omega
    rw [this]

/-- Two requests with the same key share one cache entry: after (cls, args) was answered with a value,
    any later request with an equal key returns that identical object, and it is a cache hit. -/
theorem memo_same_key_object (key : C → A → K) (base : C → A → Option V) (h1 h2 : List (C × A)) (c c' : C)
    (a a' : A) (hkey : key c' a' = key c a) (v : V) (hb : base c a = some v) :
    ∃ r, respond key base h1 c a = some r ∧
         respond key base (h1 ++ (c, a) :: h2) c' a' = some r ∧ r.2 ≤ h1.length := by
  -- the response to the first request, and the cache right after it
  have hfirst : ∃ r, respond key base h1 c a = some r ∧
      cacheGet (memoStep key base (cacheAfter key base h1) h1.length c a).2 (key c a) = some r ∧
      r.2 ≤ h1.length := by
    unfold respond memoStep
    cases hget : cacheGet (cacheAfter key base h1) (key c a) with
    | some r =>
      refine ⟨r, rfl, by simpa using hget, ?_⟩
      obtain ⟨v', j⟩ := r
      obtain ⟨_, _, _, h2', _⟩ := cacheAfter_inv key base h1 (key c a) v' j hget
      rcases Nat.lt_or_ge j h1.length with hlt | hge
      · exact Nat.le_of_lt hlt
      · rw [List.getElem?_eq_none hge] at h2'
        cases h2'
    | none =>
      refine ⟨(v, h1.length), by simp [hb], by simp [hb, cacheGet], Nat.le_refl _⟩
  obtain ⟨r, hr1, hcache, hle⟩ := hfirst
  refine ⟨r, hr1, ?_, hle⟩
  have hca : cacheGet (cacheAfter key base (h1 ++ (c, a) :: h2)) (key c' a') = some r := by
    rw [hkey]
    unfold cacheAfter
    rw [finalCache_append]
    simp only [finalCache, Nat.zero_add]
    exact finalCache_stable key base h2 _ _ _ _ hcache
  unfold respond memoStep
  simp [hca]

/-- **Identical object for repeated identical requests** (any key function): if (cls, args) was
    requested after `h1` and the base gave a value, then the same request after any further requests
    `h2` returns the identical object (same value, same identity `j`), and this is a cache hit: the
    object is at least as old as the first request. -/
theorem memo_same_object (key : C → A → K) (base : C → A → Option V) (h1 h2 : List (C × A)) (c : C) (a : A)
    (v : V) (hb : base c a = some v) :
    ∃ r, respond key base h1 c a = some r ∧
         respond key base (h1 ++ (c, a) :: h2) c a = some r ∧ r.2 ≤ h1.length :=
  memo_same_key_object key base h1 h2 c c a a rfl v hb

/-- The pre-fix key (`make_hash_key` alone: arguments only, class dropped) is NOT injective as soon as two
    classes accept equal arguments, and then Memoize returns the other class's result: after
    `A(x)`, the request `B(x)` is answered with `A`'s object. -/
theorem real_key_collision_witness :
    let base : Bool → Nat → Option Bool := fun cls _ => some cls
    ¬ KeyInjective (realKey (C := Bool) (A := Nat)) ∧
    (respond realKey base [(false, 0)] true 0).map Prod.fst = some false ∧
    base true 0 = some true := by
  refine ⟨?_, by decide, rfl⟩
  intro h
  have := (h false 0 true 0 rfl).1
  cases this

/-- With the class in the key the same history is answered correctly (satisfiability of
    `KeyInjective`, and the repair of the witness). -/
theorem full_key_injective : KeyInjective (fullKey (C := C) (A := A)) := by
  intro c a c' a' h
  simpa [fullKey] using h

example :
    let base : Bool → Nat → Option Bool := fun cls _ => some cls
    (respond fullKey base [(false, 0)] true 0).map Prod.fst = some true := by
  decide

/-- **The key of the repaired code** (`Memoize.interpret` prefixes `get_origin(cls)` to
    `make_hash_key`, i.e. `fullKey`): Memoize refines ANY base interpretation after ANY history, with no
    side condition, and the object it returns was computed for the very same (cls, args). -/
theorem memo_full_key_refines_base [DecidableEq C] [DecidableEq A] (base : C → A → Option V)
    (hist : List (C × A)) (c : C) (a : A) :
    (respond fullKey base hist c a).map Prod.fst = base c a ∧
    ∀ v j, respond fullKey base hist c a = some (v, j) → (hist ++ [(c, a)])[j]? = some (c, a) :=
  ⟨memo_refines_base_injective fullKey base full_key_injective hist c a,
   fun v j h => memo_src_same_args fullKey base full_key_injective hist c a v j h⟩

/-! ### The key on HEAD: origin class + arguments -/

/-- `headKey` identifies a request up to the type parameters of its class. -/
theorem head_key_injective {P : Type} (c c' : C × P) (a a' : A) (h : headKey c a = headKey c' a') :
    c.1 = c'.1 ∧ a = a' := by
  simpa [headKey] using h

/-- Without type parameters the HEAD key is injective outright. -/
theorem head_key_injective_unparam : KeyInjective (headKey (C := C) (P := Unit) (A := A)) := by
  intro c a c' a' h
  obtain ⟨h1, h2⟩ := head_key_injective c c' a a' h
  exact ⟨Prod.ext h1 rfl, h2⟩

/-- The base interpretation dispatches on the origin class (registries are keyed by `get_origin`), so
    requests that differ in the type parameters only have the same base result: the HEAD key respects
    every such base. -/
theorem head_key_respects {P : Type} (base : C × P → A → Option V)
    (hbase : ∀ c p p' a, base (c, p) a = base (c, p') a) : KeyRespects headKey base := by
  intro c a c' a' h
  obtain ⟨h1, h2⟩ := head_key_injective c c' a a' h
  obtain ⟨c0, p⟩ := c
  obtain ⟨c0', p'⟩ := c'
  simp only at h1
  subst h1 h2
  exact hbase c0 p p' a

/-- **Memoize on HEAD refines its base interpretation**, for every history of direct constructions and
    reinterpretations, and a reinterpretation of a term hits the entry of its direct construction. -/
theorem memo_head_key_refines_base {P : Type} [DecidableEq C] [DecidableEq A] (base : C × P → A → Option V)
    (hbase : ∀ c p p' a, base (c, p) a = base (c, p') a) (hist : List ((C × P) × A)) (c : C × P) (a : A) :
    (respond headKey base hist c a).map Prod.fst = base c a :=
  memo_refines_base headKey base (head_key_respects base hbase) hist c a

theorem memo_head_key_shares_entry {P : Type} [DecidableEq C] [DecidableEq A] (base : C × P → A → Option V)
    (h1 h2 : List ((C × P) × A)) (c : C) (p p' : P) (a : A) (v : V) (hb : base (c, p) a = some v) :
    ∃ r, respond headKey base h1 (c, p) a = some r ∧
         respond headKey base (h1 ++ ((c, p), a) :: h2) (c, p') a = some r :=
  let ⟨r, h1', h2', _⟩ := memo_same_key_object headKey base h1 h2 (c, p) (c, p') a a rfl v hb
  ⟨r, h1', h2'⟩

/-- The real key is injective within one class (repeated identical requests are recognised). -/
theorem real_key_injective_one_class : KeyInjective (realKey (C := Unit) (A := A)) := by
  intro c a c' a' h
  exact ⟨rfl, h⟩

end Memo

end FV.Props.C03
