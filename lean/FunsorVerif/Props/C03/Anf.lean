/-
  Props/C03/Anf.lean — the queue-based `anf` model of Model/C03.lean (breadth-first discovery with
  `child_to_parents` / `children_counts`, then Kahn's leaves queue, `move_to_end(root)`) returns, for ANY
  fuel on which it answers, a duplicate-free topological listing of exactly the nodes reachable from the
  root, the root last; and any budget above the number of reachable nodes suffices.  Hypothesis: the
  children relation is acyclic (`Acyclic`: a rank decreasing along children — for hash-consed terms, the
  size of the term).

  The invariants and the proof structure are those of Props/C18/Anf.lean (property C18 proves the same
  algorithm for the compiler's node type); this file re-proves them over node identities (`Nat`) and an
  arbitrary children function, which is what `stack_reinterpret` needs (Props/C03/StackAnf.lean).
-/
import FunsorVerif.Model.C03
set_option linter.unusedSectionVars false
set_option linter.unusedVariables false
namespace FV.Props.C03.Anf
open FV FV.C03

/-- Acyclicity of the children relation, witnessed by a rank. -/
class Acyclic [Kids] where
  sz : Nat → Nat
  lt : ∀ {n c : Nat}, c ∈ children n → sz c < sz n

section
variable [Kids] [Acyclic]

theorem reach_size_le {x n : Nat} (h : Reach x n) : Acyclic.sz n ≤ Acyclic.sz x := by
  induction h with
  | refl => exact Nat.le_refl _
  | step _ hc ih => have := Acyclic.lt hc; omega

theorem reach_trans_child {x n : Nat} (h : Reach x n) : n = x ∨ Acyclic.sz n < Acyclic.sz x := by
  induction h with
  | refl => exact Or.inl rfl
  | step hr hc ih =>
    right
    have := Acyclic.lt hc
    have := reach_size_le hr
    omega

end

/-! ## Dictionaries -/

section Dict
variable {κ α : Type} [DecidableEq κ]

def keys (d : List (κ × α)) : List κ := d.map Prod.fst

theorem dGet_dSet_self (d : List (κ × α)) (k : κ) (v : α) : dGet (dSet d k v) k = some v := by
  induction d with
  | nil => simp [dSet, dGet]
  | cons p r ih =>
    obtain ⟨k', w⟩ := p
    by_cases hk : k' = k <;> simp [dSet, dGet, hk, ih]

theorem dGet_dSet_other (d : List (κ × α)) {k k' : κ} (v : α) (hne : k' ≠ k) :
    dGet (dSet d k v) k' = dGet d k' := by
  induction d with
  | nil => simp [dSet, dGet, Ne.symm hne]
  | cons p r ih =>
    obtain ⟨k0, w⟩ := p
    by_cases hk : k0 = k
    · subst hk; simp [dSet, dGet, Ne.symm hne]
    · by_cases hk' : k0 = k'
      · subst hk'; simp [dSet, dGet, hk]
      · simp [dSet, dGet, hk, hk', ih]

theorem dGet_eq_none_iff (d : List (κ × α)) (k : κ) : dGet d k = none ↔ k ∉ keys d := by
  induction d with
  | nil => simp [dGet, keys]
  | cons p r ih =>
    obtain ⟨k0, w⟩ := p
    by_cases hk : k0 = k
    · simp [dGet, keys, hk]
    · simp only [keys] at ih
      simp [dGet, keys, hk, ih, Ne.symm hk]

theorem keys_dSet (d : List (κ × α)) (k : κ) (v : α) :
    keys (dSet d k v) = if (dGet d k).isNone then keys d ++ [k] else keys d := by
  induction d with
  | nil => simp [dSet, dGet, keys]
  | cons p r ih =>
    obtain ⟨k0, w⟩ := p
    by_cases hk : k0 = k
    · simp [dSet, dGet, keys, hk]
    · simp only [keys] at ih
      simp only [dSet, dGet, keys, hk, if_false, List.map_cons, ih]
      split <;> simp

end Dict

theorem keys_nodup_dSet {κ α : Type} [DecidableEq κ] (d : List (κ × α)) (k : κ) (v : α)
    (h : (keys d).Nodup) : (keys (dSet d k v)).Nodup := by
  rw [keys_dSet]
  split
  · rename_i hn
    have hn' : dGet d k = none := by simpa using hn
    rw [dGet_eq_none_iff] at hn'
    rw [List.nodup_append]
    refine ⟨h, by simp, ?_⟩
    intro a ha b hb
    simp only [List.mem_singleton] at hb
    subst hb
    intro hab; subst hab; exact hn' ha
  · exact h

theorem getD_dSet_self {κ α : Type} [DecidableEq κ] (d : List (κ × α)) (k : κ) (v dflt : α) :
    (dGet (dSet d k v) k).getD dflt = v := by
  rw [dGet_dSet_self]; rfl


section
variable [Kids] [Acyclic]

/-! ## Phase 1: the inner loop -/

theorem visit_spec (h : Nat) (cs : List Nat) (s : Bfs) :
    (visit h cs s).leaves = s.leaves ∧
    (∀ p, (dGet (visit h cs s).counts p).getD 0
        = (dGet s.counts p).getD 0 + if p = h then (cs.length : Int) else 0) ∧
    (∀ c p, List.count p ((dGet (visit h cs s).c2p c).getD [])
        = List.count p ((dGet s.c2p c).getD []) + if p = h then List.count c cs else 0) ∧
    (∃ new, (visit h cs s).stack = s.stack ++ new ∧
        keys (visit h cs s).c2p = keys s.c2p ++ new ∧ ∀ c ∈ new, c ∈ cs) ∧
    ((keys s.c2p).Nodup → (keys (visit h cs s).c2p).Nodup) := by
  induction cs generalizing s with
  | nil => simp [visit]
  | cons c cs ih =>
    simp only [visit]
    obtain ⟨ih1, ih2, ih3, ⟨new, ih4a, ih4b, ih4c⟩, ih5⟩ := ih
      { s with
        stack := if (dGet s.c2p c).isNone then s.stack ++ [c] else s.stack
        c2p := dSet s.c2p c ((dGet s.c2p c).getD [] ++ [h])
        counts := dSet s.counts h ((dGet s.counts h).getD 0 + 1) }
    refine ⟨ih1, ?_, ?_, ?_, ?_⟩
    · intro p
      rw [ih2 p]
      by_cases hp : p = h
      · subst hp
        simp only [getD_dSet_self, if_true, List.length_cons]
        omega
      · simp only [dGet_dSet_other _ _ hp, hp, if_false]
    · intro c' p
      rw [ih3 c' p]
      by_cases hc : c' = c
      · subst hc
        simp only [getD_dSet_self, List.count_append, List.count_cons, List.count_nil]
        by_cases hp : p = h
        · subst hp; simp; omega
        · have : ¬ h = p := fun e => hp e.symm
          simp [hp, this]
      · simp only [dGet_dSet_other _ _ hc]
        have : ¬ c = c' := fun e => hc e.symm
        by_cases hp : p = h <;> simp [hp, this]
    · simp only at ih4a ih4b
      rw [keys_dSet] at ih4b
      by_cases hn : (dGet s.c2p c).isNone
      · simp only [hn, ↓reduceIte] at ih4a ih4b ⊢
        refine ⟨c :: new, ?_, ?_, ?_⟩
        · rw [ih4a]; simp
        · rw [ih4b]; simp
        · intro c' hc'
          simp only [List.mem_cons] at hc' ⊢
          rcases hc' with rfl | hc'
          · exact Or.inl rfl
          · exact Or.inr (ih4c _ hc')
      · have hn' : (dGet s.c2p c).isNone = false := by
          cases hh : (dGet s.c2p c).isNone
          · rfl
          · exact absurd hh hn
        simp only [hn', Bool.false_eq_true, ↓reduceIte] at ih4a ih4b ⊢
        refine ⟨new, ih4a, ih4b, ?_⟩
        intro c' hc'
        exact List.mem_cons_of_mem _ (ih4c _ hc')
    · intro hnd
      exact ih5 (keys_nodup_dSet _ _ _ hnd)

/-! ## Phase 1: the outer loop -/

/-- Invariant of `bfs`; `P` is the (ghost) list of nodes popped so far. -/
structure BInv (x : Nat) (P : List Nat) (s : Bfs) : Prop where
  order : P ++ s.stack = x :: keys s.c2p
  nodup : (keys s.c2p).Nodup
  reach : ∀ n ∈ keys s.c2p, Reach x n ∧ (Acyclic.sz n) < (Acyclic.sz x)
  c2p : ∀ c p, List.count p ((dGet s.c2p c).getD [])
      = if p ∈ P then List.count c (children p) else 0
  counts : ∀ p, (dGet s.counts p).getD 0 = if p ∈ P then ((children p).length : Int) else 0
  leavesNodup : s.leaves.Nodup
  leaves : ∀ p, p ∈ s.leaves ↔ p ∈ P ∧ children p = []

theorem BInv.init (x : Nat) : BInv x [] ⟨[x], [], [], []⟩ where
  order := by simp [keys]
  nodup := by simp [keys]
  reach := by simp [keys]
  c2p := by simp [dGet]
  counts := by simp [dGet]
  leavesNodup := by simp
  leaves := by simp

theorem BInv.nodup_all {x : Nat} {P : List Nat} {s : Bfs} (inv : BInv x P s) :
    (x :: keys s.c2p).Nodup := by
  rw [List.nodup_cons]
  refine ⟨fun hx => ?_, inv.nodup⟩
  have := (inv.reach x hx).2
  omega

theorem BInv.reach_all {x : Nat} {P : List Nat} {s : Bfs} (inv : BInv x P s) :
    ∀ n ∈ x :: keys s.c2p, Reach x n := by
  intro n hn
  rcases List.mem_cons.1 hn with rfl | hk
  · exact Reach.refl
  · exact (inv.reach _ hk).1

theorem BInv.step {x : Nat} {P : List Nat} {s : Bfs} {h : Nat} {rest : List Nat}
    (inv : BInv x P s) (hs : s.stack = h :: rest) :
    BInv x (P ++ [h])
      (if (dGet (visit h (children h) { s with stack := rest }).counts h).getD 0 = 0
        then { visit h (children h) { s with stack := rest } with
                leaves := (visit h (children h) { s with stack := rest }).leaves ++ [h] }
        else visit h (children h) { s with stack := rest }) := by
  have hnd := inv.nodup_all
  rw [← inv.order, hs] at hnd
  have hP : h ∉ P := by
    intro hp
    exact (List.nodup_append.1 hnd).2.2 h hp h List.mem_cons_self rfl
  have hreach : Reach x h := by
    apply inv.reach_all
    rw [← inv.order, hs]; simp
  obtain ⟨v1, v2, v3, ⟨new, v4a, v4b, v4c⟩, v5⟩ :=
    visit_spec h (children h) { s with stack := rest }
  generalize visit h (children h) { s with stack := rest } = s1 at *
  simp only at v1 v2 v3 v4a v4b v5
  have f_order : (P ++ [h]) ++ s1.stack = x :: keys s1.c2p := by
    rw [v4a, v4b, ← List.cons_append, ← inv.order, hs]; simp
  have f_nodup : (keys s1.c2p).Nodup := v5 inv.nodup
  have f_reach : ∀ n ∈ keys s1.c2p, Reach x n ∧ (Acyclic.sz n) < (Acyclic.sz x) := by
    intro n hn
    rw [v4b, List.mem_append] at hn
    rcases hn with hn | hn
    · exact inv.reach n hn
    · have hc := v4c n hn
      have := Acyclic.lt hc
      have := reach_size_le hreach
      exact ⟨Reach.step hreach hc, by omega⟩
  have f_c2p : ∀ c p, List.count p ((dGet s1.c2p c).getD [])
      = if p ∈ P ++ [h] then List.count c (children p) else 0 := by
    intro c p
    rw [v3, inv.c2p]
    by_cases hp : p = h
    · subst hp; simp [hP]
    · simp [hp]
  have f_counts : ∀ p, (dGet s1.counts p).getD 0
      = if p ∈ P ++ [h] then ((children p).length : Int) else 0 := by
    intro p
    rw [v2, inv.counts]
    by_cases hp : p = h
    · subst hp; simp [hP]
    · simp [hp]
  have hcond : (dGet s1.counts h).getD 0 = 0 ↔ children h = [] := by
    rw [f_counts h]; simp
  split
  · rename_i hc
    have hnil := hcond.1 hc
    refine ⟨f_order, f_nodup, f_reach, f_c2p, f_counts, ?_, ?_⟩
    · show (s1.leaves ++ [h]).Nodup
      rw [v1, List.nodup_append]
      refine ⟨inv.leavesNodup, by simp, ?_⟩
      intro a ha b hb
      simp only [List.mem_singleton] at hb
      subst hb
      intro hab; subst hab
      exact hP ((inv.leaves a).1 ha).1
    · intro p
      show p ∈ s1.leaves ++ [h] ↔ _
      rw [v1, List.mem_append, inv.leaves p, List.mem_append]
      simp only [List.mem_singleton]
      constructor
      · rintro (⟨h1, h2⟩ | rfl)
        · exact ⟨Or.inl h1, h2⟩
        · exact ⟨Or.inr rfl, hnil⟩
      · rintro ⟨h1 | rfl, h2⟩
        · exact Or.inl ⟨h1, h2⟩
        · exact Or.inr rfl
  · rename_i hc
    have hnil : children h ≠ [] := fun e => hc (hcond.2 e)
    refine ⟨f_order, f_nodup, f_reach, f_c2p, f_counts, v1 ▸ inv.leavesNodup, ?_⟩
    intro p
    rw [v1, inv.leaves p, List.mem_append]
    simp only [List.mem_singleton]
    constructor
    · rintro ⟨h1, h2⟩
      exact ⟨Or.inl h1, h2⟩
    · rintro ⟨h1 | rfl, h2⟩
      · exact ⟨h1, h2⟩
      · exact absurd h2 hnil

/-- What phase 1 hands to phase 2. -/
structure Phase1 (x : Nat) (s : Bfs) : Prop where
  nodup : (x :: keys s.c2p).Nodup
  mem : ∀ n, n ∈ x :: keys s.c2p ↔ Reach x n
  c2p : ∀ c p, Reach x p →
      List.count p ((dGet s.c2p c).getD []) = List.count c (children p)
  c2p0 : ∀ c p, ¬ Reach x p → List.count p ((dGet s.c2p c).getD []) = 0
  counts : ∀ p, Reach x p → (dGet s.counts p).getD 0 = ((children p).length : Int)
  leavesNodup : s.leaves.Nodup
  leaves : ∀ p, p ∈ s.leaves ↔ Reach x p ∧ children p = []

theorem mem_keys_of_count_pos {c p : Nat} {d : List (Nat × List Nat)}
    (h : 0 < List.count p ((dGet d c).getD [])) : c ∈ keys d := by
  apply Classical.byContradiction
  intro hc
  rw [← dGet_eq_none_iff] at hc
  simp [hc] at h

theorem BInv.exit {x : Nat} {P : List Nat} {s : Bfs} (inv : BInv x P s) (hs : s.stack = []) :
    Phase1 x s := by
  have hP : P = x :: keys s.c2p := by
    have := inv.order; rwa [hs, List.append_nil] at this
  have hmem : ∀ n, n ∈ x :: keys s.c2p ↔ Reach x n := by
    intro n
    constructor
    · exact inv.reach_all n
    · intro hr
      induction hr with
      | refl => simp
      | step hr hc ih =>
        rename_i p c
        apply List.mem_cons_of_mem
        apply mem_keys_of_count_pos (p := p)
        rw [inv.c2p, hP, if_pos ih]
        exact List.count_pos_iff.2 hc
  refine ⟨inv.nodup_all, hmem, ?_, ?_, ?_, inv.leavesNodup, ?_⟩
  · intro c p hp
    rw [inv.c2p, hP, if_pos ((hmem p).2 hp)]
  · intro c p hp
    rw [inv.c2p, hP, if_neg (fun h => hp ((hmem p).1 h))]
  · intro p hp
    rw [inv.counts, hP, if_pos ((hmem p).2 hp)]
  · intro p
    rw [inv.leaves, hP, hmem]

theorem bfs_inv {x : Nat} : ∀ (fuel : Nat) (P : List Nat) (s s' : Bfs),
    BInv x P s → bfs fuel s = some s' → Phase1 x s'
  | 0, _, _, _, _, h => by simp [bfs] at h
  | fuel + 1, P, s, s', inv, h => by
    unfold bfs at h
    split at h
    · rename_i hs
      cases h
      exact inv.exit hs
    · rename_i hd rest hs
      exact bfs_inv fuel _ _ _ (inv.step hs) h

theorem bfs_phase1 {fuel : Nat} {x : Nat} {s : Bfs} (h : bfs fuel ⟨[x], [], [], []⟩ = some s) :
    Phase1 x s :=
  bfs_inv fuel [] _ _ (BInv.init x) h

/-! ## Phase 2: the inner loop -/

theorem relax_spec (ps : List Nat) (q : List Nat) (cnt : List (Nat × Int)) :
    (∀ p, (dGet (relax ps (q, cnt)).2 p).getD 0
        = (dGet cnt p).getD 0 - (List.count p ps : Int)) ∧
    (∀ p, p ∈ (relax ps (q, cnt)).1 ↔
        p ∈ q ∨ (1 ≤ (dGet cnt p).getD 0 ∧ (dGet cnt p).getD 0 ≤ (List.count p ps : Int))) ∧
    (q.Nodup → (∀ p ∈ q, (dGet cnt p).getD 0 ≤ 0) → (relax ps (q, cnt)).1.Nodup) := by
  induction ps generalizing q cnt with
  | nil =>
    simp only [relax, List.count_nil]
    exact ⟨fun p => by simp, fun p => ⟨Or.inl, fun h => h.elim id (fun h => by omega)⟩, fun h _ => h⟩
  | cons p0 ps ih =>
    simp only [relax]
    obtain ⟨ihA, ihB, ihC⟩ := ih
      (if (dGet cnt p0).getD 0 - 1 = 0 then q ++ [p0] else q)
      (dSet cnt p0 ((dGet cnt p0).getD 0 - 1))
    refine ⟨?_, ?_, ?_⟩
    · intro p
      rw [ihA p]
      by_cases hp : p = p0
      · subst hp
        rw [getD_dSet_self, List.count_cons_self]
        omega
      · rw [dGet_dSet_other _ _ hp, List.count_cons_of_ne (fun e => hp e.symm)]
    · intro p
      rw [ihB p]
      by_cases hp : p = p0
      · subst hp
        rw [getD_dSet_self, List.count_cons_self]
        split
        · constructor
          · intro _; right; omega
          · intro _; left; rw [List.mem_append]; right; simp
        · constructor
          · rintro (h | h)
            · exact Or.inl h
            · right; omega
          · rintro (h | h)
            · exact Or.inl h
            · right; omega
      · rw [dGet_dSet_other _ _ hp, List.count_cons_of_ne (fun e => hp e.symm)]
        split
        · rw [List.mem_append, List.mem_singleton]
          simp [hp]
        · rfl
    · intro hq hle
      apply ihC
      · split
        · rename_i hk
          rw [List.nodup_append]
          refine ⟨hq, by simp, ?_⟩
          intro a ha b hb
          simp only [List.mem_singleton] at hb
          subst hb
          intro hab; subst hab
          have := hle a ha
          omega
        · exact hq
      · intro p hp
        by_cases hpp : p = p0
        · subst hpp
          rw [getD_dSet_self]
          split at hp
          · omega
          · have := hle p hp; omega
        · rw [dGet_dSet_other _ _ hpp]
          split at hp
          · rw [List.mem_append, List.mem_singleton] at hp
            rcases hp with hp | hp
            · exact hle p hp
            · exact absurd hp hpp
          · exact hle p hp

/-! ## Remaining-children count -/

/-- Number of entries of `l` not yet in `E`. -/
def rem (E : List Nat) (l : List Nat) : Nat := l.countP (fun c => decide (c ∉ E))

theorem rem_cons (E : List Nat) (c : Nat) (l : List Nat) :
    rem E (c :: l) = rem E l + if c ∈ E then 0 else 1 := by
  simp only [rem, List.countP_cons]
  by_cases h : c ∈ E <;> simp [h]

theorem rem_nil_left (l : List Nat) : rem [] l = l.length := by
  induction l with
  | nil => rfl
  | cons c l ih => rw [rem_cons, ih]; simp

theorem rem_eq_zero {E l : List Nat} : rem E l = 0 ↔ ∀ c ∈ l, c ∈ E := by
  simp [rem, List.countP_eq_zero]

theorem rem_snoc {E : List Nat} {h : Nat} (hE : h ∉ E) (l : List Nat) :
    rem (E ++ [h]) l + List.count h l = rem E l := by
  induction l with
  | nil => simp [rem]
  | cons c l ih =>
    rw [rem_cons, rem_cons]
    by_cases hc : c = h
    · subst hc
      rw [List.count_cons_self]
      simp [hE]
      omega
    · rw [List.count_cons_of_ne hc]
      by_cases hcE : c ∈ E
      · simp [hcE]; omega
      · simp [hcE, hc]; omega

/-! ## Topological orderings -/

theorem topological_nil : Topological [] := by
  intro pre n post h
  simp at h

theorem topological_snoc {l : List Nat} {a : Nat} :
    Topological (l ++ [a]) ↔ Topological l ∧ ∀ c ∈ children a, c ∈ l := by
  constructor
  · intro h
    refine ⟨?_, ?_⟩
    · intro pre n post e c hc
      exact h pre n (post ++ [a]) (by rw [e]; simp) c hc
    · intro c hc
      exact h l a [] rfl c hc
  · rintro ⟨h1, h2⟩ pre n post e c hc
    rw [List.append_eq_append_iff] at e
    rcases e with ⟨a', e1, e2⟩ | ⟨c', e1, e2⟩
    · cases a' with
      | nil =>
        simp at e2
        obtain ⟨rfl, rfl⟩ := e2
        simp at e1; subst e1
        exact h2 c hc
      | cons y ys =>
        simp at e2
    · cases c' with
      | nil =>
        simp at e2
        obtain ⟨rfl, rfl⟩ := e2
        simp at e1; subst e1
        exact h2 c hc
      | cons y ys =>
        simp at e2
        obtain ⟨rfl, e2⟩ := e2
        exact h1 pre n ys e1 c hc

theorem snoc_induction {α : Type} {P : List α → Prop} (hnil : P [])
    (hsnoc : ∀ l a, P l → P (l ++ [a])) : ∀ l, P l := by
  intro l
  have : ∀ r : List α, P r.reverse := by
    intro r
    induction r with
    | nil => exact hnil
    | cons a r ih => rw [List.reverse_cons]; exact hsnoc _ _ ih
  simpa using this l.reverse

theorem topological_filter_ne (x : Nat) : ∀ l : List Nat,
    Topological l → (∀ n ∈ l, x ∉ children n) → Topological (l.filter (· != x)) := by
  apply snoc_induction
  · intro _ _; simpa using topological_nil
  · intro l a ih ht hx
    rw [topological_snoc] at ht
    have ih' := ih ht.1 (fun n hn => hx n (List.mem_append_left _ hn))
    rw [List.filter_append]
    by_cases ha : a = x
    · subst ha; simpa using ih'
    · have : [a].filter (· != x) = [a] := by simp [ha]
      rw [this, topological_snoc]
      refine ⟨ih', ?_⟩
      intro c hc
      rw [List.mem_filter]
      refine ⟨ht.2 c hc, ?_⟩
      have : c ≠ x := by
        intro e; subst e
        exact hx a (by simp) hc
      simpa using this

/-! ## Phase 2: the outer loop -/

/-- Invariant of `kahn`; `E` is the (ghost) list of nodes emitted so far, `Q` the leaves queue. -/
structure KInv (x : Nat) (E Q : List Nat) (cnt : List (Nat × Int)) : Prop where
  nodup : (E ++ Q).Nodup
  reach : ∀ n ∈ E ++ Q, Reach x n
  cnt : ∀ p, Reach x p → (dGet cnt p).getD 0 = (rem E (children p) : Int)
  ready : ∀ p, Reach x p → (p ∈ E ++ Q ↔ rem E (children p) = 0)
  topo : Topological E

theorem KInv.init {x : Nat} {s : Bfs} (ph : Phase1 x s) : KInv x [] s.leaves s.counts where
  nodup := by simpa using ph.leavesNodup
  reach := by
    intro n hn
    simp only [List.nil_append] at hn
    exact ((ph.leaves n).1 hn).1
  cnt := by
    intro p hp
    rw [ph.counts p hp, rem_nil_left]
  ready := by
    intro p hp
    rw [List.nil_append, ph.leaves, rem_nil_left]
    simp [hp]
  topo := topological_nil

theorem KInv.step {x : Nat} {s : Bfs} {E : List Nat} {h : Nat} {rest : List Nat}
    {cnt : List (Nat × Int)} (ph : Phase1 x s) (inv : KInv x E (h :: rest) cnt) :
    KInv x (E ++ [h]) (relax ((dGet s.c2p h).getD []) (rest, cnt)).1
      (relax ((dGet s.c2p h).getD []) (rest, cnt)).2 := by
  obtain ⟨rA, rB, rC⟩ := relax_spec ((dGet s.c2p h).getD []) rest cnt
  generalize relax ((dGet s.c2p h).getD []) (rest, cnt) = r at *
  obtain ⟨q', cnt'⟩ := r
  simp only at rA rB rC ⊢
  have hnd := List.nodup_append.1 inv.nodup
  have hhE : h ∉ E := fun hE => hnd.2.2 h hE h List.mem_cons_self rfl
  have hcount : ∀ p, Reach x p →
      List.count p ((dGet s.c2p h).getD []) = List.count h (children p) :=
    fun p hp => ph.c2p h p hp
  have hcount0 : ∀ p, ¬ Reach x p → List.count p ((dGet s.c2p h).getD []) = 0 :=
    fun p hp => ph.c2p0 h p hp
  have hrem : ∀ p, rem (E ++ [h]) (children p) + List.count h (children p)
      = rem E (children p) := fun p => rem_snoc hhE _
  have hz : ∀ p, p ∈ E ++ h :: rest → rem E (children p) = 0 :=
    fun p hp => (inv.ready p (inv.reach p hp)).1 hp
  have hq' : ∀ p, p ∈ q' → p ∈ rest ∨ (Reach x p ∧ 1 ≤ rem E (children p) ∧
      rem E (children p) ≤ List.count h (children p)) := by
    intro p hp
    rcases (rB p).1 hp with h1 | ⟨h1, h2⟩
    · exact Or.inl h1
    · right
      have hr : Reach x p := by
        apply Classical.byContradiction
        intro hn
        rw [hcount0 p hn] at h2
        omega
      rw [inv.cnt p hr] at h1 h2
      rw [hcount p hr] at h2
      exact ⟨hr, by omega, by omega⟩
  have hq'E : ∀ p, p ∈ q' → p ∉ E ∧ p ≠ h := by
    intro p hp
    rcases hq' p hp with h1 | ⟨_, h1, _⟩
    · refine ⟨fun hE => hnd.2.2 p hE p (List.mem_cons_of_mem _ h1) rfl, ?_⟩
      intro e; subst e
      exact (List.nodup_cons.1 hnd.2.1).1 h1
    · refine ⟨fun hE => ?_, ?_⟩
      · have := hz p (List.mem_append_left _ hE); omega
      · intro e; subst e
        have := hz p (by simp); omega
  refine ⟨?_, ?_, ?_, ?_, ?_⟩
  · -- Nodup
    rw [List.append_assoc, List.nodup_append]
    refine ⟨hnd.1, ?_, ?_⟩
    · rw [List.singleton_append, List.nodup_cons]
      refine ⟨fun hh => (hq'E h hh).2 rfl, ?_⟩
      apply rC (List.nodup_cons.1 hnd.2.1).2
      intro p hp
      have hpm : p ∈ E ++ h :: rest := by simp [hp]
      rw [inv.cnt p (inv.reach p hpm), hz p hpm]
      simp
    · intro a ha b hb
      rw [List.singleton_append, List.mem_cons] at hb
      rcases hb with rfl | hb
      · intro e; subst e; exact hhE ha
      · intro e; subst e; exact (hq'E a hb).1 ha
  · -- Reach
    intro n hn
    rw [List.mem_append, List.mem_append, List.mem_singleton] at hn
    rcases hn with (hn | rfl) | hn
    · exact inv.reach n (List.mem_append_left _ hn)
    · exact inv.reach n (by simp)
    · rcases hq' n hn with h1 | ⟨h1, _⟩
      · exact inv.reach n (by simp [h1])
      · exact h1
  · -- counts
    intro p hp
    have := hrem p
    rw [rA, inv.cnt p hp, hcount p hp]
    omega
  · -- ready
    intro p hp
    have h1 := hrem p
    rw [List.mem_append, List.mem_append, List.mem_singleton]
    constructor
    · rintro ((hn | rfl) | hn)
      · have := hz p (List.mem_append_left _ hn); omega
      · have := hz p (by simp); omega
      · rcases hq' p hn with h2 | ⟨_, h2, h3⟩
        · have := hz p (by simp [h2]); omega
        · omega
    · intro h0
      by_cases hr0 : rem E (children p) = 0
      · have hm := (inv.ready p hp).2 hr0
        rw [List.mem_append, List.mem_cons] at hm
        rcases hm with hm | hm | hm
        · exact Or.inl (Or.inl hm)
        · exact Or.inl (Or.inr hm)
        · exact Or.inr ((rB p).2 (Or.inl hm))
      · right
        apply (rB p).2
        right
        rw [inv.cnt p hp, hcount p hp]
        omega
  · -- topological
    rw [topological_snoc]
    exact ⟨inv.topo, fun c hc => rem_eq_zero.1 (hz h (by simp)) c hc⟩

theorem KInv.exit {x : Nat} {E : List Nat} {cnt : List (Nat × Int)} (inv : KInv x E [] cnt) :
    ∀ p, Reach x p → p ∈ E := by
  have key : ∀ k p, (Acyclic.sz p) < k → Reach x p → p ∈ E := by
    intro k
    induction k with
    | zero => intro p hp; omega
    | succ k ih =>
      intro p hp hr
      have := (inv.ready p hr).2 (rem_eq_zero.2 (fun c hc =>
        ih c (by have := Acyclic.lt hc; omega) (Reach.step hr hc)))
      simpa using this
  intro p hp
  exact key ((Acyclic.sz p) + 1) p (Nat.lt_succ_self _) hp

theorem keySet_step {x h : Nat} {E : List Nat} (hE : h ∉ E) :
    keySet (x :: E.filter (· != x)) h = x :: (E ++ [h]).filter (· != x) := by
  unfold keySet
  by_cases hx : h = x
  · subst hx
    simp
  · have hx' : ¬ x = h := fun e => hx e.symm
    have : h ∉ x :: E.filter (· != x) := by
      simp [hx, hE]
    rw [if_neg this, List.filter_append]
    simp [hx]

theorem kahn_inv {x : Nat} {s : Bfs} (ph : Phase1 x s) :
    ∀ (fuel : Nat) (E Q : List Nat) (cnt : List (Nat × Int)) (env' : List Nat),
      KInv x E Q cnt → kahn s.c2p fuel Q cnt (x :: E.filter (· != x)) = some env' →
      ∃ E' cnt', KInv x E' [] cnt' ∧ env' = x :: E'.filter (· != x)
  | 0, _, _, _, _, _, h => by simp [kahn] at h
  | fuel + 1, E, Q, cnt, env', inv, h => by
    unfold kahn at h
    split at h
    · cases h
      exact ⟨E, cnt, inv, rfl⟩
    · rename_i hd rest
      have hhE : hd ∉ E := fun hE =>
        (List.nodup_append.1 inv.nodup).2.2 hd hE hd List.mem_cons_self rfl
      have st := KInv.step ph inv
      rw [keySet_step hhE] at h
      exact kahn_inv ph fuel _ _ _ _ st h

/-- The shape of every result of `anfWith`. -/
theorem anf_core {fuel : Nat} {x : Nat} {ord : List Nat} (h : anfWith fuel x = some ord) :
    ∃ E : List Nat, ord = E.filter (· != x) ++ [x] ∧ E.Nodup ∧ (∀ n, n ∈ E ↔ Reach x n) ∧
      Topological E := by
  unfold anfWith at h
  split at h
  · cases h
  · rename_i s hb
    split at h
    · cases h
    · rename_i env hk
      cases h
      have ph := bfs_phase1 hb
      obtain ⟨E, cnt', inv, rfl⟩ :=
        kahn_inv ph fuel [] s.leaves s.counts env (KInv.init ph) (by simpa using hk)
      refine ⟨E, by simp, ?_, ?_, inv.topo⟩
      · simpa using (List.nodup_append.1 inv.nodup).1
      · intro n
        exact ⟨fun hn => inv.reach n (by simp [hn]), inv.exit n⟩

theorem not_mem_children_of_reach {x n : Nat} (h : Reach x n) : x ∉ children n := by
  intro hc
  have := Acyclic.lt hc
  have := reach_size_le h
  omega

theorem anf_mem {fuel : Nat} {x : Nat} {ord : List Nat} (h : anfWith fuel x = some ord) :
    ∀ n, n ∈ ord ↔ Reach x n := by
  obtain ⟨E, rfl, hnd, hmem, htopo⟩ := anf_core h
  intro n
  rw [List.mem_append, List.mem_filter, hmem, List.mem_singleton]
  constructor
  · rintro (⟨h1, _⟩ | rfl)
    · exact h1
    · exact Reach.refl
  · intro hr
    by_cases hx : n = x
    · exact Or.inr hx
    · exact Or.inl ⟨hr, by simpa using hx⟩

theorem anf_last {fuel : Nat} {x : Nat} {ord : List Nat} (h : anfWith fuel x = some ord) :
    ord.getLast? = some x := by
  obtain ⟨E, rfl, -⟩ := anf_core h
  simp

theorem anf_nodup {fuel : Nat} {x : Nat} {ord : List Nat} (h : anfWith fuel x = some ord) :
    ord.Nodup := by
  obtain ⟨E, rfl, hnd, hmem, htopo⟩ := anf_core h
  rw [List.nodup_append]
  refine ⟨hnd.filter _, by simp, ?_⟩
  intro a ha b hb
  rw [List.mem_singleton] at hb
  subst hb
  rw [List.mem_filter] at ha
  simpa using ha.2

theorem anf_topological {fuel : Nat} {x : Nat} {ord : List Nat}
    (h : anfWith fuel x = some ord) : Topological ord := by
  obtain ⟨E, rfl, hnd, hmem, htopo⟩ := anf_core h
  rw [topological_snoc]
  refine ⟨topological_filter_ne x E htopo
    (fun n hn => not_mem_children_of_reach ((hmem n).1 hn)), ?_⟩
  intro c hc
  rw [List.mem_filter]
  refine ⟨(hmem c).2 (Reach.step Reach.refl hc), ?_⟩
  have := Acyclic.lt hc
  have : c ≠ x := by intro e; subst e; omega
  simpa using this

/-! ## Totality: a budget above the number of reachable nodes suffices -/

theorem nodup_subset_length_le {α : Type} [DecidableEq α] :
    ∀ (l m : List α), l.Nodup → (∀ a ∈ l, a ∈ m) → l.length ≤ m.length
  | [], m, _, _ => Nat.zero_le _
  | a :: l, m, hnd, hsub => by
    have ha : a ∈ m := hsub a (by simp)
    have ih := nodup_subset_length_le l (m.erase a) (List.nodup_cons.1 hnd).2 (by
      intro b hb
      have hne : b ≠ a := by
        intro e; subst e; exact (List.nodup_cons.1 hnd).1 hb
      exact (List.mem_erase_of_ne hne).2 (hsub b (List.mem_cons_of_mem _ hb)))
    rw [List.length_erase_of_mem ha] at ih
    have : 0 < m.length := List.length_pos_of_mem ha
    simp only [List.length_cons]
    omega

/-- At most `U.length` distinct nodes are reachable from `x` when `U` lists them all. -/
theorem reach_nodup_length_le {x : Nat} (U : List Nat) (hU : ∀ n, Reach x n → n ∈ U) {l : List Nat}
    (hnd : l.Nodup) (hr : ∀ n ∈ l, Reach x n) : l.length ≤ U.length :=
  nodup_subset_length_le l U hnd (fun n hn => hU n (hr n hn))

theorem bfs_total {x : Nat} (U : List Nat) (hU : ∀ n, Reach x n → n ∈ U) :
    ∀ (fuel : Nat) (P : List Nat) (s : Bfs),
    BInv x P s → U.length + 1 ≤ fuel + P.length → ∃ s', bfs fuel s = some s'
  | 0, P, s, inv, hf => by
    exfalso
    have hnd := inv.nodup_all
    rw [← inv.order] at hnd
    have := reach_nodup_length_le U hU hnd (by rw [inv.order]; exact inv.reach_all)
    rw [List.length_append] at this
    omega
  | fuel + 1, P, s, inv, hf => by
    unfold bfs
    split
    · exact ⟨s, rfl⟩
    · rename_i hd rest hs
      exact bfs_total U hU fuel _ _ (inv.step hs) (by rw [List.length_append]; simp; omega)

theorem kahn_total {x : Nat} (U : List Nat) (hU : ∀ n, Reach x n → n ∈ U) {s : Bfs} (ph : Phase1 x s) :
    ∀ (fuel : Nat) (E Q : List Nat) (cnt : List (Nat × Int)),
      KInv x E Q cnt → U.length + 1 ≤ fuel + E.length →
      ∃ env', kahn s.c2p fuel Q cnt (x :: E.filter (· != x)) = some env'
  | 0, E, Q, cnt, inv, hf => by
    exfalso
    have := reach_nodup_length_le U hU inv.nodup inv.reach
    rw [List.length_append] at this
    omega
  | fuel + 1, E, Q, cnt, inv, hf => by
    unfold kahn
    split
    · exact ⟨_, rfl⟩
    · rename_i hd rest
      have hhE : hd ∉ E := fun hE =>
        (List.nodup_append.1 inv.nodup).2.2 hd hE hd List.mem_cons_self rfl
      have st := KInv.step ph inv
      simp only [keySet_step hhE]
      exact kahn_total U hU ph fuel _ _ _ st (by rw [List.length_append]; simp; omega)

/-- **anf_total**: with a budget above the number of reachable nodes both loops finish. -/
theorem anf_total (x : Nat) (U : List Nat) (hU : ∀ n, Reach x n → n ∈ U) (fuel : Nat)
    (hf : U.length + 1 ≤ fuel) : ∃ ord, anfWith fuel x = some ord := by
  unfold anfWith
  obtain ⟨s, hs⟩ := bfs_total U hU fuel [] ⟨[x], [], [], []⟩ (BInv.init x) (by simpa using hf)
  have ph := bfs_phase1 hs
  obtain ⟨env, henv⟩ := kahn_total U hU ph fuel [] s.leaves s.counts (KInv.init ph) (by simpa using hf)
  simp only [List.filter_nil] at henv
  rw [hs]
  simp only [henv]
  exact ⟨_, rfl⟩

end

end FV.Props.C03.Anf
