/-
  Props/C03/AnfSource.lean — duplicate children in `interpreter.anf`.

  A variadic node may list the same cons-hashed child twice (`Stack(k, (a, a, b))`, the parts tuple of a
  Cat, the terms of a Contraction, a Tuple).  The code waits for one decrement per child OCCURRENCE
  (`children_counts[h] += 1` in the `for c in children(h)` loop) and records the parent once per
  occurrence (`child_to_parents[c].append(h)`), so that the emission loop's one decrement per recorded
  entry brings the count to zero exactly when every child has been emitted.  Gen/C03AnfSource.lean
  regenerates these two statements from the source on every run (`anf_source_ok`); the model's `visit` is
  that rule, `anf_repeated_children` is the ordering theorem for DAGs whose children lists repeat, and
  `anf_set_count_not_topological` is the witness that the set-based count
  (`children_counts[h] = len(set(children))`, parents still per occurrence) emits `(a, a, b)` before `b`.
-/
import FunsorVerif.Props.C03.Anf
import FunsorVerif.Gen.C03AnfSource
namespace FV.Props.C03
open FV FV.C03 FV.Props.C03.Anf

/-- The obligation over the regenerated source facts: wait count per occurrence, parents per
    occurrence, one decrement per recorded entry, zero test for leaves, and the live run on
    `root → (a, a, b)` (b deeper than a) emits the node after both. -/
theorem anf_source_ok :
    Gen.anfSource.countRule = CountRule.perOccurrence ∧
    Gen.anfSource.parentRule = CountRule.perOccurrence ∧
    Gen.anfSource.decrementPerEntry = true ∧
    Gen.anfSource.leafTestZero = true ∧
    Gen.anfLiveDuplicateChildOk = true := by
  decide

/-- What `visit` does with a repeated child: the wait count grows by the number of OCCURRENCES and the
    child's parent list gains one entry per occurrence (restating `visit_spec`). -/
theorem visit_counts_occurrences [Kids] [Acyclic] (h : Nat) (cs : List Nat) (s : Bfs) :
    (∀ p, (dGet (visit h cs s).counts p).getD 0
        = (dGet s.counts p).getD 0 + if p = h then (cs.length : Int) else 0) ∧
    (∀ c p, List.count p ((dGet (visit h cs s).c2p c).getD [])
        = List.count p ((dGet s.c2p c).getD []) + if p = h then List.count c cs else 0) :=
  ⟨(visit_spec h cs s).2.1, (visit_spec h cs s).2.2.1⟩

/-- **anf on DAGs with repeated children**: for any children function — lists may repeat a child any
    number of times — and any acyclic rank, whatever `anfWith` returns lists every reachable node exactly
    once, every node after ALL of its children, the root last. -/
theorem anf_repeated_children [Kids] [Acyclic] {fuel x : Nat} {ord : List Nat}
    (h : anfWith fuel x = some ord) :
    ord.Nodup ∧ Topological ord ∧ (∀ n, n ∈ ord ↔ Reach x n) ∧ ord.getLast? = some x :=
  ⟨anf_nodup h, anf_topological h, anf_mem h, anf_last h⟩

/-- `root → node`, `node → (a, a, b)`, `b → d`: the repeated child `a` next to the deeper sibling `b`
    (Stack(k, (a, a, b)) below a root).  0 = root, 1 = node, 2 = a, 3 = b, 4 = d. -/
def dupGraph : Graph := [(0, [1]), (1, [2, 2, 3]), (2, []), (3, [4]), (4, [])]

/-- The code's rule: the node (1) comes after b (3). -/
theorem anf_dup_graph : anf dupGraph 0 = some [2, 4, 3, 1, 0] ∧ topoIds dupGraph [2, 4, 3, 1, 0] 0 = true := by
  decide

/-- **Witness**: with the set-based wait count the node is emitted as soon as `a` has been emitted twice
    over — before `b` — and the ordering is not topological; `stack_reinterpret` / `substitute` would then
    rebuild the node from the raw, un-interpreted `b`. -/
theorem anf_set_count_not_topological :
    @anfSetWith ⟨kidsOf dupGraph⟩ 7 0 = some [2, 4, 1, 3, 0] ∧
    topoIds dupGraph [2, 4, 1, 3, 0] 0 = false ∧
    ¬ @Topological ⟨kidsOf dupGraph⟩ [2, 4, 1, 3, 0] := by
  refine ⟨by decide, by decide, ?_⟩
  intro h
  have := h [2, 4] 1 [3, 0] rfl 3 (by decide)
  exact absurd this (by decide)

/-- Without a repeated child the two counts coincide on this shape (the set-based rewrite passes every
    test that never duplicates a child). -/
example : @anfSetWith ⟨kidsOf [(0, [1]), (1, [2, 3]), (2, []), (3, [4]), (4, [])]⟩ 7 0
    = anf [(0, [1]), (1, [2, 3]), (2, []), (3, [4]), (4, [])] 0 := by
  decide

end FV.Props.C03
