/-
  Props/C03/Interp.lean — interchangeability of exact interpretations.

  An interpretation is a per-node step `I : Term → Option Term`; it is *sound* when every rewrite it
  performs preserves the textbook value wherever that value is defined (`Sound`: the property's
  "same output domain and same value at every point" — a `Sem` carries its shape) and introduces no
  free input (`FvSound`).  Then bottom-up reinterpretation (`reRec`, funsor's reinterpret) preserves
  the value of every expression (`interp_sound`), any two sound interpretations agree with each other
  and with the expression itself (`interp_agree`: deferred = immediate), and the free inputs of the
  result are among those of the expression (`interp_fv_subset`).
-/
import FunsorVerif.Model.C03
namespace FV.Props.C03
open FV FV.C03

/-- Every rewrite of `I` keeps the value at every point where the rewritten node has one. -/
def Sound (I : Step) : Prop :=
  ∀ t t', I t = some t' → ∀ env v, denote t env = some v → denote t' env = some v

/-- No rewrite of `I` introduces a free input. -/
def FvSound (I : Step) : Prop :=
  ∀ t t', I t = some t' → t'.fv ⊆ t.fv

theorem ap_sound (I : Step) (hI : Sound I) (t : Term) (env : Env) (v : Sem)
    (h : denote t env = some v) : denote (ap I t) env = some v := by
  unfold ap
  cases hr : I t with
  | none => simpa using h
  | some t' => exact hI t t' hr env v h

/-! ### Congruence of `denote` (refinement form), constructor by constructor -/

theorem denoteAll_mono (t t' : Term) (h : ∀ env v, denote t env = some v → denote t' env = some v) :
    ∀ (envs : List Env) (vs : List Sem), denoteAll t envs = some vs → denoteAll t' envs = some vs
  | [], vs, hv => by simpa [denoteAll] using hv
  | e :: es, vs, hv => by
    simp only [denoteAll] at hv ⊢
    cases h1 : denote t e with
    | none => simp [h1] at hv
    | some v =>
      cases h2 : denoteAll t es with
      | none => simp [h1, h2] at hv
      | some ws =>
        simp only [h1, h2] at hv
        simp only [h e v h1, denoteAll_mono t t' h es ws h2]
        exact hv

theorem mapM_mono {α β : Type} (f g : α → Option β) (h : ∀ a b, f a = some b → g a = some b) :
    ∀ (l : List α) (bs : List β), l.mapM f = some bs → l.mapM g = some bs
  | [], bs, hb => by simpa using hb
  | a :: l, bs, hb => by
    simp only [List.mapM_cons] at hb ⊢
    cases h1 : f a with
    | none => simp [h1] at hb
    | some b =>
      cases h2 : l.mapM f with
      | none => simp [h1, h2] at hb
      | some cs =>
        simp only [h1, h2] at hb
        simp [h a b h1, mapM_mono f g h l cs h2]
        simpa using hb

theorem denote_unary_mono (op : Op) (a a' : Term) (env : Env)
    (h : ∀ v, denote a env = some v → denote a' env = some v) (v : Sem)
    (hv : denote (Term.unary op a) env = some v) : denote (Term.unary op a') env = some v := by
  simp only [denote] at hv ⊢
  cases h1 : denote a env with
  | none => simp [h1] at hv
  | some x => simpa [h x h1, h1] using hv

theorem denote_binary_mono (op : Op) (l l' r r' : Term) (env : Env)
    (hl : ∀ v, denote l env = some v → denote l' env = some v)
    (hr : ∀ v, denote r env = some v → denote r' env = some v) (v : Sem)
    (hv : denote (Term.binary op l r) env = some v) : denote (Term.binary op l' r') env = some v := by
  simp only [denote] at hv ⊢
  cases h1 : denote l env with
  | none => simp [h1] at hv
  | some x =>
    cases h2 : denote r env with
    | none => simp [h1, h2] at hv
    | some y => simpa [hl x h1, hr y h2, h1, h2] using hv

theorem denote_reduce_mono (op : String) (a a' : Term) (vars : List (Name × Dom)) (env : Env)
    (h : ∀ env v, denote a env = some v → denote a' env = some v) (v : Sem)
    (hv : denote (Term.reduce op a vars) env = some v) : denote (Term.reduce op a' vars) env = some v := by
  simp only [denote] at hv ⊢
  split at hv
  · cases hv
  · rename_i asgs h1
    split at hv
    · cases hv
    · cases hv
    · rename_i w ws h2
      rw [denoteAll_mono a a' h _ _ h2]
      exact hv

theorem denote_lambda_mono (n : Name) (size : Nat) (b b' : Term) (env : Env)
    (h : ∀ env v, denote b env = some v → denote b' env = some v) (v : Sem)
    (hv : denote (Term.lambda n size b) env = some v) : denote (Term.lambda n size b') env = some v := by
  simp only [denote] at hv ⊢
  split at hv
  · cases hv
  · cases hv
  · rename_i w ws h2
    rw [denoteAll_mono b b' h _ _ h2]
    exact hv

theorem denote_independent_mono (fn fn' : Term) (rv bv dv : Name) (size : Nat) (env : Env)
    (h : ∀ env v, denote fn env = some v → denote fn' env = some v) (v : Sem)
    (hv : denote (Term.independent fn rv bv dv size) env = some v) :
    denote (Term.independent fn' rv bv dv size) env = some v := by
  simp only [denote] at hv ⊢
  split at hv
  · cases hv
  · rename_i x h1
    split at hv
    · cases hv
    · cases hv
    · rename_i w ws h2
      rw [denoteAll_mono fn fn' h _ _ h2]
      exact hv

theorem denote_subs_mono (a a' : Term) (σ σ' : List (Name × Term)) (env : Env)
    (ha : ∀ env v, denote a env = some v → denote a' env = some v)
    (hσ : ∀ b, denoteSubs σ env = some b → denoteSubs σ' env = some b) (v : Sem)
    (hv : denote (Term.subs a σ) env = some v) : denote (Term.subs a' σ') env = some v := by
  simp only [denote] at hv ⊢
  cases h1 : denoteSubs σ env with
  | none => simp [h1] at hv
  | some b =>
    simp only [h1] at hv
    simp only [hσ b h1]
    exact ha _ v hv

theorem denote_stack_mono (n : Name) (ps ps' : List Term) (env : Env)
    (h : ∀ i v, denoteNth ps i env = some v → denoteNth ps' i env = some v) (v : Sem)
    (hv : denote (Term.stack n ps) env = some v) : denote (Term.stack n ps') env = some v := by
  simp only [denote] at hv ⊢
  cases h1 : (env.lookup n).bind Sem.toNat? with
  | none => simp [h1] at hv
  | some i =>
    simp only [h1] at hv ⊢
    exact h i v hv

theorem denote_cat_mono (n pn : Name) (sizes : List Nat) (ps ps' : List Term) (env : Env)
    (h : ∀ i env v, denoteNth ps i env = some v → denoteNth ps' i env = some v) (v : Sem)
    (hv : denote (Term.cat n pn sizes ps) env = some v) : denote (Term.cat n pn sizes ps') env = some v := by
  simp only [denote] at hv ⊢
  cases h1 : (env.lookup n).bind Sem.toNat? with
  | none => simp [h1] at hv
  | some g =>
    simp only [h1] at hv ⊢
    cases h2 : locate sizes g 0 with
    | none => simp [h2] at hv
    | some kl =>
      obtain ⟨k, loc⟩ := kl
      simp only [h2] at hv ⊢
      exact h k _ v hv

theorem denote_align_mono (a a' : Term) (names : List Name) (env : Env)
    (h : ∀ v, denote a env = some v → denote a' env = some v) (v : Sem)
    (hv : denote (Term.align a names) env = some v) : denote (Term.align a' names) env = some v := by
  simp only [denote] at hv ⊢
  exact h v hv

theorem denote_contraction_mono (r b : String) (vars : List (Name × Dom)) (ts ts' : List Term) (env : Env)
    (h : ∀ env v, denoteProd b ts env = some v → denoteProd b ts' env = some v) (v : Sem)
    (hv : denote (Term.contraction r b vars ts) env = some v) :
    denote (Term.contraction r b vars ts') env = some v := by
  simp only [denote] at hv ⊢
  split at hv
  · cases hv
  · rename_i asgs h1
    split at hv
    · cases hv
    · cases hv
    · rename_i w ws h2
      rw [mapM_mono _ (fun a => denoteProd b ts' (a ++ env)) (fun a w hw => h _ w hw) asgs _ h2]
      exact hv

theorem denote_delta_mono (ts ts' : List (Name × Term × Term)) (env : Env)
    (h : ∀ v, denoteDelta ts env = some v → denoteDelta ts' env = some v) (v : Sem)
    (hv : denote (Term.delta ts) env = some v) : denote (Term.delta ts') env = some v := by
  simp only [denote] at hv ⊢
  exact h v hv

/-! ### Bottom-up reinterpretation preserves the value -/

mutual
  theorem reRec_sound (I : Step) (hI : Sound I) :
      ∀ (t : Term) (env : Env) (v : Sem), denote t env = some v → denote (reRec I t) env = some v
    | Term.var n d, env, v, h => by simpa [reRec] using ap_sound I hI _ env v h
    | Term.num x d, env, v, h => by simpa [reRec] using ap_sound I hI _ env v h
    | Term.tensor i d a, env, v, h => by simpa [reRec] using ap_sound I hI _ env v h
    | Term.slice n a b c d, env, v, h => by simpa [reRec] using ap_sound I hI _ env v h
    | Term.unary op a, env, v, h => by
      rw [reRec]
      exact ap_sound I hI _ env v
        (denote_unary_mono op a _ env (fun w hw => reRec_sound I hI a env w hw) v h)
    | Term.binary op l r, env, v, h => by
      rw [reRec]
      exact ap_sound I hI _ env v
        (denote_binary_mono op l _ r _ env (fun w hw => reRec_sound I hI l env w hw)
          (fun w hw => reRec_sound I hI r env w hw) v h)
    | Term.reduce op a vars, env, v, h => by
      rw [reRec]
      exact ap_sound I hI _ env v
        (denote_reduce_mono op a _ vars env (fun e w hw => reRec_sound I hI a e w hw) v h)
    | Term.subs a σ, env, v, h => by
      rw [reRec]
      exact ap_sound I hI _ env v
        (denote_subs_mono a _ σ _ env (fun e w hw => reRec_sound I hI a e w hw)
          (fun b hb => reRecSubs_sound I hI σ env b hb) v h)
    | Term.stack n ps, env, v, h => by
      rw [reRec]
      exact ap_sound I hI _ env v
        (denote_stack_mono n ps _ env (fun i w hw => reRecList_nth I hI ps i env w hw) v h)
    | Term.cat n pn sizes ps, env, v, h => by
      rw [reRec]
      exact ap_sound I hI _ env v
        (denote_cat_mono n pn sizes ps _ env (fun i e w hw => reRecList_nth I hI ps i e w hw) v h)
    | Term.lambda n size b, env, v, h => by
      rw [reRec]
      exact ap_sound I hI _ env v
        (denote_lambda_mono n size b _ env (fun e w hw => reRec_sound I hI b e w hw) v h)
    | Term.independent fn rv bv dv size, env, v, h => by
      rw [reRec]
      exact ap_sound I hI _ env v
        (denote_independent_mono fn _ rv bv dv size env (fun e w hw => reRec_sound I hI fn e w hw) v h)
    | Term.align a names, env, v, h => by
      rw [reRec]
      exact ap_sound I hI _ env v
        (denote_align_mono a _ names env (fun w hw => reRec_sound I hI a env w hw) v h)
    | Term.contraction r b vars ts, env, v, h => by
      rw [reRec]
      exact ap_sound I hI _ env v
        (denote_contraction_mono r b vars ts _ env (fun e w hw => reRecList_prod I hI b ts e w hw) v h)
    | Term.finitary op args, env, v, h => by
      simp [denote] at h
    | Term.delta ts, env, v, h => by
      rw [reRec]
      exact ap_sound I hI _ env v
        (denote_delta_mono ts _ env (fun w hw => reRecDelta_sound I hI ts env w hw) v h)

  theorem reRecList_nth (I : Step) (hI : Sound I) :
      ∀ (ts : List Term) (i : Nat) (env : Env) (v : Sem),
        denoteNth ts i env = some v → denoteNth (reRecList I ts) i env = some v
    | [], i, env, v, h => by simp [denoteNth] at h
    | t :: ts, 0, env, v, h => by
      simp only [reRecList, denoteNth] at h ⊢
      exact reRec_sound I hI t env v h
    | t :: ts, i + 1, env, v, h => by
      simp only [reRecList, denoteNth] at h ⊢
      exact reRecList_nth I hI ts i env v h

  theorem reRecSubs_sound (I : Step) (hI : Sound I) :
      ∀ (σ : List (Name × Term)) (env : Env) (b : Env),
        denoteSubs σ env = some b → denoteSubs (reRecSubs I σ) env = some b
    | [], env, b, h => by simpa [reRecSubs, denoteSubs] using h
    | (n, t) :: rest, env, b, h => by
      simp only [reRecSubs, denoteSubs] at h ⊢
      cases h1 : denote t env with
      | none => simp [h1] at h
      | some x =>
        cases h2 : denoteSubs rest env with
        | none => simp [h1, h2] at h
        | some xs =>
          simp only [h1, h2] at h
          simp [reRec_sound I hI t env x h1, reRecSubs_sound I hI rest env xs h2, h]

  theorem reRecList_prod (I : Step) (hI : Sound I) :
      ∀ (op : String) (ts : List Term) (env : Env) (v : Sem),
        denoteProd op ts env = some v → denoteProd op (reRecList I ts) env = some v
    | op, [], env, v, h => by simp [denoteProd] at h
    | op, [t], env, v, h => by
      simp only [reRecList, denoteProd] at h ⊢
      exact reRec_sound I hI t env v h
    | op, t :: u :: ts, env, v, h => by
      simp only [reRecList, denoteProd] at h ⊢
      cases h1 : denote t env with
      | none => simp [h1] at h
      | some x =>
        cases h2 : denoteProd op (u :: ts) env with
        | none => simp [h1, h2] at h
        | some y =>
          simp only [h1, h2] at h
          have h3 := reRecList_prod I hI op (u :: ts) env y h2
          simp only [reRecList] at h3
          simp [reRec_sound I hI t env x h1, h3, h]

  theorem reRecDelta_sound (I : Step) (hI : Sound I) :
      ∀ (ts : List (Name × Term × Term)) (env : Env) (v : Sem),
        denoteDelta ts env = some v → denoteDelta (reRecDelta I ts) env = some v
    | [], env, v, h => by simpa [reRecDelta, denoteDelta] using h
    | (n, p, d) :: rest, env, v, h => by
      simp only [reRecDelta, denoteDelta] at h ⊢
      cases h0 : env.lookup n with
      | none => simp [h0] at h
      | some x =>
        cases h1 : denote p env with
        | none => simp [h0, h1] at h
        | some pv =>
          cases h2 : denote d env with
          | none => simp [h0, h1, h2] at h
          | some dv =>
            cases h3 : denoteDelta rest env with
            | none => simp [h0, h1, h2, h3] at h
            | some rv =>
              simp only [h0, h1, h2, h3] at h
              simp [reRec_sound I hI p env pv h1, reRec_sound I hI d env dv h2,
                reRecDelta_sound I hI rest env rv h3, h]
end

/-- **interp_sound**: reinterpreting an expression bottom-up under a sound interpretation gives a term
    with the same value (same shape, same entries) in every environment where the expression has one. -/
theorem interp_sound (I : Step) (hI : Sound I) (t : Term) (env : Env) (v : Sem)
    (h : denote t env = some v) : denote (reRec I t) env = some v :=
  reRec_sound I hI t env v h

/-- **interp_agree** (deferred = immediate): two sound interpretations — e.g. "build lazily, then
    reinterpret eagerly" and "evaluate under sequential" — produce terms with equal denotation, equal to
    the expression's, at every point where the expression denotes. -/
theorem interp_agree (I₁ I₂ : Step) (h₁ : Sound I₁) (h₂ : Sound I₂) (t : Term) (env : Env) (v : Sem)
    (h : denote t env = some v) :
    denote (reRec I₁ t) env = denote (reRec I₂ t) env ∧ denote (reRec I₁ t) env = some v := by
  rw [interp_sound I₁ h₁ t env v h, interp_sound I₂ h₂ t env v h]
  exact ⟨rfl, rfl⟩

/-- Reinterpreting twice (e.g. a term built under `lazy`, reinterpreted under `normalize`, then
    eagerly) still has the expression's value. -/
theorem interp_compose (I₁ I₂ : Step) (h₁ : Sound I₁) (h₂ : Sound I₂) (t : Term) (env : Env) (v : Sem)
    (h : denote t env = some v) : denote (reRec I₂ (reRec I₁ t)) env = some v :=
  interp_sound I₂ h₂ _ env v (interp_sound I₁ h₁ t env v h)

/-! ### Free inputs -/

theorem ap_fv (I : Step) (hI : FvSound I) (t : Term) : (ap I t).fv ⊆ t.fv := by
  unfold ap
  cases hr : I t with
  | none => exact fun _ h => h
  | some t' => exact hI t t' hr

theorem filter_subset_filter {α : Type} (p : α → Bool) {l l' : List α} (h : l' ⊆ l) :
    l'.filter p ⊆ l.filter p := by
  intro x hx
  rw [List.mem_filter] at hx ⊢
  exact ⟨h hx.1, hx.2⟩

theorem append_subset_append {α : Type} {a a' b b' : List α} (h1 : a' ⊆ a) (h2 : b' ⊆ b) :
    a' ++ b' ⊆ a ++ b := by
  intro x hx
  rw [List.mem_append] at hx ⊢
  exact hx.imp (fun h => h1 h) (fun h => h2 h)

theorem cons_subset_cons' {α : Type} (x : α) {a a' : List α} (h : a' ⊆ a) : x :: a' ⊆ x :: a := by
  intro y hy
  rw [List.mem_cons] at hy ⊢
  exact hy.imp id (fun h' => h h')

mutual
  theorem reRec_fv (I : Step) (hI : FvSound I) : ∀ t : Term, (reRec I t).fv ⊆ t.fv
    | Term.var n d => by simpa [reRec] using ap_fv I hI (Term.var n d)
    | Term.num x d => by simpa [reRec] using ap_fv I hI (Term.num x d)
    | Term.tensor i d a => by simpa [reRec] using ap_fv I hI (Term.tensor i d a)
    | Term.slice n a b c d => by simpa [reRec] using ap_fv I hI (Term.slice n a b c d)
    | Term.unary op a => by
      rw [reRec]
      refine List.Subset.trans (ap_fv I hI _) ?_
      simpa [Term.fv] using reRec_fv I hI a
    | Term.binary op l r => by
      rw [reRec]
      refine List.Subset.trans (ap_fv I hI _) ?_
      simp only [Term.fv]
      exact append_subset_append (reRec_fv I hI l) (reRec_fv I hI r)
    | Term.reduce op a vars => by
      rw [reRec]
      refine List.Subset.trans (ap_fv I hI _) ?_
      simp only [Term.fv]
      exact filter_subset_filter _ (reRec_fv I hI a)
    | Term.subs a σ => by
      rw [reRec]
      refine List.Subset.trans (ap_fv I hI _) ?_
      simp only [Term.fv, reRecSubs_keys I σ]
      exact append_subset_append (filter_subset_filter _ (reRec_fv I hI a)) (reRecSubs_fv I hI σ)
    | Term.stack n ps => by
      rw [reRec]
      refine List.Subset.trans (ap_fv I hI _) ?_
      simp only [Term.fv]
      exact cons_subset_cons' n (reRecList_fv I hI ps)
    | Term.cat n pn sizes ps => by
      rw [reRec]
      refine List.Subset.trans (ap_fv I hI _) ?_
      simp only [Term.fv]
      exact cons_subset_cons' n (filter_subset_filter _ (reRecList_fv I hI ps))
    | Term.lambda n size b => by
      rw [reRec]
      refine List.Subset.trans (ap_fv I hI _) ?_
      simp only [Term.fv]
      exact filter_subset_filter _ (reRec_fv I hI b)
    | Term.independent fn rv bv dv size => by
      rw [reRec]
      refine List.Subset.trans (ap_fv I hI _) ?_
      simp only [Term.fv]
      exact cons_subset_cons' rv (filter_subset_filter _ (reRec_fv I hI fn))
    | Term.align a names => by
      rw [reRec]
      refine List.Subset.trans (ap_fv I hI _) ?_
      simpa [Term.fv] using reRec_fv I hI a
    | Term.contraction r b vars ts => by
      rw [reRec]
      refine List.Subset.trans (ap_fv I hI _) ?_
      simp only [Term.fv]
      exact filter_subset_filter _ (reRecList_fv I hI ts)
    | Term.finitary op args => by
      rw [reRec]
      refine List.Subset.trans (ap_fv I hI _) ?_
      simp only [Term.fv]
      exact reRecList_fv I hI args
    | Term.delta ts => by
      rw [reRec]
      refine List.Subset.trans (ap_fv I hI _) ?_
      simp only [Term.fv]
      exact reRecDelta_fv I hI ts

  theorem reRecList_fv (I : Step) (hI : FvSound I) : ∀ ts : List Term, fvList (reRecList I ts) ⊆ fvList ts
    | [] => by simp [reRecList, fvList]
    | t :: ts => by
      simp only [reRecList, fvList]
      exact append_subset_append (reRec_fv I hI t) (reRecList_fv I hI ts)

  theorem reRecSubs_fv (I : Step) (hI : FvSound I) :
      ∀ σ : List (Name × Term), fvSubs (reRecSubs I σ) ⊆ fvSubs σ
    | [] => by simp [reRecSubs, fvSubs]
    | (n, t) :: rest => by
      simp only [reRecSubs, fvSubs]
      exact append_subset_append (reRec_fv I hI t) (reRecSubs_fv I hI rest)

  theorem reRecSubs_keys (I : Step) : ∀ σ : List (Name × Term), (reRecSubs I σ).map (·.1) = σ.map (·.1)
    | [] => by simp [reRecSubs]
    | (n, t) :: rest => by
      simp only [reRecSubs, List.map_cons]
      rw [reRecSubs_keys I rest]

  theorem reRecDelta_fv (I : Step) (hI : FvSound I) :
      ∀ ts : List (Name × Term × Term), fvDelta (reRecDelta I ts) ⊆ fvDelta ts
    | [] => by simp [reRecDelta, fvDelta]
    | (n, p, d) :: rest => by
      simp only [reRecDelta, fvDelta]
      exact cons_subset_cons' n
        (append_subset_append (append_subset_append (reRec_fv I hI p) (reRec_fv I hI d))
          (reRecDelta_fv I hI rest))
end

/-- **Free inputs**: the result of reinterpretation mentions no input the expression does not. -/
theorem interp_fv_subset (I : Step) (hI : FvSound I) (t : Term) : (reRec I t).fv ⊆ t.fv :=
  reRec_fv I hI t

/-! ### The hypotheses are satisfiable -/

/-- The identity interpretation (`reflect`) is sound. -/
theorem reflect_sound : Sound (fun _ => none) ∧ FvSound (fun _ => none) := by
  constructor
  · intro t t' h; cases h
  · intro t t' h; cases h

theorem reRec_reflect_denote (t : Term) (env : Env) (v : Sem) (h : denote t env = some v) :
    denote (reRec (fun _ => none) t) env = some v :=
  interp_sound _ reflect_sound.1 t env v h

/-- A non-trivial sound rule (a fragment of `eager`): constant folding of `add` on numbers. -/
def foldAdd : Step
  | Term.binary ⟨"add", _⟩ (Term.num a _) (Term.num b _) => some (Term.num (XR.add a b) DType.real)
  | _ => none

theorem foldAdd_sound : Sound foldAdd ∧ FvSound foldAdd := by
  constructor
  · intro t t' h env v hv
    unfold foldAdd at h
    split at h
    · cases h
      simp only [denote] at hv ⊢
      simp only [evalBinary, Sem.zip?, Sem.scalar, broadcastShapes, broadcastShapes.go, List.reverse_nil,
        Option.map_some, allIdx, List.mapM_cons, List.mapM_nil, binop, bcastIdx] at hv
      simp only [Sem.scalar]
      rw [← hv]
      simp [bind, pure, binop, bcastIdx]
    · cases h
  · intro t t' h
    unfold foldAdd at h
    split at h
    · cases h
      simp [Term.fv]
    · cases h

/-- `1 + (2 + 3)` folds to one number bottom-up. -/
example :
    reRec foldAdd (Term.binary ⟨"add", Sexp.list []⟩ (Term.num 1 DType.real)
      (Term.binary ⟨"add", Sexp.list []⟩ (Term.num 2 DType.real) (Term.num 3 DType.real)))
    = Term.num (XR.add 1 (XR.add 2 3)) DType.real := by
  simp [reRec, ap, foldAdd]

end FV.Props.C03
