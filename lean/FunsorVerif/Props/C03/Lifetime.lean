/-
  Props/C03/Lifetime.lean — a Memoize cache that outlives its inputs.

  `memo_keys_keep_args_alive`: when cache keys hold their argument objects (so that the allocator can
  never reuse the address of an argument of a live entry), every request of every possible history
  of allocations, drops and memoized calls — over any number of `memoize(cache)` rounds — is answered
  with the base result for its own argument: never a result computed for different arguments.
  `memo_id_key_stale_hit`: with `id(arg)` in the key the statement is false (address recycled after a
  drop; the second request returns the first object's result).
-/
import FunsorVerif.Model.C03
namespace FV.Props.C03
open FV FV.C03

/-- Invariant: results are the base results of their keys; the caller's objects have distinct
    addresses; a caller's object at the address of a key IS that key's object. -/
structure LInv (base : Nat → Nat) (s : LState) : Prop where
  results : ∀ k r, (k, r) ∈ s.cache → r = base k.val
  userUniq : ∀ u ∈ s.user, ∀ u' ∈ s.user, u.addr = u'.addr → u = u'
  keyIsObj : ∀ u ∈ s.user, ∀ k r, (k, r) ∈ s.cache → k.addr = u.addr → k = u

theorem lcacheGet_some : ∀ (c : List (Obj × Nat)) (a r : Nat), lcacheGet c a = some r →
    ∃ k, (k, r) ∈ c ∧ k.addr = a
  | [], a, r, h => by simp [lcacheGet] at h
  | (k, r') :: rest, a, r, h => by
    simp only [lcacheGet] at h
    by_cases hk : k.addr = a
    · simp only [hk, ↓reduceIte, Option.some.injEq] at h
      subst h
      exact ⟨k, by simp, hk⟩
    · simp only [hk, ↓reduceIte] at h
      obtain ⟨k', hm, ha⟩ := lcacheGet_some rest a r h
      exact ⟨k', by simp [hm], ha⟩

theorem linv_init (base : Nat → Nat) : LInv base ⟨[], []⟩ :=
  ⟨by simp, by simp, by simp⟩

/-- One event preserves the invariant and, for a request, answers with the base result. -/
theorem lstep_sound (base : Nat → Nat) (s s' : LState) (e : LEv) (resp : Option Nat) (inv : LInv base s)
    (h : lstep true base s e = some (s', resp)) :
    LInv base s' ∧ ∀ o, e = LEv.request o → resp = some (base o.val) := by
  cases e with
  | alloc o =>
    simp only [lstep] at h
    split at h
    · cases h
    · rename_i hfree
      cases h
      simp only [liveAddrs, ↓reduceIte, List.mem_append, List.mem_map, not_or, not_exists, not_and] at hfree
      refine ⟨⟨inv.results, ?_, ?_⟩, by intro o' ho; cases ho⟩
      · intro u hu u' hu' hadd
        have hu1 : u = o ∨ u ∈ s.user := List.mem_cons.1 hu
        have hu2 : u' = o ∨ u' ∈ s.user := List.mem_cons.1 hu'
        rcases hu1 with h1 | h1
        · rcases hu2 with h2 | h2
          · rw [h1, h2]
          · exact absurd (by rw [← hadd, h1]) (hfree.1 u' h2)
        · rcases hu2 with h2 | h2
          · exact absurd (by rw [hadd, h2]) (hfree.1 u h1)
          · exact inv.userUniq u h1 u' h2 hadd
      · intro u hu k r hk hadd
        have hu1 : u = o ∨ u ∈ s.user := List.mem_cons.1 hu
        rcases hu1 with h1 | h1
        · exact absurd (by rw [hadd, h1]) (hfree.2 (k, r) hk)
        · exact inv.keyIsObj u h1 k r hk hadd
  | drop a =>
    simp only [lstep, Option.some.injEq, Prod.mk.injEq] at h
    obtain ⟨rfl, rfl⟩ := h
    refine ⟨⟨inv.results, ?_, ?_⟩, by intro o' ho; cases ho⟩
    · intro u hu u' hu' hadd
      exact inv.userUniq u (List.mem_filter.1 hu).1 u' (List.mem_filter.1 hu').1 hadd
    · intro u hu k r hk hadd
      exact inv.keyIsObj u (List.mem_filter.1 hu).1 k r hk hadd
  | request o =>
    simp only [lstep] at h
    split at h
    · rename_i hheld
      split at h
      · rename_i r hget
        cases h
        refine ⟨inv, ?_⟩
        intro o' ho
        cases ho
        obtain ⟨k, hm, ha⟩ := lcacheGet_some _ _ _ hget
        have := inv.keyIsObj o hheld k r hm ha
        subst this
        rw [inv.results k r hm]
      · cases h
        refine ⟨⟨?_, inv.userUniq, ?_⟩, by intro o' ho; cases ho; rfl⟩
        · intro k r hk
          rcases List.mem_cons.1 hk with hk | hk
          · cases hk; rfl
          · exact inv.results k r hk
        · intro u hu k r hk hadd
          rcases List.mem_cons.1 hk with hk | hk
          · cases hk
            exact inv.userUniq o hheld u hu hadd
          · exact inv.keyIsObj u hu k r hk hadd
    · cases h

/-- **Keys that hold their argument objects never give a stale hit**, over any history and any number
    of rounds sharing the cache. -/
theorem memo_keys_keep_args_alive (base : Nat → Nat) :
    ∀ (evs : List LEv) (s : LState), LInv base s → lcorrect true base s evs = true
  | [], _, _ => rfl
  | e :: es, s, inv => by
    simp only [lcorrect]
    cases h : lstep true base s e with
    | none => rfl
    | some p =>
      obtain ⟨s', resp⟩ := p
      obtain ⟨inv', hresp⟩ := lstep_sound base s s' e resp inv h
      simp only [Bool.and_eq_true]
      refine ⟨?_, memo_keys_keep_args_alive base es s' inv'⟩
      cases e with
      | alloc o => rfl
      | drop a => rfl
      | request o => simp [hresp o rfl]

theorem memo_keys_keep_args_alive_from_empty (base : Nat → Nat) (evs : List LEv) :
    lcorrect true base ⟨[], []⟩ evs = true :=
  memo_keys_keep_args_alive base evs _ (linv_init base)

/-- **Witness for `id(arg)` keys**: the caller drops the first tensor, a fresh one is allocated at the
    recycled address, and the memoized call on it is answered with the first tensor's result. -/
theorem memo_id_key_stale_hit :
    let evs := [LEv.alloc ⟨1, 10⟩, LEv.request ⟨1, 10⟩, LEv.drop 1, LEv.alloc ⟨1, 20⟩, LEv.request ⟨1, 20⟩]
    lcorrect false id ⟨[], []⟩ evs = false ∧
    lrun false id ⟨[], []⟩ evs = some [none, some 10, none, none, some 10] ∧
    -- with object-holding keys this history cannot happen: address 1 is still live
    lrun true id ⟨[], []⟩ evs = none := by
  decide

/-- A possible history under object-holding keys: the fresh tensor gets another address; a kept input
    requested again is a hit with the same result. -/
example :
    lrun true id ⟨[], []⟩
      [LEv.alloc ⟨1, 10⟩, LEv.request ⟨1, 10⟩, LEv.drop 1, LEv.alloc ⟨2, 20⟩, LEv.request ⟨2, 20⟩,
       LEv.request ⟨2, 20⟩]
      = some [none, some 10, none, none, some 20, some 20] := by
  decide

end FV.Props.C03
