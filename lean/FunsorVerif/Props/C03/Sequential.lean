/-
  Props/C03/Sequential.lean — `Funsor.sequential_reduce` (funsor/terms.py:537-560): reduction by explicit
  enumeration.  The term it builds — substitute every point of itertools.product of the integer
  variables, left-fold with the binary op — has the value `denote` assigns to the `Reduce` node: the very
  same fold (`Sem.foldList` / `foldOp`) over the very same enumeration (`assignments`).

  Hypotheses: the op is one of the pointwise total ops of the exact fragment (add mul max min and or xor:
  `binop op a b` is always defined and `op` is not getitem/matmul), and the values of the argument at the
  enumerated points all have the shape of the first one (what well-typedness gives; `denote`'s fold reads
  every value at the indices of the first value's shape).  Conclusion up to extensional equality of
  array values (`Sem.Eqv`: same shape, same entry at every index of the shape).
-/
import FunsorVerif.Model.C03
namespace FV.Props.C03
open FV FV.C03

/-! ### index lemmas -/

theorem go_self : ∀ xs : List Nat, broadcastShapes.go xs xs = some xs
  | [] => by simp [broadcastShapes.go]
  | x :: xs => by simp [broadcastShapes.go, go_self xs]

theorem broadcastShapes_self (sh : List Nat) : broadcastShapes sh sh = some sh := by
  simp [broadcastShapes, go_self]

/-- Index `idx` lies inside shape `sh`. -/
def InShape : List Nat → List Nat → Prop
  | [], [] => True
  | i :: is, s :: ss => i < s ∧ InShape is ss
  | _, _ => False

theorem mem_allIdx_inShape : ∀ (sh idx : List Nat), idx ∈ allIdx sh → InShape idx sh
  | [], idx, h => by
    simp [allIdx] at h
    subst h
    trivial
  | s :: ss, idx, h => by
    simp only [allIdx, List.mem_flatMap, List.mem_range, List.mem_map] at h
    obtain ⟨i, hi, rest, hrest, rfl⟩ := h
    exact ⟨hi, mem_allIdx_inShape ss rest hrest⟩

theorem inShape_length : ∀ (idx sh : List Nat), InShape idx sh → idx.length = sh.length
  | [], [], _ => rfl
  | i :: is, s :: ss, h => by simp [inShape_length is ss h.2]
  | [], _ :: _, h => by cases h
  | _ :: _, [], h => by cases h

theorem zipWith_inShape : ∀ (idx sh : List Nat), InShape idx sh →
    List.zipWith (fun d i => if d = 1 then 0 else i) sh idx = idx
  | [], [], _ => rfl
  | i :: is, s :: ss, h => by
    simp only [List.zipWith_cons_cons, zipWith_inShape is ss h.2]
    by_cases hs : s = 1
    · have : i = 0 := by have := h.1; omega
      simp [hs, this]
    · simp [hs]
  | [], _ :: _, h => by cases h
  | _ :: _, [], h => by cases h

theorem bcastIdx_self (sh idx : List Nat) (h : idx ∈ allIdx sh) : bcastIdx sh idx = idx := by
  have hin := mem_allIdx_inShape sh idx h
  simp [bcastIdx, inShape_length idx sh hin, zipWith_inShape idx sh hin]

/-! ### one step of the fold: `op(result, self(**subs))` on equal shapes -/

/-- `binop op` is defined everywhere and `op` is evaluated pointwise by `evalBinary`. -/
def TotalOp (op : String) : Prop :=
  (∀ a b, ∃ c, binop op a b = some c) ∧ op ≠ "getitem" ∧ op ≠ "matmul"

theorem mapM_total {α β : Type} (f : α → Option β) (h : ∀ a, ∃ b, f a = some b) :
    ∀ l : List α, ∃ bs, l.mapM f = some bs
  | [] => ⟨[], by simp⟩
  | a :: l => by
    obtain ⟨b, hb⟩ := h a
    obtain ⟨bs, hbs⟩ := mapM_total f h l
    exact ⟨b :: bs, by simp [List.mapM_cons, hb, hbs]⟩

theorem zip_same_shape (op : String) (hop : TotalOp op) (A B : Sem) (sh : List Nat)
    (hA : A.shape = sh) (hB : B.shape = sh) :
    ∃ W, evalBinary ⟨op, Sexp.list []⟩ A B = some W ∧ W.shape = sh ∧
      ∀ i ∈ allIdx sh, some (W.get i) = binop op (A.get i) (B.get i) := by
  obtain ⟨htot, h1, h2⟩ := hop
  have hev : evalBinary ⟨op, Sexp.list []⟩ A B = Sem.zip? (binop op) A B := by
    unfold evalBinary
    split
    · rename_i heq; exact absurd heq h1
    · rename_i heq; exact absurd heq h2
    · rfl
  obtain ⟨bs, hbs⟩ := mapM_total
    (fun i => binop op (A.get (bcastIdx A.shape i)) (B.get (bcastIdx B.shape i)))
    (fun i => htot _ _) (allIdx sh)
  refine ⟨⟨sh, fun i => (binop op (A.get (bcastIdx A.shape i)) (B.get (bcastIdx B.shape i))).getD XR.nan⟩, ?_, rfl, ?_⟩
  · rw [hev]
    unfold Sem.zip?
    rw [hA, hB, broadcastShapes_self]
    rw [hA, hB] at hbs
    simp only [hbs]
  · intro i hi
    simp only [hA, hB, bcastIdx_self sh i hi]
    obtain ⟨c, hc⟩ := htot (A.get i) (B.get i)
    simp [hc]

/-! ### the fold -/

theorem foldOp_snoc (op : String) (x : XR) (xs : List XR) (y : XR) :
    foldOp op (x :: (xs ++ [y])) = (foldOp op (x :: xs)).bind (fun a => binop op a y) := by
  simp [foldOp, List.foldlM_append]

/-- `ts` denote, one by one, the values `vals` (in `env`). -/
inductive AllDenote (env : Env) : List Term → List Sem → Prop
  | nil : AllDenote env [] []
  | cons {t : Term} {v : Sem} {ts : List Term} {vs : List Sem} :
      denote t env = some v → AllDenote env ts vs → AllDenote env (t :: ts) (v :: vs)

/-- Invariant of the left fold in `sequential_reduce`: `acc` denotes the fold of the values seen so
    far. -/
theorem foldTerms_denote (op : String) (hop : TotalOp op) (env : Env) (sh : List Nat) :
    ∀ (ts : List Term) (vals : List Sem) (acc : Term) (A : Sem) (d0 : Sem) (done : List Sem),
      AllDenote env ts vals →
      (∀ x ∈ vals, x.shape = sh) →
      denote acc env = some A → A.shape = sh →
      (∀ i ∈ allIdx sh, some (A.get i) = foldOp op ((d0 :: done).map (·.get i))) →
      ∃ W, denote (foldTerms op acc ts) env = some W ∧ W.shape = sh ∧
        ∀ i ∈ allIdx sh, some (W.get i) = foldOp op ((d0 :: (done ++ vals)).map (·.get i))
  | [], vals, acc, A, d0, done, hf, _, hacc, hA, hinv => by
    cases hf
    exact ⟨A, by simpa [foldTerms] using hacc, hA, by simpa using hinv⟩
  | t :: ts, vals, acc, A, d0, done, hf, hsh, hacc, hA, hinv => by
    cases hf with
    | cons ht hrest =>
      rename_i x xs
      have hx : x.shape = sh := hsh x (by simp)
      obtain ⟨W, hW, hWs, hWg⟩ := zip_same_shape op hop A x sh hA hx
      have hacc' : denote (Term.binary ⟨op, Sexp.list []⟩ acc t) env = some W := by
        simp [denote, hacc, ht, hW]
      have hinv' : ∀ i ∈ allIdx sh, some (W.get i) = foldOp op ((d0 :: (done ++ [x])).map (·.get i)) := by
        intro i hi
        rw [hWg i hi]
        have := foldOp_snoc op (d0.get i) (done.map (·.get i)) (x.get i)
        have hA' := hinv i hi
        simp only [List.map_cons, List.map_append, List.map_nil] at this hA' ⊢
        rw [this, ← hA']
        rfl
      obtain ⟨W', h1, h2, h3⟩ := foldTerms_denote op hop env sh ts xs _ W d0 (done ++ [x]) hrest
        (fun y hy => hsh y (by simp [hy])) hacc' hWs hinv'
      exact ⟨W', by simpa [foldTerms] using h1, h2, by simpa [List.append_assoc] using h3⟩

/-! ### enumeration = `assignments`; substitution of a point = environment update -/

def pointEnv (p : List (Name × Nat × Nat)) : Env := p.map fun (n, i, _) => (n, Sem.ofNat i)

def toDoms (vars : List (Name × Nat)) : List (Name × Dom) := vars.map fun (n, s) => (n, ⟨DType.bint s, []⟩)

theorem toDoms_cons (n : Name) (s : Nat) (rest : List (Name × Nat)) :
    toDoms ((n, s) :: rest) = (n, ⟨DType.bint s, []⟩) :: toDoms rest := rfl

theorem assignments_enum : ∀ vars : List (Name × Nat),
    assignments (toDoms vars) = some ((enumPoints vars).map pointEnv)
  | [] => by simp [toDoms, assignments, enumPoints, pointEnv]
  | (n, s) :: rest => by
    rw [toDoms_cons]
    simp only [assignments, assignments_enum rest]
    simp only [enumPoints, List.map_flatMap, List.map_map]
    congr 1

theorem denoteSubs_point (env : Env) : ∀ p : List (Name × Nat × Nat),
    denoteSubs (p.map fun (n, i, size) => (n, Term.num (XR.fin (i : Rat)) (DType.bint size))) env
      = some (pointEnv p)
  | [] => by simp [denoteSubs, pointEnv]
  | (n, i, s) :: rest => by
    have ih := denoteSubs_point env rest
    simp only [List.map_cons, denoteSubs, denote, ih]
    simp [pointEnv, Sem.ofNat]

theorem denote_pointSubs (arg : Term) (p : List (Name × Nat × Nat)) (env : Env) :
    denote (pointSubs arg p) env = denote arg (pointEnv p ++ env) := by
  simp [pointSubs, denote, denoteSubs_point]

theorem denoteAll_points (arg : Term) (env : Env) :
    ∀ (ps : List (List (Name × Nat × Nat))) (vals : List Sem),
      denoteAll arg (ps.map fun p => pointEnv p ++ env) = some vals →
      AllDenote env (ps.map (pointSubs arg)) vals
  | [], vals, h => by
    simp [denoteAll] at h
    subst h
    exact AllDenote.nil
  | p :: ps, vals, h => by
    simp only [List.map_cons, denoteAll] at h
    cases h1 : denote arg (pointEnv p ++ env) with
    | none => simp [h1] at h
    | some v =>
      cases h2 : denoteAll arg (ps.map fun p => pointEnv p ++ env) with
      | none => simp [h1, h2] at h
      | some vs =>
        simp only [h1, h2, Option.some.injEq] at h
        subst h
        exact AllDenote.cons (by rw [denote_pointSubs]; exact h1) (denoteAll_points arg env ps vs h2)

/-- **sequential_reduce_sound.**  Whenever the `Reduce` node has a value `v`, the term built by explicit
    enumeration and left fold has a value too, extensionally equal to `v`. -/
theorem sequential_reduce_sound (op : String) (hop : TotalOp op) (arg : Term) (vars : List (Name × Nat))
    (env : Env) (t : Term) (ht : seqReduce op arg vars = some t) (v : Sem)
    (hv : denote (Term.reduce op arg (toDoms vars)) env = some v)
    (hshape : ∀ vals, denoteAll arg ((enumPoints vars).map fun p => pointEnv p ++ env) = some vals →
      ∀ x ∈ vals, ∀ y ∈ vals, x.shape = y.shape) :
    ∃ w, denote t env = some w ∧ Sem.Eqv w v := by
  simp only [denote, assignments_enum, List.map_map] at hv
  split at hv
  · cases hv
  · cases hv
  · rename_i v0 vs hall
    have hf := denoteAll_points arg env (enumPoints vars) (v0 :: vs) hall
    have hsh : ∀ x ∈ v0 :: vs, x.shape = v0.shape := fun x hx => hshape _ hall x hx v0 (by simp)
    unfold seqReduce at ht
    cases hps : (enumPoints vars).map (pointSubs arg) with
    | nil => rw [hps] at hf; cases hf
    | cons t0 ts =>
      rw [hps] at ht hf
      simp only [Option.some.injEq] at ht
      subst ht
      cases hf with
      | cons h0 hrest =>
        obtain ⟨W, hW, hWs, hWg⟩ := foldTerms_denote op hop env v0.shape ts vs t0 v0 v0 [] hrest
          (fun x hx => hsh x (by simp [hx])) h0 rfl (by
            intro i _
            simp [foldOp])
        refine ⟨W, hW, ?_⟩
        -- the value of the Reduce node: pointwise foldOp over the same list
        unfold Sem.foldList at hv
        split at hv
        · cases hv
        · simp only [Option.some.injEq] at hv
          subst hv
          refine ⟨hWs, ?_⟩
          intro i hi
          rw [hWs] at hi
          have := hWg i hi
          simp only [List.nil_append, List.map_cons] at this
          simp only [List.map_cons]
          rw [← this]
          rfl

/-- The ops the harness reduces with are total pointwise ops. -/
theorem totalOp_add : TotalOp "add" := ⟨fun a b => ⟨XR.add a b, by simp [binop]⟩, by decide, by decide⟩
theorem totalOp_mul : TotalOp "mul" := ⟨fun a b => ⟨XR.mul a b, by simp [binop]⟩, by decide, by decide⟩
theorem totalOp_max : TotalOp "max" := ⟨fun a b => ⟨XR.max a b, by simp [binop]⟩, by decide, by decide⟩
theorem totalOp_min : TotalOp "min" := ⟨fun a b => ⟨XR.min a b, by simp [binop]⟩, by decide, by decide⟩

/-- An empty product (a variable of size 0) leaves `result = None`: `sequential_reduce` defers. -/
example : seqReduce "add" (Term.num 1 DType.real) [("i", 0)] = none := by
  simp [seqReduce, enumPoints]

/-- Two points: `Σ_i t` becomes `t(i=0) + t(i=1)`. -/
example : (seqReduce "add" (Term.var "i" ⟨DType.bint 2, []⟩) [("i", 2)]).isSome = true := by
  simp [seqReduce, enumPoints, List.range, List.range.loop]

end FV.Props.C03
