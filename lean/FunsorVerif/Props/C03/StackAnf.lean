/-
  Props/C03/StackAnf.lean — `stack_reinterpret` end to end.

  `stack_reinterpret_eq_rec`: for a hash-consed expression (identity determines the object,
  `Consistent`) and ANY deterministic per-node `interpret` function, running the queue-based `anf`
  (Props/C03/Anf.lean: topological, duplicate-free, complete, total) and then the single pass over the
  `env` dict returns exactly what `recursion_reinterpret` returns — the hypothesis of
  `reinterpret_rec_eq_stack` is discharged for the ordering the code actually produces.

  `reRec_eq_recEval` bridges the Term-level reinterpreter `reRec` (the one `interp_sound` /
  `interp_agree` speak about) to `recEval` on the request tree `skel t`; `stack_reinterpret_term` puts
  the two together.
-/
import FunsorVerif.Props.C03
import FunsorVerif.Props.C03.Anf
set_option linter.unusedSectionVars false
namespace FV.Props.C03
open FV FV.C03 FV.Props.C03.Anf

section
variable {L : Type}

/-! ### sub-nodes, sizes -/

theorem self_mem_subnodes (n : HTree L) : n ∈ n.subnodes := by
  cases n with
  | node i l ks => simp [HTree.subnodes]

theorem mem_subnodesList {k m : HTree L} : ∀ {ks : List (HTree L)}, k ∈ ks → m ∈ k.subnodes → m ∈ subnodesList ks
  | [], hk, _ => by cases hk
  | k' :: ks, hk, hm => by
    simp only [subnodesList, List.mem_append]
    rcases List.mem_cons.1 hk with rfl | hk'
    · exact Or.inl hm
    · exact Or.inr (mem_subnodesList hk' hm)

mutual
  theorem subnodes_trans : ∀ (root a m : HTree L), a ∈ root.subnodes → m ∈ a.subnodes → m ∈ root.subnodes
    | HTree.node i l ks, a, m, ha, hm => by
      simp only [HTree.subnodes, List.mem_cons] at ha ⊢
      rcases ha with rfl | ha
      · simpa [HTree.subnodes] using hm
      · exact Or.inr (subnodesList_trans ks a m ha hm)
  theorem subnodesList_trans : ∀ (ks : List (HTree L)) (a m : HTree L),
      a ∈ subnodesList ks → m ∈ a.subnodes → m ∈ subnodesList ks
    | [], a, m, ha, _ => by simp [subnodesList] at ha
    | k :: ks, a, m, ha, hm => by
      simp only [subnodesList, List.mem_append] at ha ⊢
      rcases ha with ha | ha
      · exact Or.inl (subnodes_trans k a m ha hm)
      · exact Or.inr (subnodesList_trans ks a m ha hm)
end

theorem kid_mem_subnodes_self {n k : HTree L} (hk : k ∈ n.kids) : k ∈ n.subnodes := by
  cases n with
  | node i l ks =>
    simp only [HTree.kids] at hk
    simp only [HTree.subnodes, List.mem_cons]
    exact Or.inr (mem_subnodesList hk (self_mem_subnodes k))

theorem kid_mem {root a k : HTree L} (ha : a ∈ root.subnodes) (hk : k ∈ a.kids) : k ∈ root.subnodes :=
  subnodes_trans root a k ha (kid_mem_subnodes_self hk)

theorem mem_sizeList {k : HTree L} : ∀ {ks : List (HTree L)}, k ∈ ks → k.size ≤ sizeList ks
  | [], hk => by cases hk
  | k' :: ks, hk => by
    simp only [sizeList]
    rcases List.mem_cons.1 hk with rfl | hk'
    · omega
    · have := mem_sizeList hk'; omega

theorem kid_size_lt {n k : HTree L} (hk : k ∈ n.kids) : k.size < n.size := by
  cases n with
  | node i l ks =>
    simp only [HTree.kids] at hk
    simp only [HTree.size]
    have := mem_sizeList hk
    omega

/-! ### lookup by identity -/

theorem find_some {root : HTree L} {i : Nat} {n : HTree L} (h : root.find i = some n) :
    n ∈ root.subnodes ∧ n.id = i := by
  unfold HTree.find at h
  refine ⟨List.mem_of_find?_eq_some h, ?_⟩
  have := List.find?_some h
  simpa using this

theorem find_of_mem {root : HTree L} (hc : Consistent root) {a : HTree L} (ha : a ∈ root.subnodes) :
    root.find a.id = some a := by
  cases hf : root.find a.id with
  | none =>
    unfold HTree.find at hf
    have := List.find?_eq_none.1 hf a ha
    simp at this
  | some b =>
    obtain ⟨hb, hid⟩ := find_some hf
    rw [hc b hb a ha hid]

theorem children_of_mem {root : HTree L} (hc : Consistent root) {a : HTree L} (ha : a ∈ root.subnodes) :
    @children (htKids root) a.id = a.kids.map HTree.id := by
  show (match root.find a.id with
    | some n => n.kids.map HTree.id
    | none => []) = _
  rw [find_of_mem hc ha]

/-- Acyclicity of a hash-consed expression: the rank of an identity is the size of its object. -/
@[reducible] def htAcyclic (root : HTree L) (hc : Consistent root) : @Acyclic (htKids root) :=
  @Acyclic.mk (htKids root)
    (fun i => match root.find i with
      | some n => n.size
      | none => 0)
    (by
      intro n c h
      change c ∈ (match root.find n with
        | some N => N.kids.map HTree.id
        | none => []) at h
      cases hN : root.find n with
      | none => simp [hN] at h
      | some N =>
        simp only [hN, List.mem_map] at h
        obtain ⟨k, hk, rfl⟩ := h
        obtain ⟨hNm, _⟩ := find_some hN
        have hkm := kid_mem hNm hk
        simp only [find_of_mem hc hkm]
        exact kid_size_lt hk)

theorem reach_mem {root : HTree L} (hc : Consistent root) {n : Nat}
    (h : @Reach (htKids root) root.id n) : ∃ a ∈ root.subnodes, a.id = n := by
  induction h with
  | refl => exact ⟨root, self_mem_subnodes root, rfl⟩
  | step _ hch ih =>
    obtain ⟨a, ha, rfl⟩ := ih
    rw [children_of_mem hc ha, List.mem_map] at hch
    obtain ⟨k, hk, rfl⟩ := hch
    exact ⟨k, kid_mem ha hk, rfl⟩

theorem findAll_spec {root : HTree L} : ∀ (ids : List Nat) (order : List (HTree L)),
    findAll root ids = some order → order.map HTree.id = ids ∧ ∀ m ∈ order, m ∈ root.subnodes
  | [], order, h => by
    simp only [findAll, Option.some.injEq] at h
    subst h
    simp
  | i :: is, order, h => by
    simp only [findAll] at h
    cases h1 : root.find i with
    | none => simp [h1] at h
    | some n =>
      cases h2 : findAll root is with
      | none => simp [h1, h2] at h
      | some ns =>
        simp only [h1, h2, Option.some.injEq] at h
        subst h
        obtain ⟨hm, hid⟩ := find_some h1
        obtain ⟨ih1, ih2⟩ := findAll_spec is ns h2
        refine ⟨by simp [hid, ih1], ?_⟩
        intro m hm'
        rcases List.mem_cons.1 hm' with rfl | hm'
        · exact hm
        · exact ih2 m hm'

theorem findAll_total {root : HTree L} (hc : Consistent root) : ∀ (ids : List Nat),
    (∀ i ∈ ids, ∃ a ∈ root.subnodes, a.id = i) → ∃ order, findAll root ids = some order
  | [], _ => ⟨[], rfl⟩
  | i :: is, h => by
    obtain ⟨a, ha, rfl⟩ := h i (by simp)
    obtain ⟨ns, hns⟩ := findAll_total hc is (fun j hj => h j (by simp [hj]))
    exact ⟨a :: ns, by simp [findAll, find_of_mem hc ha, hns]⟩

/-- **stack_reinterpret = recursion_reinterpret**, for the ordering `anf` actually produces: on a
    hash-consed expression, for any deterministic per-node `interpret` function. -/
theorem stack_reinterpret_eq_rec {R : Type} (f : L → List R → R) (root : HTree L) (hc : Consistent root) :
    stackReinterpret f root = some (recEval f root) := by
  letI K : Kids := htKids root
  letI A : Acyclic := htAcyclic root hc
  -- `anf` terminates within its budget
  have hU : ∀ n, Reach root.id n → n ∈ root.subnodes.map HTree.id := by
    intro n hr
    obtain ⟨a, ha, rfl⟩ := reach_mem hc hr
    exact List.mem_map_of_mem ha
  obtain ⟨ids, hids⟩ := anf_total root.id (root.subnodes.map HTree.id) hU (root.subnodes.length + 2)
    (by simp)
  have hmem := anf_mem hids
  have hnd := anf_nodup hids
  have htopo := anf_topological hids
  have hlast := anf_last hids
  -- identities back to objects
  obtain ⟨order, horder⟩ := findAll_total hc ids (fun i hi => reach_mem hc ((hmem i).1 hi))
  obtain ⟨hmap, hsub⟩ := findAll_spec ids order horder
  have hanf : anfTree root = some order := by
    simp only [anfTree]
    rw [hids]
    exact horder
  -- the ordering satisfies the hypothesis of reinterpret_rec_eq_stack
  have hTopo : Topo order := by
    refine ⟨by rw [hmap]; exact hnd, ?_⟩
    intro pre n post hsplit k hk
    have hn : n ∈ root.subnodes := hsub n (by rw [hsplit]; simp)
    have hsplit' : ids = pre.map HTree.id ++ n.id :: post.map HTree.id := by
      rw [← hmap, hsplit]; simp
    have hkc : k.id ∈ children n.id := by
      rw [children_of_mem hc hn]
      exact List.mem_map_of_mem hk
    have := htopo (pre.map HTree.id) n.id (post.map HTree.id) hsplit' k.id hkc
    obtain ⟨m, hm, hmid⟩ := List.mem_map.1 this
    have hm' : m ∈ root.subnodes := hsub m (by rw [hsplit]; simp [hm])
    rw [← hc m hm' k (kid_mem hn hk) hmid]
    exact hm
  have hroot : root ∈ order := by
    have : root.id ∈ ids := List.mem_of_getLast? hlast
    rw [← hmap] at this
    obtain ⟨m, hm, hmid⟩ := List.mem_map.1 this
    rw [← hc m (hsub m hm) root (self_mem_subnodes root) hmid]
    exact hm
  simp only [stackReinterpret, hanf]
  exact reinterpret_rec_eq_stack f order root hTopo hroot

/-! ### identities are irrelevant to the recursive reinterpreter -/

mutual
  theorem recEval_strip {R : Type} (f : L → List R → R) : ∀ h : HTree L, recEval f h.strip = recEval f h
    | HTree.node i l ks => by simp [HTree.strip, recEval, recEvalList_strip f ks]
  theorem recEvalList_strip {R : Type} (f : L → List R → R) :
      ∀ ks : List (HTree L), recEvalList f (stripList ks) = recEvalList f ks
    | [] => by simp [stripList, recEvalList]
    | k :: ks => by simp [stripList, recEvalList, recEval_strip f k, recEvalList_strip f ks]
end

end

/-! ### Bridge: `reRec` on terms is `recEval` on the request tree -/

theorem zipKeys_self (I : Step) : ∀ σ : List (Name × Term),
    zipKeys σ ((reRecSubs I σ).map (·.2)) = reRecSubs I σ
  | [] => by simp [reRecSubs, zipKeys]
  | (n, t) :: rest => by simp [reRecSubs, zipKeys, zipKeys_self I rest]

def flatDelta : List (Name × Term × Term) → List Term
  | [] => []
  | (_, p, d) :: ts => p :: d :: flatDelta ts

theorem zipDelta_self (I : Step) : ∀ ts : List (Name × Term × Term),
    zipDelta ts (flatDelta (reRecDelta I ts)) = reRecDelta I ts
  | [] => by simp [reRecDelta, zipDelta, flatDelta]
  | (n, p, d) :: rest => by simp [reRecDelta, zipDelta, flatDelta, zipDelta_self I rest]

mutual
  theorem reRec_eq_recEval (I : Step) : ∀ t : Term, recEval (nodeStep I) (skel t) = reRec I t
    | Term.var n d => by simp [skel, recEval, recEvalList, nodeStep, reRec]
    | Term.num v d => by simp [skel, recEval, recEvalList, nodeStep, reRec]
    | Term.tensor i d a => by simp [skel, recEval, recEvalList, nodeStep, reRec]
    | Term.slice n a b c d => by simp [skel, recEval, recEvalList, nodeStep, reRec]
    | Term.unary op a => by simp [skel, recEval, recEvalList, nodeStep, reRec, reRec_eq_recEval I a]
    | Term.binary op l r => by
      simp [skel, recEval, recEvalList, nodeStep, reRec, reRec_eq_recEval I l, reRec_eq_recEval I r]
    | Term.reduce op a vars => by simp [skel, recEval, recEvalList, nodeStep, reRec, reRec_eq_recEval I a]
    | Term.subs a σ => by
      simp [skel, recEval, recEvalList, nodeStep, reRec, reRec_eq_recEval I a, skelSubs_eval I σ, zipKeys_self]
    | Term.stack n ps => by simp [skel, recEval, nodeStep, reRec, skelList_eval I ps]
    | Term.cat n pn sizes ps => by simp [skel, recEval, nodeStep, reRec, skelList_eval I ps]
    | Term.lambda n size b => by simp [skel, recEval, recEvalList, nodeStep, reRec, reRec_eq_recEval I b]
    | Term.independent fn rv bv dv size => by
      simp [skel, recEval, recEvalList, nodeStep, reRec, reRec_eq_recEval I fn]
    | Term.align a names => by simp [skel, recEval, recEvalList, nodeStep, reRec, reRec_eq_recEval I a]
    | Term.contraction r b vars ts => by simp [skel, recEval, nodeStep, reRec, skelList_eval I ts]
    | Term.finitary op args => by simp [skel, recEval, nodeStep, reRec, skelList_eval I args]
    | Term.delta ts => by simp [skel, recEval, nodeStep, reRec, skelDelta_eval I ts, zipDelta_self]
  theorem skelList_eval (I : Step) : ∀ ts : List Term, recEvalList (nodeStep I) (skelList ts) = reRecList I ts
    | [] => by simp [skelList, recEvalList, reRecList]
    | t :: ts => by simp [skelList, recEvalList, reRecList, reRec_eq_recEval I t, skelList_eval I ts]
  theorem skelSubs_eval (I : Step) : ∀ σ : List (Name × Term),
      recEvalList (nodeStep I) (skelSubs σ) = (reRecSubs I σ).map (·.2)
    | [] => by simp [skelSubs, recEvalList, reRecSubs]
    | (n, t) :: rest => by simp [skelSubs, recEvalList, reRecSubs, reRec_eq_recEval I t, skelSubs_eval I rest]
  theorem skelDelta_eval (I : Step) : ∀ ts : List (Name × Term × Term),
      recEvalList (nodeStep I) (skelDelta ts) = flatDelta (reRecDelta I ts)
    | [] => by simp [skelDelta, recEvalList, reRecDelta, flatDelta]
    | (n, p, d) :: rest => by
      simp [skelDelta, recEvalList, reRecDelta, flatDelta, reRec_eq_recEval I p, reRec_eq_recEval I d,
        skelDelta_eval I rest]
end

/-- **The two reinterpreters agree on terms.**  For a hash-consed representation `h` of the term `t`
    (any assignment of identities that is consistent, `h.strip = skel t`), the stack-free reinterpreter
    with the per-node step `I` returns `reRec I t`, the result of the recursive one — so every theorem
    about `reRec` (`interp_sound`, `interp_agree`, `interp_fv_subset`) holds for FUNSOR_USE_TCO=1 too. -/
theorem stack_reinterpret_term (I : Step) (t : Term) (h : HTree (List Term → Term))
    (hc : Consistent h) (hs : h.strip = skel t) :
    stackReinterpret (nodeStep I) h = some (reRec I t) := by
  rw [stack_reinterpret_eq_rec (nodeStep I) h hc, ← recEval_strip, hs, reRec_eq_recEval]

/-- Satisfiable with sharing: `s + s` where both operands are one object (identity 1). -/
example :
    let s : HTree Nat := HTree.node 1 10 []
    let root : HTree Nat := HTree.node 0 20 [s, s]
    (anfTree root).map (fun o => o.map HTree.id) = some [1, 0] ∧
    stackReinterpret (fun l (rs : List Nat) => l + rs.foldl (· + ·) 0) root = some 40 := by
  decide

end FV.Props.C03
