/-
  Props/C03/Table.lean — the Memoize key over the GENERATED class table (Gen/C03ClassTable.lean,
  rewritten by fv/harness/c03.py `extract` from /repo on every run).

  `Interpretation.make_hash_key(cls, *args)` drops `cls`: with that key alone (the pinned
  `Memoize.interpret`; the repaired one prefixes `get_origin(cls)`, see `memo_full_key_refines_base`) two
  requests of different classes share a cache entry iff their (post-metaclass) argument tuples are equal.
  This table is the second line of defence should the class prefix be dropped again, and it documents
  which built-in classes the class-less key confuses.  The table records, per class, the
  classes of python values each constructor argument admits (AST of `__init__`), and per candidate pair
  (same arity, no position with disjoint constraints) the outcome of a live probe that tries to build
  both classes from one argument tuple.  Obligation: every candidate pair is refuted by its probe, or is
  the known benign pair Subs/Align colliding at the empty tuple only — where both denote their first
  argument (`benign_collision_same_value`).  A new colliding class breaks `class_table_ok`; the
  harness' `search` then builds the two terms under `memoize()` and shows the wrong object.
-/
import FunsorVerif.Model.C03
import FunsorVerif.Gen.C03ClassTable
namespace FV.Props.C03
open FV FV.C03

/-- The obligation over the generated table. -/
theorem class_table_ok : tableOk Gen.classTable Gen.probes = true := by decide

/-- **No two distinct classes share an origin**: the class component of Memoize's HEAD key
    (`get_origin(cls)`, fully qualified) separates all term classes of the table, so with `headKey` two
    requests share an entry only if they are the same class with equal arguments
    (`head_key_injective`). -/
theorem class_origins_distinct : Gen.classOrigins.Nodup := by decide

theorem class_origins_cover : Gen.classOrigins.length = Gen.classTable.length := by decide

/-- What `tableOk` means, spelled out for any table. -/
theorem tableOk_spec (table : List ClassEntry) (probes : List Probe) (h : tableOk table probes = true)
    (a b : String) (hp : (a, b) ∈ candidatePairs table) :
    probeOf probes a b = some ProbeOutcome.refuted ∨
    (probeOf probes a b = some ProbeOutcome.witnessEmptyTuple ∧ (a, b) ∈ benignPairs) := by
  unfold tableOk at h
  have := List.all_eq_true.mp h (a, b) hp
  simp only at this
  cases hq : probeOf probes a b with
  | none => simp [hq] at this
  | some o =>
    cases o with
    | refuted => exact Or.inl rfl
    | witnessEmptyTuple =>
      right
      refine ⟨rfl, ?_⟩
      simp only [hq] at this
      exact List.contains_iff_mem.mp this
    | witness => simp [hq] at this

/-- **Key collisions across classes are benign on the current tree**: every pair of classes of the
    generated table whose argument tuples can coincide is either shown disjoint by the live probe or is
    Subs/Align at the empty tuple. -/
theorem key_collisions_benign (a b : String) (hp : (a, b) ∈ candidatePairs Gen.classTable) :
    probeOf Gen.probes a b = some ProbeOutcome.refuted ∨
    (probeOf Gen.probes a b = some ProbeOutcome.witnessEmptyTuple ∧ (a, b) ∈ benignPairs) :=
  tableOk_spec _ _ class_table_ok a b hp

/-- Pairs with different arity or a position with disjoint constraints never share a key: that is how
    `candidate` prunes, e.g. Binary(op, lhs, rhs) vs Reduce(op, arg, reduced_vars). -/
example :
    candidate ⟨"Binary", [("op", [VK.op]), ("lhs", [VK.funsor]), ("rhs", [VK.funsor])]⟩
              ⟨"Reduce", [("op", [VK.op]), ("arg", [VK.funsor]), ("reduced_vars", [VK.frozenset])]⟩ = false := by
  decide

/-- A new class with Align's signature would be a candidate (the obligation is not vacuous). -/
example :
    candidate ⟨"Align", [("arg", [VK.funsor]), ("names", [VK.tuple])]⟩
              ⟨"Transpose", [("arg", [VK.funsor]), ("names", [VK.tuple])]⟩ = true ∧
    tableOk [⟨"Align", [("arg", [VK.funsor]), ("names", [VK.tuple])]⟩,
             ⟨"Transpose", [("arg", [VK.funsor]), ("names", [VK.tuple])]⟩]
            [⟨"Align", "Transpose", ProbeOutcome.witness⟩] = false := by
  decide

/-- `Subs(x, ())` denotes `x`. -/
theorem subs_nil_denote (x : Term) (env : Env) : denote (Term.subs x []) env = denote x env := by
  simp [denote, denoteSubs]

/-- `Align(x, names)` denotes `x`. -/
theorem align_denote (x : Term) (names : List Name) (env : Env) :
    denote (Term.align x names) env = denote x env := by
  simp [denote]

/-- The one colliding pair is benign: the cached object of either class has the value (and the free
    inputs) the other request asks for. -/
theorem benign_collision_same_value (x : Term) (env : Env) :
    denote (Term.subs x []) env = denote (Term.align x []) env ∧
    (Term.subs x []).fv = (Term.align x []).fv := by
  refine ⟨by rw [subs_nil_denote, align_denote], ?_⟩
  simp [Term.fv, fvSubs]

end FV.Props.C03
