/-
  Props/C04.lean — substitution is simultaneous, capture-avoiding function application.

  Props/C04/NT.lean       tensor level: `tensor_subs_sem` (Tensor.eager_subs on HEAD = simultaneous substitution, for
                          numbers, variables — fresh, colliding, swapped, repeated, chained —, slices, index tensors),
                          `tensor_subs_inputs` (+ `…_nodup`), `keptLoop_stable`, and the witnesses
                          `tensor_subs_collision_witness…` that the pre-fix diagonal handling violates both.
  Props/C04/Subst.lean    term level: `subs_denote` (substitution lemma of the specification), `denote_coincidence`,
                          `substitute_sound` (syntactic capture-avoiding `substitute` under `boundFresh`),
                          `subs_ignores_foreign_keys`, `subs_fuse_sound`, `subs_fuse_normalize_sound` (+ witness),
                          `interpret_head_sound` (SubstituteInterpretation on HEAD), `interpret_new_sound`,
                          `interpret_old_witness` (86bd40d), `interpret_fix86_witness` (64e4215).
  Props/C04/Classes.lean  per-class eager_subs index arithmetic: Slice (incl. Slice-into-Slice, 37c3acd), Stack with a
                          slice = python list slicing, Cat (number: `locate`; slice: `catPStart_spec`, `catSlice_sem`,
                          f0eee47) with the pre-fix witnesses.
  Props/C04/Gauss.lean    Gaussian._eager_subs_real over rational matrices with the pairs as an ORDERED list:
                          `gauss_subs_real_sem` (any order), `gauss_subs_real_perm`, `gauss_subs_order_witness` (the seeded
                          defects' shape: values gathered in the order of the incoming pairs), `gauss_subs_full_sem`.
  Props/C04/Classes2.lean MarkovProduct/Scatter (`mp_subs_sem` under `noSeqClash`, `mp_subs_seq_witness`, `scatter_rename_sem`),
                          Constant (`const_subs_sub/sup/nodup`), Delta (`delta_subs_ground`, `delta_subs_rename`,
                          `logIndicatorPlus_spec`), Independent (`indep_subs_rename`, `indep_subs_value`).
  Props/C04/Classes3.lean the executable models of Delta.eager_subs (`delta_eager_subs_sem`: any order of kept / renamed /
                          ground terms, swaps and collisions included; `…_exact`, `…_kept_only`), Independent.eager_subs
                          (`indep_eager_subs_sem`) and the MarkovProduct/Scatter decision on names (`mpDecide_none_iff`,
                          `mpDecide_some_spec`) mean the simultaneous substitution / HEAD's guard.
  Props/C04/Call.lean     the call sugar f(*args, **kwargs) (`callPairs`, the model of Funsor.__call__): keys are a sub-list of
                          f.inputs (`callPairs_keys_sublist`, `callPairs_foreign`), a keyword on an input always wins and is never
                          displaced by a positional value (`callPairs_keyword`), the i-th positional binds the i-th input
                          (`callPairs_positional`), the rest stays unsubstituted (`callPairs_untouched`) — ONE simultaneous map.
-/
import FunsorVerif.Props.C04.NT
import FunsorVerif.Props.C04.Subst
import FunsorVerif.Props.C04.Classes
import FunsorVerif.Props.C04.Gauss
import FunsorVerif.Props.C04.Classes2
import FunsorVerif.Props.C04.Classes3
import FunsorVerif.Props.C04.Call
