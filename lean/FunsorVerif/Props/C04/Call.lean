import FunsorVerif.Model.C04.Call
namespace FV.Props.C04
open FV FV.C04

/-- The keys of the merged map are a sub-list of `f.inputs` (in that order): names that are not inputs are ignored,
    and distinct inputs give distinct keys. -/
theorem callPairs_keys_sublist {α : Type} (kw : List (Name × α)) :
    ∀ (ins : List Name) (args : List α), ((callPairs ins args kw).map (·.1)).Sublist ins := by
  intro ins
  induction ins with
  | nil => intro args; simp [callPairs]
  | cons k ks ih =>
    intro args
    unfold callPairs
    split
    · simpa using ih args.tail
    · simpa using ih args.tail
    · exact List.Sublist.cons _ (ih args.tail)

theorem callPairs_foreign {α : Type} (kw : List (Name × α)) (ins : List Name) (args : List α) (n : Name)
    (hn : n ∉ ins) : n ∉ (callPairs ins args kw).map (·.1) :=
  fun h => hn ((callPairs_keys_sublist kw ins args).subset h)

theorem aget_none_of_not_key {α : Type} : ∀ (l : List (Name × α)) (n : Name), n ∉ l.map (·.1) → aget l n = none := by
  intro l n
  induction l with
  | nil => intro _; rfl
  | cons p r ih =>
    obtain ⟨k, v⟩ := p
    intro h
    simp only [List.map_cons, List.mem_cons, not_or] at h
    simp only [aget]
    rw [if_neg (fun e => h.1 e.symm)]
    exact ih h.2

/-- A keyword on an input of `f` is the value of that key in the ONE merged map, whatever was passed positionally
    (in that slot or in any other): keyword wins, and no positional value can capture or displace it. -/
theorem callPairs_keyword {α : Type} (kw : List (Name × α)) (n : Name) (v : α) (hv : aget kw n = some v) :
    ∀ (ins : List Name) (args : List α), n ∈ ins → aget (callPairs ins args kw) n = some v := by
  intro ins
  induction ins with
  | nil => intro args h; simp at h
  | cons k ks ih =>
    intro args hn
    by_cases hk : k = n
    · subst hk
      unfold callPairs
      rw [hv]
      simp [aget]
    · have hn' : n ∈ ks := by
        rcases List.mem_cons.mp hn with h | h
        · exact absurd h.symm hk
        · exact h
      unfold callPairs
      split
      · simp only [aget, if_neg hk]; exact ih args.tail hn'
      · simp only [aget, if_neg hk]; exact ih args.tail hn'
      · exact ih args.tail hn'

/-- The i-th positional value is the value of the i-th input in the merged map unless a keyword names that input. -/
theorem callPairs_positional {α : Type} (kw : List (Name × α)) :
    ∀ (ins : List Name) (args : List α) (i : Nat) (k : Name) (a : α), ins.Nodup → ins[i]? = some k → args[i]? = some a →
      aget kw k = none → aget (callPairs ins args kw) k = some a := by
  intro ins
  induction ins with
  | nil => intro args i k a _ h; simp at h
  | cons k0 ks ih =>
    intro args i k a hnd hi ha hkw
    have hnd' := (List.nodup_cons.mp hnd)
    cases i with
    | zero =>
      simp only [List.getElem?_cons_zero, Option.some.injEq] at hi
      subst hi
      cases args with
      | nil => simp at ha
      | cons a0 ar =>
        simp only [List.getElem?_cons_zero, Option.some.injEq] at ha
        subst ha
        unfold callPairs
        rw [hkw]
        simp [aget]
    | succ j =>
      simp only [List.getElem?_cons_succ] at hi
      have hmem : k ∈ ks := List.mem_of_getElem? hi
      have hne : ¬ k0 = k := fun e => hnd'.1 (e ▸ hmem)
      have ha' : args.tail[j]? = some a := by
        cases args with
        | nil => simp at ha
        | cons a0 ar => simpa using ha
      unfold callPairs
      split
      · simp only [aget, if_neg hne]; exact ih args.tail j k a hnd'.2 hi ha' hkw
      · simp only [aget, if_neg hne]; exact ih args.tail j k a hnd'.2 hi ha' hkw
      · exact ih args.tail j k a hnd'.2 hi ha' hkw

/-- An input that gets neither a positional value nor a keyword stays unsubstituted. -/
theorem callPairs_untouched {α : Type} (kw : List (Name × α)) :
    ∀ (ins : List Name) (args : List α) (i : Nat) (k : Name), ins.Nodup → ins[i]? = some k → args.length ≤ i →
      aget kw k = none → k ∉ (callPairs ins args kw).map (·.1) := by
  intro ins
  induction ins with
  | nil => intro args i k _ h; simp at h
  | cons k0 ks ih =>
    intro args i k hnd hi hlen hkw
    have hnd' := (List.nodup_cons.mp hnd)
    cases i with
    | zero =>
      simp only [List.getElem?_cons_zero, Option.some.injEq] at hi
      subst hi
      have : args = [] := by cases args <;> simp_all
      subst this
      unfold callPairs
      rw [hkw]
      simp only [List.head?_nil, List.tail_nil]
      exact callPairs_foreign kw ks [] k0 hnd'.1
    | succ j =>
      simp only [List.getElem?_cons_succ] at hi
      have hmem : k ∈ ks := List.mem_of_getElem? hi
      have hne : ¬ k = k0 := fun e => hnd'.1 (e ▸ hmem)
      have hl' : args.tail.length ≤ j := by simp; omega
      have := ih args.tail j k hnd'.2 hi hl' hkw
      unfold callPairs
      split <;> simp [hne, this]

/-- The sequential reading differs from the merged map exactly in the region the property singles out: on inputs (i, j),
    `f(j, j=2)` merges to [i := j, j := 2]; done in two steps the keyword `j` meets the `j` the first step introduced. -/
theorem callPairs_example :
    callPairs ["i", "j"] ["J"] [("j", "2")] = [("i", "J"), ("j", "2")] ∧
    callPairs ["i", "j"] ["J", "X"] [("j", "2"), ("z", "9")] = [("i", "J"), ("j", "2")] ∧
    callPairs ["i", "j"] ["a", "b", "c"] [] = [("i", "a"), ("j", "b")] := by decide

end FV.Props.C04
