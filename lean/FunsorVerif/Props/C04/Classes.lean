/-
  Props/C04/Classes.lean — the per-class `eager_subs` methods (Slice, Stack, Cat) as index arithmetic:
  slice sizes and composition, Python list slicing, and the Cat part walk / pstart / pstop.
-/
import FunsorVerif.Model.C04.Classes
namespace FV.Props.C04
open FV FV.C04

theorem sliceLen_spec (a b s j : Nat) (hs : 0 < s) : j < sliceLen a b s ↔ a + s * j < b := by
  unfold sliceLen
  rw [if_neg (by omega)]
  rw [Nat.lt_iff_add_one_le, Nat.le_div_iff_mul_le hs, Nat.succ_mul, Nat.mul_comm j s]
  omega

theorem cls_eq_of_lt_iff {n m : Nat} (h : ∀ j, j < n ↔ j < m) : n = m := by
  have h1 := h n; have h2 := h m; omega

theorem sliceIntoSlice_at (o i : Sl) (j : Nat) : (sliceIntoSlice o i).at j = o.at (i.at j) := by
  simp only [sliceIntoSlice, mkSlice, Sl.at, Nat.mul_add, Nat.mul_assoc, Nat.add_assoc]

theorem sliceIntoSlicePre_witness :
    (sliceIntoSlicePre (mkSlice 2 10 2 10) (mkSlice 1 3 1 4)).size = 3 ∧ (mkSlice 1 3 1 4).size = 2 ∧
    (sliceIntoSlice (mkSlice 2 10 2 10) (mkSlice 1 3 1 4)).size = 2 := by decide

theorem catLocate_eq_locate (sizes : List Nat) (n k : Nat) : catLocate sizes n k = locate sizes n k := by
  induction sizes generalizing n k with
  | nil => rfl
  | cons s ss ih => simp only [catLocate, locate, ih]

theorem catPStart_pre_witness : catPStart true 0 3 2 = 1 ∧ catPStart false 0 3 2 = 3 := by decide

theorem catSlice_pre_witness : catSliceGlobal true [4, 5, 3] 3 9 2 = [1, 3, 5, 7] ∧ catSliceGlobal false [4, 5, 3] 3 9 2 = [3, 5, 7] ∧ sliceGlobal 12 3 9 2 = [3, 5, 7] := by decide

theorem cls_sis_iff (o i : Sl) (ho : o.wf) (hi : i.wf) (hd : i.dtype = o.size) (j : Nat) :
    o.start + o.step * i.start + (o.step * i.step) * j <
        min o.dtype (max (o.start + o.step * i.start) (o.start + o.step * i.stop)) ↔
      i.start + i.step * j < i.stop := by
  obtain ⟨ho1, ho2, ho3⟩ := ho
  obtain ⟨hi1, hi2, hi3⟩ := hi
  have e : o.start + o.step * i.start + (o.step * i.step) * j = o.start + o.step * (i.start + i.step * j) := by
    simp only [Nat.mul_add, Nat.mul_assoc, Nat.add_assoc]
  rw [e]
  generalize i.start + i.step * j = k
  have hm : o.step * i.start ≤ o.step * i.stop := Nat.mul_le_mul_left _ hi1
  have hlt : o.step * k < o.step * i.stop ↔ k < i.stop := Nat.mul_lt_mul_left ho3
  have hk : k < i.stop → o.start + o.step * k < o.stop := by
    intro h
    have : k < o.size := by omega
    exact (sliceLen_spec _ _ _ _ ho3).mp this
  omega

theorem sliceIntoSlice_size (o i : Sl) : o.wf → i.wf → i.dtype = o.size → (sliceIntoSlice o i).size = i.size := by
  intro ho hi hd
  apply cls_eq_of_lt_iff
  intro j
  have hs : 0 < o.step * i.step := Nat.mul_pos ho.2.2 hi.2.2
  simp only [Sl.size, sliceIntoSlice, mkSlice]
  rw [sliceLen_spec _ _ _ _ hs, sliceLen_spec _ _ _ _ hi.2.2]
  exact cls_sis_iff o i ho hi hd j

/-- Given the other hypotheses, the result of Slice-into-Slice satisfies `Slice.__init__`'s assertions iff its
    start does not overshoot the outer dtype. -/
theorem sliceIntoSlice_wf_iff (o i : Sl) (ho : o.wf) (hi : i.wf) :
    (sliceIntoSlice o i).wf ↔ o.start + o.step * i.start ≤ o.dtype := by
  obtain ⟨ho1, ho2, ho3⟩ := ho
  obtain ⟨hi1, hi2, hi3⟩ := hi
  have hp : 0 < o.step * i.step := Nat.mul_pos ho3 hi3
  simp only [Sl.wf, sliceIntoSlice, mkSlice]
  omega

/-- STRENGTHENED (non-empty inner slice): as stated without `hne` the theorem is false, see
    `sliceIntoSlice_wf_counterexample`. -/
theorem sliceIntoSlice_wf (o i : Sl) (hne : i.start < i.stop) :
    o.wf → i.wf → i.dtype = o.size → (sliceIntoSlice o i).wf := by
  intro ho hi hd
  rw [sliceIntoSlice_wf_iff o i ho hi]
  have : i.start < o.size := by have := hi.2.1; omega
  have := (sliceLen_spec _ _ _ _ ho.2.2).mp this
  have := ho.2.1
  omega

/-- `Slice('i', 0, 3, 2, 3)(i=Slice('j', 2, 2, 1, 2))`: an empty inner slice at the end of the outer slice's
    input; the new start `0 + 2·2 = 4` overshoots `dtype = 3`, `stop` is clamped to 3 and
    `Slice.__init__`'s `assert stop >= start` fails (AssertionError in funsor at HEAD). -/
theorem sliceIntoSlice_wf_counterexample :
    (⟨0, 3, 2, 3⟩ : Sl).wf ∧ (⟨2, 2, 1, 2⟩ : Sl).wf ∧ (⟨2, 2, 1, 2⟩ : Sl).dtype = (⟨0, 3, 2, 3⟩ : Sl).size ∧
    ¬ (sliceIntoSlice ⟨0, 3, 2, 3⟩ ⟨2, 2, 1, 2⟩).wf ∧
    (sliceIntoSlice ⟨0, 3, 2, 3⟩ ⟨2, 2, 1, 2⟩).size = (⟨2, 2, 1, 2⟩ : Sl).size := by decide

/-- The strengthened hypotheses are satisfiable. -/
example : (mkSlice 1 3 1 4).start < (mkSlice 1 3 1 4).stop ∧ (mkSlice 2 10 2 10).wf ∧ (mkSlice 1 3 1 4).wf ∧
    (mkSlice 1 3 1 4).dtype = (mkSlice 2 10 2 10).size := by decide

/-- Closed form of `pstart` (HEAD): the distance from `pos` up to the next element of the progression. -/
theorem cls_catPStart_eq (pos start step : Int) (hs : 0 < step) :
    catPStart false pos start step =
      if pos ≤ start then start - pos
      else if (pos - start) % step = 0 then 0 else step - (pos - start) % step := by
  unfold catPStart
  have hdm := Int.ediv_mul_add_emod (pos - start) step
  have hm0 := Int.emod_nonneg (pos - start) (Int.ne_of_gt hs)
  have hm1 := Int.emod_lt_of_pos (pos - start) hs
  by_cases h1 : step > 1
  · by_cases h2 : pos > start
    · rw [if_pos ⟨h1, Or.inr h2⟩, if_neg (show ¬ pos ≤ start by omega)]
      simp only []
      split <;> split <;> omega
    · rw [if_neg (by simp; omega), if_pos (by omega)]; omega
  · have : step = 1 := by omega
    subst this
    rw [if_neg (by simp)]
    simp only [Int.emod_one, if_true]
    split <;> omega

theorem catPStart_spec (pos start step : Int) (hp : 0 ≤ pos) (hst : 0 ≤ start) (hs : 0 < step) :
    let p := catPStart false pos start step
    0 ≤ p ∧ start ≤ pos + p ∧ (pos + p - start) % step = 0 ∧
      ∀ q : Int, 0 ≤ q → start ≤ pos + q → (pos + q - start) % step = 0 → p ≤ q := by
  intro p
  have _ := hp; have _ := hst
  have hp' : p = _ := cls_catPStart_eq pos start step hs
  have hm0 := Int.emod_nonneg (pos - start) (Int.ne_of_gt hs)
  have hm1 := Int.emod_lt_of_pos (pos - start) hs
  by_cases h1 : pos ≤ start
  · rw [if_pos h1] at hp'
    refine ⟨by omega, by omega, ?_, fun q _ _ _ => by omega⟩
    have : pos + p - start = 0 := by omega
    rw [this]; exact Int.zero_emod _
  · rw [if_neg h1] at hp'
    by_cases h2 : (pos - start) % step = 0
    · rw [if_pos h2] at hp'
      refine ⟨by omega, by omega, ?_, fun q _ _ _ => by omega⟩
      rw [hp', Int.add_zero]; exact h2
    · rw [if_neg h2] at hp'
      refine ⟨by omega, by omega, ?_, ?_⟩
      · have : pos + p - start = (pos - start) - (pos - start) % step + step := by omega
        rw [this]
        have hd := Int.mul_ediv_add_emod (pos - start) step
        have : (pos - start) - (pos - start) % step + step = step * ((pos - start) / step + 1) := by
          rw [Int.mul_add]; omega
        rw [this]; exact Int.mul_emod_right _ _
      · intro q hq0 _ hq
        apply Decidable.byContradiction
        intro hlt
        have e : pos + q - start = ((pos - start) % step + q) + step * ((pos - start) / step) := by
          have hd := Int.mul_ediv_add_emod (pos - start) step
          omega
        rw [e, Int.add_mul_emod_self_left, Int.emod_eq_of_lt (by omega) (by omega)] at hq
        omega

theorem cls_everyNth_getElem? {α : Type} (s : Nat) (hs : 0 < s) (l : List α) (k j : Nat) :
    (everyNth s l k)[j]? = l[k + s * j]? := by
  induction l generalizing k j with
  | nil => simp [everyNth]
  | cons x xs ih =>
    cases k with
    | zero =>
      cases j with
      | zero => simp [everyNth]
      | succ j =>
        simp only [everyNth, List.getElem?_cons_succ, ih]
        have : 0 + s * (j + 1) = (s - 1 + s * j) + 1 := by rw [Nat.mul_succ]; omega
        rw [this, List.getElem?_cons_succ]
    | succ k =>
      simp only [everyNth, ih]
      have : k + 1 + s * j = (k + s * j) + 1 := by omega
      rw [this, List.getElem?_cons_succ]

theorem pySlice_getElem? {α} (l : List α) (a b s j : Nat) (hs : 0 < s) :
    (pySlice l a b s)[j]? = if a + s * j < min b l.length then l[a + s * j]? else none := by
  unfold pySlice
  rw [cls_everyNth_getElem? s hs, List.getElem?_drop, List.getElem?_take, Nat.zero_add]
  by_cases h : a + s * j < b
  · rw [if_pos h]
    split
    · rfl
    · exact List.getElem?_eq_none (by omega)
  · rw [if_neg h, if_neg (by omega)]

theorem pySlice_length {α} (l : List α) (a b s : Nat) (hs : 0 < s) :
    (pySlice l a b s).length = sliceLen a (min b l.length) s := by
  apply cls_eq_of_lt_iff
  intro j
  rw [sliceLen_spec _ _ _ _ hs]
  have h1 := pySlice_getElem? l a b s j hs
  have h2 := @List.getElem?_eq_none_iff _ (pySlice l a b s) j
  have h3 := @List.getElem?_eq_none_iff _ l (a + s * j)
  by_cases h : a + s * j < min b l.length
  · rw [if_pos h] at h1
    have : ¬ l[a + s * j]? = none := by rw [h3]; omega
    rw [← h1, h2] at this
    omega
  · rw [if_neg h] at h1
    have := h2.mp h1
    omega

theorem cls_denoteNth_eq (ts : List Term) (i : Nat) (env : Env) :
    denoteNth ts i env = (ts[i]?).bind (fun t => denote t env) := by
  induction ts generalizing i with
  | nil => simp [denoteNth]
  | cons t ts ih =>
    cases i with
    | zero => simp [denoteNth]
    | succ i => simp [denoteNth, ih]

theorem stack_slice_sem (parts : List Term) (a b s j : Nat) (env : Env) (hs : 0 < s)
    (hj : j < sliceLen a (min b parts.length) s) :
    denoteNth (pySlice parts a b s) j env = denoteNth parts (a + s * j) env := by
  rw [cls_denoteNth_eq, cls_denoteNth_eq, pySlice_getElem? parts a b s j hs,
    if_pos ((sliceLen_spec _ _ _ _ hs).mp hj)]

theorem slice_subs_sem (n : Name) (a b c d : Nat) (v : Term) (env : Env) :
    denote (Term.subs (Term.slice n a b c d) [(n, v)]) env =
      ((denote v env).bind Sem.toNat?).map (fun i => Sem.ofNat (a + c * i)) := by
  rw [denote, denoteSubs, denoteSubs]
  cases h : denote v env with
  | none => simp
  | some x => simp [denote, Env.lookup]

theorem catSlice_part_select (pos psize start stop step q : Int) (hp : 0 ≤ pos) (hst : 0 ≤ start) (hs : 0 < step)
    (hq0 : 0 ≤ q) (hq : q < psize) :
    let ps := catPStart false pos start step
    (ps ≤ q ∧ (q - ps) % step = 0 ∧ q < catPStop pos psize stop) ↔
      (start ≤ pos + q ∧ (pos + q - start) % step = 0 ∧ pos + q < stop) := by
  intro ps
  obtain ⟨h0, h1, h2, h3⟩ := catPStart_spec pos start step hp hst hs
  have hstop : q < catPStop pos psize stop ↔ pos + q < stop := by unfold catPStop; omega
  rw [hstop]
  have d2 := Int.dvd_of_emod_eq_zero h2
  constructor
  · rintro ⟨a1, a2, a3⟩
    refine ⟨by omega, ?_, a3⟩
    have e : pos + q - start = (pos + ps - start) + (q - ps) := by omega
    rw [e]
    exact Int.emod_eq_zero_of_dvd (Int.dvd_add d2 (Int.dvd_of_emod_eq_zero a2))
  · rintro ⟨a1, a2, a3⟩
    refine ⟨h3 q hq0 a1 a2, ?_, a3⟩
    have e : q - ps = (pos + q - start) - (pos + ps - start) := by omega
    rw [e]
    exact Int.emod_eq_zero_of_dvd (Int.dvd_sub (Int.dvd_of_emod_eq_zero a2) d2)

/-- Two strictly increasing lists with the same members are equal. -/
theorem cls_eq_of_sorted : ∀ (l1 l2 : List Nat), l1.Pairwise (· < ·) → l2.Pairwise (· < ·) →
    (∀ x, x ∈ l1 ↔ x ∈ l2) → l1 = l2
  | [], [], _, _, _ => rfl
  | [], b :: _, _, _, h => by have := (h b).mpr (by simp); simp at this
  | a :: _, [], _, _, h => by have := (h a).mp (by simp); simp at this
  | a :: l1, b :: l2, h1, h2, h => by
    rw [List.pairwise_cons] at h1 h2
    have hab : a = b := by
      have ha := (h a).mp (by simp)
      have hb := (h b).mpr (by simp)
      rcases List.mem_cons.mp ha with e | ha'
      · exact e
      · rcases List.mem_cons.mp hb with e | hb'
        · exact e.symm
        · have := h1.1 b hb'; have := h2.1 a ha'; omega
    subst hab
    congr 1
    apply cls_eq_of_sorted l1 l2 h1.2 h2.2
    intro x
    constructor
    · intro hx
      have := (h x).mp (List.mem_cons_of_mem _ hx)
      rcases List.mem_cons.mp this with e | h'
      · have := h1.1 x hx; omega
      · exact h'
    · intro hx
      have := (h x).mpr (List.mem_cons_of_mem _ hx)
      rcases List.mem_cons.mp this with e | h'
      · have := h2.1 x hx; omega
      · exact h'

/-- The progression `a, a+s, … < b` as a list. -/
def cls_prog (a b s : Nat) : List Nat := (List.range (sliceLen a b s)).map (fun j => a + s * j)

theorem cls_mem_prog (a b s x : Nat) (hs : 0 < s) :
    x ∈ cls_prog a b s ↔ a ≤ x ∧ (x - a) % s = 0 ∧ x < b := by
  simp only [cls_prog, List.mem_map, List.mem_range, sliceLen_spec _ _ _ _ hs]
  constructor
  · rintro ⟨j, hj, rfl⟩
    refine ⟨Nat.le_add_right _ _, ?_, hj⟩
    rw [Nat.add_sub_cancel_left]; exact Nat.mul_mod_right _ _
  · rintro ⟨h1, h2, h3⟩
    refine ⟨(x - a) / s, ?_, ?_⟩
    · rw [Nat.mul_div_cancel' (Nat.dvd_of_mod_eq_zero h2)]; omega
    · rw [Nat.mul_div_cancel' (Nat.dvd_of_mod_eq_zero h2)]; omega

theorem cls_sorted_prog (a b s : Nat) (hs : 0 < s) : (cls_prog a b s).Pairwise (· < ·) := by
  unfold cls_prog
  rw [List.pairwise_map]
  apply List.Pairwise.imp _ List.pairwise_lt_range
  intro i j hij
  have := (Nat.mul_lt_mul_left (a := s) hs).mpr hij
  omega

/-- The selection predicate of the global slice. -/
def cls_sel (start stop step : Nat) (x : Nat) : Bool :=
  decide (start ≤ x ∧ (x - start) % step = 0 ∧ x < stop)

theorem cls_sliceGlobal_eq (total start stop step : Nat) (hs : 0 < step) :
    sliceGlobal total start stop step = (List.range' 0 total).filter (cls_sel start stop step) := by
  apply cls_eq_of_sorted
  · exact cls_sorted_prog start (min total (max start stop)) step hs
  · exact List.Pairwise.filter _ (List.pairwise_lt_range' 1)
  · intro x
    have e : sliceGlobal total start stop step = cls_prog start (min total (max start stop)) step := rfl
    rw [e, cls_mem_prog _ _ _ _ hs]
    simp only [List.mem_filter, List.mem_range'_1, cls_sel, decide_eq_true_eq]
    omega

/-- The offsets accumulated by `catSliceGlobal` are the prefix sums. -/
theorem cls_offs (l : List Nat) : ∀ (acc : List Nat) (p : Nat),
    (l.foldl (fun (acc : List Nat × Nat) s => (acc.1 ++ [acc.2], acc.2 + s)) (acc, p)).1 =
      acc ++ (List.range l.length).map (fun i => p + (l.take i).sum) := by
  induction l with
  | nil => intro acc p; simp
  | cons s rest ih =>
    intro acc p
    simp only [List.foldl_cons, ih, List.length_cons, List.range_succ_eq_map, List.map_cons, List.map_map,
      List.take_zero, List.sum_nil, Nat.add_zero, List.append_assoc, List.singleton_append]
    congr 2
    apply List.map_congr_left
    intro i _
    simp [Nat.add_assoc]

/-- What one `(part index, local indices)` entry contributes, given the offsets. -/
def cls_glob (offs : List Nat) : Nat × List Nat → List Nat := fun (k, locs) =>
  match offs[k]? with
  | some off => locs.map (off + ·)
  | none => []

theorem cls_catSliceGlobal_eq (pre : Bool) (sizes : List Nat) (start stop step : Nat) :
    catSliceGlobal pre sizes start stop step =
      (catSliceParts.go pre start stop step sizes 0 0).flatMap
        (cls_glob ((List.range sizes.length).map (fun i => (sizes.take i).sum))) := by
  unfold catSliceGlobal catSliceParts
  simp only [cls_offs, List.nil_append, Nat.zero_add]
  rfl

theorem cls_mod_cast (a x s : Nat) (h : a ≤ x) : ((x : Int) - a) % (s : Int) = 0 ↔ (x - a) % s = 0 := by
  rw [← Int.ofNat_sub h]
  norm_cast

/-- `catSlice_part_select` for natural numbers. -/
theorem cls_part_nat (start stop step pos psize q : Nat) (hs : 0 < step) (hq : q < psize) :
    ((catPStart false pos start step).toNat ≤ q ∧ (q - (catPStart false pos start step).toNat) % step = 0 ∧
        (q : Int) < catPStop pos psize stop) ↔
      (start ≤ pos + q ∧ (pos + q - start) % step = 0 ∧ pos + q < stop) := by
  have h := catSlice_part_select pos psize start stop step q (by omega) (by omega) (by omega) (by omega) (by omega)
  have h0 := (catPStart_spec pos start step (by omega) (by omega) (by omega)).1
  simp only [] at h h0
  generalize catPStart false pos start step = ps at h h0 ⊢
  obtain ⟨n, rfl⟩ := Int.eq_ofNat_of_zero_le h0
  simp only [Int.toNat_natCast]
  constructor
  · rintro ⟨a1, a2, a3⟩
    have := h.mp ⟨by omega, (cls_mod_cast n q step a1).mpr a2, a3⟩
    have b1 : start ≤ pos + q := by omega
    have b2 := (cls_mod_cast start (pos + q) step b1).mp (by simpa using this.2.1)
    exact ⟨b1, b2, by omega⟩
  · rintro ⟨b1, b2, b3⟩
    have := h.mpr ⟨by omega, by simpa using (cls_mod_cast start (pos + q) step b1).mpr b2, by omega⟩
    have a1 : n ≤ q := by omega
    exact ⟨a1, (cls_mod_cast n q step a1).mp this.2.1, this.2.2⟩

/-- The local indices `Cat.eager_subs` selects in the part at `pos` (HEAD). -/
def cls_here (start stop step pos psize : Nat) : List Nat :=
  if catPartKept false pos psize start stop step then
    cls_prog (catPStart false pos start step).toNat
      (min psize (max (catPStart false pos start step).toNat (catPStop pos psize stop).toNat)) step
  else []

/-- Per part: shifted by the part's offset, the selected local indices are the globally selected positions that
    fall inside the part. -/
theorem cls_part (start stop step pos psize : Nat) (hs : 0 < step) :
    (cls_here start stop step pos psize).map (pos + ·) =
      (List.range' pos psize).filter (cls_sel start stop step) := by
  have key := fun q hq => cls_part_nat start stop step pos psize q hs hq
  have h0 := (catPStart_spec pos start step (by omega) (by omega) (by omega)).1
  unfold cls_here
  generalize hps : catPStart false pos start step = ps at key h0 ⊢
  generalize hpe : catPStop pos psize stop = pe at key ⊢
  have hpe' : pe ≤ psize := by rw [← hpe]; unfold catPStop; omega
  by_cases hk : catPartKept false pos psize start stop step = true
  · rw [if_pos hk]
    apply cls_eq_of_sorted
    · rw [List.pairwise_map]
      apply List.Pairwise.imp _ (cls_sorted_prog _ _ _ hs)
      intro a b hab; omega
    · exact List.Pairwise.filter _ (List.pairwise_lt_range' 1)
    · intro x
      simp only [List.mem_map, cls_mem_prog _ _ _ _ hs, List.mem_filter, List.mem_range'_1, cls_sel,
        decide_eq_true_eq]
      constructor
      · rintro ⟨q, ⟨a1, a2, a3⟩, rfl⟩
        have hq : q < psize := by omega
        have := (key q hq).mp ⟨a1, a2, by omega⟩
        exact ⟨by omega, this⟩
      · rintro ⟨⟨c1, c2⟩, b⟩
        obtain ⟨q, rfl⟩ : ∃ q, x = pos + q := ⟨x - pos, by omega⟩
        have hq : q < psize := by omega
        have := (key q hq).mpr b
        exact ⟨q, ⟨this.1, this.2.1, by omega⟩, rfl⟩
  · rw [if_neg hk, List.map_nil]
    symm
    rw [List.filter_eq_nil_iff]
    intro x hx hsel
    rw [List.mem_range'_1] at hx
    obtain ⟨q, rfl⟩ : ∃ q, x = pos + q := ⟨x - pos, by omega⟩
    have hq : q < psize := by omega
    simp only [cls_sel, decide_eq_true_eq] at hsel
    have := (key q hq).mpr hsel
    apply hk
    simp only [catPartKept, hpe, hps, Bool.not_eq_true', Bool.or_eq_false_iff, decide_eq_false_iff_not]
    omega

theorem cls_go (start stop step : Nat) (hs : 0 < step) (offs : List Nat) : ∀ (l : List Nat) (pos k : Nat),
    (∀ i, i < l.length → offs[k + i]? = some (pos + (l.take i).sum)) →
    (catSliceParts.go false start stop step l pos k).flatMap (cls_glob offs) =
      (List.range' pos l.sum).filter (cls_sel start stop step) := by
  intro l
  induction l with
  | nil => intro pos k _; simp [catSliceParts.go]
  | cons psize rest ih =>
    intro pos k h
    have hk : offs[k]? = some pos := by simpa using h 0 (by simp)
    have hrest := ih (pos + psize) (k + 1) (by
      intro i hi
      have := h (i + 1) (by simpa using hi)
      simpa [Nat.add_assoc, Nat.add_comm 1 i] using this)
    have hhere : (if catPartKept false pos psize start stop step = true then
          [(k, (List.range (mkSlice (catPStart false pos start step).toNat (catPStop pos psize stop).toNat step psize).size).map
            (mkSlice (catPStart false pos start step).toNat (catPStop pos psize stop).toNat step psize).at)]
        else []).flatMap (cls_glob offs) = (cls_here start stop step pos psize).map (pos + ·) := by
      unfold cls_here
      split
      · simp only [List.flatMap_cons, List.flatMap_nil, List.append_nil, cls_glob, hk]
        rfl
      · rfl
    rw [catSliceParts.go]
    simp only [List.flatMap_append]
    rw [hhere, hrest, cls_part _ _ _ _ _ hs, List.sum_cons, ← List.range'_append, Nat.one_mul, List.filter_append]

/-- **Cat with a slice** (HEAD), no hypothesis on `start`/`stop`: the global positions enumerated by the per-part
    slices are exactly the positions of the global slice, in order. -/
theorem catSlice_sem_general (sizes : List Nat) (start stop step : Nat) (hs : 0 < step) :
    catSliceGlobal false sizes start stop step = sliceGlobal sizes.sum start stop step := by
  rw [cls_catSliceGlobal_eq, cls_sliceGlobal_eq _ _ _ _ hs]
  apply cls_go _ _ _ hs
  intro i hi
  simp [hi]

theorem catSlice_sem (sizes : List Nat) (start stop step : Nat) (hs : 0 < step) (hst : start ≤ stop)
    (hstop : stop ≤ sizes.sum) :
    catSliceGlobal false sizes start stop step = sliceGlobal sizes.sum start stop step := by
  have _ := hst; have _ := hstop
  exact catSlice_sem_general sizes start stop step hs


/-! ### Slice.eager_subs, Variable branch: renaming keeps the window -/

/-- Renaming the input of a (possibly strided) Slice preserves the window: same parameters, hence the same size of the
    new input and the same value at every index. -/
theorem slice_rename_keeps_window (s : Sl) (h : s.wf) :
    sliceRename s = s ∧ (sliceRename s).size = s.size ∧ ∀ j, (sliceRename s).at j = s.at j := by
  have he : sliceRename s = s := by
    obtain ⟨a, b, c, d⟩ := s
    simp only [Sl.wf] at h
    simp only [sliceRename, mkSlice, Sl.mk.injEq, and_true, true_and]
    omega
  exact ⟨he, by rw [he], fun j => by rw [he]⟩

/-- Rebuilding the window from its size instead is wrong for strides > 1: `Slice("k",1,6,2,10)(k="j")` would get
    `Bint[2]` instead of `Bint[3]` (and is right for step 1). -/
theorem slice_rename_by_size_witness :
    (sliceRenameBySize (mkSlice 1 6 2 10)).size = 2 ∧ (mkSlice 1 6 2 10).size = 3 ∧
    (sliceRename (mkSlice 1 6 2 10)).size = 3 ∧ (sliceRenameBySize (mkSlice 1 6 1 10)).size = (mkSlice 1 6 1 10).size := by
  decide

end FV.Props.C04
