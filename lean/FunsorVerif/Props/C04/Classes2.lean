/-
  Props/C04/Classes2.lean — the remaining per-class `eager_subs` methods: MarkovProduct / Scatter (renaming of the
  visible names then a lazy `Subs`), Constant (bookkeeping of `const_inputs`), Delta (ground value / renaming) and
  Independent (renaming / general value), each against the simultaneous substitution.
  Core-only.
-/
import FunsorVerif.Model.C04.Classes2
import FunsorVerif.Props.C04.NT
import FunsorVerif.Props.C04.Subst
namespace FV.Props.C04
open FV FV.C04

/-! ### MarkovProduct / Scatter -/

theorem c2_nlookup_map (l : List (Name × Name)) (f : Name → Name) (k : Name) :
    nlookup (l.map (fun p => (p.1, f p.2))) k = (nlookup l k).map f := by
  induction l with
  | nil => rfl
  | cons p r ih =>
    obtain ⟨a, b⟩ := p
    simp only [List.map_cons, nlookup]
    split
    · rfl
    · exact ih

/-- M1: `MarkovProduct.eager_subs` — renaming `step_names` and then `Subs(result, lazy)` — is the simultaneous
    substitution, provided no renaming target is itself a key of a non-Variable pair (`noSeqClash`) and every key of σ
    is a visible step name or absent (`hkeys`: a bound name that is not a step name is read under its own name, which σ
    must not touch). -/
theorem mp_subs_sem {V : Type} (m : MP V) (σ : List (Name × MVal V)) (env : Name → V) (hclash : noSeqClash σ)
    (hkeys : ∀ k, nlookup m.stepNames k = none → mlookup σ k = none) :
    m.eagerSubs σ env = m.sem (simEnv σ env) := by
  simp only [MP.eagerSubs, MP.sem]
  have hcore : (m.rename σ).core = m.core := rfl
  rw [hcore]
  congr 1
  funext k
  have hmap : nlookup (m.rename σ).stepNames k =
      (nlookup m.stepNames k).map (fun b => match mlookup σ b with | some (MVal.var x) => x | _ => b) :=
    c2_nlookup_map m.stepNames (fun b => match mlookup σ b with | some (MVal.var x) => x | _ => b) k
  rw [hmap]
  cases hk : nlookup m.stepNames k with
  | none =>
    simp only [Option.map_none, lazyEnv, simEnv, hkeys k hk]
  | some v =>
    simp only [Option.map_some]
    cases hv : mlookup σ v with
    | none => simp only [lazyEnv, simEnv, hv]
    | some mv =>
      cases mv with
      | val f => simp only [lazyEnv, simEnv, hv]
      | var x =>
        simp only [lazyEnv, simEnv, hv]
        cases hx : mlookup σ x with
        | none => rfl
        | some mx =>
          cases mx with
          | var y => rfl
          | val f => exact absurd hx (hclash v x hv f)

/-- M2: without `noSeqClash` the method is a SEQUENTIAL substitution, not the simultaneous one
    (`mp(a='b', b=0)`: `a` is renamed to `b`, then the lazy `Subs` replaces that `b` by 0 as well). -/
theorem mp_subs_seq_witness :
    (MP.mk [("a0", "a"), ("b0", "b")] (fun e : Name → Nat => 10 * e "a0" + e "b0")).eagerSubs
        [("a", MVal.var "b"), ("b", MVal.val (fun _ => 0))] (fun _ => 1) = 0 ∧
    (MP.mk [("a0", "a"), ("b0", "b")] (fun e : Name → Nat => 10 * e "a0" + e "b0")).sem
        (simEnv [("a", MVal.var "b"), ("b", MVal.val (fun _ => 0))] (fun _ => 1)) = 10 := by
  decide

theorem c2_nlookup_diag (keys : List Name) (k : Name) (h : nlookup (keys.map (fun k => (k, k))) k = none) :
    k ∉ keys := by
  induction keys with
  | nil => simp
  | cons a r ih =>
    simp only [List.map_cons, nlookup] at h
    split at h
    · cases h
    · rename_i hne
      simp only [List.mem_cons, not_or]
      exact ⟨fun e => hne e.symm, ih h⟩

/-- M3: `Scatter.eager_subs` (identity step names) is right for pure renamings. -/
theorem scatter_rename_sem {V : Type} (keys : List Name) (core : (Name → V) → V) (σ : List (Name × MVal V))
    (env : Name → V) (hall : ∀ k v, mlookup σ k = some v → ∃ x, v = MVal.var x)
    (hkeys : ∀ k, k ∉ keys → mlookup σ k = none) :
    (MP.mk (keys.map (fun k => (k, k))) core).eagerSubs σ env =
      (MP.mk (keys.map (fun k => (k, k))) core).sem (simEnv σ env) := by
  apply mp_subs_sem
  · intro k x _ f hf
    obtain ⟨y, hy⟩ := hall x _ hf
    cases hy
  · intro k hk
    exact hkeys k (c2_nlookup_diag keys k hk)


/-! ### Constant: bookkeeping of `const_inputs` -/

/-- One iteration of the loop of `Constant.eager_subs`, with the set `F` of the Constant's own input names explicit. -/
def c2_constStep (F : List Name) (valueIns : Name → Option Inputs) (acc : Inputs) (p : Name × Nat) : Inputs :=
  match valueIns p.1 with
  | some vi => odUpdate acc (vi.filter (fun q => decide (q.1 ∉ F)))
  | none => odSet acc p.1 p.2

theorem c2_constSubs_eq (consts argIns : Inputs) (valueIns : Name → Option Inputs) :
    constSubs consts argIns valueIns = consts.foldl (c2_constStep (names (consts ++ argIns)) valueIns) [] := rfl

theorem c2_mem_constFold (F : List Name) (valueIns : Name → Option Inputs) (l acc : Inputs) (n : Name) :
    n ∈ names (l.foldl (c2_constStep F valueIns) acc) ↔
      n ∈ names acc ∨ ∃ p ∈ l, (valueIns p.1 = none ∧ n = p.1) ∨
        ∃ vi, valueIns p.1 = some vi ∧ n ∈ names vi ∧ n ∉ F := by
  induction l generalizing acc with
  | nil => simp
  | cons p r ih =>
    simp only [List.foldl_cons]
    rw [ih]
    unfold c2_constStep
    cases hs : valueIns p.1 with
    | none =>
      simp only [mem_names_odSet]
      constructor
      · rintro ((h | h) | ⟨q, hq, h⟩)
        · exact Or.inl h
        · exact Or.inr ⟨p, by simp, Or.inl ⟨hs, h⟩⟩
        · exact Or.inr ⟨q, List.mem_cons_of_mem _ hq, h⟩
      · rintro (h | ⟨q, hq, h⟩)
        · exact Or.inl (Or.inl h)
        · rcases List.mem_cons.mp hq with rfl | hq'
          · rcases h with ⟨_, h⟩ | ⟨vi, hvi, _⟩
            · exact Or.inl (Or.inr h)
            · rw [hs] at hvi; cases hvi
          · exact Or.inr ⟨q, hq', h⟩
    | some vi =>
      simp only [mem_names_odUpdate]
      have hf : n ∈ names (vi.filter (fun q => decide (q.1 ∉ F))) ↔ n ∈ names vi ∧ n ∉ F := by
        simp only [names, List.mem_map, List.mem_filter, decide_eq_true_eq]
        constructor
        · rintro ⟨q, ⟨hq, hqF⟩, rfl⟩; exact ⟨⟨q, hq, rfl⟩, hqF⟩
        · rintro ⟨⟨q, hq, rfl⟩, hF⟩; exact ⟨q, ⟨hq, hF⟩, rfl⟩
      rw [hf]
      constructor
      · rintro ((h | h) | ⟨q, hq, h⟩)
        · exact Or.inl h
        · exact Or.inr ⟨p, by simp, Or.inr ⟨vi, hs, h.1, h.2⟩⟩
        · exact Or.inr ⟨q, List.mem_cons_of_mem _ hq, h⟩
      · rintro (h | ⟨q, hq, h⟩)
        · exact Or.inl (Or.inl h)
        · rcases List.mem_cons.mp hq with rfl | hq'
          · rcases h with ⟨hn, _⟩ | ⟨vi', hvi, h1, h2⟩
            · rw [hs] at hn; cases hn
            · rw [hs] at hvi; cases hvi; exact Or.inl (Or.inr ⟨h1, h2⟩)
          · exact Or.inr ⟨q, hq', h⟩

/-- The inputs of the result of `Constant.eager_subs`, exactly. -/
theorem c2_mem_constSubs (consts argIns : Inputs) (valueIns : Name → Option Inputs) (n : Name) :
    n ∈ names (constSubs consts argIns valueIns) ↔
      ∃ p ∈ consts, (valueIns p.1 = none ∧ n = p.1) ∨
        ∃ vi, valueIns p.1 = some vi ∧ n ∈ names vi ∧ n ∉ names (consts ++ argIns) := by
  rw [c2_constSubs_eq, c2_mem_constFold]; simp [names]

/-- K1(a): every const input of the result is a kept const input or an input of the value of a substituted one. -/
theorem const_subs_sub (consts argIns : Inputs) (valueIns : Name → Option Inputs) (n : Name)
    (h : n ∈ names (constSubs consts argIns valueIns)) :
    (n ∈ names consts ∧ valueIns n = none) ∨
      ∃ k vi, k ∈ names consts ∧ valueIns k = some vi ∧ n ∈ names vi := by
  obtain ⟨p, hp, h⟩ := (c2_mem_constSubs consts argIns valueIns n).mp h
  have hpn : p.1 ∈ names consts := List.mem_map.mpr ⟨p, hp, rfl⟩
  rcases h with ⟨hn, rfl⟩ | ⟨vi, hvi, hm, _⟩
  · exact Or.inl ⟨hpn, hn⟩
  · exact Or.inr ⟨p.1, vi, hpn, hvi, hm⟩

/-- K1(b): every kept const input survives, and every input of the value of a substituted const input becomes a const
    input unless it already is an input of the Constant. -/
theorem const_subs_sup (consts argIns : Inputs) (valueIns : Name → Option Inputs) (n : Name) :
    (n ∈ names consts → valueIns n = none → n ∈ names (constSubs consts argIns valueIns)) ∧
    (∀ k vi, k ∈ names consts → valueIns k = some vi → n ∈ names vi → n ∉ names (consts ++ argIns) →
      n ∈ names (constSubs consts argIns valueIns)) := by
  constructor
  · intro hn hv
    obtain ⟨p, hp, rfl⟩ := List.mem_map.mp hn
    exact (c2_mem_constSubs consts argIns valueIns p.1).mpr ⟨p, hp, Or.inl ⟨hv, rfl⟩⟩
  · intro k vi hk hv hm hF
    obtain ⟨p, hp, rfl⟩ := List.mem_map.mp hk
    exact (c2_mem_constSubs consts argIns valueIns n).mpr ⟨p, hp, Or.inr ⟨vi, hv, hm, hF⟩⟩

/-- K1(c): the result is an OrderedDict (no repeated key). -/
theorem const_subs_nodup (consts argIns : Inputs) (valueIns : Name → Option Inputs) :
    (names (constSubs consts argIns valueIns)).Nodup := by
  rw [c2_constSubs_eq]
  suffices h : ∀ (l acc : Inputs), (names acc).Nodup →
      (names (l.foldl (c2_constStep (names (consts ++ argIns)) valueIns) acc)).Nodup from
    h consts [] (by simp [names])
  intro l
  induction l with
  | nil => intro acc h; exact h
  | cons p r ih =>
    intro acc h
    simp only [List.foldl_cons]
    apply ih
    unfold c2_constStep
    split
    · exact nodup_odUpdate _ _ h
    · exact nodup_odSet _ _ _ h


/-! ### Delta -/

/-- D1: `Delta.eager_subs`, ground value, one term: the log-density where the value equals the point, `-inf` elsewhere
    (`+ 0` is the empty rest of the Delta, as `denoteDelta` folds it). -/
theorem delta_subs_ground (n : Name) (p d v : Term) (env : Env) (hp : n ∉ p.fv) (hd : n ∉ d.fv) :
    denote (Term.subs (Term.delta [(n, p, d)]) [(n, v)]) env =
      (match denote v env, denote p env, denote d env with
        | some xv, some pv, some dv => Sem.zip? (binop "add") (deltaHitMiss xv pv dv) (Sem.scalar 0)
        | _, _, _ => none) := by
  rw [subs_denote]
  simp only [denoteSubs]
  cases hv : denote v env with
  | none => simp
  | some xv =>
    have hpe : denote p ((n, xv) :: env) = denote p env :=
      denote_coincidence p _ _ (fun m hm => by
        rw [lookup_cons]; split
        · rename_i e; subst e; exact absurd hm hp
        · rfl)
    have hde : denote d ((n, xv) :: env) = denote d env :=
      denote_coincidence d _ _ (fun m hm => by
        rw [lookup_cons]; split
        · rename_i e; subst e; exact absurd hm hd
        · rfl)
    simp only [Option.bind_some, List.cons_append, List.nil_append, denote, denoteDelta, lookup_cons, if_true,
      hpe, hde, deltaHitMiss]
    cases denote p env <;> cases denote d env <;> rfl

/-- D2: what the code literally computes (`is_equal.log() + log_density`) is the hit/miss value for a finite
    log-density. -/
theorem logIndicatorPlus_spec (hit : Bool) (q : Rat) :
    logIndicatorPlus hit (XR.fin q) = if hit then XR.fin q else XR.ninf := by
  cases hit
  · rfl
  · show XR.fin (((0 : Nat) : Rat) + q) = XR.fin q
    simp [Rat.zero_add]

/-- The corner: a miss against a `+inf` log-density is `nan`, not `-inf`. -/
theorem logIndicatorPlus_pinf_corner : logIndicatorPlus false XR.pinf = XR.nan := rfl

/-- D3: `Delta.eager_subs` with a `Variable` value renames the Delta's name (no freshness of `x` needed: the point and
    the log-density are read in the caller's environment on both sides). -/
theorem delta_subs_rename (n x : Name) (p d : Term) (dom : Dom) (env : Env) (hp : n ∉ p.fv) (hd : n ∉ d.fv) :
    denote (Term.subs (Term.delta [(n, p, d)]) [(n, Term.var x dom)]) env = denote (Term.delta [(x, p, d)]) env := by
  rw [subs_denote]
  simp only [denoteSubs, denote]
  cases hx : env.lookup x with
  | none => simp [denoteDelta, hx]
  | some xv =>
    have hpe : denote p ((n, xv) :: env) = denote p env :=
      denote_coincidence p _ _ (fun m hm => by
        rw [lookup_cons]; split
        · rename_i e; subst e; exact absurd hm hp
        · rfl)
    have hde : denote d ((n, xv) :: env) = denote d env :=
      denote_coincidence d _ _ (fun m hm => by
        rw [lookup_cons]; split
        · rename_i e; subst e; exact absurd hm hd
        · rfl)
    simp only [Option.bind_some, List.cons_append, List.nil_append, denoteDelta, lookup_cons, if_true, hpe, hde, hx]


/-! ### Independent -/

/-- The body of an `Independent` does not see an extra binding of `rv` below the `dv`/`bv` bindings, when `rv` is not
    one of its inputs (funsor asserts `reals_var not in fn.inputs`) or is shadowed. -/
theorem c2_indep_body (fn : Term) (rv bv dv : Name) (xv s b : Sem) (env : Env)
    (hrv : rv ∉ fn.fv ∨ rv = bv ∨ rv = dv) :
    denote fn ((dv, s) :: (bv, b) :: (rv, xv) :: env) = denote fn ((dv, s) :: (bv, b) :: env) := by
  apply denote_coincidence
  intro m hm
  simp only [lookup_cons]
  by_cases h1 : dv = m
  · simp [h1]
  · by_cases h2 : bv = m
    · simp [h2]
    · simp only [h1, h2, if_false]
      split
      · rename_i e; subst e
        rcases hrv with h | h | h
        · exact absurd hm h
        · exact absurd h.symm h2
        · exact absurd h.symm h1
      · rfl

/-- I1: `Independent.eager_subs` with a `Variable` value renames `reals_var`.  (No condition on `x`: it is only read in
    the caller's environment.) -/
theorem indep_subs_rename (fn : Term) (rv bv dv x : Name) (size : Nat) (dom : Dom) (env : Env)
    (hrv : rv ∉ fn.fv ∨ rv = bv ∨ rv = dv) :
    denote (Term.subs (Term.independent fn rv bv dv size) [(rv, Term.var x dom)]) env =
      denote (Term.independent fn x bv dv size) env := by
  rw [subs_denote]
  simp only [denoteSubs, denote]
  cases hx : env.lookup x with
  | none => simp
  | some xv =>
    simp only [Option.bind_some, List.cons_append, List.nil_append, lookup_cons, if_true]
    rw [denoteAll_map_congr fn _ (fun i => (dv, ⟨xv.shape.drop 1, fun idx => xv.get (i :: idx)⟩) ::
      (bv, Sem.ofNat i) :: env) (List.range size) (fun i _ => c2_indep_body fn rv bv dv xv _ _ env hrv)]

theorem c2_toNat_ofNat (i : Nat) : (Sem.ofNat i).toNat? = some i := by
  simp [Sem.ofNat, Sem.scalar, Sem.toNat?]

theorem c2_assignments_one (bv : Name) (size : Nat) :
    assignments [(bv, ⟨DType.bint size, []⟩)] = some ((List.range size).map (fun i => [(bv, Sem.ofNat i)])) := by
  simp only [assignments, List.map_cons, List.map_nil]
  congr 1
  induction (List.range size) with
  | nil => rfl
  | cons a r ih => simp [List.flatMap_cons, ih]

theorem c2_getitem_zero (xv : Sem) (size i : Nat) (rest : List Nat) (hshape : xv.shape = size :: rest)
    (hi : i < size) :
    evalBinary ⟨"getitem", Sexp.list []⟩ xv (Sem.ofNat i) =
      some ⟨xv.shape.drop 1, fun idx => xv.get (i :: idx)⟩ := by
  simp [evalBinary, paramOf, c2_toNat_ofNat, Sem.getitem, hshape, hi]

/-- The per-index step of I2: under the binding `bv ↦ i`, substituting `value[bv]` for the diagonal variable evaluates
    `fn` at the `i`-th slice of the value. -/
theorem c2_indep_index (fn value : Term) (bv dv : Name) (size i : Nat) (env : Env) (xv : Sem)
    (hv : denote value env = some xv) (hshape : ∃ rest, xv.shape = size :: rest) (hbv : bv ∉ value.fv)
    (hi : i < size) :
    denote (Term.subs fn [(dv, Term.binary ⟨"getitem", Sexp.list []⟩ value (Term.var bv ⟨DType.bint size, []⟩))])
        ((bv, Sem.ofNat i) :: env) =
      denote fn ((dv, ⟨xv.shape.drop 1, fun idx => xv.get (i :: idx)⟩) :: (bv, Sem.ofNat i) :: env) := by
  obtain ⟨rest, hshape⟩ := hshape
  have hve : denote value ((bv, Sem.ofNat i) :: env) = some xv := by
    rw [← hv]
    exact denote_coincidence value _ _ (fun m hm => by
      rw [lookup_cons]; split
      · rename_i e; subst e; exact absurd hm hbv
      · rfl)
  rw [subs_denote]
  simp only [denoteSubs, denote, hve, lookup_cons, if_true, c2_getitem_zero xv size i rest hshape hi,
    Option.bind_some, List.cons_append, List.nil_append]

/-- I2: `Independent.eager_subs`, non-Variable branch: `Subs(fn, diag_var := value[bint_var]).reduce(add, bint_var)`
    is the Independent at the substituted value.  `hbv`: the value does not mention `bint_var` (it is bound by the
    reduction); `hrv`: `reals_var` is not an input of `fn` (funsor's assertion), or is shadowed. -/
theorem indep_subs_value (fn value : Term) (rv bv dv : Name) (size : Nat) (env : Env) (xv : Sem)
    (hv : denote value env = some xv) (hshape : ∃ rest, xv.shape = size :: rest) (hbv : bv ∉ value.fv)
    (hrv : rv ∉ fn.fv ∨ rv = bv ∨ rv = dv) :
    denote (indepSubsTerm fn bv dv size value) env =
      denote (Term.subs (Term.independent fn rv bv dv size) [(rv, value)]) env := by
  have hL : denoteAll
        (Term.subs fn [(dv, Term.binary ⟨"getitem", Sexp.list []⟩ value (Term.var bv ⟨DType.bint size, []⟩))])
        ((List.range size).map (fun i => (bv, Sem.ofNat i) :: env)) =
      denoteAll fn ((List.range size).map (fun i =>
        (dv, ⟨xv.shape.drop 1, fun idx => xv.get (i :: idx)⟩) :: (bv, Sem.ofNat i) :: (rv, xv) :: env)) :=
    denoteAll_map_congr2 _ _ _ _ _ (fun i hi => by
      rw [c2_indep_index fn value bv dv size i env xv hv hshape hbv (List.mem_range.mp hi),
        c2_indep_body fn rv bv dv xv _ _ env hrv])
  rw [subs_denote]
  unfold indepSubsTerm
  rw [denote, c2_assignments_one]
  simp only [List.map_map]
  have hcomp : ((fun x => x ++ env) ∘ fun i => [(bv, Sem.ofNat i)]) = fun i => (bv, Sem.ofNat i) :: env := by
    funext i; rfl
  rw [hcomp, hL]
  simp only [denoteSubs, hv, Option.bind_some, List.cons_append, List.nil_append]
  rw [denote]
  simp only [lookup_cons, if_true]


/-- A value of shape `[2]` for the non-vacuity check below. -/
def c2_exV : Sem := ⟨[2], fun idx => match idx with | [0] => 1 | _ => 2⟩

/-- The hypotheses of `indep_subs_value` are satisfiable and the term is defined there: with `fn := d` (the diagonal
    variable itself) and `value := v = [1, 2]`, the result is `1 + 2`. -/
example :
    denote (Term.var "v" ⟨DType.real, [2]⟩) [("v", c2_exV)] = some c2_exV ∧ (∃ rest, c2_exV.shape = 2 :: rest) ∧
    "b" ∉ (Term.var "v" ⟨DType.real, [2]⟩).fv ∧ "r" ∉ (Term.var "d" ⟨DType.real, []⟩).fv ∧
    (denote (indepSubsTerm (Term.var "d" ⟨DType.real, []⟩) "b" "d" 2 (Term.var "v" ⟨DType.real, [2]⟩))
      [("v", c2_exV)]).map (·.get []) = some 3 := by
  refine ⟨by simp [denote, Env.lookup], ⟨[], rfl⟩, by simp [Term.fv], by simp [Term.fv], ?_⟩
  unfold indepSubsTerm
  rw [denote, c2_assignments_one]
  simp [denoteAll, subs_denote, denoteSubs, denote, Env.lookup, List.range, List.range.loop, Sem.foldList, foldOp,
    binop, c2_exV]
  decide +kernel


/-! ### HEAD: the guard of MarkovProduct.eager_subs / Scatter.eager_subs establishes `noSeqClash` -/

theorem c2_mlookup_mem {V : Type} {σ : List (Name × MVal V)} {k : Name} {v : MVal V} (h : mlookup σ k = some v) :
    (k, v) ∈ σ := by
  induction σ with
  | nil => cases h
  | cons p r ih =>
    obtain ⟨k', v'⟩ := p
    simp only [mlookup] at h
    split at h
    · rename_i e; cases h; subst e; simp
    · exact List.mem_cons_of_mem _ (ih h)

theorem seqClash_false_noSeqClash {V : Type} (σ : List (Name × MVal V)) (h : seqClash σ = false) : noSeqClash σ := by
  intro k x hk f hf
  have hm := c2_mlookup_mem hk
  have : seqClash σ = true := by
    unfold seqClash
    apply List.any_eq_true.mpr
    exact ⟨(k, MVal.var x), hm, by simp [hf]⟩
  rw [h] at this; cases this

/-- **HEAD**: whenever `MarkovProduct.eager_subs` / `Scatter.eager_subs` returns a value (does not decline), it is the
    simultaneous substitution — the side condition of `mp_subs_sem` is now checked by the code itself. -/
theorem mp_subs_head_sem {V : Type} (m : MP V) (σ : List (Name × MVal V)) (env : Name → V) (v : V)
    (hkeys : ∀ k, nlookup m.stepNames k = none → mlookup σ k = none)
    (h : m.eagerSubsHead σ env = some v) : v = m.sem (simEnv σ env) := by
  unfold MP.eagerSubsHead at h
  split at h
  · cases h
  · rename_i hg
    have hc : seqClash σ = false := by
      cases hs : seqClash σ
      · rfl
      · simp [hs] at hg
    cases h
    exact mp_subs_sem m σ env (seqClash_false_noSeqClash σ hc) hkeys

/-- On the witness of the old behaviour HEAD declines. -/
theorem mp_subs_head_declines_witness :
    (MP.mk [("a0", "a"), ("b0", "b")] (fun e : Name → Nat => 10 * e "a0" + e "b0")).eagerSubsHead
      [("a", MVal.var "b"), ("b", MVal.val (fun _ => 0))] (fun _ => 1) = none := by
  decide

end FV.Props.C04
