/-
  Props/C04/Classes3.lean — the EXECUTABLE models of `Independent.eager_subs` / `Delta.eager_subs` (Model/C04/Classes2:
  `indepEagerSubs`, `deltaEagerSubs`) against the simultaneous substitution, and the name-level decision `mpDecide` of
  MarkovProduct / Scatter against the semantic model.
  Core-only.
-/
import FunsorVerif.Props.C04.Classes2
namespace FV.Props.C04
open FV FV.C04

theorem indep_eager_subs_sem (fn value : Term) (rv bv dv : Name) (size : Nat) (env : Env) (xv : Sem)
    (hv : denote value env = some xv) (hshape : ∃ rest, xv.shape = size :: rest) (hbv : bv ∉ value.fv)
    (hrv : rv ∉ fn.fv ∨ rv = bv ∨ rv = dv) :
    denote (indepEagerSubs fn bv dv size value) env =
      denote (Term.subs (Term.independent fn rv bv dv size) [(rv, value)]) env := by
  unfold indepEagerSubs
  split
  · exact (indep_subs_rename fn rv bv dv _ size _ env hrv).symm
  · exact indep_subs_value fn _ rv bv dv size env xv hv hshape hbv hrv

theorem c3_add_comm (a b : XR) : XR.add a b = XR.add b a := by
  cases a <;> cases b <;> simp [XR.add, Rat.add_comm]

theorem c3_add_assoc (a b c : XR) : XR.add (XR.add a b) c = XR.add a (XR.add b c) := by
  cases a <;> cases b <;> cases c <;> simp [XR.add, Rat.add_assoc]

theorem c3_add_zero (a : XR) : XR.add a 0 = a := by
  cases a with
  | fin q => show XR.fin (q + ((0 : Nat) : Rat)) = XR.fin q; simp [Rat.add_zero]
  | _ => rfl

theorem c3_zero_add (a : XR) : XR.add 0 a = a := by rw [c3_add_comm, c3_add_zero]

theorem c3_zip_add_scalar (a b : Sem) (ha : a.shape = []) (hb : b.shape = []) :
    Sem.zip? (binop "add") a b = some (Sem.scalar (XR.add (a.get []) (b.get []))) := by
  simp [Sem.zip?, ha, hb, broadcastShapes, broadcastShapes.go, allIdx, binop, bcastIdx, Sem.scalar]

/-- Addition of optional scalars (undefined as soon as one side is). -/
def c3_oadd (a b : Option XR) : Option XR :=
  match a, b with
  | some x, some y => some (XR.add x y)
  | _, _ => none

theorem c3_oadd_assoc (a b c : Option XR) : c3_oadd (c3_oadd a b) c = c3_oadd a (c3_oadd b c) := by
  cases a <;> cases b <;> cases c <;> simp [c3_oadd, c3_add_assoc]

theorem c3_oadd_comm (a b : Option XR) : c3_oadd a b = c3_oadd b a := by
  cases a <;> cases b <;> simp [c3_oadd, c3_add_comm]

theorem c3_oadd_zero (a : Option XR) : c3_oadd a (some 0) = a := by
  cases a <;> simp [c3_oadd, c3_add_zero]

theorem c3_zero_oadd (a : Option XR) : c3_oadd (some 0) a = a := by
  cases a <;> simp [c3_oadd, c3_zero_add]

/-- The contribution of one Delta term: its log-density where the bound value equals the point, `-inf` elsewhere. -/
def c3_contrib (x p d : Option Sem) : Option Sem :=
  match x, p, d with
  | some x, some p, some d => some (deltaHitMiss x p d)
  | _, _, _ => none

/-- Shape `[]` whenever defined. -/
def c3_sh (o : Option Sem) : Prop := ∀ s, o = some s → s.shape = []
/-- A constant scalar whenever defined (what `Sem.zip?` on scalars and the empty Delta produce). -/
def c3_sf (o : Option Sem) : Prop := ∀ s, o = some s → s = Sem.scalar (s.get [])

theorem c3_sf_sh {o : Option Sem} (h : c3_sf o) : c3_sh o := by
  intro s hs; rw [h s hs]; rfl

theorem c3_hm_shape (x p d : Sem) (hd : d.shape = []) : (deltaHitMiss x p d).shape = [] := by
  unfold deltaHitMiss; split
  · exact hd
  · rfl

theorem c3_densAt_eq (env : Env) (t : Term × Term × Term) :
    densAt env t = c3_contrib (denote t.1 env) (denote t.2.1 env) (denote t.2.2 env) := rfl

theorem c3_contrib_sh (x p d : Option Sem) (hd : c3_sh d) : c3_sh (c3_contrib x p d) := by
  intro s hs
  cases x <;> cases p <;> cases d <;> simp [c3_contrib] at hs
  subst hs
  exact c3_hm_shape _ _ _ (hd _ rfl)

/-- One step of `denoteDelta` on scalars. -/
theorem c3_dd_cons (e : Env) (n : Name) (p d : Term) (rest : List (Name × Term × Term))
    (hd : c3_sh (denote d e)) (hr : c3_sf (denoteDelta rest e)) :
    c3_sf (denoteDelta ((n, p, d) :: rest) e) ∧
    (denoteDelta ((n, p, d) :: rest) e).map (fun s : Sem => s.get []) =
      c3_oadd ((c3_contrib (e.lookup n) (denote p e) (denote d e)).map (fun s : Sem => s.get []))
        ((denoteDelta rest e).map (fun s : Sem => s.get [])) := by
  simp only [denoteDelta]
  cases hx : e.lookup n with
  | none => simp [c3_contrib, c3_oadd, c3_sf]
  | some x =>
    cases hp : denote p e with
    | none => simp [c3_contrib, c3_oadd, c3_sf]
    | some pv =>
      cases hdv : denote d e with
      | none => simp [c3_contrib, c3_oadd, c3_sf]
      | some dv =>
        cases hrest : denoteDelta rest e with
        | none => simp [c3_contrib, c3_oadd, c3_sf]
        | some rs =>
          have h1 : (deltaHitMiss x pv dv).shape = [] := c3_hm_shape _ _ _ (hd dv hdv)
          have h2 : rs.shape = [] := c3_sf_sh hr rs hrest
          have := c3_zip_add_scalar _ _ h1 h2
          unfold deltaHitMiss at this h1
          simp only [this, c3_contrib, c3_oadd, Option.map_some, deltaHitMiss]
          refine ⟨?_, rfl⟩
          intro s hs; cases hs; rfl

/-- The scalar value of `reduce(ops.add, log_densities)`, with `0` for the empty list. -/
def c3_densX (env : Env) : List (Term × Term × Term) → Option XR
  | [] => some 0
  | t :: ts => c3_oadd ((densAt env t).map (fun s : Sem => s.get [])) (c3_densX env ts)

/-- The scalar value of the result of `Delta.eager_subs`. -/
def c3_total (env : Env) (r : DRes) : Option XR :=
  c3_oadd ((denoteDelta r.kept env).map (fun s : Sem => s.get [])) (c3_densX env r.dens)

theorem c3_core (reals : List Name) (σ : List (Name × Term)) (env E : Env)
    (hL1 : ∀ n v, dget σ n = some v → E.lookup n = denote v env)
    (hL2 : ∀ n, dget σ n = none → E.lookup n = env.lookup n) :
    ∀ (ts : List (Name × Term × Term)) (r : DRes), deltaEagerSubs reals ts σ = some r →
      (∀ t ∈ ts, denote t.2.1 E = denote t.2.1 env) → (∀ t ∈ ts, denote t.2.2 E = denote t.2.2 env) →
      (∀ t ∈ ts, c3_sh (denote t.2.2 env)) →
      c3_sf (denoteDelta ts E) ∧ c3_sf (denoteDelta r.kept env) ∧ (∀ t ∈ r.dens, c3_sh (densAt env t)) ∧
        (denoteDelta ts E).map (fun s : Sem => s.get []) = c3_total env r
  | [], r, h, _, _, _ => by
    simp only [deltaEagerSubs, Option.some.injEq] at h
    subst h
    refine ⟨?_, ?_, ?_, ?_⟩
    · intro s hs; simp only [denoteDelta, Option.some.injEq] at hs; subst hs; rfl
    · intro s hs; simp only [denoteDelta, Option.some.injEq] at hs; subst hs; rfl
    · intro t ht; cases ht
    · simp [c3_total, c3_densX, denoteDelta, c3_oadd_zero]
  | (n, p, d) :: rest, r, h, hP, hD, hS => by
    have hPn : denote p E = denote p env := hP (n, p, d) (List.mem_cons_self ..)
    have hDn : denote d E = denote d env := hD (n, p, d) (List.mem_cons_self ..)
    have hSn : c3_sh (denote d env) := hS (n, p, d) (List.mem_cons_self ..)
    simp only [deltaEagerSubs] at h
    split at h
    · cases h
    · rename_i r' hr'
      obtain ⟨ih1, ih2, ih3, ih4⟩ := c3_core reals σ env E hL1 hL2 rest r' hr'
        (fun t ht => hP t (List.mem_cons_of_mem _ ht)) (fun t ht => hD t (List.mem_cons_of_mem _ ht))
        (fun t ht => hS t (List.mem_cons_of_mem _ ht))
      obtain ⟨g1, g2⟩ := c3_dd_cons E n p d rest (by rw [hDn]; exact hSn) ih1
      rw [hPn, hDn, ih4] at g2
      split at h
      · -- kept under its own name
        rename_i hg
        simp only [Option.some.injEq] at h; subst h
        obtain ⟨k1, k2⟩ := c3_dd_cons env n p d r'.kept hSn ih2
        refine ⟨g1, k1, ih3, ?_⟩
        rw [g2, hL2 n hg]
        simp only [c3_total]
        rw [k2, c3_oadd_assoc]
      · -- renamed
        rename_i x dom hg
        simp only [Option.some.injEq] at h; subst h
        obtain ⟨k1, k2⟩ := c3_dd_cons env x p d r'.kept hSn ih2
        refine ⟨g1, k1, ih3, ?_⟩
        rw [g2, hL1 n _ hg]
        simp only [c3_total]
        rw [k2, c3_oadd_assoc]
        simp only [denote]
      · -- ground value
        rename_i v hnv hg
        split at h
        · simp only [Option.some.injEq] at h; subst h
          refine ⟨g1, ih2, ?_, ?_⟩
          · intro t ht
            rcases List.mem_cons.mp ht with rfl | ht
            · rw [c3_densAt_eq]; exact c3_contrib_sh _ _ _ hSn
            · exact ih3 t ht
          · rw [g2, hL1 n _ hg]
            simp only [c3_total, c3_densX, c3_densAt_eq]
            rw [← c3_oadd_assoc, ← c3_oadd_assoc, c3_oadd_comm ((denoteDelta r'.kept env).map _)]
        · cases h

/-- What is observable of a scalar value: its shape and its entry.  (`Sem` carries a function on ALL index lists, so
    two scalars with the same entry need not be equal as structures.) -/
def c3_obs (s : Sem) : List Nat × XR := (s.shape, s.get [])

theorem c3_obs_of_sh {o : Option Sem} (h : c3_sh o) : o.map c3_obs = (o.map (fun s : Sem => s.get [])).map (fun x => ([], x)) := by
  cases o with
  | none => rfl
  | some s => simp [c3_obs, h s rfl]

theorem c3_sf_ext {a b : Option Sem} (ha : c3_sf a) (hb : c3_sf b) (h : a.map c3_obs = b.map c3_obs) : a = b := by
  cases a with
  | none => cases b with
    | none => rfl
    | some y => simp at h
  | some x => cases b with
    | none => simp at h
    | some y =>
      simp only [Option.map_some, Option.some.injEq, c3_obs, Prod.mk.injEq] at h
      rw [ha x rfl, hb y rfl, h.2]

/-- `a + b` on optional values, as the models write it. -/
def c3_ozip (a b : Option Sem) : Option Sem :=
  match a, b with
  | some x, some y => Sem.zip? (binop "add") x y
  | _, _ => none

theorem c3_zip_sf (a b : Option Sem) (ha : c3_sh a) (hb : c3_sh b) :
    c3_sf (c3_ozip a b) ∧
    (c3_ozip a b).map (fun s : Sem => s.get []) =
      c3_oadd (a.map (fun s : Sem => s.get [])) (b.map (fun s : Sem => s.get [])) := by
  cases a with
  | none => simp [c3_sf, c3_oadd, c3_ozip]
  | some x => cases b with
    | none => simp [c3_sf, c3_oadd, c3_ozip]
    | some y =>
      simp only [c3_ozip, c3_zip_add_scalar x y (ha x rfl) (hb y rfl), c3_oadd, Option.map_some]
      refine ⟨?_, rfl⟩
      intro s hs; cases hs; rfl

/-- `reduce(ops.add, log_densities)` on a non-empty list of scalars. -/
theorem c3_densSum (env : Env) : ∀ (t : Term × Term × Term) (ds : List (Term × Term × Term)),
    (∀ u ∈ t :: ds, c3_sh (densAt env u)) →
    c3_sh (densSum env (t :: ds)) ∧ (ds ≠ [] → c3_sf (densSum env (t :: ds))) ∧
      (densSum env (t :: ds)).map (fun s : Sem => s.get []) = c3_densX env (t :: ds)
  | t, [], h => by
    refine ⟨?_, fun hne => absurd rfl hne, ?_⟩
    · simp only [densSum]; exact h t (List.mem_cons_self ..)
    · simp only [densSum, c3_densX, c3_oadd_zero]
  | t, u :: ds, h => by
    obtain ⟨i1, _, i3⟩ := c3_densSum env u ds (fun w hw => h w (List.mem_cons_of_mem _ hw))
    obtain ⟨z1, z2⟩ := c3_zip_sf (densAt env t) (densSum env (u :: ds)) (h t (List.mem_cons_self ..)) i1
    have e : densSum env (t :: u :: ds) = c3_ozip (densAt env t) (densSum env (u :: ds)) := by
      simp only [densSum]; rfl
    rw [e]
    refine ⟨c3_sf_sh z1, fun _ => z1, ?_⟩
    rw [z2, i3]; rfl

theorem c3_meaning (r : DRes) (env : Env) (hk : c3_sf (denoteDelta r.kept env))
    (hd : ∀ t ∈ r.dens, c3_sh (densAt env t)) :
    c3_sh (r.meaning env) ∧ ((r.kept ≠ [] ∨ r.dens.length ≠ 1) → c3_sf (r.meaning env)) ∧
      (r.meaning env).map (fun s : Sem => s.get []) = c3_total env r := by
  obtain ⟨kept, dens⟩ := r
  cases dens with
  | nil =>
    have e : DRes.meaning ⟨kept, []⟩ env = denoteDelta kept env := by simp only [DRes.meaning, denote]
    rw [e]
    refine ⟨c3_sf_sh hk, fun _ => hk, ?_⟩
    simp only [c3_total, c3_densX, c3_oadd_zero]
  | cons t ds =>
    obtain ⟨s1, s2, s3⟩ := c3_densSum env t ds hd
    cases kept with
    | nil =>
      have e : DRes.meaning ⟨[], t :: ds⟩ env = densSum env (t :: ds) := by simp only [DRes.meaning]
      rw [e]
      refine ⟨s1, ?_, ?_⟩
      · intro hne
        apply s2
        rcases hne with hne | hne
        · exact absurd rfl hne
        · intro e; subst e; exact hne rfl
      · rw [s3]; simp only [c3_total, denoteDelta, Option.map_some]; exact (c3_zero_oadd _).symm
    | cons k ks =>
      obtain ⟨z1, z2⟩ := c3_zip_sf (denoteDelta (k :: ks) env) (densSum env (t :: ds)) (c3_sf_sh hk) s1
      have e : DRes.meaning ⟨k :: ks, t :: ds⟩ env = c3_ozip (denoteDelta (k :: ks) env) (densSum env (t :: ds)) := by
        simp only [DRes.meaning, denote]; rfl
      rw [e]
      refine ⟨c3_sf_sh z1, fun _ => z1, ?_⟩
      rw [z2, s3]; rfl

theorem c3_dget_tget (σ : List (Name × Term)) (n : Name) : dget σ n = tget σ n := by
  induction σ with
  | nil => rfl
  | cons p r ih =>
    obtain ⟨k, v⟩ := p
    simp only [dget, tget, ih]

/-- Everything about `Delta.eager_subs` at once: the scalar value, and the constant-scalar form of both sides. -/
theorem c3_main (reals : List Name) (ts : List (Name × Term × Term)) (σ : List (Name × Term)) (r : DRes) (env : Env)
    (h : deltaEagerSubs reals ts σ = some r)
    (hfresh : ∀ n ∈ ts.map (·.1), ∀ t ∈ ts, n ∉ t.2.1.fv ∧ n ∉ t.2.2.fv)
    (hkeys : ∀ k ∈ σ.map (·.1), k ∈ ts.map (·.1))
    (hdef : (denoteSubs σ env).isSome = true)
    (hscalar : ∀ t ∈ ts, ∀ dv, denote t.2.2 env = some dv → dv.shape = []) :
    (r.meaning env).map c3_obs = (denote (Term.subs (Term.delta ts) σ) env).map c3_obs ∧
    c3_sf (denote (Term.subs (Term.delta ts) σ) env) ∧
    ((r.kept ≠ [] ∨ r.dens.length ≠ 1) → c3_sf (r.meaning env)) := by
  cases hb : denoteSubs σ env with
  | none => rw [hb] at hdef; cases hdef
  | some b =>
    rw [subs_denote, hb]
    simp only [Option.bind_some, denote]
    have hnk : ∀ m, m ∉ ts.map (·.1) → b.lookup m = none := by
      intro m hm
      rw [lookup_eq_none_iff, denoteSubs_keys σ env b hb]
      exact fun hk => hm (hkeys m hk)
    have hco : ∀ (u : Term), (∀ n ∈ ts.map (·.1), n ∉ u.fv) → denote u (b ++ env) = denote u env := by
      intro u hu
      apply denote_coincidence
      intro m hm
      rw [lookup_append, hnk m (fun hmem => hu m hmem hm)]
    have hL1 : ∀ n v, dget σ n = some v → Env.lookup (b ++ env) n = denote v env := by
      intro n v hg
      rw [c3_dget_tget] at hg
      obtain ⟨x, hx, hl⟩ := denoteSubs_tget σ env b n v hb hg
      rw [lookup_append, hl, hx]
    have hL2 : ∀ n, dget σ n = none → Env.lookup (b ++ env) n = env.lookup n := by
      intro n hg
      rw [c3_dget_tget] at hg
      have : b.lookup n = none := by rw [denoteSubs_lookup σ env b n hb, hg]; rfl
      rw [lookup_append, this]
    obtain ⟨c1, c2, c3, c4⟩ := c3_core reals σ env (b ++ env) hL1 hL2 ts r h
      (fun t ht => hco t.2.1 (fun n hn => (hfresh n hn t ht).1))
      (fun t ht => hco t.2.2 (fun n hn => (hfresh n hn t ht).2))
      hscalar
    obtain ⟨m1, m2, m3⟩ := c3_meaning r env c2 c3
    refine ⟨?_, c1, m2⟩
    rw [c3_obs_of_sh m1, c3_obs_of_sh (c3_sf_sh c1), m3, c4]

/-- **T2**: the executable model of `Delta.eager_subs` means the simultaneous substitution of the Delta's own names,
    for every order of kept / renamed / substituted terms.  Stated on the observable part of the (scalar) value — its
    shape and its entry (`c3_obs`): when the result is a single accumulated log-density and no Delta, the code returns
    the log-density itself while `denoteDelta` returns `log_density + 0`, which is the same scalar but not the same
    `Sem` structure (see `delta_eager_subs_sem_exact` and `c3_exact_degenerate_witness`).
    `hfresh`: `Delta.__init__` asserts `name not in point.inputs`; `hkeys`: `eager_subs` receives only the node's own
    names; `hscalar`: log-densities have output `Real` (shape `[]`). -/
theorem delta_eager_subs_sem (reals : List Name) (ts : List (Name × Term × Term)) (σ : List (Name × Term)) (r : DRes)
    (env : Env) (h : deltaEagerSubs reals ts σ = some r)
    (hfresh : ∀ n ∈ ts.map (·.1), ∀ t ∈ ts, n ∉ t.2.1.fv ∧ n ∉ t.2.2.fv)
    (hkeys : ∀ k ∈ σ.map (·.1), k ∈ ts.map (·.1))
    (hdef : (denoteSubs σ env).isSome = true)
    (hscalar : ∀ t ∈ ts, ∀ dv, denote t.2.2 env = some dv → dv.shape = []) :
    (r.meaning env).map c3_obs = (denote (Term.subs (Term.delta ts) σ) env).map c3_obs :=
  (c3_main reals ts σ r env h hfresh hkeys hdef hscalar).1

/-- **T2, exact**: equality of the values themselves, except in the degenerate case above. -/
theorem delta_eager_subs_sem_exact (reals : List Name) (ts : List (Name × Term × Term)) (σ : List (Name × Term))
    (r : DRes) (env : Env) (h : deltaEagerSubs reals ts σ = some r)
    (hfresh : ∀ n ∈ ts.map (·.1), ∀ t ∈ ts, n ∉ t.2.1.fv ∧ n ∉ t.2.2.fv)
    (hkeys : ∀ k ∈ σ.map (·.1), k ∈ ts.map (·.1))
    (hdef : (denoteSubs σ env).isSome = true)
    (hscalar : ∀ t ∈ ts, ∀ dv, denote t.2.2 env = some dv → dv.shape = [])
    (hnd : r.kept ≠ [] ∨ r.dens.length ≠ 1) :
    r.meaning env = denote (Term.subs (Term.delta ts) σ) env := by
  obtain ⟨a, b, c⟩ := c3_main reals ts σ r env h hfresh hkeys hdef hscalar
  exact c3_sf_ext (c hnd) b a

/-- (b) of the task as a corollary: only renamings (`r.dens = []`), any length, swaps and collisions included. -/
theorem delta_eager_subs_kept_only (reals : List Name) (ts : List (Name × Term × Term)) (σ : List (Name × Term))
    (r : DRes) (env : Env) (h : deltaEagerSubs reals ts σ = some r)
    (hfresh : ∀ n ∈ ts.map (·.1), ∀ t ∈ ts, n ∉ t.2.1.fv ∧ n ∉ t.2.2.fv)
    (hkeys : ∀ k ∈ σ.map (·.1), k ∈ ts.map (·.1))
    (hdef : (denoteSubs σ env).isSome = true)
    (hscalar : ∀ t ∈ ts, ∀ dv, denote t.2.2 env = some dv → dv.shape = [])
    (hd : r.dens = []) :
    denote (Term.delta r.kept) env = denote (Term.subs (Term.delta ts) σ) env := by
  have := delta_eager_subs_sem_exact reals ts σ r env h hfresh hkeys hdef hscalar (Or.inr (by rw [hd]; decide))
  rw [← this]
  obtain ⟨kept, dens⟩ := r
  subst hd
  rfl


/-! ### Non-vacuity -/

def c3_exTs : List (Name × Term × Term) :=
  [("v", Term.num 1 DType.real, Term.num (XR.fin (1/2)) DType.real),
   ("u", Term.num 2 DType.real, Term.num (XR.fin (1/4)) DType.real)]
def c3_exSwap : List (Name × Term) := [("v", Term.var "u" ⟨DType.real, []⟩), ("u", Term.var "v" ⟨DType.real, []⟩)]
def c3_exHit : List (Name × Term) := [("v", Term.num 1 DType.real)]
def c3_exEnv : Env := [("v", Sem.scalar 2), ("u", Sem.scalar 1)]
def c3_exEnv2 : Env := [("u", Sem.scalar 2)]

theorem c3_ex_fresh : ∀ n ∈ c3_exTs.map (·.1), ∀ t ∈ c3_exTs, n ∉ t.2.1.fv ∧ n ∉ t.2.2.fv := by
  simp [c3_exTs, Term.fv]

theorem c3_ex_scalar (env : Env) : ∀ t ∈ c3_exTs, ∀ dv, denote t.2.2 env = some dv → dv.shape = [] := by
  intro t ht dv h
  simp only [c3_exTs, List.mem_cons, List.not_mem_nil, or_false] at ht
  rcases ht with rfl | rfl <;> (simp only [denote, Option.some.injEq] at h; subst h; rfl)

example :
    (∃ r, deltaEagerSubs [] c3_exTs c3_exSwap = some r ∧ r.kept.map (·.1) = ["u", "v"] ∧ r.dens.length = 0 ∧
      (r.meaning c3_exEnv).map c3_obs = some ([], XR.fin (3/4))) ∧
    (∀ k ∈ c3_exSwap.map (·.1), k ∈ c3_exTs.map (·.1)) ∧ (denoteSubs c3_exSwap c3_exEnv).isSome = true := by
  refine ⟨⟨_, rfl, rfl, rfl, ?_⟩, by decide, by simp [c3_exSwap, c3_exEnv, denoteSubs, denote, Env.lookup]⟩
  simp [DRes.meaning, denote, denoteDelta, c3_exEnv, Env.lookup, semEq, allIdx, Sem.scalar, c3_obs, c3_zip_add_scalar]
  decide +kernel

/-- One ground hit placed BEFORE a kept term (the reordering case): `v := 1` against the point `1`. -/
example :
    (∃ r, deltaEagerSubs [] c3_exTs c3_exHit = some r ∧ r.kept.map (·.1) = ["u"] ∧ r.dens.length = 1 ∧
      (r.meaning c3_exEnv2).map c3_obs = some ([], XR.fin (3/4))) ∧
    (∀ k ∈ c3_exHit.map (·.1), k ∈ c3_exTs.map (·.1)) ∧ (denoteSubs c3_exHit c3_exEnv2).isSome = true := by
  refine ⟨⟨_, rfl, rfl, rfl, ?_⟩, by decide, by simp [c3_exHit, denoteSubs, denote]⟩
  simp [DRes.meaning, denote, denoteDelta, densSum, densAt, deltaHitMiss, c3_exEnv2, Env.lookup, semEq, allIdx,
    Sem.scalar, c3_obs, c3_zip_add_scalar]
  decide +kernel

/-- All hypotheses of `delta_eager_subs_sem` hold on both examples: the theorem applies to them. -/
example (r : DRes) (h : deltaEagerSubs [] c3_exTs c3_exSwap = some r) :
    (r.meaning c3_exEnv).map c3_obs = (denote (Term.subs (Term.delta c3_exTs) c3_exSwap) c3_exEnv).map c3_obs :=
  delta_eager_subs_sem [] c3_exTs c3_exSwap r c3_exEnv h c3_ex_fresh (by decide)
    (by simp [c3_exSwap, c3_exEnv, denoteSubs, denote, Env.lookup]) (c3_ex_scalar _)

example (r : DRes) (h : deltaEagerSubs [] c3_exTs c3_exHit = some r) :
    r.meaning c3_exEnv2 = denote (Term.subs (Term.delta c3_exTs) c3_exHit) c3_exEnv2 :=
  delta_eager_subs_sem_exact [] c3_exTs c3_exHit r c3_exEnv2 h c3_ex_fresh (by decide)
    (by simp [c3_exHit, denoteSubs, denote]) (c3_ex_scalar _)
    (Or.inl (by
      have e : deltaEagerSubs [] c3_exTs c3_exHit = some ⟨[("u", Term.num 2 DType.real, Term.num (XR.fin (1/4)) DType.real)],
          [(Term.num 1 DType.real, Term.num 1 DType.real, Term.num (XR.fin (1/2)) DType.real)]⟩ := rfl
      rw [e] at h; cases h; intro hh; cases hh))

/-- A scalar whose `get` is not constant off the valid index (possible for an environment value or a `Term.tensor`). -/
def c3_wD : Sem := ⟨[], fun i => if i = [] then 1 else 2⟩

/-- Why `delta_eager_subs_sem` is stated on `c3_obs`: with a single ground term and nothing kept, the code returns the
    log-density itself, the specification `log_density + 0` — the same scalar, two different `Sem` structures.
    (An artefact of `Sem` not being extensional, not a behaviour of funsor.) -/
theorem c3_exact_degenerate_witness :
    ∃ r, deltaEagerSubs [] [("v", Term.num 1 DType.real, Term.var "d" ⟨DType.real, []⟩)]
        [("v", Term.num 1 DType.real)] = some r ∧ r.kept.length = 0 ∧ r.dens.length = 1 ∧
      r.meaning [("d", c3_wD)] = some c3_wD ∧
      denote (Term.subs (Term.delta [("v", Term.num 1 DType.real, Term.var "d" ⟨DType.real, []⟩)])
        [("v", Term.num 1 DType.real)]) [("d", c3_wD)] = some (Sem.scalar 1) ∧
      c3_wD ≠ Sem.scalar 1 := by
  refine ⟨_, rfl, rfl, rfl, ?_, ?_, ?_⟩
  · simp [DRes.meaning, densSum, densAt, denote, Env.lookup, deltaHitMiss, semEq]
  · rw [subs_denote]
    have hz : Sem.zip? (binop "add") c3_wD (Sem.scalar 0) = some (Sem.scalar 1) := by
      rw [c3_zip_add_scalar _ _ rfl rfl]
      show some (Sem.scalar (XR.add 1 0)) = _
      rw [c3_add_zero]
    simp [denoteSubs, denote, denoteDelta, Env.lookup, semEq, hz]
  · intro h
    have h2 := congrArg (fun s => s.get [0]) h
    simp only [c3_wD, Sem.scalar] at h2
    revert h2
    decide +kernel


/-! ### MarkovProduct / Scatter: the name-level decision `mpDecide` against the semantic model -/

/-- What `mpDecide` sees of a substitution value: the name of a `Variable`, or "anything else". -/
def c3_toOpt {V : Type} : MVal V → Option Name
  | MVal.var x => some x
  | MVal.val _ => none

def c3_names {V : Type} (σ : List (Name × MVal V)) : List (Name × Option Name) :=
  σ.map (fun p => (p.1, c3_toOpt p.2))

theorem c3_names_eq {V : Type} (σ : List (Name × MVal V)) :
    c3_names σ = σ.map (fun p => (p.1, match p.2 with | MVal.var x => some x | MVal.val _ => none)) := by
  unfold c3_names
  apply List.map_congr_left
  intro p _
  cases p.2 <;> rfl

theorem c3_mem_renames {V : Type} (σ : List (Name × MVal V)) (x : Name) :
    x ∈ (c3_names σ).filterMap (fun p => p.2) ↔ ∃ k, (k, MVal.var x) ∈ σ := by
  simp only [c3_names, List.mem_filterMap, List.mem_map]
  constructor
  · rintro ⟨a, ⟨p, hp, rfl⟩, h⟩
    obtain ⟨k, v⟩ := p
    cases v with
    | var y => simp only [c3_toOpt, Option.some.injEq] at h; subst h; exact ⟨k, hp⟩
    | val f => simp [c3_toOpt] at h
  · rintro ⟨k, hk⟩
    exact ⟨(k, some x), ⟨(k, MVal.var x), hk, rfl⟩, rfl⟩

theorem c3_mem_lazy {V : Type} (σ : List (Name × MVal V)) (x : Name) :
    x ∈ ((c3_names σ).filter (fun p => p.2.isNone)).map (·.1) ↔ ∃ f, (x, MVal.val f) ∈ σ := by
  simp only [c3_names, List.mem_filter, List.mem_map]
  constructor
  · rintro ⟨a, ⟨⟨p, hp, rfl⟩, h⟩, rfl⟩
    obtain ⟨k, v⟩ := p
    cases v with
    | var y => simp [c3_toOpt] at h
    | val f => exact ⟨f, hp⟩
  · rintro ⟨f, hf⟩
    exact ⟨(x, none), ⟨⟨(x, MVal.val f), hf, rfl⟩, rfl⟩, rfl⟩

theorem c3_mem_mlookup {V : Type} : ∀ (σ : List (Name × MVal V)) (k : Name) (v : MVal V),
    (σ.map (·.1)).Nodup → (k, v) ∈ σ → mlookup σ k = some v
  | [], _, _, _, h => by cases h
  | (k', v') :: r, k, v, hnd, h => by
    simp only [List.map_cons, List.nodup_cons] at hnd
    simp only [mlookup]
    rcases List.mem_cons.mp h with e | h'
    · cases e; simp
    · have hne : ¬ k' = k := by
        intro e; subst e
        exact hnd.1 (List.mem_map.mpr ⟨(k', v), h', rfl⟩)
      simp only [hne, if_false]
      exact c3_mem_mlookup r k v hnd.2 h'

theorem c3_renames_empty {V : Type} (σ : List (Name × MVal V)) :
    ((c3_names σ).filterMap (fun p => p.2)).isEmpty = !hasRename σ := by
  induction σ with
  | nil => rfl
  | cons p r ih =>
    obtain ⟨k, v⟩ := p
    cases v with
    | var x => simp [c3_names, c3_toOpt, hasRename]
    | val f =>
      have : hasRename ((k, MVal.val f) :: r) = hasRename r := by simp [hasRename]
      rw [this, ← ih]
      simp [c3_names, c3_toOpt]

theorem c3_seqClash_iff {V : Type} (σ : List (Name × MVal V)) :
    seqClash σ = true ↔ ∃ k x f, (k, MVal.var x) ∈ σ ∧ mlookup σ x = some (MVal.val f) := by
  unfold seqClash
  rw [List.any_eq_true]
  constructor
  · rintro ⟨⟨k, v⟩, hp, h⟩
    cases v with
    | val f => simp at h
    | var x =>
      simp only at h
      cases hx : mlookup σ x with
      | none => simp [hx] at h
      | some mv =>
        cases mv with
        | var y => simp [hx] at h
        | val f => exact ⟨k, x, f, hp, hx⟩
  · rintro ⟨k, x, f, hp, hx⟩
    exact ⟨(k, MVal.var x), hp, by simp [hx]⟩

theorem c3_clash_eq {V : Type} (σ : List (Name × MVal V)) (hnd : (σ.map (·.1)).Nodup) :
    ((c3_names σ).filterMap (fun p => p.2)).any
      (fun x => (((c3_names σ).filter (fun p => p.2.isNone)).map (·.1)).contains x) = seqClash σ := by
  rw [Bool.eq_iff_iff, c3_seqClash_iff, List.any_eq_true]
  constructor
  · rintro ⟨x, hx, hc⟩
    obtain ⟨k, hk⟩ := (c3_mem_renames σ x).mp hx
    rw [List.contains_iff_mem] at hc
    obtain ⟨f, hf⟩ := (c3_mem_lazy σ x).mp hc
    exact ⟨k, x, f, hk, c3_mem_mlookup σ x _ hnd hf⟩
  · rintro ⟨k, x, f, hk, hx⟩
    refine ⟨x, (c3_mem_renames σ x).mpr ⟨k, hk⟩, ?_⟩
    rw [List.contains_iff_mem]
    exact (c3_mem_lazy σ x).mpr ⟨f, c2_mlookup_mem hx⟩

/-- T4(a): the executable decision declines exactly when HEAD's guard does (keys distinct: σ is an `OrderedDict`). -/
theorem mpDecide_none_iff {V : Type} (stepNames : List (Name × Name)) (σ : List (Name × MVal V))
    (hnd : (σ.map (·.1)).Nodup) :
    mpDecide stepNames (σ.map (fun p => (p.1, match p.2 with | MVal.var x => some x | MVal.val _ => none))) = none ↔
      (!hasRename σ || seqClash σ) = true := by
  rw [← c3_names_eq, ← c3_renames_empty, ← c3_clash_eq σ hnd]
  unfold mpDecide
  simp only []
  split
  · rename_i h; exact ⟨fun _ => h, fun _ => rfl⟩
  · rename_i h
    constructor
    · intro e; cases e
    · intro e; exact absurd e h


theorem c3_lk {V : Type} (σ : List (Name × MVal V)) (n : Name) :
    ((c3_names σ).find? (fun p => p.1 == n)).map (·.2) = (mlookup σ n).map c3_toOpt := by
  induction σ with
  | nil => rfl
  | cons p r ih =>
    obtain ⟨k, v⟩ := p
    simp only [c3_names, List.map_cons, List.find?_cons, mlookup]
    by_cases hk : k = n
    · simp [hk]
    · have hb : (k == n) = false := by simpa using hk
      simp only [hb, hk, if_false]
      exact ih

/-- T4(b): when the executable decision goes ahead, the step names it returns are those of the semantic model's
    renaming, and the keys it leaves to the lazy `Subs` are those of the non-Variable pairs.  (No distinctness needed.) -/
theorem mpDecide_some_spec {V : Type} (stepNames : List (Name × Name)) (core : (Name → V) → V)
    (σ : List (Name × MVal V)) (sn' : List (Name × Name)) (lz : List Name)
    (h : mpDecide stepNames (σ.map (fun p => (p.1, match p.2 with | MVal.var x => some x | MVal.val _ => none))) =
      some (sn', lz)) :
    sn' = (MP.rename ⟨stepNames, core⟩ σ).stepNames ∧ ∀ k, k ∈ lz ↔ ∃ f, (k, MVal.val f) ∈ σ := by
  rw [← c3_names_eq] at h
  unfold mpDecide at h
  simp only [] at h
  split at h
  · cases h
  · simp only [Option.some.injEq, Prod.mk.injEq] at h
    obtain ⟨h1, h2⟩ := h
    subst h1; subst h2
    refine ⟨?_, fun k => c3_mem_lazy σ k⟩
    simp only [MP.rename]
    apply List.map_congr_left
    intro p _
    rw [c3_lk]
    cases hm : mlookup σ p.2 with
    | none => rfl
    | some mv => cases mv <;> rfl


/-- Distinct keys are needed in `mpDecide_none_iff`: with a repeated key the name-level decision sees the shadowed
    non-Variable pair `("x", 0)` and declines, while HEAD's guard reads `dict(lazy)` through the first binding. -/
theorem c3_mpDecide_needs_nodup :
    mpDecide [] [("a", some "x"), ("x", some "y"), ("x", none)] = none ∧
    (!hasRename [("a", MVal.var "x"), ("x", MVal.var "y"), ("x", MVal.val (fun _ : Name → Nat => 0))] ||
      seqClash [("a", MVal.var "x"), ("x", MVal.var "y"), ("x", MVal.val (fun _ : Name → Nat => 0))]) = false := by
  decide


/-! ### Constant.eager_subs: the executable model means the simultaneous substitution -/

/-- A Constant's value ignores its const inputs: substituting them (simultaneously, by anything defined) leaves the
    value unchanged — the model's result (new const inputs by `constSubs`, same `arg`) means the Constant at the
    substituted point.  `hk`: the keys are const inputs, which `Constant.__init__` asserts disjoint from `arg.inputs`. -/
theorem const_eager_subs_sem (c : ConstT) (argIns : Inputs) (valueIns : Name → Option Inputs) (σ : Subst) (env : Env)
    (hk : ∀ k ∈ tkeys σ, k ∉ c.arg.fv) (hdef : (denoteSubs σ env).isSome = true) :
    (constEagerSubs c argIns valueIns).meaning env = denote (Term.subs c.arg σ) env := by
  rw [subs_denote]
  cases hb : denoteSubs σ env with
  | none => rw [hb] at hdef; cases hdef
  | some b =>
    simp only [Option.bind_some, ConstT.meaning, constEagerSubs]
    apply denote_coincidence
    intro n hn
    have hkeys := denoteSubs_keys σ env b hb
    have hnb : n ∉ b.map (·.1) := by
      rw [hkeys]; intro hm; exact hk n hm hn
    rw [lookup_append, (lookup_eq_none_iff b n).mpr hnb]

/-- The inputs clause for the model's result: every const input of the result is a kept const input or an input of a
    substituted value (restating `const_subs_sub` for `constEagerSubs`). -/
theorem const_eager_subs_inputs (c : ConstT) (argIns : Inputs) (valueIns : Name → Option Inputs) (n : Name)
    (h : n ∈ names (constEagerSubs c argIns valueIns).consts) :
    (n ∈ names c.consts ∧ valueIns n = none) ∨ ∃ k vi, k ∈ names c.consts ∧ valueIns k = some vi ∧ n ∈ names vi :=
  const_subs_sub c.consts argIns valueIns n h


/-! ### Gaussian.eager_subs: the branch decision drops no pair -/

/-- No pair is dropped by a call of `Gaussian.eager_subs`: every pair whose key is an input is handled by the branch
    that fires or handed over, unchanged, to `Subs(result, remaining)` — unless the renaming is refused. -/
theorem gStage_partition (inputs : List Name) (σ : List (Name × GKind)) (p : Name × GKind) (hp : p ∈ σ)
    (hin : inputs.contains p.1 = true) :
    (gStage inputs σ).1 = "var-conflict" ∨ p.1 ∈ (gStage inputs σ).2.1 ∨ p ∈ (gStage inputs σ).2.2.2 := by
  have hmem : p ∈ σ.filter (fun q => inputs.contains q.1) := List.mem_filter.mpr ⟨hp, hin⟩
  unfold gStage
  simp only []
  obtain ⟨k, kind⟩ := p
  split
  · rename_i he; simp_all; exact he k kind hp hin
  · split
    · split
      · exact Or.inl rfl
      · cases kind <;> simp_all [List.mem_filter, List.mem_map] <;> grind
    · split
      · cases kind <;> simp_all [List.mem_filter, List.mem_map] <;> grind
      · split
        · cases kind <;> simp_all [List.mem_filter, List.mem_map] <;> grind
        · split
          · cases kind <;> simp_all [List.mem_filter, List.mem_map] <;> grind
          · cases kind <;> simp_all [List.mem_filter, List.mem_map] <;> grind
end FV.Props.C04
