/-
  Props/C04/Gauss.lean — `Gaussian._eager_subs_real` (gaussian.py ~678-744): the partial-substitution branch denotes the
  Gaussian at the merged point, for the substitution pairs arriving in ANY order; the witness that gathering the values
  in the order of the incoming pairs (the seeded-defect shape) is wrong exactly when that order differs from input order.
  Core-only.
-/
import FunsorVerif.Model.C04.Classes2
namespace FV.Props.C04
open FV FV.C04

/-! ### `vm` over concatenations -/

theorem g_vm_nil_right (x : List Rat) (c : Nat) : vm x [] c = 0 := by
  cases x <;> simp [vm]

/-- G1: the vector–matrix product splits over aligned blocks. -/
theorem g_vm_append (x1 x2 : List Rat) (P1 P2 : List Row) (c : Nat) (h : x1.length = P1.length) :
    vm (x1 ++ x2) (P1 ++ P2) c = vm x1 P1 c + vm x2 P2 c := by
  induction x1 generalizing P1 with
  | nil =>
    cases P1 with
    | nil => simp [vm, Rat.zero_add]
    | cons r rs => simp at h
  | cons x xs ih =>
    cases P1 with
    | nil => simp at h
    | cons r rs =>
      simp only [List.cons_append, vm]
      rw [ih rs (by simpa using h)]
      grind


/-! ### The split lemma -/

theorem g_sum_eq_foldl (l : List Nat) (a : Nat) : l.foldl (· + ·) a = a + l.sum := by
  induction l generalizing a with
  | nil => simp
  | cons x xs ih => simp only [List.foldl_cons, List.sum_cons, ih]; omega

theorem g_dim_eq (g : RG) : g.dim = (g.inputs.map (·.2)).sum := by
  simp [RG.dim, g_sum_eq_foldl]

/-- G2: the product at the merged point is the kept block at `xa` plus the substituted block at the values gathered
    in INPUT order. -/
theorem g_vm_split (ins : List (Name × Nat)) (rows : List Row) (vals : Name → Option (List Rat)) (xa : List Rat)
    (c : Nat)
    (H1 : ∀ p ∈ ins, ∀ v, vals p.1 = some v → v.length = p.2)
    (H2 : rows.length = (ins.map (·.2)).sum)
    (H3 : xa.length = ((ins.filter (fun p => !(vals p.1).isSome)).map (·.2)).sum) :
    vm (mergePoint ins vals xa) rows c =
      vm xa (splitAB ins rows (fun k => (vals k).isSome)).1 c +
      vm (gatherIn ins vals) (splitAB ins rows (fun k => (vals k).isSome)).2 c := by
  induction ins generalizing rows xa with
  | nil =>
    simp at H2 H3
    subst H2 H3
    simp [mergePoint, splitAB, gatherIn, vm, Rat.zero_add]
  | cons p r ih =>
    obtain ⟨k, n⟩ := p
    have hrows : rows = rows.take n ++ rows.drop n := (List.take_append_drop n rows).symm
    have hn : n ≤ rows.length := by simp at H2; omega
    have htl : (rows.take n).length = n := by simp; omega
    have H1' : ∀ p ∈ r, ∀ v, vals p.1 = some v → v.length = p.2 := fun p hp => H1 p (List.mem_cons_of_mem _ hp)
    have H2' : (rows.drop n).length = (r.map (·.2)).sum := by simp at H2 ⊢; omega
    cases hv : vals k with
    | some v =>
      have hvl : v.length = n := H1 (k, n) (by simp) v hv
      have H3' : xa.length = ((r.filter (fun p => !(vals p.1).isSome)).map (·.2)).sum := by
        simpa [List.filter_cons, hv] using H3
      have := ih (rows.drop n) xa H1' H2' H3'
      simp only [mergePoint, splitAB, gatherIn, hv, Option.isSome_some, if_true]
      conv => lhs; rw [hrows]
      rw [g_vm_append _ _ _ _ _ (by omega), g_vm_append _ _ _ _ _ (by omega), this]
      grind
    | none =>
      have H3a : xa.length = n + ((r.filter (fun p => !(vals p.1).isSome)).map (·.2)).sum := by
        simpa [List.filter_cons, hv] using H3
      have hxl : (xa.take n).length = n := by simp; omega
      have H3' : (xa.drop n).length = ((r.filter (fun p => !(vals p.1).isSome)).map (·.2)).sum := by
        rw [List.length_drop, H3a]; omega
      have := ih (rows.drop n) (xa.drop n) H1' H2' H3'
      simp only [mergePoint, splitAB, gatherIn, hv, Option.isSome_none, List.nil_append]
      conv => lhs; rw [hrows]
      rw [g_vm_append _ _ _ _ _ (by omega), this]
      simp only [Bool.false_eq_true, if_false]
      conv => rhs; arg 1; arg 1; rw [← List.take_append_drop n xa]
      rw [g_vm_append _ _ _ _ _ (by omega)]
      grind


/-! ### The partial branch denotes the Gaussian at the merged point -/

theorem g_foldl_congr (l : List Nat) (f h : Nat → Rat) (a : Rat) (hfh : ∀ c ∈ l, f c = h c) :
    l.foldl (fun acc c => acc + f c * f c) a = l.foldl (fun acc c => acc + h c * h c) a := by
  induction l generalizing a with
  | nil => rfl
  | cons x xs ih =>
    simp only [List.foldl_cons]
    rw [hfh x (by simp), ih _ (fun c hc => hfh c (List.mem_cons_of_mem _ hc))]

theorem g_sqNorm_congr (rank : Nat) (f h : Nat → Rat) (hfh : ∀ c, c < rank → f c = h c) :
    sqNorm rank f = sqNorm rank h :=
  g_foldl_congr _ f h 0 (fun c hc => hfh c (List.mem_range.mp hc))

theorem g_getD_map_range (rank : Nat) (f : Nat → Rat) (c : Nat) (hc : c < rank) :
    ((List.range rank).map f).getD c 0 = f c := by
  simp [List.getD_eq_getElem?_getD, hc]

theorem g_rlookup_mem (subs : List (Name × List Rat)) (k : Name) (v : List Rat) (h : rlookup subs k = some v) :
    (k, v) ∈ subs := by
  induction subs with
  | nil => simp [rlookup] at h
  | cons p r ih =>
    obtain ⟨k', v'⟩ := p
    simp only [rlookup] at h
    split at h
    · rename_i hk; subst hk; simp at h; subst h; simp
    · exact List.mem_cons_of_mem _ (ih h)

theorem g_nodup_keys_inj {β : Type} (l : List (Name × β)) (hnd : (l.map (·.1)).Nodup) (a b : Name × β)
    (ha : a ∈ l) (hb : b ∈ l) (hab : a.1 = b.1) : a = b := by
  induction l with
  | nil => cases ha
  | cons p r ih =>
    simp only [List.map_cons, List.nodup_cons, List.mem_map, not_exists, not_and] at hnd
    rcases List.mem_cons.mp ha with rfl | ha' <;> rcases List.mem_cons.mp hb with rfl | hb'
    · rfl
    · exact absurd hab.symm (hnd.1 b hb')
    · exact absurd hab (hnd.1 a ha')
    · exact ih hnd.2 ha' hb'

/-- (H1) from the well-typedness of the substitution. -/
theorem g_wfSubs_len (g : RG) (subs : List (Name × List Rat)) (hs : g.wfSubs subs = true) :
    ∀ p ∈ g.inputs, ∀ v, rlookup subs p.1 = some v → v.length = p.2 := by
  intro p hp v hv
  simp only [RG.wfSubs, Bool.and_eq_true, decide_eq_true_eq, List.all_eq_true, List.any_eq_true, beq_iff_eq] at hs
  obtain ⟨⟨_, hall⟩, hnd⟩ := hs
  obtain ⟨q, hq, hq1, hq2⟩ := hall (p.1, v) (g_rlookup_mem subs p.1 v hv)
  have : q = p := g_nodup_keys_inj g.inputs hnd q p hq hp hq1
  subst this
  exact hq2.symm

/-- G3: `_eager_subs_real`, partial branch (HEAD): the result at `xa` is the Gaussian at the merged point.  `subs` is an
    ORDERED list of pairs in arbitrary order. -/
theorem gauss_subs_real_sem (g : RG) (subs : List (Name × List Rat)) (xa : List Rat) (hwf : g.wf = true)
    (hs : g.wfSubs subs = true) (hxa : xa.length = ((g.subsReal subs).inputs.map (·.2)).sum) :
    (g.subsReal subs).eval xa = g.eval (mergePoint g.inputs (rlookup subs) xa) := by
  have hP : g.P.length = (g.inputs.map (·.2)).sum := by
    simp only [RG.wf, Bool.and_eq_true, beq_iff_eq] at hwf
    rw [hwf.1.1, g_dim_eq]
  have hsplit := fun c => g_vm_split g.inputs g.P (rlookup subs) xa c (g_wfSubs_len g subs hs) hP hxa
  simp only [RG.eval, RG.subsReal, RG.subsRealWith, if_true]
  congr 1
  apply g_sqNorm_congr
  intro c hc
  rw [g_getD_map_range _ _ _ hc, hsplit c]
  grind


/-! ### Order-independence of HEAD's gather -/

theorem g_rlookup_of_mem (subs : List (Name × List Rat)) (hnd : (subs.map (·.1)).Nodup) (k : Name) (v : List Rat)
    (h : (k, v) ∈ subs) : rlookup subs k = some v := by
  cases hr : rlookup subs k with
  | some v' =>
    have := g_nodup_keys_inj subs hnd (k, v') (k, v) (g_rlookup_mem subs k v' hr) h rfl
    simp at this; rw [this]
  | none =>
    exfalso
    clear hnd
    induction subs with
    | nil => cases h
    | cons p r ih =>
      obtain ⟨k', v'⟩ := p
      simp only [rlookup] at hr
      split at hr
      · cases hr
      · rename_i hk
        rcases List.mem_cons.mp h with e | h'
        · simp at e; exact hk e.1.symm
        · exact ih h' hr

theorem g_rlookup_perm (s1 s2 : List (Name × List Rat)) (h : s1.Perm s2) (hn : (s1.map (·.1)).Nodup) :
    rlookup s1 = rlookup s2 := by
  have hn2 : (s2.map (·.1)).Nodup := (h.map (·.1)).nodup_iff.mp hn
  funext k
  cases h1 : rlookup s1 k with
  | some v => exact (g_rlookup_of_mem s2 hn2 k v (h.mem_iff.mp (g_rlookup_mem s1 k v h1))).symm
  | none =>
    cases h2 : rlookup s2 k with
    | none => rfl
    | some v =>
      have := g_rlookup_of_mem s1 hn k v (h.mem_iff.mpr (g_rlookup_mem s2 k v h2))
      rw [h1] at this; cases this

/-- G4: HEAD's result does not depend on the order in which the pairs arrive. -/
theorem gauss_subs_real_perm (g : RG) (s1 s2 : List (Name × List Rat)) (h : s1.Perm s2)
    (hn : (s1.map (·.1)).Nodup) : g.subsReal s1 = g.subsReal s2 := by
  simp only [RG.subsReal, RG.subsRealWith, g_rlookup_perm s1 s2 h hn, if_true]

/-! ### The seeded-defect shape: values gathered in the order of the incoming pairs -/

def g_wit : RG := ⟨[("x", 1), ("y", 1), ("z", 1)], 3, [0, 0, 0], [[1, 0, 0], [0, 2, 0], [0, 0, 3]]⟩

/-- G5: with the pairs arriving as `y` before `x` (as nested-`Subs` fusion produces) the pair-order gather is wrong and
    HEAD's input-order gather is right; when the pairs happen to arrive in input order the two coincide, which is why a
    single-step `g(**kw)` never shows the defect. -/
theorem gauss_subs_order_witness :
    (g_wit.subsRealWith false [("y", [1]), ("x", [2])]).eval [1]
        ≠ g_wit.eval (mergePoint g_wit.inputs (rlookup [("y", [1]), ("x", [2])]) [1]) ∧
    (g_wit.subsRealWith true [("y", [1]), ("x", [2])]).eval [1]
        = g_wit.eval (mergePoint g_wit.inputs (rlookup [("y", [1]), ("x", [2])]) [1]) ∧
    g_wit.subsRealWith false [("x", [2]), ("y", [1])] = g_wit.subsRealWith true [("x", [2]), ("y", [1])] := by
  refine ⟨by decide +kernel, by decide +kernel, ?_⟩
  simp [RG.subsRealWith, gatherIn, gatherSubs, rlookup, g_wit]

/-- The pair-order gather coincides with HEAD exactly through the gathered vector: whenever the pairs arrive in input
    order (`gatherSubs subs = gatherIn g.inputs (rlookup subs)`) the two results are equal. -/
theorem g_subsRealWith_eq_of_gather (g : RG) (subs : List (Name × List Rat))
    (h : gatherSubs subs = gatherIn g.inputs (rlookup subs)) : g.subsRealWith false subs = g.subsRealWith true subs := by
  simp [RG.subsRealWith, h]

/-- G6: the full-substitution branch places the values block by block, i.e. at the merged point (definitional). -/
theorem gauss_subs_full_sem (g : RG) (subs : List (Name × List Rat)) :
    g.subsFull subs = g.eval (mergePoint g.inputs (rlookup subs) []) := rfl

/-- The hypotheses of `gauss_subs_real_sem` are satisfiable on the witness. -/
example : g_wit.wf = true ∧ g_wit.wfSubs [("y", [1]), ("x", [2])] = true ∧
    ([1] : List Rat).length = ((g_wit.subsReal [("y", [1]), ("x", [2])]).inputs.map (·.2)).sum := by
  decide +kernel

end FV.Props.C04
